#!/usr/bin/env python3
"""Assemble /verif/MANIFEST.json from checks/meta/Cxx.json (one file per claimed property)."""
import json, os, glob
V = os.path.dirname(os.path.dirname(os.path.abspath(__file__)))
props = [json.loads(l)["id"] for l in open(os.path.join(V, "properties.jsonl")) if l.strip()]
checks, claimed = [], set()
claimed_path = os.path.join(V, "checks", "meta", "_claimed.txt")
listed = set(open(claimed_path).read().split())   # properties whose check the lead has verified on the unchanged tree
for p in sorted(glob.glob(os.path.join(V, "checks", "meta", "C*.json"))):
    m = json.load(open(p))
    pid = m["property_id"]
    if pid not in listed:
        continue   # machinery being built/verified; not claimed yet
    claimed.add(pid)
    m.setdefault("quick_cmd", "./check %s --tier quick" % pid)
    m.setdefault("thorough_cmd", "./check %s --tier thorough" % pid)
    m.setdefault("evidence_file", "/verif/evidence/%s.json" % pid)
    m.setdefault("replay_cmd_template", "./check %s --replay {path}" % pid)
    m.setdefault("engine", "coq-proof+correspondence")
    checks.append(m)
na_path = os.path.join(V, "checks", "meta", "not_applicable.json")
na_reasons = json.load(open(na_path)) if os.path.exists(na_path) else {}
na = [{"property_id": p, "reason": na_reasons.get(p, "check not built yet in this session (work in progress; see DESIGN.md section 9)")}
      for p in props if p not in claimed]
man = {
 "version": 1,
 "setup_cmd": "./setup.sh",
 "hooks": {
  "guard": "verif",
  "enable": "go build -tags verif (the harness module /verif/harness replaces github.com/hprose/hprose-golang/v3 by /repo)",
  "baseline_off_cmd": "cd /repo && go test -mod=mod -json -vet=off -count=1 -timeout 25m ./...",
  "source_commits": json.load(open(os.path.join(V, "checks", "meta", "hooks.json")))["source_commits"] if os.path.exists(os.path.join(V, "checks", "meta", "hooks.json")) else [],
  "add_only": True
 },
 "engines": [
  {"name": "coq-proof+correspondence", "path": "/verif/coq, /verif/harness, /verif/extract, /verif/lib/hv.py",
   "serves_properties": sorted(claimed),
   "kind_free_text": "Rocq/Coq 8.16 theorems about executable Gallina models (coq/Model, coq/Props); models tied to /repo by tables/functions regenerated from the Go source on every run (tools/gotables -> coq/Gen) and by a correspondence run of the extracted model against the implementation (harness/ with -tags verif)"}
 ],
 "checks": checks,
 "not_applicable": na,
 "notes": "All checks rebuild the harness against /repo's working tree on every run. See DESIGN.md."
}
json.dump(man, open(os.path.join(V, "MANIFEST.json"), "w"), indent=1)
print("claimed", sorted(claimed), "not_applicable", [x["property_id"] for x in na])
