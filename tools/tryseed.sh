#!/bin/bash
# usage: tryseed.sh <Cxx> <seed-out-dir e.g. /tmp/seed-c20/_out/1> [extra check ids...]
# Confirms the seeded change (demo fails with it, passes without), then runs ./check against it.
set -u
PID=$1; D=$2; shift 2
export GOFLAGS=-mod=mod GOPROXY=off GOSUMDB=off GOTOOLCHAIN=local
WT=/tmp/wt-try-$$
git -C /repo worktree add -q $WT HEAD || exit 2
trap 'git -C /repo worktree remove --force '$WT' >/dev/null 2>&1' EXIT
cd $WT
python3 - "$D" <<'PY'
import json,sys
m=json.load(open(sys.argv[1]+"/meta.json"))
print("SUMMARY:", m.get("summary","")[:300])
print("NEEDS:", m.get("needs_to_manifest","")[:300])
print("DEMO:", m.get("demo","")[:400])
PY
echo "--- apply patch"; git apply $D/patch.diff || { echo APPLY-FAILED; exit 2; }
go build ./... || { echo BUILD-FAILED; exit 2; }
echo "--- check with change (expect VIOLATION)"
for P in $PID "$@"; do (cd /verif && VERIF_REPO=$WT timeout 1500 ./check $P 2>&1 | grep -E "VIOLATION|RESULT|KNOWN|ENV-ERROR" | cut -c1-300); done
