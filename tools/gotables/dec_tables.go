// dec_tables.go: T1 tables of the decoder (property C06, DESIGN.md 2.2 and section 6).
//
//	gen_dec_fast / gen_dec_fast_ptr         the type switches of Decoder.fastDecode / fastDecodePtr
//	gen_dec_factory / gen_dec_ptr_factory   valueDecoderFactories / ptrDecoderFactories (by reflect.Kind)
//	gen_dec_handler / gen_dec_ptr_handler   decodeHandlers / decodePtrHandlers (by reflect.Kind)
//	     each cell resolved through the call chain to the terminal decodeX routine
//	gen_dec_switch     for every decodeX routine: tag byte -> action of the catalogue in coq/Model/DecAct.v
//	gen_dec_optswitch  the switches on dec.LongType / dec.RealType inside decodeInterface's helpers
//	gen_dec_wrappers   decodeXPtr / decodeBigXValue: recognised wrapper shapes
//	gen_dec_readers    ReadInt8 = int8(dec.ReadInt64()) ...
//	gen_ref_effects    number of reference-list append sites per routine
//	gen_conv_fast / gen_conv_registered   converter.go: fastConverterMap bodies and RegisterConverter pairs
//
// Everything the classifier does not recognise becomes AUnknown "<source>" / "?<source>", which no
// theorem accepts.
package main

import (
	"bytes"
	"fmt"
	"go/ast"
	"go/printer"
	"go/token"
	"regexp"
	"sort"
	"strconv"
	"strings"
)

type dtGen struct {
	p    *pkgInfo
	tags map[string]int
	unk  int
}

func (g *dtGen) norm(n ast.Node) string {
	var b bytes.Buffer
	_ = printer.Fprint(&b, g.p.fset, n)
	return strings.Join(strings.Fields(b.String()), " ")
}

func (g *dtGen) normStmts(l []ast.Stmt) string {
	parts := []string{}
	for _, s := range l {
		parts = append(parts, g.norm(s))
	}
	return strings.Join(parts, "; ")
}

// value of a package-level integer constant written as a literal, a shift or a product of such
func (g *dtGen) constValue(name string) (int64, bool) {
	var eval func(e ast.Expr, depth int) (int64, bool)
	find := func(n string) ast.Expr {
		for _, f := range g.p.files {
			for _, d := range f.Decls {
				gd, ok := d.(*ast.GenDecl)
				if !ok || gd.Tok != token.CONST {
					continue
				}
				for _, sp := range gd.Specs {
					vs := sp.(*ast.ValueSpec)
					for i, id := range vs.Names {
						if id.Name == n && i < len(vs.Values) {
							return vs.Values[i]
						}
					}
				}
			}
		}
		return nil
	}
	eval = func(e ast.Expr, depth int) (int64, bool) {
		if depth > 8 {
			return 0, false
		}
		switch x := e.(type) {
		case *ast.BasicLit:
			if x.Kind == token.INT {
				v, err := strconv.ParseInt(x.Value, 0, 64)
				return v, err == nil
			}
		case *ast.ParenExpr:
			return eval(x.X, depth+1)
		case *ast.Ident:
			if d := find(x.Name); d != nil {
				return eval(d, depth+1)
			}
		case *ast.BinaryExpr:
			a, ok1 := eval(x.X, depth+1)
			b, ok2 := eval(x.Y, depth+1)
			if !ok1 || !ok2 {
				return 0, false
			}
			switch x.Op {
			case token.SHL:
				if b >= 0 && b < 62 {
					return a << uint(b), true
				}
			case token.MUL:
				return a * b, true
			case token.ADD:
				return a + b, true
			case token.SUB:
				return a - b, true
			}
		}
		return 0, false
	}
	d := find(name)
	if d == nil {
		return 0, false
	}
	return eval(d, 0)
}

func dtStr(s string) string {
	return "\"" + strings.ReplaceAll(s, "\"", "\"\"") + "\""
}

// ---------------------------------------------------------------------------------- tags

func (g *dtGen) loadTags() {
	g.tags = map[string]int{}
	f := g.p.files["tags.go"]
	if f == nil {
		return
	}
	for _, d := range f.Decls {
		gd, ok := d.(*ast.GenDecl)
		if !ok || gd.Tok != token.CONST {
			continue
		}
		for _, s := range gd.Specs {
			vs := s.(*ast.ValueSpec)
			for i, n := range vs.Names {
				if i < len(vs.Values) {
					if bl, ok := vs.Values[i].(*ast.BasicLit); ok && bl.Kind == token.CHAR {
						if v, err := strconv.Unquote(bl.Value); err == nil && len(v) == 1 {
							g.tags[n.Name] = int(v[0])
						}
					}
				}
			}
		}
	}
}

// ---------------------------------------------------------------------------------- leaves

// leafOfBody: the routine a forwarding function calls: dec.decodeX(...) as its only statement
func (g *dtGen) leafOfFunc(fd *ast.FuncDecl) string {
	if fd == nil || fd.Body == nil || len(fd.Body.List) != 1 {
		if fd != nil && fd.Body != nil {
			return "?" + g.normStmts(fd.Body.List)
		}
		return "?nil"
	}
	es, ok := fd.Body.List[0].(*ast.ExprStmt)
	if !ok {
		return "?" + g.norm(fd.Body.List[0])
	}
	return g.leafOfCall(es.X)
}

func (g *dtGen) leafOfCall(e ast.Expr) string {
	ce, ok := e.(*ast.CallExpr)
	if !ok {
		return "?" + g.norm(e)
	}
	se, ok := ce.Fun.(*ast.SelectorExpr)
	if !ok {
		return "?" + g.norm(e)
	}
	if id, ok := se.X.(*ast.Ident); !ok || id.Name != "dec" {
		return "?" + g.norm(e)
	}
	return se.Sel.Name
}

// leaf of a ValueDecoder type T: the routine T.Decode forwards to
func (g *dtGen) leafOfDecoderType(name string) string {
	fd := g.p.funcs[name+".Decode"]
	if fd == nil {
		return "?no method " + name + ".Decode"
	}
	return g.leafOfFunc(fd)
}

func (g *dtGen) typeSwitchTable(fn string) [][2]string {
	out := [][2]string{}
	fd := g.p.funcs["Decoder."+fn]
	if fd == nil {
		return [][2]string{{"?", "?missing " + fn}}
	}
	ast.Inspect(fd.Body, func(n ast.Node) bool {
		ts, ok := n.(*ast.TypeSwitchStmt)
		if !ok {
			return true
		}
		for _, c := range ts.Body.List {
			cc := c.(*ast.CaseClause)
			if cc.List == nil {
				continue
			}
			leaf := "?empty"
			if len(cc.Body) >= 1 {
				if es, ok := cc.Body[0].(*ast.ExprStmt); ok {
					leaf = g.leafOfCall(es.X)
				} else {
					leaf = "?" + g.norm(cc.Body[0])
				}
			}
			if len(cc.Body) != 1 {
				leaf = "?" + g.normStmts(cc.Body)
			}
			for _, t := range cc.List {
				out = append(out, [2]string{g.norm(t), leaf})
			}
		}
		return false
	})
	return out
}

// kindTable: a []T{reflect.Kind: value} literal assigned to the named variable inside an init()
func (g *dtGen) kindTable(varName string, resolve func(ast.Expr) string) [][2]string {
	out := [][2]string{}
	found := false
	for _, f := range g.p.files {
		ast.Inspect(f, func(n ast.Node) bool {
			as, ok := n.(*ast.AssignStmt)
			if !ok || len(as.Lhs) != 1 || len(as.Rhs) != 1 {
				return true
			}
			id, ok := as.Lhs[0].(*ast.Ident)
			if !ok || id.Name != varName {
				return true
			}
			cl, ok := as.Rhs[0].(*ast.CompositeLit)
			if !ok {
				return true
			}
			found = true
			for _, el := range cl.Elts {
				kv, ok := el.(*ast.KeyValueExpr)
				if !ok {
					out = append(out, [2]string{"?", "?" + g.norm(el)})
					continue
				}
				key := g.norm(kv.Key)
				key = strings.TrimPrefix(key, "reflect.")
				out = append(out, [2]string{key, resolve(kv.Value)})
			}
			return false
		})
	}
	if !found {
		return [][2]string{{"?", "?missing " + varName}}
	}
	return out
}

func (g *dtGen) resolveFactory(e ast.Expr) string {
	switch v := e.(type) {
	case *ast.Ident:
		if v.Name == "nil" {
			return "nil"
		}
		return "fn:" + v.Name
	case *ast.FuncLit:
		if len(v.Body.List) == 1 {
			if rs, ok := v.Body.List[0].(*ast.ReturnStmt); ok && len(rs.Results) == 1 {
				if cl, ok := rs.Results[0].(*ast.CompositeLit); ok {
					if id, ok := cl.Type.(*ast.Ident); ok {
						return g.leafOfDecoderType(id.Name)
					}
				}
			}
		}
	}
	return "?" + g.norm(e)
}

func (g *dtGen) resolveHandler(e ast.Expr) string {
	if id, ok := e.(*ast.Ident); ok {
		if id.Name == "nil" {
			return "nil"
		}
		fd := g.p.funcs[id.Name]
		if fd == nil {
			return "?no func " + id.Name
		}
		// handlers read the tag themselves: dec.decodeX(t, dec.NextByte(), (*T)(p))
		leaf := g.leafOfFunc(fd)
		if !strings.HasPrefix(leaf, "?") {
			if !strings.Contains(g.normStmts(fd.Body.List), "dec.NextByte()") {
				return "?handler does not read the tag: " + g.normStmts(fd.Body.List)
			}
		}
		return leaf
	}
	return "?" + g.norm(e)
}

// ---------------------------------------------------------------------------------- action classifier

var kindOfGo = map[string]string{"int": "KInt", "int8": "KInt8", "int16": "KInt16", "int32": "KInt32", "int64": "KInt64",
	"uint": "KUint", "uint8": "KUint8", "uint16": "KUint16", "uint32": "KUint32", "uint64": "KUint64", "uintptr": "KUintptr"}

var readerKind = map[string]string{"ReadInt": "KInt", "ReadInt8": "KInt8", "ReadInt16": "KInt16", "ReadInt32": "KInt32",
	"ReadInt64": "KInt64", "ReadUint": "KUint", "ReadUint8": "KUint8", "ReadUint16": "KUint16", "ReadUint32": "KUint32",
	"ReadUint64": "KUint64"}

const intsRe = `(int|int8|int16|int32|int64|uint|uint8|uint16|uint32|uint64|uintptr)`
const rdRe = `(ReadInt|ReadInt8|ReadInt16|ReadInt32|ReadInt64|ReadUint|ReadUint8|ReadUint16|ReadUint32|ReadUint64)`

type rule struct {
	re *regexp.Regexp
	f  func(m []string, iface bool) string
}

func nti(k string) string { return "(NtI " + kindOfGo[k] + ")" }

func fbits(s string) string {
	if s == "32" {
		return "true"
	}
	return "false"
}

var constActions = map[string]string{
	"*p = 0": "AConst C0", "*p = 1": "AConst C1", "*p = false": "AConst CFalse", "*p = true": "AConst CTrue",
	"*p = nil": "AConst CNil", `*p = ""`: "AConst CStrEmpty", `*p = "true"`: "AConst CStrTrue",
	`*p = "false"`: "AConst CStrFalse", `*p = "NaN"`: "AConst CStrNaN", "*p = []byte{}": "AConst CBytesEmpty",
	"*p = uuid.Nil": "AConst CUuidNil",
	"*p = bigIntZero": "AConst CBig0", "*p = bigFloatZero": "AConst CBig0", "*p = bigRatZero": "AConst CBig0",
	"*p = bigIntOne": "AConst CBig1", "*p = bigFloatOne": "AConst CBig1", "*p = bigRatOne": "AConst CBig1",
	"*p = time.Unix(0, 0)": "AConst CTime0", "*p = time.Unix(0, 1)": "AConst CTime1",
	"*p = float32(math.NaN())": "ANaN NtF32", "*p = math.NaN()": "ANaN NtF64",
	"*p = complex(float32(math.NaN()), 0)": "ANaN NtC64", "*p = complex(math.NaN(), 0)": "ANaN NtC128",
	"dec.Skip(); *p = true":              "ASkipTrue",
	"*p = float32(dec.readInf())":        "AInf NtF32", "*p = dec.readInf()": "AInf NtF64",
	"*p = complex(float32(dec.readInf()), 0)": "AInf NtC64", "*p = complex(dec.readInf(), 0)": "AInf NtC128",
	"if dec.NextByte() == TagNeg { *p = big.NewFloat(math.Inf(-1)) } else { *p = big.NewFloat(math.Inf(1)) }": "AInf NtBigFloat",
	`if dec.NextByte() == TagNeg { *p = "-Inf" } else { *p = "+Inf" }`:                                           "ARead RInf",
	"bytes := dec.UnsafeUntil(TagSemicolon); switch len(bytes) { case 0: *p = false case 1: *p = bytes[0] != '0' default: *p = true }": "ABoolText",
	// strings
	"*p = convert.ToUnsafeString(dec.Until(TagSemicolon))": "ARead RUntil",
	// the same reads without a private copy: the value would alias the read buffer
	"*p = convert.ToUnsafeString(dec.UnsafeUntil(TagSemicolon))": "ARead RUntilUnsafe",
	"*p = dec.readUnsafeString(1)":                               "ARead RCharUnsafe",
	"*p = dec.ReadUnsafeString()":                                "ARead RStringUnsafe",
	"*p = convert.ToUnsafeString(dec.readUnsafeBytes())":         "ARead RBytesUnsafe",
	"*p = dec.readUnsafeBytes()":                                 "ARead RBytesUnsafe",
	"*p = dec.readSafeString(1)":                           "ARead RChar",
	"*p = dec.ReadString()":                                "ARead RString",
	"*p = convert.ToUnsafeString(dec.ReadBytes())":         "ARead RBytes",
	"*p = dec.ReadTime().String()":                         "ARead RTime",
	"*p = dec.ReadDateTime().String()":                     "ARead RDate",
	"*p = dec.ReadUUID().String()":                         "ARead RGuid",
	// bytes
	"*p = dec.ReadBytes()":                "ARead RBytes",
	"*p = dec.readUint8Slice(t.Elem())":   "ARead RUint8Slice",
	"*p = dec.readStringAsSafeBytes(1)":   "ARead RChar",
	"*p, _ = dec.ReadUUID().MarshalBinary()": "ARead RGuid",
	"if dec.IsSimple() { *p = dec.ReadStringAsBytes() } else { *p = convert.ToUnsafeBytes(dec.ReadString()) }": "ARead RString",
	// time / uuid / interface
	"dec.readTime(p); if !dec.IsSimple() { dec.refer.Add(*p) }":     "ARead RTime",
	"dec.readDateTime(p); if !dec.IsSimple() { dec.refer.Add(*p) }": "ARead RDate",
	"*p = dec.ReadUUID()":     "ARead RGuid",
	"*p = dec.ReadTime()":     "ARead RTime",
	"*p = dec.ReadDateTime()": "ARead RDate",
	"if dec.IsSimple() { *p = dec.bytesToUUID(dec.readUnsafeBytes()) } else { *p = dec.bytesToUUID(dec.ReadBytes()) }": "ARead RBytes",
	// big numbers
	"*p = dec.readBigInt(t)":                        "AReadBigInt NtBigInt",
	"if bi := dec.readBigInt(t); bi != nil { *p = new(big.Rat).SetInt(bi) }": "AReadBigInt NtBigRat",
	"*p = dec.ReadBigInt()":                         "AReadBigInt NtIface",
	"*p = dec.readBigFloat(t)":                      "AReadBigFloat NtBigFloat",
	"*p = dec.ReadBigFloat()":                       "AReadBigFloat NtIface",
	"*p = new(big.Rat).SetFloat64(dec.ReadFloat64())": "AReadFloat false NtBigRat",
	"*p = time.Unix(0, int64(dec.ReadFloat64()))":     "AReadFloat false NtTime",
	`dec.Error = DecodeError("hprose/io: can not parse NaN to *big.Float")`: "AFail",
	// calls
	"dec.decodeLongAsInterface(p)":       "ACall FLongAsIface",
	"dec.decodeNaNAsInterface(p)":        "ACall FNaNAsIface",
	"dec.decodeInfinityAsInterface(p)":   "ACall FInfAsIface",
	"dec.decodeDoubleAsInterface(p)":     "ACall FDoubleAsIface",
	"dec.decodeListAsInterface(tag, p)":  "ACall FListAsIface",
	"dec.decodeMapAsInterface(tag, p)":   "ACall FMapAsIface",
	"*p = dec.ReadObject()":              "ACall FReadObject",
	"dec.ReadReference(p); return":       "ACall FReadReference",
	"dec.ReadStruct(interfaceType); dec.Decode(p)": "ACall FClassThenDecode",
	"dec.ReadStruct(t); dec.Decode(p); return":     "ACall FClassThenDecode",
	"var s string; dec.decodeString(stringType, dec.NextByte(), &s); dec.Error = DecodeError(s)":         "ACall FErrorString",
	"var s string; dec.decodeString(stringType, dec.NextByte(), &s); dec.Error = DecodeError(s); return": "ACall FErrorString",
	"dec.decodeError(t, tag)":            "ACall FDecodeError",
	"dec.defaultDecode(t, p, tag)":       "ADefault",
	"dec.defaultDecode(valdec.t.Type1(), p, tag)":  "ADefault",
	"dec.defaultDecode(valdec.at.Type1(), p, tag)": "ADefault",
	"dec.defaultDecode(listType, p, tag)":          "ADefault",
	`if dec.Error == nil { dec.Error = DecodeError(fmt.Sprintf("hprose/io: invalid tag '%s'(0x%x)", string(tag), tag)) }; *p = nil`: "AInvalidTag",
	// containers
	"valdec.t.UnsafeSetNil(reflect2.PtrOf(p))":                              "AConst CNil",
	"setSliceHeader(reflect2.PtrOf(p), valdec.empty, 0)":                    "AConst CEmptySlice",
	"valdec.at.UnsafeSet(reflect2.PtrOf(p), valdec.empty)":                  "AConst CZero",
	"mp := reflect2.PtrOf(p); if !valdec.t.UnsafeIsNil(mp) { *(*unsafe.Pointer)(mp) = nil }": "AConst CNil",
	"valdec.t.UnsafeSet(reflect2.PtrOf(p), valdec.t.UnsafeMakeMap(0))":      "AConst CEmptyMap",
	"valdec.t.UnsafeSet(reflect2.PtrOf(p), valdec.t.UnsafeNew())":           "AConst CZero",
	"*plist = nil":        "AConst CNil",
	"*plist = list.New()": "AConst CNewList",
	"valdec.decodeMap(dec, p)":                 "ACall FMap",
	"valdec.decodeListAsMap(dec, p, tag)":      "ACall FListAsMap",
	"valdec.decodeObjectAsMap(dec, p, tag)":    "ACall FObjectAsMap",
	"valdec.decodeObject(dec, p)":              "ACall FObject",
	"valdec.decodeMapAsObject(dec, p)":         "ACall FMapAsObject",
	"valdec.arrayDecoder.Decode(dec, p, tag)":  "ACall FArrayFallback",
	"if *ptr != nil { *ptr = nil }":            "ACall FPtrNull",
	"dec.ReadReference(p)":                     "ACall FPtrRef",
	"if *ptr == nil { *ptr = valdec.et.UnsafeNew() }; valdec.elemDecoder.Decode(dec, valdec.et.PackEFace(*ptr), tag)": "ACall FPtrElem",
}

// statement sequences recognised as a whole (the statement-level behaviour is modelled by hand in
// Model/DecVal.v; any edit of the Go text makes the arm AUnknown)
var bodyActions = map[string]string{
	"count := dec.ReadCount(); slice := reflect2.PtrOf(p); n := count; if n > minPrealloc { n = minPrealloc }; valdec.t.UnsafeGrow(slice, n); dec.AddReference(p); i := 0; for ; i < count && dec.Error == nil; i++ { if i >= n { n = i + 1 valdec.t.UnsafeGrow(slice, n) } valdec.decodeElem(dec, valdec.et, valdec.t.UnsafeGetIndex(slice, i)) }; (*sliceHeader)(slice).Len = i; dec.Skip()": "ACall FSliceList",
	"length := valdec.at.Len(); count := dec.ReadCount(); array := reflect2.PtrOf(p); dec.AddReference(p); n := length; if n > count { n = count }; et := valdec.et.Type1(); for i := 0; i < n && dec.Error == nil; i++ { valdec.decodeElem(dec, et, valdec.at.UnsafeGetIndex(array, i)) }; switch { case n < length: for i := n; i < length; i++ { valdec.at.UnsafeSetIndex(array, i, valdec.emptyElem) } case n < count: temp := valdec.et.UnsafeNew() for i := n; i < count && dec.Error == nil; i++ { valdec.decodeElem(dec, et, temp) } }; dec.Skip()": "ACall FArrayList",
	"data := dec.readUnsafeBytes(); valdec.copy(p, data); dec.AddReference(p)": "ACall FByteArrayBytes",
	"data, _ := dec.readStringAsBytes(1); valdec.copy(p, data)":                                                                                      "ACall FByteArrayChar",
	"if dec.IsSimple() { data, safe := dec.readStringAsBytes(dec.ReadInt()) valdec.copy(p, dec.skipAfter(data, safe)) } else { valdec.copy(p, convert.ToUnsafeBytes(dec.ReadString())) }": "ACall FByteArrayString",
	"count := dec.ReadCount(); l := list.New(); *plist = l; if !dec.IsSimple() { dec.refer.Add(l) }; for i := 0; i < count && dec.Error == nil; i++ { var e interface{} dec.decodeInterface(dec.NextByte(), &e) l.PushBack(e) }; dec.Skip()": "ACall FListList",
	"var pair []float32; dec.decode(&pair, tag); if dec.Error == nil { if len(pair) == 2 { *p = complex(pair[0], pair[1]) } else { dec.Error = CastError{Source: reflect.TypeOf(pair), Destination: t} } }": "ACall FComplexList",
	"var pair []float64; dec.decode(&pair, tag); if dec.Error == nil { if len(pair) == 2 { *p = complex(pair[0], pair[1]) } else { dec.Error = CastError{Source: reflect.TypeOf(pair), Destination: t} } }": "ACall FComplexList",
}

var parseFns = map[string][2]string{ // function -> (pfn, manner without a conversion)
	"stringToInt64": {"PInt", "(NtI KInt64)"}, "stringToUint64": {"PUint", "(NtI KUint64)"}, "stringToBool": {"PBool", "NtBool"},
	"stringToFloat32": {"PF32", "NtF32"}, "stringToFloat64": {"PF64", "NtF64"}, "stringToComplex64": {"PC64", "NtC64"},
	"stringToComplex128": {"PC128", "NtC128"}, "stringToBigInt": {"PBigInt", "NtBigInt"}, "stringToBigFloat": {"PBigFloat", "NtBigFloat"},
	"stringToBigRat": {"PBigRat", "NtBigRat"}, "stringToTime": {"PTime", "NtTime"}, "stringToUUID": {"PUuid", "NtUuid"},
}

var (
	reReadPlain  = regexp.MustCompile(`^\*p = dec\.` + rdRe + `\(\)$`)
	reReadConv   = regexp.MustCompile(`^\*p = ` + intsRe + `\(dec\.` + rdRe + `\(\)\)$`)
	reReadFloatC = regexp.MustCompile(`^\*p = (float32|float64)\(dec\.` + rdRe + `\(\)\)$`)
	reReadCx     = regexp.MustCompile(`^\*p = complex\((float32|float64)\(dec\.` + rdRe + `\(\)\), 0\)$`)
	reReadBigI   = regexp.MustCompile(`^\*p = big\.NewInt\(dec\.` + rdRe + `\(\)\)$`)
	reReadBigF   = regexp.MustCompile(`^\*p = big\.NewFloat\(float64\(dec\.` + rdRe + `\(\)\)\)$`)
	reReadBigR   = regexp.MustCompile(`^\*p = big\.NewRat\(dec\.` + rdRe + `\(\), 1\)$`)
	reReadTime   = regexp.MustCompile(`^\*p = time\.Unix\(0, dec\.` + rdRe + `\(\)\)$`)
	reFloatPlain = regexp.MustCompile(`^\*p = dec\.ReadFloat(32|64)\(\)$`)
	reFloatTrunc = regexp.MustCompile(`^\*p = ` + intsRe + `\(dec\.ReadFloat64\(\)\)$`)
	reFloatCx    = regexp.MustCompile(`^\*p = complex\(dec\.ReadFloat(32|64)\(\), 0\)$`)
	reParse      = regexp.MustCompile(`^\*p = (?:` + intsRe + `\()?dec\.(stringTo\w+)\(dec\.readUnsafeString\(1\)(?:, (\d+|t))?\)\)?$`)
	reParseStr   = regexp.MustCompile(`^if dec\.IsSimple\(\) \{ (\*p = .*)dec\.ReadUnsafeString\(\)(.*) \} else \{ (\*p = .*)dec\.ReadString\(\)(.*) \}$`)
	reDigit      = regexp.MustCompile(`^\*p = (.*)$`)
)

func (g *dtGen) unknown(s string) string {
	g.unk++
	if len(s) > 3000 {
		s = s[:3000] + "..."
	}
	return "AUnknown " + dtStr(s)
}

// classify one case arm (statements joined by "; ")
func (g *dtGen) classify(s string, iface bool) string {
	if a, ok := constActions[s]; ok {
		return a
	}
	if a, ok := bodyActions[s]; ok {
		return a
	}
	if s == bigIntDoubleArm {
		if v, ok := g.constValue("maxBigIntBits"); ok && v >= 0 {
			return fmt.Sprintf("AReadBigFloatInt %d", v)
		}
	}
	if m := reReadPlain.FindStringSubmatch(s); m != nil {
		if iface {
			return "AReadInt " + readerKind[m[1]] + " NtIface"
		}
		return "AReadInt " + readerKind[m[1]] + " (NtI " + readerKind[m[1]] + ")"
	}
	if m := reReadConv.FindStringSubmatch(s); m != nil {
		return "AReadInt " + readerKind[m[2]] + " " + nti(m[1])
	}
	if m := reReadFloatC.FindStringSubmatch(s); m != nil {
		d := "NtF64"
		if m[1] == "float32" {
			d = "NtF32"
		}
		return "AReadInt " + readerKind[m[2]] + " " + d
	}
	if m := reReadCx.FindStringSubmatch(s); m != nil {
		d := "NtC128"
		if m[1] == "float32" {
			d = "NtC64"
		}
		return "AReadInt " + readerKind[m[2]] + " " + d
	}
	if m := reReadBigI.FindStringSubmatch(s); m != nil {
		return "AReadInt " + readerKind[m[1]] + " NtBigInt"
	}
	if m := reReadBigF.FindStringSubmatch(s); m != nil {
		return "AReadInt " + readerKind[m[1]] + " NtBigFloat"
	}
	if m := reReadBigR.FindStringSubmatch(s); m != nil {
		return "AReadInt " + readerKind[m[1]] + " NtBigRat"
	}
	if m := reReadTime.FindStringSubmatch(s); m != nil {
		return "AReadInt " + readerKind[m[1]] + " NtTime"
	}
	if m := reFloatPlain.FindStringSubmatch(s); m != nil {
		if iface {
			return "AReadFloat " + fbits(m[1]) + " NtIface"
		}
		return "AReadFloat " + fbits(m[1]) + " NtF" + m[1]
	}
	if m := reFloatTrunc.FindStringSubmatch(s); m != nil {
		return "AReadFloat false " + nti(m[1])
	}
	if m := reFloatCx.FindStringSubmatch(s); m != nil {
		d := "NtC128"
		if m[1] == "32" {
			d = "NtC64"
		}
		return "AReadFloat " + fbits(m[1]) + " " + d
	}
	if m := reParse.FindStringSubmatch(s); m != nil {
		if a := g.parseAction("AParseChar", m); a != "" {
			return a
		}
	}
	if m := reParseStr.FindStringSubmatch(s); m != nil && m[1] == m[3] && m[2] == m[4] {
		if mm := reParse.FindStringSubmatch(m[1] + "dec.readUnsafeString(1)" + m[2]); mm != nil {
			if a := g.parseAction("AParseStr", mm); a != "" {
				return a
			}
		}
	}
	return g.unknown(s)
}

func (g *dtGen) parseAction(ctor string, m []string) string {
	pf, ok := parseFns[m[2]]
	if !ok {
		return ""
	}
	bits := "0"
	if m[3] != "" && m[3] != "t" {
		bits = m[3]
	}
	d := pf[1]
	if m[1] != "" {
		d = nti(m[1])
	}
	return ctor + " " + pf[0] + " " + bits + " " + d
}

// the digit prelude: *p = f(i)
func (g *dtGen) classifyDigit(rhs string) string {
	switch rhs {
	case "i":
		return "ADigit (NtI KUint64)" // intDigits holds uint64
	case "i > 0":
		return "ADigit NtBool"
	case "float32(i)":
		return "ADigit NtF32"
	case "float64(i)":
		return "ADigit NtF64"
	case "complex(float32(i), 0)":
		return "ADigit NtC64"
	case "complex(float64(i), 0)":
		return "ADigit NtC128"
	case "big.NewInt(int64(i))":
		return "ADigit NtBigInt"
	case "big.NewFloat(float64(i))":
		return "ADigit NtBigFloat"
	case "big.NewRat(int64(i), 1)":
		return "ADigit NtBigRat"
	case "time.Unix(0, int64(i))":
		return "ADigit NtTime"
	case "string(tag)":
		return "ADigit NtStr"
	}
	if strings.HasSuffix(rhs, "(i)") {
		if k, ok := kindOfGo[strings.TrimSuffix(rhs, "(i)")]; ok {
			return "ADigit (NtI " + k + ")"
		}
	}
	return g.unknown("digit: *p = " + rhs)
}

type swTable struct {
	cases map[int]string
	def   string
}

var allowedPreamble = map[string]bool{
	"ptr := (*unsafe.Pointer)(reflect2.PtrOf(p))": true,
	"plist := (**list.List)(reflect2.PtrOf(p))":   true,
}

// switchOf: the tag switch of a decode routine (with its digit prelude)
func (g *dtGen) switchOf(key string, iface bool) swTable {
	t := swTable{cases: map[int]string{}, def: ""}
	fd := g.p.funcs[key]
	if fd == nil || fd.Body == nil {
		t.def = g.unknown("missing function " + key)
		return t
	}
	seenSwitch := false
	for _, st := range fd.Body.List {
		switch s := st.(type) {
		case *ast.IfStmt:
			// if i := intDigits[tag]; i != invalidDigit { *p = E; return }
			if s.Init != nil && g.norm(s.Init) == "i := intDigits[tag]" && g.norm(s.Cond) == "i != invalidDigit" &&
				s.Else == nil && len(s.Body.List) == 2 && g.norm(s.Body.List[1]) == "return" && !seenSwitch {
				a := g.unknown("digit: " + g.norm(s.Body.List[0]))
				if m := reDigit.FindStringSubmatch(g.norm(s.Body.List[0])); m != nil {
					a = g.classifyDigit(m[1])
					if a == "ADigit (NtI KInt)" && iface {
						a = "ADigit NtIface"
					}
				}
				for b := '0'; b <= '9'; b++ {
					t.cases[int(b)] = a
				}
				continue
			}
			t.def = g.unknown("statement outside the switch: " + g.norm(st))
			return t
		case *ast.SwitchStmt:
			if s.Init != nil || s.Tag == nil || g.norm(s.Tag) != "tag" || seenSwitch {
				t.def = g.unknown("unexpected switch: " + g.norm(s))
				return t
			}
			seenSwitch = true
			for _, c := range s.Body.List {
				cc := c.(*ast.CaseClause)
				body := g.normStmts(cc.Body)
				if cc.List == nil {
					t.def = g.classify(body, iface)
					continue
				}
				var a string
				digitCase := false
				for _, e := range cc.List {
					if bl, ok := e.(*ast.BasicLit); ok && bl.Kind == token.CHAR {
						digitCase = true
					}
				}
				if digitCase && body == "*p = string(tag)" {
					a = "ADigit NtStr"
				} else {
					a = g.classify(body, iface)
				}
				for _, e := range cc.List {
					b := -1
					switch v := e.(type) {
					case *ast.Ident:
						if x, ok := g.tags[v.Name]; ok {
							b = x
						}
					case *ast.BasicLit:
						if v.Kind == token.CHAR {
							if u, err := strconv.Unquote(v.Value); err == nil && len(u) == 1 {
								b = int(u[0])
							}
						}
					}
					if b < 0 {
						t.def = g.unknown("unresolved case label " + g.norm(e))
						return t
					}
					if _, dup := t.cases[b]; dup {
						t.cases[b] = g.unknown("duplicate case for tag " + strconv.Itoa(b))
					} else {
						t.cases[b] = a
					}
				}
			}
		default:
			if allowedPreamble[g.norm(st)] && !seenSwitch {
				continue
			}
			t.def = g.unknown("statement outside the switch: " + g.norm(st))
			return t
		}
	}
	if !seenSwitch {
		t.def = g.unknown("no switch on tag in " + key)
	}
	if t.def == "" {
		// no default arm: nothing happens
		t.def = g.unknown("switch without default in " + key)
	}
	return t
}

func (t swTable) coq() string {
	keys := []int{}
	for k := range t.cases {
		keys = append(keys, k)
	}
	sort.Ints(keys)
	parts := []string{}
	for _, k := range keys {
		parts = append(parts, fmt.Sprintf("(%d%%N, %s)", k, t.cases[k]))
	}
	return "{| sw_cases := [" + strings.Join(parts, "; ") + "]; sw_default := " + t.def + " |}"
}

// switches on decoder options: switch dec.LongType { case LongTypeInt: ... default: ... }
func (g *dtGen) optSwitch(key, field string) string {
	fd := g.p.funcs[key]
	if fd == nil || fd.Body == nil {
		return "([], " + g.unknown("missing "+key) + ")"
	}
	var sw *ast.SwitchStmt
	pre := []ast.Stmt{}
	for _, st := range fd.Body.List {
		if s, ok := st.(*ast.SwitchStmt); ok && sw == nil {
			sw = s
			continue
		}
		pre = append(pre, st)
	}
	if sw == nil || sw.Tag == nil || g.norm(sw.Tag) != "dec."+field {
		return "([], " + g.unknown("no switch on dec."+field+" in "+key) + ")"
	}
	// decodeInfinityAsInterface computes f first: normalise its three arms to the AInf catalogue
	preTxt := g.normStmts(pre)
	infPre := "var f float64; if dec.NextByte() == TagNeg { f = math.Inf(-1) } else { f = math.Inf(1) }"
	cases := []string{}
	def := ""
	for _, c := range sw.Body.List {
		cc := c.(*ast.CaseClause)
		body := g.normStmts(cc.Body)
		var a string
		if preTxt == infPre {
			switch body {
			case "*p = float32(f)":
				a = "AInf NtF32"
			case "*p = f":
				a = "AInf NtF64"
			case "*p = big.NewFloat(f)":
				a = "AInf NtBigFloat"
			default:
				a = g.unknown(body)
			}
		} else if preTxt != "" {
			a = g.unknown("preamble: " + preTxt)
		} else {
			a = g.classify(body, true)
		}
		if cc.List == nil {
			def = a
			continue
		}
		for _, e := range cc.List {
			cases = append(cases, "("+dtStr(g.norm(e))+", "+a+")")
		}
	}
	if def == "" {
		def = g.unknown("no default in " + key)
	}
	return "([" + strings.Join(cases, "; ") + "], " + def + ")"
}

// ---------------------------------------------------------------------------------- wrappers, readers

func (g *dtGen) wrapperOf(key string) string {
	fd := g.p.funcs[key]
	if fd == nil || fd.Body == nil {
		return "WUnknownWrapper " + dtStr("missing "+key)
	}
	s := g.normStmts(fd.Body.List)
	rePtr := regexp.MustCompile(`^if tag == TagNull \{ \*p = nil return \}; var (\w+) [\w\.\[\]{}]+; dec\.(\w+)\(t, tag, &(\w+)\); \*p = &(\w+)$`)
	if m := rePtr.FindStringSubmatch(s); m != nil && m[1] == m[3] && m[1] == m[4] {
		return "WPtrFresh " + dtStr(m[2])
	}
	reIfacePtr := regexp.MustCompile(`^if tag == TagNull \{ \*p = nil return \}; var (\w+) interface\{\}; dec\.(\w+)\(tag, &(\w+)\); \*p = &(\w+)$`)
	if m := reIfacePtr.FindStringSubmatch(s); m != nil && m[1] == m[3] && m[1] == m[4] {
		return "WPtrFresh " + dtStr(m[2])
	}
	reVal := regexp.MustCompile(`^var pp \*big\.\w+; dec\.(\w+)\(t, tag, &pp\); if pp == nil \{ \*p = \*(\w+) \} else \{ \*p = \*pp \}$`)
	if m := reVal.FindStringSubmatch(s); m != nil && strings.HasSuffix(m[2], "Zero") {
		return "WNilToZero " + dtStr(m[1])
	}
	g.unk++
	return "WUnknownWrapper " + dtStr(s)
}

// decodeBigInt, TagDouble: the float text is refused when its integer would need more than maxBigIntBits binary digits
const bigIntDoubleArm = "if bf := dec.readBigFloat(t); bf != nil { if bf.MantExp(nil) > maxBigIntBits { if dec.Error == nil { dec.Error = CastError{Source: bigFloatType, Destination: t} } return } *p, _ = bf.Int(nil) }"

// exponentTooLarge, recognised verbatim
const exponentTooLargeBody = `marks, m := "eEpP", s; if len(m) > 0 && (m[0] == '+' || m[0] == '-') { m = m[1:] }; if len(m) > 1 && m[0] == '0' && (m[1] == 'x' || m[1] == 'X') { marks = "pP" }; i := strings.LastIndexAny(s, marks); if i < 0 { return false }; n, err := strconv.ParseInt(s[i+1:], 10, 64); if err != nil { return false }; return n > maxTextExponent || n < -maxTextExponent`

var primitiveBodies = map[string]string{
	"ReadInt64":  "c := dec.NextByte(); if c == '-' { return -int64(dec.readUint64(dec.NextByte())) }; return int64(dec.readUint64(c))",
	"ReadUint64": "c := dec.NextByte(); if c == '-' { return uint64(-int64(dec.readUint64(dec.NextByte()))) }; return dec.readUint64(c)",
	"readUint64": "i := intDigits[c]; if i == invalidDigit { return }; value = i; for { for p := dec.head; p < dec.tail; p++ { i = intDigits[dec.buf[p]] if i == invalidDigit { dec.head = p + 1 return } value = value*10 + i } if !dec.loadMore() { return } }",
}

func (g *dtGen) readerOf(name string) string {
	fd := g.p.funcs["Decoder."+name]
	if fd == nil || fd.Body == nil {
		return "RdUnknown " + dtStr("missing "+name)
	}
	s := g.normStmts(fd.Body.List)
	re := regexp.MustCompile(`^return ` + intsRe + `\(dec\.(\w+)\(\)\)$`)
	if m := re.FindStringSubmatch(s); m != nil {
		return "RdConv " + kindOfGo[m[1]] + " " + dtStr(m[2])
	}
	if want, ok := primitiveBodies[name]; ok && s == want {
		return "RdPrimitive"
	}
	// windows guarded by skipAfter (copied before the refill that skipping the closing quote may trigger)
	if m := regexp.MustCompile(`^bytes, safe := dec\.(\w+)\(dec\.ReadInt\(\)\); return dec\.skipAfter\(bytes, safe\)$`).FindStringSubmatch(s); m != nil {
		return "RdGuarded " + dtStr(m[1])
	}
	if m := regexp.MustCompile(`^data, safe := dec\.(\w+)\(dec\.ReadInt\(\)\); data = dec\.skipAfter\(data, safe\); if data == nil \{ return \}; return convert\.ToUnsafeString\(data\)$`).FindStringSubmatch(s); m != nil {
		return "RdGuarded " + dtStr(m[1])
	}
	if name == "skipAfter" && s == "if !safe && data != nil && dec.head == dec.tail && dec.reader != nil { data = append([]byte(nil), data...) }; dec.Skip(); return data" {
		return "RdSkipAfter"
	}
	// ownership of returned bytes / strings
	if m := regexp.MustCompile(`^data, safe := dec\.(\w+)\(\w+\); if safe \{ return data \}; result := make\(\[\]byte, len\(data\)\); copy\(result, data\); return result$`).FindStringSubmatch(s); m != nil {
		return "RdOwn true " + dtStr(m[1])
	}
	if m := regexp.MustCompile(`^data, _ = dec\.(\w+)\(\w+\); return$`).FindStringSubmatch(s); m != nil {
		return "RdOwn false " + dtStr(m[1])
	}
	if m := regexp.MustCompile(`^data, safe := dec\.(\w+)\(\w+\); if data == nil \{ return \}; if safe \{ return convert\.ToUnsafeString\(data\) \}; return string\(data\)$`).FindStringSubmatch(s); m != nil {
		return "RdOwn true " + dtStr(m[1])
	}
	if m := regexp.MustCompile(`^data, _ := dec\.(\w+)\(\w+\); if data == nil \{ return \}; return convert\.ToUnsafeString\(data\)$`).FindStringSubmatch(s); m != nil {
		return "RdOwn false " + dtStr(m[1])
	}
	if m := regexp.MustCompile(`^(\w+) :?= dec\.(\w+)\(dec\.ReadInt\(\)\); dec\.Skip\(\); return(?: (\w+))?$`).FindStringSubmatch(s); m != nil && (m[3] == "" || m[3] == m[1]) {
		return "RdVia " + dtStr(m[2]) + " false"
	}
	if m := regexp.MustCompile(`^(\w+) :?= dec\.(\w+)\(\); if !dec\.IsSimple\(\) \{ dec\.refer\.Add\((\w+)\) \}; return(?: (\w+))?$`).FindStringSubmatch(s); m != nil && m[1] == m[3] && (m[4] == "" || m[4] == m[1]) {
		return "RdVia " + dtStr(m[2]) + " true"
	}
	reF := regexp.MustCompile(`^f, err := strconv\.ParseFloat\(convert\.ToUnsafeString\(dec\.UnsafeUntil\(TagSemicolon\)\), (32|64)\); if dec\.Error == nil && err != nil \{ dec\.Error = err \}; return (float32\(f\)|f)$`)
	if m := reF.FindStringSubmatch(s); m != nil {
		if (m[1] == "32" && m[2] == "float32(f)" && name == "ReadFloat32") || (m[1] == "64" && m[2] == "f" && name == "ReadFloat64") {
			return "RdParseFloat " + m[1]
		}
	}
	g.unk++
	return "RdUnknown " + dtStr(s)
}

// the stringToX helpers
func (g *dtGen) parserOf(name string) string {
	fd := g.p.funcs["Decoder."+name]
	if fd == nil || fd.Body == nil {
		return "PsUnknown " + dtStr("missing "+name)
	}
	s := g.normStmts(fd.Body.List)
	if m := regexp.MustCompile(`^(\w), err := strconv\.(ParseInt|ParseUint)\(s, (\d+), bitSize\); if err != nil \{ dec\.Error = err \}; return (\w)$`).FindStringSubmatch(s); m != nil && m[1] == m[4] {
		return "PsStrconv " + dtStr(m[2]) + " " + m[3] + " true"
	}
	if m := regexp.MustCompile(`^(\w), err := strconv\.ParseBool\(s\); if err != nil \{ dec\.Error = err \}; return (\w)$`).FindStringSubmatch(s); m != nil && m[1] == m[2] {
		return "PsStrconv " + dtStr("ParseBool") + " 0 false"
	}
	if m := regexp.MustCompile(`^f, err := strconv\.ParseFloat\(s, (32|64)\); if err != nil \{ dec\.Error = err \}; return (float32\(f\)|f)$`).FindStringSubmatch(s); m != nil {
		if (m[1] == "32" && m[2] == "float32(f)") || (m[1] == "64" && m[2] == "f") {
			return "PsFloat " + m[1]
		}
	}
	if m := regexp.MustCompile(`^c, err := complexconv\.ParseComplex\(s, (64|128)\); if err != nil \{ dec\.Error = err \}; return (complex64\(c\)|c)$`).FindStringSubmatch(s); m != nil {
		if (m[1] == "64" && m[2] == "complex64(c)") || (m[1] == "128" && m[2] == "c") {
			return "PsComplex " + m[1]
		}
	}
	if m := regexp.MustCompile(`^if (\w+), ok := new\(big\.(Int|Float|Rat)\)\.SetString\(s(, 10)?\); ok \{ return (\w+) \}; (?:typeName := "\*big\.\w+"; if t != nil \{ typeName = t\.String\(\) \}; dec\.decodeStringError\(s, typeName\)|dec\.decodeStringError\(s, t\.String\(\)\)); return nil$`).FindStringSubmatch(s); m != nil && m[1] == m[4] {
		b10 := "false"
		if m[3] != "" {
			b10 = "true"
		}
		return "PsBig " + dtStr(m[2]) + " " + b10
	}
	if m := regexp.MustCompile(`^if !exponentTooLarge\(s\) \{ if (\w+), ok := new\(big\.(Int|Float|Rat)\)\.SetString\(s\); ok \{ return (\w+) \} \}; dec\.decodeStringError\(s, t\.String\(\)\); return nil$`).FindStringSubmatch(s); m != nil && m[1] == m[3] {
		helper := "missing"
		if fd := g.p.funcs["exponentTooLarge"]; fd != nil && fd.Body != nil {
			helper = g.normStmts(fd.Body.List)
		}
		if v, ok := g.constValue("maxTextExponent"); ok && v >= 0 && helper == exponentTooLargeBody {
			return fmt.Sprintf("PsBigGuarded %s %d", dtStr(m[2]), v)
		}
		g.unk++
		return "PsUnknown " + dtStr("exponentTooLarge: "+helper)
	}
	g.unk++
	return "PsUnknown " + dtStr(s)
}

// number of reference-list append sites in a function body
func (g *dtGen) refSites(key string) int {
	fd := g.p.funcs[key]
	if fd == nil || fd.Body == nil {
		return -1
	}
	n := 0
	ast.Inspect(fd.Body, func(x ast.Node) bool {
		if ce, ok := x.(*ast.CallExpr); ok {
			t := g.norm(ce.Fun)
			if t == "dec.AddReference" || t == "dec.refer.Add" {
				n++
			}
		}
		return true
	})
	return n
}

// ---------------------------------------------------------------------------------- converters

func (g *dtGen) converters() (fast []string, reg []string) {
	fd := g.p.funcs["init"]
	// converter.go has its own init: locate it by file
	var initFn *ast.FuncDecl
	if f := g.p.files["converter.go"]; f != nil {
		for _, d := range f.Decls {
			if x, ok := d.(*ast.FuncDecl); ok && x.Name.Name == "init" && x.Recv == nil {
				initFn = x
			}
		}
	}
	_ = fd
	if initFn == nil {
		return []string{"(" + dtStr("?") + ", " + g.unknown("converter.go: no init") + ")"}, nil
	}
	reFast := regexp.MustCompile(`^\*\(\*(\w+)\)\(reflect2\.PtrOf\(p\)\) = (.*)\*\(\*string\)\(reflect2\.PtrOf\(o\)\)(.*)$`)
	ast.Inspect(initFn.Body, func(n ast.Node) bool {
		switch x := n.(type) {
		case *ast.AssignStmt:
			if len(x.Lhs) == 1 && g.norm(x.Lhs[0]) == "fastConverterMap" {
				if cl, ok := x.Rhs[0].(*ast.CompositeLit); ok {
					for _, el := range cl.Elts {
						kv, ok := el.(*ast.KeyValueExpr)
						if !ok {
							continue
						}
						key := strings.ReplaceAll(strings.Trim(g.norm(kv.Key), "{}"), "reflect.", "")
						act := g.unknown(g.norm(kv.Value))
						if fl, ok := kv.Value.(*ast.FuncLit); ok && len(fl.Body.List) == 1 {
							if m := reFast.FindStringSubmatch(g.norm(fl.Body.List[0])); m != nil {
								if mm := reParse.FindStringSubmatch("*p = " + m[2] + "dec.readUnsafeString(1)" + m[3]); mm != nil {
									if a := g.parseAction("AParseStr", mm); a != "" {
										act = a
										// the pointer written through must have the destination's own type
										if want := strings.ToLower(strings.TrimSpace(strings.Split(key, ",")[1])); want != m[1] {
											act = g.unknown("writes through *" + m[1] + " for " + key)
										}
									}
								}
							}
						}
						fast = append(fast, "("+dtStr(key)+", "+act+")")
					}
				}
				return false
			}
		case *ast.CallExpr:
			if g.norm(x.Fun) == "RegisterConverter" && len(x.Args) == 3 {
				reg = append(reg, "("+dtStr(g.norm(x.Args[0]))+", "+dtStr(g.norm(x.Args[1]))+")")
			}
		}
		return true
	})
	return
}

// ---------------------------------------------------------------------------------- output

func pairsCoq(name, comment string, l [][2]string) string {
	parts := []string{}
	for _, kv := range l {
		parts = append(parts, "("+dtStr(kv[0])+", "+dtStr(kv[1])+")")
	}
	return "(* " + comment + " *)\nDefinition " + name + " : list (bstr * bstr) :=\n  [" + strings.Join(parts, ";\n   ") + "].\n\n"
}

var switchRoutines = []struct {
	name  string
	key   string
	iface bool
}{
	{"decodeBool", "Decoder.decodeBool", false},
	{"decodeInt", "Decoder.decodeInt", false}, {"decodeInt8", "Decoder.decodeInt8", false},
	{"decodeInt16", "Decoder.decodeInt16", false}, {"decodeInt32", "Decoder.decodeInt32", false},
	{"decodeInt64", "Decoder.decodeInt64", false}, {"decodeUint", "Decoder.decodeUint", false},
	{"decodeUint8", "Decoder.decodeUint8", false}, {"decodeUint16", "Decoder.decodeUint16", false},
	{"decodeUint32", "Decoder.decodeUint32", false}, {"decodeUint64", "Decoder.decodeUint64", false},
	{"decodeUintptr", "Decoder.decodeUintptr", false},
	{"decodeFloat32", "Decoder.decodeFloat32", false}, {"decodeFloat64", "Decoder.decodeFloat64", false},
	{"decodeComplex64", "Decoder.decodeComplex64", false}, {"decodeComplex128", "Decoder.decodeComplex128", false},
	{"decodeBigInt", "Decoder.decodeBigInt", false}, {"decodeBigFloat", "Decoder.decodeBigFloat", false},
	{"decodeBigRat", "Decoder.decodeBigRat", false},
	{"decodeString", "Decoder.decodeString", false}, {"decodeBytes", "Decoder.decodeBytes", false},
	{"decodeTime", "Decoder.decodeTime", false}, {"decodeUUID", "Decoder.decodeUUID", false},
	{"decodeInterface", "Decoder.decodeInterface", true},
	{"defaultDecode", "Decoder.defaultDecode", false},
	{"sliceDecoder.Decode", "sliceDecoder.Decode", false}, {"arrayDecoder.Decode", "arrayDecoder.Decode", false},
	{"byteArrayDecoder.Decode", "byteArrayDecoder.Decode", false}, {"mapDecoder.Decode", "mapDecoder.Decode", false},
	{"structDecoder.Decode", "structDecoder.Decode", false}, {"listDecoder.Decode", "listDecoder.Decode", false},
	{"ptrDecoder.Decode", "ptrDecoder.Decode", false},
}

var wrapperRoutines = []string{"decodeBoolPtr", "decodeIntPtr", "decodeInt8Ptr", "decodeInt16Ptr", "decodeInt32Ptr", "decodeInt64Ptr",
	"decodeUintPtr", "decodeUint8Ptr", "decodeUint16Ptr", "decodeUint32Ptr", "decodeUint64Ptr", "decodeUintptrPtr",
	"decodeFloat32Ptr", "decodeFloat64Ptr", "decodeComplex64Ptr", "decodeComplex128Ptr", "decodeStringPtr", "decodeBytesPtr",
	"decodeTimePtr", "decodeUUIDPtr", "decodeInterfacePtr", "decodeBigIntValue", "decodeBigFloatValue", "decodeBigRatValue"}

var refRoutines = []string{"Decoder.ReadString", "Decoder.ReadBytes", "Decoder.ReadTime", "Decoder.ReadDateTime", "Decoder.ReadUUID",
	"Decoder.decodeTime", "Decoder.readUint8Slice", "Decoder.ReadUnsafeString", "Decoder.ReadSafeString", "Decoder.readUnsafeBytes",
	"Decoder.readSafeString", "Decoder.readUnsafeString", "Decoder.ReadStringAsBytes", "Decoder.ReadStruct",
	"Decoder.readObject", "Decoder.readObjectAsMap", "Decoder.ReadObject",
	"sliceDecoder.Decode", "arrayDecoder.Decode", "byteArrayDecoder.Decode", "listDecoder.Decode", "ptrDecoder.Decode",
	"mapDecoder.decodeMap", "mapDecoder.decodeListAsMap", "mapDecoder.decodeObjectAsMap",
	"structDecoder.decodeObject", "structDecoder.decodeMapAsObject", "structDecoder.decodeField",
	"Decoder.decodeListAsInterface", "Decoder.decodeMapAsInterface", "Decoder.decodeError", "Decoder.defaultDecode"}

func genDecTables(repo string) (string, map[string]interface{}, error) {
	w, err := newWorld(repo)
	if err != nil {
		return "", nil, err
	}
	p := w.load(w.module + "/io")
	if p == nil {
		return "", nil, fmt.Errorf("cannot load package io")
	}
	g := &dtGen{p: p}
	g.loadTags()
	var b strings.Builder
	b.WriteString("(* GENERATED by tools/gotables (dec_tables.go) from io/*.go of the tree under check. Do not edit. *)\n")
	b.WriteString("From Coq Require Import List NArith ZArith Strings.Byte.\nFrom HV Require Import Model.Enc Model.DecAct.\nImport ListNotations.\nLocal Open Scope bstr_scope.\n\n")
	// tags
	names := []string{}
	for n := range g.tags {
		names = append(names, n)
	}
	sort.Strings(names)
	parts := []string{}
	for _, n := range names {
		parts = append(parts, fmt.Sprintf("(%s, %d%%N)", dtStr(n), g.tags[n]))
	}
	b.WriteString("Definition gen_tags : list (bstr * N) :=\n  [" + strings.Join(parts, "; ") + "].\n\n")
	// routes
	fast := g.typeSwitchTable("fastDecode")
	fastPtr := g.typeSwitchTable("fastDecodePtr")
	factory := g.kindTable("valueDecoderFactories", g.resolveFactory)
	ptrFactory := g.kindTable("ptrDecoderFactories", g.resolveFactory)
	handler := g.kindTable("decodeHandlers", g.resolveHandler)
	ptrHandler := g.kindTable("decodePtrHandlers", g.resolveHandler)
	b.WriteString(pairsCoq("gen_dec_fast", "Decoder.fastDecode: destination pointer type -> routine", fast))
	b.WriteString(pairsCoq("gen_dec_fast_ptr", "Decoder.fastDecodePtr", fastPtr))
	b.WriteString(pairsCoq("gen_dec_factory", "valueDecoderFactories[kind]: the routine <T>Decoder.Decode forwards to", factory))
	b.WriteString(pairsCoq("gen_dec_ptr_factory", "ptrDecoderFactories[kind]", ptrFactory))
	b.WriteString(pairsCoq("gen_dec_handler", "decodeHandlers[kind]", handler))
	b.WriteString(pairsCoq("gen_dec_ptr_handler", "decodePtrHandlers[kind]", ptrHandler))
	// switches
	b.WriteString("Definition gen_dec_switch : list (bstr * switch) :=\n  [")
	for i, r := range switchRoutines {
		if i > 0 {
			b.WriteString(";\n   ")
		}
		b.WriteString("(" + dtStr(r.name) + ",\n    " + g.switchOf(r.key, r.iface).coq() + ")")
	}
	b.WriteString("].\n\n")
	b.WriteString("Definition gen_dec_optswitch : list (bstr * (list (bstr * action) * action)) :=\n  [")
	for i, o := range [][2]string{{"decodeLongAsInterface", "LongType"}, {"decodeNaNAsInterface", "RealType"},
		{"decodeInfinityAsInterface", "RealType"}, {"decodeDoubleAsInterface", "RealType"}} {
		if i > 0 {
			b.WriteString(";\n   ")
		}
		b.WriteString("(" + dtStr(o[0]) + ", " + g.optSwitch("Decoder."+o[0], o[1]) + ")")
	}
	b.WriteString("].\n\n")
	b.WriteString("Definition gen_dec_wrappers : list (bstr * wrapper) :=\n  [")
	for i, n := range wrapperRoutines {
		if i > 0 {
			b.WriteString(";\n   ")
		}
		b.WriteString("(" + dtStr(n) + ", " + g.wrapperOf("Decoder."+n) + ")")
	}
	b.WriteString("].\n\n")
	b.WriteString("Definition gen_dec_readers : list (bstr * reader) :=\n  [")
	for i, n := range []string{"ReadInt", "ReadInt8", "ReadInt16", "ReadInt32", "ReadInt64", "ReadUint", "ReadUint8", "ReadUint16", "ReadUint32", "ReadUint64", "readUint64", "ReadFloat32", "ReadFloat64",
		"Until", "UnsafeUntil", "Next", "UnsafeNext", "readStringAsSafeBytes", "readSafeString", "readUnsafeString",
		"readBytes", "readUnsafeBytes", "ReadBytes", "ReadSafeString", "ReadUnsafeString", "ReadString", "ReadStringAsBytes", "skipAfter"} {
		if i > 0 {
			b.WriteString(";\n   ")
		}
		b.WriteString("(" + dtStr(n) + ", " + g.readerOf(n) + ")")
	}
	b.WriteString("].\n\n")
	b.WriteString("Definition gen_dec_parsers : list (bstr * parser) :=\n  [")
	for i, n := range []string{"stringToBool", "stringToInt64", "stringToUint64", "stringToFloat32", "stringToFloat64", "stringToComplex64", "stringToComplex128", "stringToBigInt", "stringToBigFloat", "stringToBigRat"} {
		if i > 0 {
			b.WriteString(";\n   ")
		}
		b.WriteString("(" + dtStr(n) + ", " + g.parserOf(n) + ")")
	}
	b.WriteString("].\n\n")
	b.WriteString("(* number of dec.AddReference / dec.refer.Add call sites per routine; 999 = routine not found *)\nDefinition gen_ref_effects : list (bstr * N) :=\n  [")
	for i, n := range refRoutines {
		if i > 0 {
			b.WriteString("; ")
		}
		k := g.refSites(n)
		if k < 0 {
			k = 999
		}
		b.WriteString(fmt.Sprintf("(%s, %d%%N)", dtStr(n), k))
	}
	b.WriteString("].\n\n")
	cfast, creg := g.converters()
	b.WriteString("(* converter.go: fastConverterMap {source kind, destination kind} -> the parser applied to the referenced string *)\nDefinition gen_conv_fast : list (bstr * action) :=\n  [" + strings.Join(cfast, ";\n   ") + "].\n\n")
	b.WriteString("Definition gen_conv_registered : list (bstr * bstr) :=\n  [" + strings.Join(creg, "; ") + "].\n")
	out := b.String()
	unknown := strings.Count(out, "AUnknown ") + strings.Count(out, "WUnknownWrapper ") + strings.Count(out, "RdUnknown ") +
		strings.Count(out, "PsUnknown ") + strings.Count(out, "\"?")
	stats := map[string]interface{}{"routines": len(switchRoutines), "unknown": unknown, "fast": len(fast), "fast_ptr": len(fastPtr),
		"kinds": len(handler), "wrappers": len(wrapperRoutines), "tags": len(g.tags)}
	return out, stats, nil
}
