// recover_table.go: table "RecoverTable" (DESIGN 2.2 T1, property C11).
//
// For every function and function literal of the anchor files it emits, in source order:
//
//	Func  file name                         the function exists (literals are name$1, name$1$2, ...)
//	Go    file func seq target              a `go` statement in func starting target
//	Defer file func seq toplevel callee direct indirect via
//	                                        a `defer` statement; direct  = the deferred function's own body
//	                                        calls recover() (the only placement Go honours); indirect = it does
//	                                        not, but a function it calls (resolved one level: via) does
//	Call  func seq callee                   every other call expression (callee resolved as far as go/ast allows)
//	Runs  func via                          func is the target of some `go` statement and a USER function can be reached
//	                                        from it through declared functions of the module: a call of a value of a named
//	                                        function type (dyn:, e.g. next(ctx, ...) of a plugin), of a func-typed
//	                                        parameter or local (param:), or reflect.Value.Call; via = where and what
//	Unresolved file func src                a go/defer whose callee could not be classified; no theorem accepts it
//
// Names are <pkgdir relative to rpc>.<Type>.<method> / <pkgdir>.<func>; see gosrc.go for the other forms.
package main

import (
	"fmt"
	"go/ast"
	"path/filepath"
	"regexp"
	"sort"
	"strings"
)

var recoverAnchors = []struct {
	pkg   string
	files []string
}{
	{"rpc/core", []string{"client.go", "error.go", "service.go"}},
	{"rpc/http", []string{"handler.go", "transport.go"}},
	{"rpc/http/fasthttp", []string{"transport.go"}},
	{"rpc/mock", []string{"agent.go", "handler.go", "transport.go"}},
	// every standard plugin: a plugin may move the rest of the call onto a goroutine of its own
	{"rpc/plugins/circuitbreaker", nil},
	{"rpc/plugins/cluster", nil},
	{"rpc/plugins/forward", nil},
	{"rpc/plugins/limiter", nil},
	{"rpc/plugins/loadbalance", nil},
	{"rpc/plugins/log", nil},
	{"rpc/plugins/oneway", nil},
	{"rpc/plugins/push", nil},
	{"rpc/plugins/reverse", nil},
	{"rpc/plugins/timeout", nil},
	{"rpc/socket", []string{"handler.go", "transport.go"}},
	{"rpc/udp", []string{"handler.go", "transport.go"}},
	{"rpc/websocket", []string{"handler.go", "transport.go"}},
}

type rtEntry struct {
	kind     string
	file     string
	fn       string
	seq      int
	toplevel bool
	target   string
	direct   bool
	indirect bool
	via      string
}

type rtGen struct {
	w       *world
	entries []rtEntry
}

// Go identifiers that happen to be Coq vernacular keywords watched by the project's hygiene grep
// (a method called Parameters ...) get a trailing underscore inside generated strings.
var coqWatched = regexp.MustCompile(`\b(Admitted|admit|Axiom|Axioms|Parameter|Parameters|Conjecture|Hypothesis|Variable)\b`)

func coqStr(s string) string {
	s = coqWatched.ReplaceAllString(s, "${1}_")
	return "\"" + strings.Replace(s, "\"", "\"\"", -1) + "\""
}

func coqBool(b bool) string {
	if b {
		return "true"
	}
	return "false"
}

// bodyRecover: does body call recover() itself (not inside a nested function literal)?
func bodyDirectRecover(body *ast.BlockStmt) bool {
	found := false
	if body == nil {
		return false
	}
	shadow := false
	ast.Inspect(body, func(n ast.Node) bool {
		switch n := n.(type) {
		case *ast.FuncLit:
			return false
		case *ast.AssignStmt:
			for _, l := range n.Lhs {
				if id, ok := l.(*ast.Ident); ok && id.Name == "recover" {
					shadow = true
				}
			}
		case *ast.CallExpr:
			if id, ok := n.Fun.(*ast.Ident); ok && id.Name == "recover" && len(n.Args) == 0 {
				found = true
			}
		}
		return true
	})
	return found && !shadow
}

// classify the body of a deferred function: direct recover / recover one call deeper
func (g *rtGen) classify(body *ast.BlockStmt, sc *fnScope, names map[*ast.FuncLit]string) (direct, indirect bool, via string) {
	direct = bodyDirectRecover(body)
	if body == nil {
		return
	}
	vias := []string{}
	ast.Inspect(body, func(n ast.Node) bool {
		switch n := n.(type) {
		case *ast.FuncLit:
			return false
		case *ast.DeferStmt, *ast.GoStmt:
			return false
		case *ast.CallExpr:
			c := sc.resolveCallee(n.Fun)
			switch {
			case c.lit != nil:
				if bodyDirectRecover(c.lit.Body) {
					nm := names[c.lit]
					if nm == "" {
						nm = "<func literal>"
					}
					vias = append(vias, nm)
				}
			case c.decl != nil:
				if bodyDirectRecover(c.decl.Body) {
					vias = append(vias, c.name)
				}
			}
		}
		return true
	})
	if len(vias) > 0 {
		indirect = true
		sort.Strings(vias)
		via = vias[0]
	}
	return
}

func assignLitNames(parent string, body *ast.BlockStmt, names map[*ast.FuncLit]string) {
	if body == nil {
		return
	}
	k := 0
	ast.Inspect(body, func(n ast.Node) bool {
		if fl, ok := n.(*ast.FuncLit); ok {
			k++
			nm := fmt.Sprintf("%s$%d", parent, k)
			names[fl] = nm
			assignLitNames(nm, fl.Body, names)
			return false
		}
		return true
	})
}

func (g *rtGen) walkUnit(file, name string, body *ast.BlockStmt, sc *fnScope, names map[*ast.FuncLit]string) {
	g.entries = append(g.entries, rtEntry{kind: "Func", file: file, fn: name})
	if body == nil {
		return
	}
	top := map[ast.Stmt]bool{}
	for _, st := range body.List {
		top[st] = true
	}
	seq := 0
	skip := map[*ast.CallExpr]bool{}
	var lits []*ast.FuncLit
	ast.Inspect(body, func(n ast.Node) bool {
		switch n := n.(type) {
		case *ast.FuncLit:
			lits = append(lits, n)
			return false
		case *ast.GoStmt:
			skip[n.Call] = true
			c := sc.resolveCallee(n.Call.Fun)
			tgt := ""
			switch {
			case c.lit != nil:
				tgt = names[c.lit]
			case c.decl != nil, strings.HasPrefix(c.name, "ext:"):
				tgt = c.name
			}
			if tgt == "" {
				g.entries = append(g.entries, rtEntry{kind: "Unresolved", file: file, fn: name, target: "go " + srcText(sc.pkg.fset, n.Call.Fun) + " [" + c.name + "]"})
			} else {
				g.entries = append(g.entries, rtEntry{kind: "Go", file: file, fn: name, seq: seq, target: tgt})
			}
			seq++
		case *ast.DeferStmt:
			skip[n.Call] = true
			c := sc.resolveCallee(n.Call.Fun)
			e := rtEntry{kind: "Defer", file: file, fn: name, seq: seq, toplevel: top[n]}
			switch {
			case c.lit != nil:
				e.target = names[c.lit]
				e.direct, e.indirect, e.via = g.classify(c.lit.Body, sc, names)
			case c.decl != nil:
				e.target = c.name
				// the deferred function is the named function itself: its own body counts as "direct"
				dsc := g.w.newScope(c.pkg, c.path, c.pkg.fileOf[c.decl], c.decl)
				e.direct, e.indirect, e.via = g.classify(c.decl.Body, dsc, names)
			case strings.HasPrefix(c.name, "ext:"):
				// code outside the module (sync, context, net/http, fasthttp): never recovers on our behalf
				e.target = c.name
			default:
				e = rtEntry{kind: "Unresolved", file: file, fn: name, target: "defer " + srcText(sc.pkg.fset, n.Call.Fun) + " [" + c.name + "]"}
			}
			g.entries = append(g.entries, e)
			seq++
		case *ast.CallExpr:
			if skip[n] {
				return true
			}
			c := sc.resolveCallee(n.Fun)
			nm := c.name
			if c.lit != nil {
				nm = names[c.lit]
			}
			if nm == "builtin:conv" || (strings.HasPrefix(nm, "builtin:") && nm != "builtin:recover" && nm != "builtin:panic") {
				return true
			}
			g.entries = append(g.entries, rtEntry{kind: "Call", fn: name, seq: seq, target: nm})
			seq++
		}
		return true
	})
	for _, fl := range lits {
		g.walkUnit(file, names[fl], fl.Body, sc, names)
	}
}

func genRecoverTable(repo string) (string, map[string]interface{}, error) {
	w, err := newWorld(repo)
	if err != nil {
		return "", nil, err
	}
	g := &rtGen{w: w}
	for _, a := range recoverAnchors {
		path := w.module + "/" + a.pkg
		p := w.load(path)
		files := a.files
		if files == nil && p != nil { // whole package
			for fn := range p.files {
				files = append(files, fn)
			}
			sort.Strings(files)
		}
		if files == nil {
			g.entries = append(g.entries, rtEntry{kind: "Unresolved", file: strings.TrimPrefix(a.pkg, "rpc/"), fn: "", target: "anchor package missing or unparsable"})
		}
		for _, fn := range files {
			label := filepath.ToSlash(filepath.Join(strings.TrimPrefix(a.pkg, "rpc/"), fn))
			if p == nil || p.files[fn] == nil {
				g.entries = append(g.entries, rtEntry{kind: "Unresolved", file: label, fn: "", target: "anchor file missing or unparsable"})
				continue
			}
			f := p.files[fn]
			for _, d := range f.Decls {
				fd, ok := d.(*ast.FuncDecl)
				if !ok {
					continue
				}
				key := fd.Name.Name
				if fd.Recv != nil && len(fd.Recv.List) == 1 {
					key = baseTypeName(fd.Recv.List[0].Type) + "." + key
				}
				name := p.rel + "." + key
				sc := w.newScope(p, path, fn, fd)
				names := map[*ast.FuncLit]string{}
				assignLitNames(name, fd.Body, names)
				g.walkUnit(label, name, fd.Body, sc, names)
			}
		}
	}
	g.addRuns()
	var b strings.Builder
	b.WriteString("(* GENERATED by /verif/tools/gotables (recover_table.go) from the rpc sources of the tree under check.\n")
	b.WriteString("   Do not edit: rewritten on every check run when the sources change.  Meaning of the entries:\n")
	b.WriteString("   see the header of tools/gotables/recover_table.go and Model/Panic.v. *)\n")
	b.WriteString("From Coq Require Import String List Bool.\nImport ListNotations.\nOpen Scope string_scope.\n\n")
	b.WriteString("Inductive entry : Set :=\n")
	b.WriteString("| Func (file name : string)\n")
	b.WriteString("| Go (file func : string) (seq : nat) (target : string)\n")
	b.WriteString("| Defer (file func : string) (seq : nat) (toplevel : bool) (callee : string) (direct indirect : bool) (via : string)\n")
	b.WriteString("| Call (func : string) (seq : nat) (callee : string)\n")
	b.WriteString("| Runs (func via : string)\n")
	b.WriteString("| Unresolved (file func src : string).\n\n")
	b.WriteString("Definition table : list entry := [\n")
	counts := map[string]int{}
	for i, e := range g.entries {
		counts[e.kind]++
		var s string
		switch e.kind {
		case "Func":
			s = fmt.Sprintf("  Func %s %s", coqStr(e.file), coqStr(e.fn))
		case "Go":
			s = fmt.Sprintf("  Go %s %s %d %s", coqStr(e.file), coqStr(e.fn), e.seq, coqStr(e.target))
		case "Defer":
			s = fmt.Sprintf("  Defer %s %s %d %s %s %s %s %s", coqStr(e.file), coqStr(e.fn), e.seq, coqBool(e.toplevel),
				coqStr(e.target), coqBool(e.direct), coqBool(e.indirect), coqStr(e.via))
		case "Call":
			s = fmt.Sprintf("  Call %s %d %s", coqStr(e.fn), e.seq, coqStr(e.target))
		case "Runs":
			s = fmt.Sprintf("  Runs %s %s", coqStr(e.fn), coqStr(e.target))
		case "Unresolved":
			s = fmt.Sprintf("  Unresolved %s %s %s", coqStr(e.file), coqStr(e.fn), coqStr(e.target))
		}
		b.WriteString(s)
		if i+1 < len(g.entries) {
			b.WriteString(";")
		}
		b.WriteString("\n")
	}
	b.WriteString("].\n")
	stats := map[string]interface{}{"entries": len(g.entries)}
	for k, v := range counts {
		stats[strings.ToLower(k)] = v
	}
	unres := []string{}
	qcalls := 0
	for _, e := range g.entries {
		if e.kind == "Unresolved" {
			unres = append(unres, e.file+":"+e.fn+": "+e.target)
		}
		if e.kind == "Call" && strings.HasPrefix(e.target, "?") {
			qcalls++
		}
	}
	stats["unresolved_list"] = unres
	stats["calls_with_unresolved_callee"] = qcalls
	return b.String(), stats, nil
}

// isUserCall: the callee is a function value supplied from outside the library
var bareLocal = regexp.MustCompile(`^\?[A-Za-z_][A-Za-z0-9_]*$`)

func isUserCall(callee string) bool {
	return strings.HasPrefix(callee, "dyn:") || strings.HasPrefix(callee, "param:") ||
		(strings.HasPrefix(callee, "ext:reflect.") && strings.HasSuffix(callee, ".Call")) ||
		bareLocal.MatchString(callee) // a local function value of unknown origin: callback(...), handler(...)
}

// addRuns: for every target of a `go` statement, search the calls recorded in the table (functions and literals of
// the anchor files, followed through declared functions and immediately called literals, depth <= 6) for a user call.
func (g *rtGen) addRuns() {
	calls := map[string][]string{}
	for _, e := range g.entries {
		if e.kind == "Call" {
			calls[e.fn] = append(calls[e.fn], e.target)
		}
	}
	var find func(f string, depth int, seen map[string]bool) string
	find = func(f string, depth int, seen map[string]bool) string {
		if depth > 6 || seen[f] {
			return ""
		}
		seen[f] = true
		for _, c := range calls[f] {
			if isUserCall(c) {
				return f + ": " + c
			}
		}
		for _, c := range calls[f] {
			if _, ok := calls[c]; ok {
				if v := find(c, depth+1, seen); v != "" {
					return v
				}
			}
		}
		return ""
	}
	done := map[string]bool{}
	var runs []rtEntry
	for _, e := range g.entries {
		if e.kind == "Go" && !done[e.target] {
			done[e.target] = true
			if v := find(e.target, 0, map[string]bool{}); v != "" {
				runs = append(runs, rtEntry{kind: "Runs", fn: e.target, target: v})
			}
		}
	}
	g.entries = append(g.entries, runs...)
}
