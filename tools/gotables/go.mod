module gotables

go 1.13
