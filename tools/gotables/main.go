// gotables: T1 extractor (DESIGN.md 2.2).  Parses /repo's Go sources with go/parser + go/ast
// (stdlib only, no type checker) and regenerates plain Gallina data files in coq/Gen.
//
//	gotables -repo /repo -out /verif/coq/Gen [-only Name,Name]
//
// One generator per table, one file per generator, all listed in the registry below.  A file
// is rewritten only when its content changes (keeps make incremental).  stdout: one JSON
// object with per-table statistics.  Syntax a generator does not recognise is never dropped:
// it becomes an explicit Unresolved/AUnknown entry that no theorem accepts.
package main

import (
	"bytes"
	"encoding/json"
	"flag"
	"fmt"
	"io/ioutil"
	"os"
	"path/filepath"
	"sort"
	"strings"
)

// A generator produces the complete text of coq/Gen/<File> from the tree at repo.
type generator struct {
	Name string // table name, also the -only selector
	File string // file name inside -out
	Run  func(repo string) (content string, stats map[string]interface{}, err error)
}

// registry: add new tables here (one source file per table).
var registry = []generator{
	{Name: "RecoverTable", File: "RecoverTable.v", Run: genRecoverTable},
	{Name: "DecTables", File: "DecTables.v", Run: genDecTables},
	{Name: "GoFuncs", File: "GoFuncs.v", Run: genGoFuncs},
}

func writeIfChanged(path string, content []byte) (bool, error) {
	old, err := ioutil.ReadFile(path)
	if err == nil && bytes.Equal(old, content) {
		return false, nil
	}
	tmp := path + ".tmp"
	if err := ioutil.WriteFile(tmp, content, 0o644); err != nil {
		return false, err
	}
	return true, os.Rename(tmp, path)
}

func main() {
	repo := flag.String("repo", "/repo", "root of the hprose-golang working tree")
	out := flag.String("out", "", "output directory (coq/Gen)")
	only := flag.String("only", "", "comma separated table names (default: all)")
	flag.Parse()
	if *out == "" {
		fmt.Fprintln(os.Stderr, "gotables: -out is required")
		os.Exit(2)
	}
	if err := os.MkdirAll(*out, 0o755); err != nil {
		fmt.Fprintln(os.Stderr, "gotables:", err)
		os.Exit(1)
	}
	want := map[string]bool{}
	for _, n := range strings.Split(*only, ",") {
		if n != "" {
			want[n] = true
		}
	}
	report := map[string]interface{}{}
	names := []string{}
	for _, g := range registry {
		if len(want) > 0 && !want[g.Name] {
			continue
		}
		content, stats, err := g.Run(*repo)
		if err != nil {
			fmt.Fprintf(os.Stderr, "gotables: %s: %v\n", g.Name, err)
			os.Exit(1)
		}
		changed, err := writeIfChanged(filepath.Join(*out, g.File), []byte(content))
		if err != nil {
			fmt.Fprintf(os.Stderr, "gotables: %s: %v\n", g.Name, err)
			os.Exit(1)
		}
		if stats == nil {
			stats = map[string]interface{}{}
		}
		stats["file"] = g.File
		stats["rewritten"] = changed
		report[g.Name] = stats
		names = append(names, g.Name)
	}
	sort.Strings(names)
	report["tables"] = names
	b, _ := json.Marshal(report)
	fmt.Println(string(b))
}
