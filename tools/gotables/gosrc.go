// gosrc.go: shared source loader and a deliberately small name/type resolver on top of
// go/ast (no go/types): enough to say, for a call `x.f.M(...)`, which declared function,
// interface method, external method or dynamic function value M is.  Everything it cannot
// decide is returned as "?<source text>" so that callers can fail closed.
package main

import (
	"bytes"
	"fmt"
	"go/ast"
	"go/parser"
	"go/printer"
	"go/token"
	"io/ioutil"
	"os"
	"path/filepath"
	"sort"
	"strings"
)

type pkgInfo struct {
	rel     string // directory relative to <repo>/rpc ("socket", "http/fasthttp") or relative to repo for others
	dir     string
	fset    *token.FileSet
	files   map[string]*ast.File         // base name -> file
	funcs   map[string]*ast.FuncDecl     // "Name" or "Recv.Name"
	types   map[string]ast.Expr          // named type -> its type expression
	imports map[string]map[string]string // file base name -> local import name -> path
	fileOf  map[*ast.FuncDecl]string
}

type world struct {
	repo   string
	module string
	pkgs   map[string]*pkgInfo // by import path
}

func newWorld(repo string) (*world, error) {
	b, err := ioutil.ReadFile(filepath.Join(repo, "go.mod"))
	if err != nil {
		return nil, err
	}
	mod := ""
	for _, ln := range strings.Split(string(b), "\n") {
		ln = strings.TrimSpace(ln)
		if strings.HasPrefix(ln, "module ") {
			mod = strings.TrimSpace(strings.TrimPrefix(ln, "module "))
			break
		}
	}
	if mod == "" {
		return nil, fmt.Errorf("no module line in %s/go.mod", repo)
	}
	return &world{repo: repo, module: mod, pkgs: map[string]*pkgInfo{}}, nil
}

func (w *world) inModule(path string) bool {
	return path == w.module || strings.HasPrefix(path, w.module+"/")
}

// relName: short stable package label used in generated tables.
func (w *world) relName(path string) string {
	r := strings.TrimPrefix(strings.TrimPrefix(path, w.module), "/")
	if strings.HasPrefix(r, "rpc/") {
		r = strings.TrimPrefix(r, "rpc/")
	}
	return r
}

func buildExcluded(f *ast.File) bool {
	// files guarded by the verif build tag are instrumentation twins; skip the "on" twin
	for _, cg := range f.Comments {
		if cg.Pos() > f.Package {
			break
		}
		for _, c := range cg.List {
			t := strings.TrimSpace(strings.TrimPrefix(c.Text, "//"))
			if strings.HasPrefix(t, "go:build") || strings.HasPrefix(t, "+build") {
				rest := strings.TrimSpace(strings.TrimPrefix(strings.TrimPrefix(t, "go:build"), "+build"))
				if rest == "verif" || rest == "ignore" {
					return true
				}
			}
		}
	}
	return false
}

func (w *world) load(path string) *pkgInfo {
	if p, ok := w.pkgs[path]; ok {
		return p
	}
	w.pkgs[path] = nil
	if !w.inModule(path) {
		return nil
	}
	dir := filepath.Join(w.repo, strings.TrimPrefix(strings.TrimPrefix(path, w.module), "/"))
	ents, err := ioutil.ReadDir(dir)
	if err != nil {
		return nil
	}
	p := &pkgInfo{rel: w.relName(path), dir: dir, fset: token.NewFileSet(), files: map[string]*ast.File{},
		funcs: map[string]*ast.FuncDecl{}, types: map[string]ast.Expr{}, imports: map[string]map[string]string{},
		fileOf: map[*ast.FuncDecl]string{}}
	names := []string{}
	for _, e := range ents {
		n := e.Name()
		if e.IsDir() || !strings.HasSuffix(n, ".go") || strings.HasSuffix(n, "_test.go") {
			continue
		}
		names = append(names, n)
	}
	sort.Strings(names)
	for _, n := range names {
		f, err := parser.ParseFile(p.fset, filepath.Join(dir, n), nil, parser.ParseComments)
		if err != nil {
			fmt.Fprintf(os.Stderr, "gotables: parse %s: %v\n", filepath.Join(dir, n), err)
			continue
		}
		if buildExcluded(f) {
			continue
		}
		p.files[n] = f
		imp := map[string]string{}
		for _, is := range f.Imports {
			ip := strings.Trim(is.Path.Value, "\"`")
			name := ""
			if is.Name != nil {
				name = is.Name.Name
			} else {
				name = defaultImportName(ip)
			}
			imp[name] = ip
		}
		p.imports[n] = imp
		for _, d := range f.Decls {
			switch d := d.(type) {
			case *ast.FuncDecl:
				key := d.Name.Name
				if d.Recv != nil && len(d.Recv.List) == 1 {
					key = baseTypeName(d.Recv.List[0].Type) + "." + key
				}
				if _, dup := p.funcs[key]; !dup {
					p.funcs[key] = d
					p.fileOf[d] = n
				}
			case *ast.GenDecl:
				if d.Tok != token.TYPE {
					continue
				}
				for _, s := range d.Specs {
					ts := s.(*ast.TypeSpec)
					if _, dup := p.types[ts.Name.Name]; !dup {
						p.types[ts.Name.Name] = ts.Type
						// remember in which file the type lives (imports differ per file)
						p.imports["type:"+ts.Name.Name] = imp
					}
				}
			}
		}
	}
	w.pkgs[path] = p
	return p
}

func defaultImportName(path string) string {
	parts := strings.Split(path, "/")
	last := parts[len(parts)-1]
	// module major version suffix: .../v3 -> previous element
	if len(parts) > 1 && len(last) >= 2 && last[0] == 'v' && strings.Trim(last[1:], "0123456789") == "" {
		last = parts[len(parts)-2]
	}
	// gopkg.in/yaml.v3 -> yaml
	if i := strings.Index(last, "."); i > 0 {
		last = last[:i]
	}
	return last
}

func baseTypeName(e ast.Expr) string {
	switch t := e.(type) {
	case *ast.StarExpr:
		return baseTypeName(t.X)
	case *ast.ParenExpr:
		return baseTypeName(t.X)
	case *ast.Ident:
		return t.Name
	case *ast.IndexExpr:
		return baseTypeName(t.X)
	}
	return "?"
}

func srcText(fset *token.FileSet, n ast.Node) string {
	var b bytes.Buffer
	_ = printer.Fprint(&b, fset, n)
	s := strings.Join(strings.Fields(b.String()), " ")
	if len(s) > 120 {
		s = s[:117] + "..."
	}
	return s
}

// ---------------------------------------------------------------- types

// tref: a resolved type.  kind: "named" (path+name), "func" (function type, sig may be set),
// "ext" (named type of a package outside the module), "" unknown.
type tref struct {
	kind string
	path string // import path of the declaring package
	name string
	sig  *ast.FuncType // for func-typed values
	spkg *pkgInfo      // package whose imports interpret sig/elem
	simp map[string]string
}

var unknownT = tref{}

// scope of one top-level function: identifier -> type expression (as written) or function literal
type fnScope struct {
	w      *world
	pkg    *pkgInfo
	path   string
	imp    map[string]string
	vars   map[string]ast.Expr     // declared type expressions
	vtref  map[string]tref         // types inferred from initialisers
	lits   map[string]*ast.FuncLit // x := func(){...}
	extval map[string]string       // x bound to a result of an external call: "context.WithCancel"
	ambig  map[string]bool
}

func (s *fnScope) setVar(name string, t ast.Expr) {
	if name == "_" || t == nil {
		return
	}
	if old, ok := s.vars[name]; ok && srcText(s.pkg.fset, old) != srcText(s.pkg.fset, t) {
		s.ambig[name] = true
	}
	s.vars[name] = t
}

func (s *fnScope) setTref(name string, t tref) {
	if name == "_" || t.kind == "" {
		return
	}
	if old, ok := s.vtref[name]; ok && (old.kind != t.kind || old.path != t.path || old.name != t.name) {
		s.ambig[name] = true
	}
	s.vtref[name] = t
}

func (w *world) newScope(p *pkgInfo, path string, file string, fd *ast.FuncDecl) *fnScope {
	s := &fnScope{w: w, pkg: p, path: path, imp: p.imports[file], vars: map[string]ast.Expr{}, vtref: map[string]tref{},
		lits: map[string]*ast.FuncLit{}, extval: map[string]string{}, ambig: map[string]bool{}}
	addFields := func(fl *ast.FieldList) {
		if fl == nil {
			return
		}
		for _, f := range fl.List {
			for _, n := range f.Names {
				s.setVar(n.Name, f.Type)
			}
		}
	}
	addFields(fd.Recv)
	addFields(fd.Type.Params)
	addFields(fd.Type.Results)
	if fd.Body == nil {
		return s
	}
	ast.Inspect(fd.Body, func(n ast.Node) bool {
		switch n := n.(type) {
		case *ast.FuncLit:
			addFields(n.Type.Params)
			addFields(n.Type.Results)
		case *ast.DeclStmt:
			if gd, ok := n.Decl.(*ast.GenDecl); ok && gd.Tok == token.VAR {
				for _, sp := range gd.Specs {
					vs := sp.(*ast.ValueSpec)
					for i, nm := range vs.Names {
						if vs.Type != nil {
							s.setVar(nm.Name, vs.Type)
						} else if i < len(vs.Values) {
							s.bind(nm.Name, vs.Values[i], 0, 1)
						}
					}
				}
			}
		case *ast.AssignStmt:
			if n.Tok != token.DEFINE {
				return true
			}
			if len(n.Rhs) == len(n.Lhs) {
				for i, l := range n.Lhs {
					if id, ok := l.(*ast.Ident); ok {
						s.bind(id.Name, n.Rhs[i], 0, 1)
					}
				}
			} else if len(n.Rhs) == 1 {
				for i, l := range n.Lhs {
					if id, ok := l.(*ast.Ident); ok {
						s.bind(id.Name, n.Rhs[0], i, len(n.Lhs))
					}
				}
			}
		case *ast.TypeSwitchStmt:
			// switch s := server.(type): s has a different type per clause -> unknown
			if as, ok := n.Assign.(*ast.AssignStmt); ok && len(as.Lhs) == 1 {
				if id, ok := as.Lhs[0].(*ast.Ident); ok {
					s.ambig[id.Name] = true
				}
			}
		case *ast.RangeStmt:
			for _, e := range []ast.Expr{n.Key, n.Value} {
				if id, ok := e.(*ast.Ident); ok && n.Tok == token.DEFINE {
					s.ambig[id.Name] = s.ambig[id.Name] || false
					if _, known := s.vars[id.Name]; !known {
						s.vtref[id.Name] = unknownT
					}
				}
			}
		}
		return true
	})
	return s
}

// bind x := rhs (the idx-th of n results when rhs is a multi-valued call)
func (s *fnScope) bind(name string, rhs ast.Expr, idx, n int) {
	if name == "_" {
		return
	}
	switch r := rhs.(type) {
	case *ast.FuncLit:
		if n == 1 {
			if _, dup := s.lits[name]; dup {
				s.ambig[name] = true
			}
			s.lits[name] = r
			return
		}
	case *ast.UnaryExpr:
		if r.Op == token.AND {
			if cl, ok := r.X.(*ast.CompositeLit); ok && cl.Type != nil {
				s.setVar(name, cl.Type)
				return
			}
		}
	case *ast.CompositeLit:
		if r.Type != nil {
			s.setVar(name, r.Type)
			return
		}
	case *ast.CallExpr:
		// new(T)
		if id, ok := r.Fun.(*ast.Ident); ok && id.Name == "new" && len(r.Args) == 1 {
			s.setVar(name, r.Args[0])
			return
		}
		callee := s.resolveCallee(r.Fun)
		if strings.HasPrefix(callee.name, "ext:") {
			s.extval[name] = strings.TrimPrefix(callee.name, "ext:")
			s.setTref(name, tref{kind: "extvalue", name: s.extval[name]})
			return
		}
		if t := s.resultType(callee, idx); t.kind != "" {
			s.setTref(name, t)
			return
		}
	case *ast.TypeAssertExpr:
		if r.Type != nil && idx == 0 {
			s.setVar(name, r.Type)
			return
		}
	}
	if t := s.typeOf(rhs); t.kind != "" && n == 1 {
		s.setTref(name, t)
		return
	}
	if _, ok := s.vtref[name]; !ok {
		s.vtref[name] = unknownT
	}
}

// typeFromExpr interprets a type expression written in a file with imports imp of package (path,p).
func (w *world) typeFromExpr(e ast.Expr, path string, p *pkgInfo, imp map[string]string) tref {
	switch t := e.(type) {
	case *ast.StarExpr:
		return w.typeFromExpr(t.X, path, p, imp)
	case *ast.ParenExpr:
		return w.typeFromExpr(t.X, path, p, imp)
	case *ast.Ident:
		if p != nil {
			if _, ok := p.types[t.Name]; ok {
				return tref{kind: "named", path: path, name: t.Name}
			}
		}
		return tref{kind: "basic", name: t.Name}
	case *ast.SelectorExpr:
		if id, ok := t.X.(*ast.Ident); ok {
			if ip, ok := imp[id.Name]; ok {
				if w.inModule(ip) {
					return tref{kind: "named", path: ip, name: t.Sel.Name}
				}
				return tref{kind: "ext", path: ip, name: id.Name + "." + t.Sel.Name}
			}
		}
	case *ast.FuncType:
		return tref{kind: "func", sig: t, spkg: p, simp: imp, path: path}
	case *ast.InterfaceType:
		return tref{kind: "anyiface"}
	}
	return unknownT
}

// underlying declaration of a named in-module type, following aliases/definitions to other named types once
func (w *world) declOf(t tref) (ast.Expr, *pkgInfo, map[string]string) {
	if t.kind != "named" {
		return nil, nil, nil
	}
	p := w.load(t.path)
	if p == nil {
		return nil, nil, nil
	}
	e, ok := p.types[t.name]
	if !ok {
		return nil, nil, nil
	}
	return e, p, p.imports["type:"+t.name]
}

func (s *fnScope) typeOf(e ast.Expr) tref {
	switch x := e.(type) {
	case *ast.ParenExpr:
		return s.typeOf(x.X)
	case *ast.StarExpr:
		return s.typeOf(x.X)
	case *ast.UnaryExpr:
		if x.Op == token.AND {
			return s.typeOf(x.X)
		}
	case *ast.CompositeLit:
		if x.Type != nil {
			return s.w.typeFromExpr(x.Type, s.path, s.pkg, s.imp)
		}
	case *ast.Ident:
		if s.ambig[x.Name] {
			return unknownT
		}
		if t, ok := s.vars[x.Name]; ok {
			return s.w.typeFromExpr(t, s.path, s.pkg, s.imp)
		}
		if t, ok := s.vtref[x.Name]; ok {
			return t
		}
		// package-level variable `var Agent = &agent{...}` / `var x T`
		for _, f := range s.pkg.files {
			for _, d := range f.Decls {
				gd, ok := d.(*ast.GenDecl)
				if !ok || gd.Tok != token.VAR {
					continue
				}
				for _, sp := range gd.Specs {
					vs := sp.(*ast.ValueSpec)
					for i, nm := range vs.Names {
						if nm.Name != x.Name {
							continue
						}
						if vs.Type != nil {
							return s.w.typeFromExpr(vs.Type, s.path, s.pkg, s.imp)
						}
						if i < len(vs.Values) {
							return s.typeOf(vs.Values[i])
						}
					}
				}
			}
		}
	case *ast.SelectorExpr:
		if id, ok := x.X.(*ast.Ident); ok {
			if _, isVar := s.vars[id.Name]; !isVar {
				if _, isT := s.vtref[id.Name]; !isT {
					if ip, ok := s.imp[id.Name]; ok {
						// pkg.Var: only in-module package variables are looked at
						if s.w.inModule(ip) {
							if q := s.w.load(ip); q != nil {
								qs := &fnScope{w: s.w, pkg: q, path: ip, imp: map[string]string{}, vars: map[string]ast.Expr{}, vtref: map[string]tref{},
									lits: map[string]*ast.FuncLit{}, extval: map[string]string{}, ambig: map[string]bool{}}
								return qs.typeOf(&ast.Ident{Name: x.Sel.Name})
							}
						}
						return tref{kind: "extvalue", name: id.Name + "." + x.Sel.Name}
					}
				}
			}
		}
		base := s.typeOf(x.X)
		return s.w.fieldType(base, x.Sel.Name, 0)
	case *ast.CallExpr:
		callee := s.resolveCallee(x.Fun)
		return s.resultType(callee, 0)
	case *ast.TypeAssertExpr:
		if x.Type != nil {
			return s.w.typeFromExpr(x.Type, s.path, s.pkg, s.imp)
		}
	case *ast.FuncLit:
		return tref{kind: "func", sig: x.Type, spkg: s.pkg, simp: s.imp, path: s.path}
	}
	return unknownT
}

// fieldType: type of field `name` of a struct type t (searching embedded in-module structs)
func (w *world) fieldType(t tref, name string, depth int) tref {
	if depth > 4 {
		return unknownT
	}
	if t.kind == "ext" || t.kind == "extvalue" {
		return tref{kind: "extvalue", name: t.name + "." + name}
	}
	decl, p, imp := w.declOf(t)
	if decl == nil {
		return unknownT
	}
	st, ok := decl.(*ast.StructType)
	if !ok {
		// type A = B / type A B
		if u := w.typeFromExpr(decl, t.path, p, imp); u.kind == "named" && (u.path != t.path || u.name != t.name) {
			return w.fieldType(u, name, depth+1)
		}
		return unknownT
	}
	for _, f := range st.Fields.List {
		for _, n := range f.Names {
			if n.Name == name {
				return w.typeFromExpr(f.Type, t.path, p, imp)
			}
		}
	}
	for _, f := range st.Fields.List {
		if len(f.Names) == 0 {
			et := w.typeFromExpr(f.Type, t.path, p, imp)
			if baseTypeName(f.Type) == name || (et.kind == "ext" && strings.HasSuffix(et.name, "."+name)) {
				return et
			}
			if et.kind == "named" {
				if r := w.fieldType(et, name, depth+1); r.kind != "" {
					return r
				}
			}
		}
	}
	return unknownT
}

// ---------------------------------------------------------------- callees

// callee: what a call expression invokes.
//
//	name forms:  "<rel>.<Func>" / "<rel>.<Type>.<Method>"  declared in the module (decl != nil when the body is known)
//	             "iface:<rel>.<Type>.<Method>"   method of an in-module interface
//	             "dyn:<rel>.<FuncType>"          value of an in-module named function type
//	             "field:<rel>.<Type>.<Field>"    func-typed struct field (user callback)
//	             "param:<name>"                  func-typed parameter / opaque local
//	             "ext:<pkg>.<...>"               anything declared outside the module
//	             "builtin:<name>"                recover, panic, make, ...
//	             "lit"                           a function literal (lit != nil)
//	             "?<source>"                     not resolved
type callee struct {
	name string
	decl *ast.FuncDecl
	pkg  *pkgInfo
	path string
	lit  *ast.FuncLit
	sig  *ast.FuncType
	simp map[string]string
}

var builtins = map[string]bool{"append": true, "cap": true, "close": true, "complex": true, "copy": true, "delete": true,
	"imag": true, "len": true, "make": true, "new": true, "panic": true, "print": true, "println": true, "real": true, "recover": true}

var basicTypes = map[string]bool{"bool": true, "byte": true, "rune": true, "string": true, "error": true, "int": true, "int8": true,
	"int16": true, "int32": true, "int64": true, "uint": true, "uint8": true, "uint16": true, "uint32": true, "uint64": true,
	"uintptr": true, "float32": true, "float64": true, "complex64": true, "complex128": true}

func (s *fnScope) unresolved(e ast.Expr) callee {
	return callee{name: "?" + srcText(s.pkg.fset, e)}
}

func (s *fnScope) resolveCallee(fun ast.Expr) callee {
	switch f := fun.(type) {
	case *ast.ParenExpr:
		return s.resolveCallee(f.X)
	case *ast.FuncLit:
		return callee{name: "lit", lit: f, pkg: s.pkg, path: s.path}
	case *ast.Ident:
		if s.ambig[f.Name] {
			return s.unresolved(fun)
		}
		if l, ok := s.lits[f.Name]; ok {
			return callee{name: "lit", lit: l, pkg: s.pkg, path: s.path}
		}
		if ev, ok := s.extval[f.Name]; ok {
			return callee{name: "ext:" + ev + "#value"}
		}
		if t, ok := s.vars[f.Name]; ok {
			tt := s.w.typeFromExpr(t, s.path, s.pkg, s.imp)
			return s.calleeOfFuncValue(tt, "param:"+f.Name, fun)
		}
		if t, ok := s.vtref[f.Name]; ok {
			return s.calleeOfFuncValue(t, "param:"+f.Name, fun)
		}
		if d, ok := s.pkg.funcs[f.Name]; ok {
			return callee{name: s.pkg.rel + "." + f.Name, decl: d, pkg: s.pkg, path: s.path}
		}
		if builtins[f.Name] {
			return callee{name: "builtin:" + f.Name}
		}
		if basicTypes[f.Name] {
			return callee{name: "builtin:conv"}
		}
		if _, ok := s.pkg.types[f.Name]; ok {
			return callee{name: "builtin:conv"}
		}
		return s.unresolved(fun)
	case *ast.SelectorExpr:
		if id, ok := f.X.(*ast.Ident); ok {
			_, isVar := s.vars[id.Name]
			_, isT := s.vtref[id.Name]
			_, isLit := s.lits[id.Name]
			if !isVar && !isT && !isLit {
				if ip, ok := s.imp[id.Name]; ok {
					if s.w.inModule(ip) {
						q := s.w.load(ip)
						if q != nil {
							if d, ok := q.funcs[f.Sel.Name]; ok {
								return callee{name: q.rel + "." + f.Sel.Name, decl: d, pkg: q, path: ip}
							}
							if _, ok := q.types[f.Sel.Name]; ok {
								return callee{name: "builtin:conv"}
							}
							// package-level variable holding a function (rpc.NewService = core.NewService)
							return callee{name: "?" + q.rel + "." + f.Sel.Name}
						}
					}
					return callee{name: "ext:" + id.Name + "." + f.Sel.Name}
				}
			}
		}
		base := s.typeOf(f.X)
		return s.methodOf(base, f.Sel.Name, fun, 0)
	case *ast.TypeAssertExpr:
		if f.Type != nil {
			t := s.w.typeFromExpr(f.Type, s.path, s.pkg, s.imp)
			return s.calleeOfFuncValue(t, "?"+srcText(s.pkg.fset, fun), fun)
		}
	case *ast.CallExpr:
		// f(...)(...) : result of a call used as a function
		t := s.typeOf(f)
		return s.calleeOfFuncValue(t, "?"+srcText(s.pkg.fset, fun), fun)
	case *ast.ArrayType, *ast.MapType, *ast.ChanType, *ast.StarExpr, *ast.InterfaceType:
		return callee{name: "builtin:conv"}
	}
	return s.unresolved(fun)
}

func (s *fnScope) calleeOfFuncValue(t tref, fallback string, src ast.Expr) callee {
	switch t.kind {
	case "func":
		return callee{name: fallback, sig: t.sig, simp: t.simp, path: t.path}
	case "named":
		decl, p, imp := s.w.declOf(t)
		if ft, ok := decl.(*ast.FuncType); ok && p != nil {
			return callee{name: "dyn:" + p.rel + "." + t.name, sig: ft, simp: imp, path: t.path, pkg: p}
		}
		if decl != nil && p != nil {
			// conversion T(x)
			return callee{name: "builtin:conv"}
		}
	case "ext":
		return callee{name: "ext:" + t.name + "#value"}
	case "extvalue":
		return callee{name: "ext:" + t.name + "#value"}
	case "basic":
		if basicTypes[t.name] {
			return callee{name: "builtin:conv"}
		}
	}
	if strings.HasPrefix(fallback, "?") {
		return callee{name: fallback}
	}
	return s.unresolved(src)
}

func (s *fnScope) methodOf(base tref, name string, src ast.Expr, depth int) callee {
	if depth > 4 {
		return s.unresolved(src)
	}
	switch base.kind {
	case "ext":
		return callee{name: "ext:" + base.name + "." + name}
	case "extvalue":
		return callee{name: "ext:" + base.name + "." + name}
	case "named":
		p := s.w.load(base.path)
		if p == nil {
			return s.unresolved(src)
		}
		if d, ok := p.funcs[base.name+"."+name]; ok {
			return callee{name: p.rel + "." + base.name + "." + name, decl: d, pkg: p, path: base.path}
		}
		decl, _, imp := s.w.declOf(base)
		switch dt := decl.(type) {
		case *ast.InterfaceType:
			for _, m := range dt.Methods.List {
				for _, n := range m.Names {
					if n.Name == name {
						ft, _ := m.Type.(*ast.FuncType)
						return callee{name: "iface:" + p.rel + "." + base.name + "." + name, sig: ft, simp: imp, path: base.path, pkg: p}
					}
				}
			}
			for _, m := range dt.Methods.List {
				if len(m.Names) == 0 {
					et := s.w.typeFromExpr(m.Type, base.path, p, imp)
					if c := s.methodOf(et, name, src, depth+1); !strings.HasPrefix(c.name, "?") {
						return c
					}
				}
			}
		case *ast.StructType:
			for _, f := range dt.Fields.List {
				for _, n := range f.Names {
					if n.Name == name {
						ft := s.w.typeFromExpr(f.Type, base.path, p, imp)
						if ft.kind == "func" {
							return callee{name: "field:" + p.rel + "." + base.name + "." + name, sig: ft.sig, simp: imp, path: base.path, pkg: p}
						}
						return s.calleeOfFuncValue(ft, "?"+srcText(s.pkg.fset, src), src)
					}
				}
			}
			for _, f := range dt.Fields.List {
				if len(f.Names) == 0 {
					et := s.w.typeFromExpr(f.Type, base.path, p, imp)
					if c := s.methodOf(et, name, src, depth+1); !strings.HasPrefix(c.name, "?") {
						return c
					}
				}
			}
		default:
			if decl != nil {
				u := s.w.typeFromExpr(decl, base.path, p, imp)
				if u.kind == "ext" {
					return callee{name: "ext:" + u.name + "." + name}
				}
			}
		}
	}
	return s.unresolved(src)
}

// resultType: type of the idx-th result of a call to c
func (s *fnScope) resultType(c callee, idx int) tref {
	var ft *ast.FuncType
	var p *pkgInfo
	var imp map[string]string
	path := c.path
	switch {
	case c.decl != nil:
		ft, p = c.decl.Type, c.pkg
		imp = p.imports[p.fileOf[c.decl]]
	case c.lit != nil:
		ft, p, imp = c.lit.Type, s.pkg, s.imp
		path = s.path
	case c.sig != nil:
		ft, imp = c.sig, c.simp
		p = s.w.load(c.path)
	default:
		if strings.HasPrefix(c.name, "ext:") {
			return tref{kind: "extvalue", name: strings.TrimPrefix(c.name, "ext:") + "()"}
		}
		return unknownT
	}
	if ft.Results == nil {
		return unknownT
	}
	i := 0
	for _, f := range ft.Results.List {
		n := len(f.Names)
		if n == 0 {
			n = 1
		}
		if idx < i+n {
			return s.w.typeFromExpr(f.Type, path, p, imp)
		}
		i += n
	}
	return unknownT
}
