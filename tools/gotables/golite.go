// golite.go: T2 translator (DESIGN.md 2.2).  Translates a deliberately tiny, pure subset of Go
// - integer/byte/bool locals, fixed byte arrays, read-only strings/byte slices, if/switch with
// init statements, counted `for i := lo; i < hi; i++` loops, condition-only `for c {}` loops,
// named results and early returns - into shallow Gallina (coq/Gen/GoFuncs.v).  The functions
// listed in goliteTargets are the ones whose exact arithmetic IS a property (frame headers,
// utf16Length, gcd).  Proofs/GoFuncsProofs.v proves each generated definition equal to the
// hand-written model the property theorems are about; a change to the Go function changes the
// generated definition and the refinement lemma either still goes through or breaks.
//
// Semantics decisions taken HERE (trusted, listed in DESIGN section 7):
//   * every Go integer type is Z without wrap-around (the target functions stay inside their
//     width on the inputs the theorems quantify over); byte(e) is reduction mod 256 (zb);
//     int(b)/uint32(b) of a byte is bz.  + - * << on byte-typed operands are rejected.
//   * x[i] on a string or slice is bounds-checked: the read is hoisted in front of the statement
//     as `match ixo x i with Some t => ... | None => <panic> end`; an index inside the right
//     operand of && or || is rejected (hoisting would change when the panic happens).
//     x[k] with a constant k inside a fixed array is statically in range (Go refuses to
//     compile otherwise) and becomes `ix x k`.
//   * an `if`/`switch` without else continues with a copy of the statements that follow it.
//   * `%` is Z.rem, `/` is Z.quot (Go truncates), `>>` is Z.shiftr, `&` Z.land, `|` Z.lor.
//   * sync/atomic on an int64 cell (a *int64 parameter, or a field of the receiver passed as &lb.f): the cell is a
//     Z threaded through the function and returned as an extra last result; AddInt64 / LoadInt64 / StoreInt64 /
//     CompareAndSwapInt64 are their SEQUENTIAL meaning (one caller).  What interleaved callers do is the subject of
//     the LTS models, whose atomic steps these functions are proved to compose (Proofs/GoFuncsAtomicProofs.v).
// Anything else makes the function Untranslatable: the generated file then lacks the
// definition and the refinement file fails to compile (fail closed).
package main

import (
	"fmt"
	"go/ast"
	"go/parser"
	"go/token"
	"path/filepath"
	"sort"
	"strconv"
	"strings"
)

type goliteTarget struct {
	File string // relative to repo
	Func string
	Name string // Coq name
}

var goliteTargets = []goliteTarget{
	{"rpc/socket/common.go", "makeHeader", "socket_makeHeader"},
	{"rpc/socket/common.go", "parseHeader", "socket_parseHeader"},
	{"rpc/udp/common.go", "makeHeader", "udp_makeHeader"},
	{"rpc/udp/common.go", "parseHeader", "udp_parseHeader"},
	{"rpc/websocket/common.go", "makeHeader", "ws_makeHeader"},
	{"rpc/websocket/common.go", "parseHeader", "ws_parseHeader"},
	{"io/encode.go", "utf16Length", "io_utf16Length"},
	{"rpc/plugins/cluster/cluster.go", "getIndex", "cluster_getIndex"},
	{"rpc/plugins/loadbalance/round_robin_loadbalance.go", "RoundRobinLoadBalance.getIndex", "rr_getIndex"},
	{"rpc/plugins/loadbalance/int_slice.go", "gcd", "lb_gcd"},
}

type glType struct {
	kind string // "int", "byte", "bool", "bytes" (string or []byte), "array"
	n    int    // array length
}

func (t glType) coq() string {
	switch t.kind {
	case "int":
		return "Z"
	case "byte":
		return "byte"
	case "bool":
		return "bool"
	case "cell":
		return "Z"
	default:
		return "list byte"
	}
}

type glErr struct{ msg string }

func glFail(format string, a ...interface{}) { panic(glErr{fmt.Sprintf(format, a...)}) }

type glCtx struct {
	fset    *token.FileSet
	env     map[string]glType
	results []string // named results in order
	resTys  []glType
	inLoop  bool
	loopSt  []string // state variables of the innermost loop
	tmp     int
	fuel    bool
	hoist   []string // pending `match ixo ...` openers for the statement being translated
	cells   []string // atomic int64 cells (pointer parameters, receiver fields), in order of first appearance
	recv    string   // receiver name of a method
}

// cellOf: the cell an atomic operation's first argument denotes ("index" for a *int64 parameter, "lb_index" for &lb.index)
func (c *glCtx) cellOf(e ast.Expr) string {
	name := ""
	switch t := e.(type) {
	case *ast.Ident:
		if ty, ok := c.env[t.Name]; ok && ty.kind == "cell" {
			name = t.Name
		}
	case *ast.UnaryExpr:
		if t.Op == token.AND {
			if sel, ok := t.X.(*ast.SelectorExpr); ok {
				if r, ok := sel.X.(*ast.Ident); ok && r.Name == c.recv && c.recv != "" {
					name = r.Name + "_" + sel.Sel.Name
					if _, known := c.env[name]; !known {
						c.env[name] = glType{kind: "cell"}
						c.cells = append(c.cells, name)
					}
				}
			}
		}
	}
	if name == "" {
		glFail("atomic operation on something that is not a *int64 parameter or a receiver field: %s", c.src(e))
	}
	return name
}

func cellVar(name string) string { return name + "_cell" }

// atomicCall: (hoisted prefix, Z-valued or bool-valued result term) of a sync/atomic call; ok=false if e is not one
func (c *glCtx) atomicCall(e ast.Expr) (string, bool) {
	call, ok := e.(*ast.CallExpr)
	if !ok {
		return "", false
	}
	sel, ok := call.Fun.(*ast.SelectorExpr)
	if !ok {
		return "", false
	}
	p, ok := sel.X.(*ast.Ident)
	if !ok || p.Name != "atomic" {
		return "", false
	}
	switch sel.Sel.Name {
	case "AddInt64":
		cell := cellVar(c.cellOf(call.Args[0]))
		d := c.trZ(call.Args[1], true)
		c.hoist = append(c.hoist, fmt.Sprintf("let %s := (%s + %s) in", cell, cell, d))
		c.tmp++
		t := fmt.Sprintf("t%d", c.tmp)
		c.hoist = append(c.hoist, fmt.Sprintf("let %s := %s in", t, cell))
		return t, true
	case "LoadInt64":
		cell := cellVar(c.cellOf(call.Args[0]))
		c.tmp++
		t := fmt.Sprintf("t%d", c.tmp)
		c.hoist = append(c.hoist, fmt.Sprintf("let %s := %s in", t, cell))
		return t, true
	case "StoreInt64":
		cell := cellVar(c.cellOf(call.Args[0]))
		v := c.trZ(call.Args[1], true)
		c.hoist = append(c.hoist, fmt.Sprintf("let %s := %s in", cell, v))
		return "tt", true
	case "CompareAndSwapInt64":
		cell := cellVar(c.cellOf(call.Args[0]))
		o, n := c.trZ(call.Args[1], true), c.trZ(call.Args[2], true)
		c.tmp++
		t := fmt.Sprintf("t%d", c.tmp)
		c.hoist = append(c.hoist, fmt.Sprintf("let %s := (%s =? %s) in let %s := (if %s then %s else %s) in", t, cell, o, cell, t, n, cell))
		return t, true
	}
	glFail("unsupported sync/atomic function %s", sel.Sel.Name)
	return "", false
}

func (c *glCtx) ret() string {
	if c.inLoop {
		return "LRet"
	}
	return "GRet"
}
func (c *glCtx) panicTerm() string {
	if c.inLoop {
		return "LPanic"
	}
	return "GPanic"
}

func glTypeOf(e ast.Expr) glType {
	switch t := e.(type) {
	case *ast.Ident:
		switch t.Name {
		case "int", "int64", "int32", "uint32", "uint64", "uint", "int16", "uint16":
			return glType{kind: "int"}
		case "byte", "uint8":
			return glType{kind: "byte"}
		case "bool":
			return glType{kind: "bool"}
		case "string":
			return glType{kind: "bytes"}
		}
	case *ast.StarExpr:
		if id, ok := t.X.(*ast.Ident); ok && id.Name == "int64" {
			return glType{kind: "cell"}
		}
	case *ast.ArrayType:
		if id, ok := t.Elt.(*ast.Ident); ok && (id.Name == "byte" || id.Name == "uint8") {
			if t.Len == nil {
				return glType{kind: "bytes"}
			}
			if bl, ok := t.Len.(*ast.BasicLit); ok {
				n, err := strconv.Atoi(bl.Value)
				if err == nil {
					return glType{kind: "array", n: n}
				}
			}
		}
	}
	glFail("unsupported type %T", e)
	return glType{}
}

func coqIdent(s string) string {
	switch s {
	case "length", "index", "header", "ok", "crc", "str", "x", "y", "n", "c", "i", "a", "b":
		return s
	}
	return s + "_"
}

func glConst(e ast.Expr) (int64, bool) {
	switch t := e.(type) {
	case *ast.BasicLit:
		if t.Kind == token.INT {
			v, err := strconv.ParseInt(t.Value, 0, 64)
			if err == nil {
				return v, true
			}
		}
	case *ast.ParenExpr:
		return glConst(t.X)
	case *ast.UnaryExpr:
		if t.Op == token.SUB {
			if v, ok := glConst(t.X); ok {
				return -v, true
			}
		}
	}
	return 0, false
}

func zlit(v int64) string {
	if v < 0 {
		return fmt.Sprintf("(%d)", v)
	}
	return fmt.Sprintf("%d", v)
}

// typeOf: the Go type class of an expression.
func (c *glCtx) typeOf(e ast.Expr) glType {
	switch t := e.(type) {
	case *ast.BasicLit:
		return glType{kind: "int"}
	case *ast.Ident:
		if t.Name == "true" || t.Name == "false" {
			return glType{kind: "bool"}
		}
		if ty, ok := c.env[t.Name]; ok {
			return ty
		}
		glFail("unknown identifier %s", t.Name)
	case *ast.ParenExpr:
		return c.typeOf(t.X)
	case *ast.UnaryExpr:
		if t.Op == token.NOT {
			return glType{kind: "bool"}
		}
		return c.typeOf(t.X)
	case *ast.BinaryExpr:
		switch t.Op {
		case token.EQL, token.NEQ, token.LSS, token.GTR, token.LEQ, token.GEQ, token.LAND, token.LOR:
			return glType{kind: "bool"}
		case token.SHL, token.SHR:
			return c.typeOf(t.X)
		}
		if _, isc := glConst(t.X); isc {
			return c.typeOf(t.Y)
		}
		return c.typeOf(t.X)
	case *ast.IndexExpr:
		return glType{kind: "byte"}
	case *ast.SliceExpr:
		return glType{kind: "bytes"}
	case *ast.CallExpr:
		if id, ok := t.Fun.(*ast.Ident); ok {
			switch id.Name {
			case "len":
				return glType{kind: "int"}
			case "byte", "uint8":
				return glType{kind: "byte"}
			case "int", "int64", "int32", "uint32", "uint64", "uint":
				return glType{kind: "int"}
			}
		}
		if sel, ok := t.Fun.(*ast.SelectorExpr); ok {
			if p, ok := sel.X.(*ast.Ident); ok && p.Name == "crc32" && sel.Sel.Name == "ChecksumIEEE" {
				return glType{kind: "int"}
			}
			if p, ok := sel.X.(*ast.Ident); ok && p.Name == "atomic" {
				if sel.Sel.Name == "CompareAndSwapInt64" {
					return glType{kind: "bool"}
				}
				return glType{kind: "int"}
			}
		}
	}
	glFail("cannot type expression %T", e)
	return glType{}
}

// trIndex: a byte-valued Coq term for x[i]; bounds-checked reads are hoisted.
func (c *glCtx) trIndex(t *ast.IndexExpr, noHoist bool) string {
	id, ok := t.X.(*ast.Ident)
	if !ok {
		glFail("index base is not an identifier")
	}
	ty := c.env[id.Name]
	if ty.kind == "array" {
		k, isc := glConst(t.Index)
		if !isc || k < 0 || int(k) >= ty.n {
			glFail("array index is not a constant in range")
		}
		return fmt.Sprintf("(ix %s %s)", coqIdent(id.Name), zlit(k))
	}
	if ty.kind != "bytes" {
		glFail("index into %s", ty.kind)
	}
	if noHoist {
		glFail("bounds-checked read inside the right operand of && or ||")
	}
	c.tmp++
	name := fmt.Sprintf("t%d", c.tmp)
	c.hoist = append(c.hoist, fmt.Sprintf("match ixo %s %s with None => %s | Some %s =>", coqIdent(id.Name), c.trZ(t.Index, noHoist), c.panicTerm(), name))
	return name
}

// trB: byte-valued term of a byte-typed expression.
func (c *glCtx) trB(e ast.Expr, noHoist bool) string {
	switch t := e.(type) {
	case *ast.ParenExpr:
		return c.trB(t.X, noHoist)
	case *ast.Ident:
		return coqIdent(t.Name)
	case *ast.IndexExpr:
		return c.trIndex(t, noHoist)
	case *ast.CallExpr:
		if id, ok := t.Fun.(*ast.Ident); ok && (id.Name == "byte" || id.Name == "uint8") && len(t.Args) == 1 {
			if c.typeOf(t.Args[0]).kind == "byte" {
				return c.trB(t.Args[0], noHoist)
			}
			return "(zb " + c.trZ(t.Args[0], noHoist) + ")"
		}
	}
	return "(zb " + c.trZ(e, noHoist) + ")"
}

// trZ: Z-valued term of an integer- or byte-typed expression.
func (c *glCtx) trZ(e ast.Expr, noHoist bool) string {
	if v, ok := glConst(e); ok {
		return zlit(v)
	}
	switch t := e.(type) {
	case *ast.ParenExpr:
		return c.trZ(t.X, noHoist)
	case *ast.Ident:
		ty, ok := c.env[t.Name]
		if !ok {
			glFail("unknown identifier %s", t.Name)
		}
		if ty.kind == "byte" {
			return "(bz " + coqIdent(t.Name) + ")"
		}
		if ty.kind != "int" {
			glFail("%s is not an integer", t.Name)
		}
		return coqIdent(t.Name)
	case *ast.IndexExpr:
		return "(bz " + c.trIndex(t, noHoist) + ")"
	case *ast.UnaryExpr:
		if t.Op == token.SUB {
			return "(- " + c.trZ(t.X, noHoist) + ")"
		}
	case *ast.BinaryExpr:
		isByte := c.typeOf(e).kind == "byte"
		x, y := c.trZ(t.X, noHoist), c.trZ(t.Y, noHoist)
		switch t.Op {
		case token.AND:
			return fmt.Sprintf("(Z.land %s %s)", x, y)
		case token.OR:
			return fmt.Sprintf("(Z.lor %s %s)", x, y)
		case token.XOR:
			return fmt.Sprintf("(Z.lxor %s %s)", x, y)
		case token.SHR:
			return fmt.Sprintf("(Z.shiftr %s %s)", x, y)
		}
		if isByte {
			glFail("arithmetic %s on byte operands (wrap-around not modelled)", t.Op)
		}
		switch t.Op {
		case token.SHL:
			return fmt.Sprintf("(Z.shiftl %s %s)", x, y)
		case token.ADD:
			return fmt.Sprintf("(%s + %s)", x, y)
		case token.SUB:
			return fmt.Sprintf("(%s - %s)", x, y)
		case token.MUL:
			return fmt.Sprintf("(%s * %s)", x, y)
		case token.REM:
			return fmt.Sprintf("(Z.rem %s %s)", x, y)
		case token.QUO:
			return fmt.Sprintf("(Z.quot %s %s)", x, y)
		}
	case *ast.CallExpr:
		if v, ok := c.atomicCall(t); ok {
			if noHoist {
				glFail("atomic operation inside the right operand of && or ||")
			}
			return v
		}
		if id, ok := t.Fun.(*ast.Ident); ok && len(t.Args) == 1 {
			switch id.Name {
			case "len":
				a, ok := t.Args[0].(*ast.Ident)
				if !ok {
					glFail("len of a non-identifier")
				}
				return "(Z.of_nat (List.length " + coqIdent(a.Name) + "))"
			case "int", "int64", "int32", "uint32", "uint64", "uint":
				// int(b) of a byte-typed b: & | ^ >> on bytes cannot leave 0..255, so the Z term is exact
				return c.trZ(t.Args[0], noHoist)
			case "byte", "uint8":
				return "(bz " + c.trB(e, noHoist) + ")"
			}
		}
		if sel, ok := t.Fun.(*ast.SelectorExpr); ok && len(t.Args) == 1 {
			if p, ok := sel.X.(*ast.Ident); ok && p.Name == "crc32" && sel.Sel.Name == "ChecksumIEEE" {
				return "(Z.of_N (crc32 " + c.trBytes(t.Args[0]) + "))"
			}
		}
	}
	glFail("unsupported integer expression %s", c.src(e))
	return ""
}

func (c *glCtx) trBytes(e ast.Expr) string {
	switch t := e.(type) {
	case *ast.Ident:
		if k := c.env[t.Name].kind; k == "bytes" || k == "array" {
			return coqIdent(t.Name)
		}
	case *ast.SliceExpr:
		id, ok := t.X.(*ast.Ident)
		if ok && t.High == nil && t.Max == nil && t.Low != nil {
			ty := c.env[id.Name]
			if k, isc := glConst(t.Low); isc && k >= 0 && (ty.kind == "array" && int(k) <= ty.n) {
				return fmt.Sprintf("(skipn %d %s)", k, coqIdent(id.Name))
			}
			if k, isc := glConst(t.Low); isc && k >= 0 && ty.kind == "bytes" {
				// x[k:] on a slice panics when k > len(x)
				c.hoist = append(c.hoist, fmt.Sprintf("if (Z.of_nat (List.length %s) <? %d) then %s else", coqIdent(id.Name), k, c.panicTerm()))
				return fmt.Sprintf("(skipn %d %s)", k, coqIdent(id.Name))
			}
		}
	}
	glFail("unsupported byte-sequence expression %s", c.src(e))
	return ""
}

func (c *glCtx) trBool(e ast.Expr, noHoist bool) string {
	if call, ok := e.(*ast.CallExpr); ok {
		if v, ok := c.atomicCall(call); ok {
			if noHoist {
				glFail("atomic operation inside the right operand of && or ||")
			}
			return v
		}
	}
	switch t := e.(type) {
	case *ast.ParenExpr:
		return c.trBool(t.X, noHoist)
	case *ast.Ident:
		if t.Name == "true" || t.Name == "false" {
			return t.Name
		}
		if c.env[t.Name].kind == "bool" {
			return coqIdent(t.Name)
		}
	case *ast.UnaryExpr:
		if t.Op == token.NOT {
			return "(negb " + c.trBool(t.X, noHoist) + ")"
		}
	case *ast.BinaryExpr:
		switch t.Op {
		case token.LAND:
			return fmt.Sprintf("(%s && %s)", c.trBool(t.X, noHoist), c.trBool(t.Y, true))
		case token.LOR:
			return fmt.Sprintf("(%s || %s)", c.trBool(t.X, noHoist), c.trBool(t.Y, true))
		}
		if c.typeOf(t.X).kind == "bool" {
			glFail("comparison of booleans")
		}
		x, y := c.trZ(t.X, noHoist), c.trZ(t.Y, noHoist)
		switch t.Op {
		case token.EQL:
			return fmt.Sprintf("(%s =? %s)", x, y)
		case token.NEQ:
			return fmt.Sprintf("(negb (%s =? %s))", x, y)
		case token.LSS:
			return fmt.Sprintf("(%s <? %s)", x, y)
		case token.GTR:
			return fmt.Sprintf("(%s <? %s)", y, x)
		case token.LEQ:
			return fmt.Sprintf("(%s <=? %s)", x, y)
		case token.GEQ:
			return fmt.Sprintf("(%s <=? %s)", y, x)
		}
	}
	glFail("unsupported boolean expression %s", c.src(e))
	return ""
}

func (c *glCtx) src(n ast.Node) string { return srcText(c.fset, n) }

// trVal: a term of the Coq type of ty for expression e.
func (c *glCtx) trVal(e ast.Expr, ty glType) string {
	switch ty.kind {
	case "int":
		return c.trZ(e, false)
	case "byte":
		return c.trB(e, false)
	case "bool":
		return c.trBool(e, false)
	}
	return c.trBytes(e)
}

func (c *glCtx) flush() string {
	s := strings.Join(c.hoist, " ")
	c.hoist = nil
	if s != "" {
		s += " "
	}
	return s
}

// closers for the hoisted matches opened by flush: each `match ... with None => P | Some t =>` needs ` end`.
func hoistClosers(opened string) string {
	return strings.Repeat(" end", strings.Count(opened, "match ixo"))
}

// withCells: the function's results followed by the final values of its atomic cells
func (c *glCtx) withCells(parts []string) string {
	for _, cell := range c.cellsAll() {
		parts = append(parts, cellVar(cell))
	}
	if len(parts) == 1 {
		return parts[0]
	}
	return "(" + strings.Join(parts, ", ") + ")"
}

func (c *glCtx) cellsAll() []string { return c.cells }

func (c *glCtx) tupleOf(names []string) string {
	if len(names) == 0 {
		return "tt"
	}
	parts := make([]string, len(names))
	for i, n := range names {
		parts[i] = coqIdent(n)
	}
	if len(parts) == 1 {
		return parts[0]
	}
	return "(" + strings.Join(parts, ", ") + ")"
}

func (c *glCtx) fallthroughTerm() string {
	if c.inLoop {
		return "LNext " + c.tupleOf(c.loopSt)
	}
	if len(c.results) == 0 {
		glFail("control reaches the end of a function without named results")
	}
	return "GRet " + c.resultTerm(nil)
}

// resultTerm: the returned values (nil: the named results) followed by the atomic cells
func (c *glCtx) resultTerm(parts []string) string {
	if parts == nil {
		for _, n := range c.results {
			parts = append(parts, coqIdent(n))
		}
	}
	if len(c.cells) > 0 && c.inLoop {
		glFail("return inside a loop of a function with atomic cells")
	}
	return c.withCells(parts)
}

func (c *glCtx) declare(name string, ty glType, nested bool) {
	if _, exists := c.env[name]; exists && nested {
		glFail("%s redeclared in a nested block (shadowing is not supported)", name)
	}
	c.env[name] = ty
}

func assignedVars(n ast.Node, out map[string]bool) {
	ast.Inspect(n, func(x ast.Node) bool {
		switch t := x.(type) {
		case *ast.AssignStmt:
			if t.Tok != token.DEFINE {
				for _, l := range t.Lhs {
					switch lv := l.(type) {
					case *ast.Ident:
						out[lv.Name] = true
					case *ast.IndexExpr:
						if id, ok := lv.X.(*ast.Ident); ok {
							out[id.Name] = true
						}
					}
				}
			}
		case *ast.IncDecStmt:
			if id, ok := t.X.(*ast.Ident); ok {
				out[id.Name] = true
			}
		}
		return true
	})
}

// trStmts: the term for "execute stmts, then continue with rest".  depth > 0 inside nested blocks.
func (c *glCtx) trStmts(stmts []ast.Stmt, depth int) string {
	if len(stmts) == 0 {
		return c.fallthroughTerm()
	}
	s, rest := stmts[0], stmts[1:]
	switch t := s.(type) {
	case *ast.ReturnStmt:
		if len(t.Results) == 0 {
			if len(c.results) == 0 {
				glFail("bare return without named results")
			}
			return c.ret() + " " + c.resultTerm(nil)
		}
		if len(t.Results) != len(c.resTys) {
			glFail("return arity")
		}
		parts := make([]string, len(t.Results))
		for i, r := range t.Results {
			parts[i] = c.trVal(r, c.resTys[i])
		}
		h := c.flush()
		body := c.resultTerm(parts)
		return h + c.ret() + " " + body + hoistClosers(h)
	case *ast.DeclStmt:
		gd, ok := t.Decl.(*ast.GenDecl)
		if !ok || gd.Tok != token.VAR {
			glFail("unsupported declaration")
		}
		out := ""
		for _, sp := range gd.Specs {
			vs := sp.(*ast.ValueSpec)
			if len(vs.Values) != 0 || vs.Type == nil {
				glFail("var with initialiser")
			}
			ty := glTypeOf(vs.Type)
			for _, n := range vs.Names {
				c.declare(n.Name, ty, depth > 0)
				out += fmt.Sprintf("let %s := %s in\n  ", coqIdent(n.Name), zeroOf(ty))
			}
		}
		return out + c.trStmts(rest, depth)
	case *ast.IncDecStmt:
		id, ok := t.X.(*ast.Ident)
		if !ok || c.env[id.Name].kind != "int" {
			glFail("++/-- on a non-integer variable")
		}
		op := "+"
		if t.Tok == token.DEC {
			op = "-"
		}
		n := coqIdent(id.Name)
		return fmt.Sprintf("let %s := (%s %s 1) in\n  ", n, n, op) + c.trStmts(rest, depth)
	case *ast.AssignStmt:
		pre, suf := c.trAssign(t, depth)
		return pre + c.trStmts(rest, depth) + suf
	case *ast.BlockStmt:
		return c.trStmts(append(append([]ast.Stmt{}, t.List...), rest...), depth)
	case *ast.IfStmt:
		out, outSuf := "", ""
		if t.Init != nil {
			as, ok := t.Init.(*ast.AssignStmt)
			if !ok {
				glFail("unsupported if-init")
			}
			out, outSuf = c.trAssign(as, depth+1)
		}
		cond := c.trBool(t.Cond, false)
		h := c.flush()
		thenT := c.withScope(func() string { return c.trStmts(append(append([]ast.Stmt{}, t.Body.List...), rest...), depth+1) })
		var elseStmts []ast.Stmt
		switch e := t.Else.(type) {
		case nil:
		case *ast.BlockStmt:
			elseStmts = e.List
		case *ast.IfStmt:
			elseStmts = []ast.Stmt{e}
		default:
			glFail("unsupported else")
		}
		elseT := c.withScope(func() string { return c.trStmts(append(append([]ast.Stmt{}, elseStmts...), rest...), depth+1) })
		return out + h + fmt.Sprintf("(if %s\n   then (%s)\n   else (%s))", cond, thenT, elseT) + hoistClosers(h) + outSuf
	case *ast.SwitchStmt:
		if t.Tag != nil || t.Init != nil {
			glFail("switch with tag or init")
		}
		// rewrite as an if chain
		var chain ast.Stmt
		var def []ast.Stmt
		hasDef := false
		var clauses []*ast.CaseClause
		for _, cl := range t.Body.List {
			cc := cl.(*ast.CaseClause)
			for _, b := range cc.Body {
				if br, ok := b.(*ast.BranchStmt); ok {
					glFail("%s inside switch", br.Tok)
				}
			}
			if cc.List == nil {
				hasDef = true
				def = cc.Body
				continue
			}
			if len(cc.List) != 1 {
				glFail("case with several expressions")
			}
			clauses = append(clauses, cc)
		}
		var elseS ast.Stmt
		if hasDef {
			elseS = &ast.BlockStmt{List: def}
		}
		for i := len(clauses) - 1; i >= 0; i-- {
			ifs := &ast.IfStmt{Cond: clauses[i].List[0], Body: &ast.BlockStmt{List: clauses[i].Body}, Else: elseS}
			elseS = ifs
			chain = ifs
		}
		if chain == nil {
			return c.trStmts(append(append([]ast.Stmt{}, def...), rest...), depth)
		}
		return c.trStmts(append([]ast.Stmt{chain}, rest...), depth)
	case *ast.ForStmt:
		return c.trFor(t, rest, depth)
	case *ast.ExprStmt:
		if _, ok := c.atomicCall(t.X); ok {
			h := c.flush()
			return h + "\n  " + c.trStmts(rest, depth) + hoistClosers(h)
		}
	}
	glFail("unsupported statement %T", s)
	return ""
}

func (c *glCtx) withScope(f func() string) string {
	saved := map[string]glType{}
	for k, v := range c.env {
		saved[k] = v
	}
	savedTmp := c.tmp
	r := f()
	c.env = saved
	_ = savedTmp
	return r
}

func zeroOf(ty glType) string {
	switch ty.kind {
	case "int":
		return "0"
	case "byte":
		return "x00"
	case "bool":
		return "false"
	case "array":
		return fmt.Sprintf("(repeat x00 %d)", ty.n)
	}
	return "[]"
}

func (c *glCtx) trAssign(t *ast.AssignStmt, depth int) (string, string) {
	switch t.Tok {
	case token.ASSIGN, token.DEFINE:
		if len(t.Lhs) != len(t.Rhs) {
			glFail("assignment arity")
		}
		if len(t.Lhs) == 1 {
			if ie, ok := t.Lhs[0].(*ast.IndexExpr); ok {
				id, ok := ie.X.(*ast.Ident)
				if !ok || c.env[id.Name].kind != "array" {
					glFail("store into a non-array")
				}
				k, isc := glConst(ie.Index)
				if !isc || k < 0 || int(k) >= c.env[id.Name].n {
					glFail("array store index not a constant in range")
				}
				v := c.trB(t.Rhs[0], false)
				h := c.flush()
				if h != "" {
					glFail("bounds-checked read on the right of an array store")
				}
				n := coqIdent(id.Name)
				return fmt.Sprintf("let %s := upd %s %d %s in\n  ", n, n, k, v), ""
			}
		}
		names := make([]string, len(t.Lhs))
		vals := make([]string, len(t.Lhs))
		tys := make([]glType, len(t.Lhs))
		for i, l := range t.Lhs {
			id, ok := l.(*ast.Ident)
			if !ok {
				glFail("unsupported assignment target")
			}
			names[i] = id.Name
			if t.Tok == token.DEFINE {
				tys[i] = c.typeOf(t.Rhs[i])
			} else {
				ty, ok := c.env[id.Name]
				if !ok {
					glFail("assignment to undeclared %s", id.Name)
				}
				tys[i] = ty
			}
			vals[i] = c.trVal(t.Rhs[i], tys[i])
		}
		h := c.flush()
		if t.Tok == token.DEFINE {
			for i, n := range names {
				c.declare(n, tys[i], depth > 0)
			}
		}
		if h != "" && len(names) > 1 {
			glFail("bounds-checked read in a parallel assignment")
		}
		if len(names) == 1 {
			// a bounds-checked read stays outermost: match ixo .. with None => panic | Some t => let x := t in REST end
			return h + fmt.Sprintf("let %s := %s in\n  ", coqIdent(names[0]), vals[0]), hoistClosers(h)
		}
		ids := make([]string, len(names))
		for i, n := range names {
			ids[i] = coqIdent(n)
		}
		return fmt.Sprintf("let '(%s) := (%s) in\n  ", strings.Join(ids, ", "), strings.Join(vals, ", ")), ""
	case token.AND_ASSIGN, token.OR_ASSIGN, token.ADD_ASSIGN, token.SUB_ASSIGN:
		id, ok := t.Lhs[0].(*ast.Ident)
		if !ok || c.env[id.Name].kind != "int" {
			glFail("compound assignment to a non-integer variable")
		}
		n := coqIdent(id.Name)
		y := c.trZ(t.Rhs[0], false)
		if h := c.flush(); h != "" {
			glFail("bounds-checked read in a compound assignment")
		}
		switch t.Tok {
		case token.AND_ASSIGN:
			return fmt.Sprintf("let %s := (Z.land %s %s) in\n  ", n, n, y), ""
		case token.OR_ASSIGN:
			return fmt.Sprintf("let %s := (Z.lor %s %s) in\n  ", n, n, y), ""
		case token.ADD_ASSIGN:
			return fmt.Sprintf("let %s := (%s + %s) in\n  ", n, n, y), ""
		default:
			return fmt.Sprintf("let %s := (%s - %s) in\n  ", n, n, y), ""
		}
	}
	glFail("unsupported assignment operator %s", t.Tok)
	return "", ""
}

func identsIn(e ast.Expr, out map[string]bool) {
	ast.Inspect(e, func(x ast.Node) bool {
		if id, ok := x.(*ast.Ident); ok {
			out[id.Name] = true
		}
		return true
	})
}

func (c *glCtx) statePattern(st []string) string {
	if len(st) == 0 {
		return "let _ := st in"
	}
	if len(st) == 1 {
		return fmt.Sprintf("let %s := st in", coqIdent(st[0]))
	}
	ids := make([]string, len(st))
	for i, n := range st {
		ids[i] = coqIdent(n)
	}
	return fmt.Sprintf("let '(%s) := st in", strings.Join(ids, ", "))
}

func (c *glCtx) trFor(t *ast.ForStmt, rest []ast.Stmt, depth int) string {
	if c.inLoop {
		glFail("nested loops")
	}
	ast.Inspect(t.Body, func(x ast.Node) bool {
		if br, ok := x.(*ast.BranchStmt); ok {
			glFail("%s inside a loop", br.Tok)
		}
		return true
	})
	assigned := map[string]bool{}
	assignedVars(t.Body, assigned)
	var st []string
	for n := range assigned {
		if _, outer := c.env[n]; outer {
			st = append(st, n)
		}
	}
	sort.Strings(st)
	pat := c.statePattern(st)
	after := func() string {
		return fmt.Sprintf("| LNext st => %s\n  %s\n  | LRet r => GRet r\n  | LPanic => GPanic\n  | LFuel => GFuel\n  end", pat, c.trStmts(rest, depth))
	}
	init0 := c.tupleOf(st)
	if t.Init == nil && t.Post == nil && t.Cond != nil {
		// condition-only loop: needs fuel
		c.fuel = true
		cond := c.trBool(t.Cond, true)
		body := c.withScope(func() string {
			c.inLoop, c.loopSt = true, st
			defer func() { c.inLoop, c.loopSt = false, nil }()
			return c.trStmts(t.Body.List, depth+1)
		})
		return fmt.Sprintf("match while_fuel fuel %s (fun st => %s %s) (fun st => %s\n  %s) with\n  %s", init0, pat, cond, pat, body, after())
	}
	// counted loop: for i := lo; i < hi; i++
	as, ok := t.Init.(*ast.AssignStmt)
	if !ok || as.Tok != token.DEFINE || len(as.Lhs) != 1 {
		glFail("unsupported loop header")
	}
	iv := as.Lhs[0].(*ast.Ident).Name
	post, ok := t.Post.(*ast.IncDecStmt)
	if !ok || post.Tok != token.INC || c.src(post.X) != iv {
		glFail("loop post statement is not %s++", iv)
	}
	cond, ok := t.Cond.(*ast.BinaryExpr)
	if !ok || cond.Op != token.LSS || c.src(cond.X) != iv {
		glFail("loop condition is not %s < bound", iv)
	}
	if assigned[iv] {
		glFail("loop variable assigned in the body")
	}
	used := map[string]bool{}
	identsIn(cond.Y, used)
	for n := range used {
		if assigned[n] {
			glFail("loop bound %s is assigned in the body", n)
		}
	}
	lo := c.trZ(as.Rhs[0], true)
	hi := c.trZ(cond.Y, true)
	body := c.withScope(func() string {
		c.declare(iv, glType{kind: "int"}, true)
		c.inLoop, c.loopSt = true, st
		defer func() { c.inLoop, c.loopSt = false, nil }()
		return c.trStmts(t.Body.List, depth+1)
	})
	return fmt.Sprintf("match for_range %s %s %s (fun %s st => %s\n  %s) with\n  %s", lo, hi, init0, coqIdent(iv), pat, body, after())
}

func goliteOne(repo string, tg goliteTarget) (def string, reason string) {
	defer func() {
		if r := recover(); r != nil {
			if ge, ok := r.(glErr); ok {
				def, reason = "", ge.msg
				return
			}
			panic(r)
		}
	}()
	fset := token.NewFileSet()
	f, err := parser.ParseFile(fset, filepath.Join(repo, tg.File), nil, 0)
	if err != nil {
		return "", "parse error: " + err.Error()
	}
	var fd *ast.FuncDecl
	recvType, fname := "", tg.Func
	if i := strings.Index(tg.Func, "."); i >= 0 {
		recvType, fname = tg.Func[:i], tg.Func[i+1:]
	}
	for _, d := range f.Decls {
		x, ok := d.(*ast.FuncDecl)
		if !ok || x.Name.Name != fname {
			continue
		}
		if recvType == "" && x.Recv == nil {
			fd = x
		}
		if recvType != "" && x.Recv != nil && len(x.Recv.List) == 1 {
			rt := x.Recv.List[0].Type
			if st, ok := rt.(*ast.StarExpr); ok {
				rt = st.X
			}
			if id, ok := rt.(*ast.Ident); ok && id.Name == recvType {
				fd = x
			}
		}
	}
	if fd == nil || fd.Body == nil {
		return "", "function not found"
	}
	c := &glCtx{fset: fset, env: map[string]glType{}}
	if fd.Recv != nil && len(fd.Recv.List[0].Names) == 1 {
		c.recv = fd.Recv.List[0].Names[0].Name
	}
	var params []string
	for _, fl := range fd.Type.Params.List {
		ty := glTypeOf(fl.Type)
		for _, n := range fl.Names {
			c.env[n.Name] = ty
			if ty.kind == "cell" {
				c.cells = append(c.cells, n.Name)
				params = append(params, fmt.Sprintf("(%s : Z)", cellVar(n.Name)))
				continue
			}
			params = append(params, fmt.Sprintf("(%s : %s)", coqIdent(n.Name), ty.coq()))
		}
	}
	// receiver fields used as atomic cells become parameters too (found by scanning the body)
	nparamCells := len(c.cells)
	ast.Inspect(fd.Body, func(x ast.Node) bool {
		if call, ok := x.(*ast.CallExpr); ok {
			if sel, ok := call.Fun.(*ast.SelectorExpr); ok {
				if p, ok := sel.X.(*ast.Ident); ok && p.Name == "atomic" && len(call.Args) > 0 {
					c.cellOf(call.Args[0])
				}
			}
		}
		return true
	})
	for _, cell := range c.cells[nparamCells:] {
		params = append(params, fmt.Sprintf("(%s : Z)", cellVar(cell)))
	}
	prologue := ""
	if fd.Type.Results == nil {
		glFail("no results")
	}
	for _, fl := range fd.Type.Results.List {
		ty := glTypeOf(fl.Type)
		if len(fl.Names) == 0 {
			c.resTys = append(c.resTys, ty)
			continue
		}
		for _, n := range fl.Names {
			c.env[n.Name] = ty
			c.results = append(c.results, n.Name)
			c.resTys = append(c.resTys, ty)
			prologue += fmt.Sprintf("let %s := %s in\n  ", coqIdent(n.Name), zeroOf(ty))
		}
	}
	body := c.trStmts(fd.Body.List, 0)
	rts := make([]string, len(c.resTys))
	for i, t := range c.resTys {
		rts[i] = t.coq()
	}
	for range c.cells {
		rts = append(rts, "Z")
	}
	rt := strings.Join(rts, " * ")
	if c.fuel {
		params = append([]string{"(fuel : nat)"}, params...)
	}
	return fmt.Sprintf("(* %s: func %s *)\nDefinition %s %s : gres (%s) :=\n  %s%s.\n", tg.File, tg.Func, tg.Name, strings.Join(params, " "), rt, prologue, body), ""
}

func genGoFuncs(repo string) (string, map[string]interface{}, error) {
	var b strings.Builder
	b.WriteString("(* GENERATED by tools/gotables (golite.go) from the Go sources - do not edit.\n")
	b.WriteString("   Shallow translation of pure Go functions; semantics decisions are listed at the top of\n")
	b.WriteString("   tools/gotables/golite.go.  Proofs/GoFuncsProofs.v proves each definition equal to the\n")
	b.WriteString("   hand-written model used by the property theorems. *)\n")
	b.WriteString("From Coq Require Import List ZArith Strings.Byte Bool.\nFrom HV Require Import Lib.Crc32 Lib.GoLite.\nImport ListNotations.\nLocal Open Scope Z_scope.\nLocal Open Scope bool_scope.\n\n")
	stats := map[string]interface{}{}
	translated, rejected := []string{}, map[string]string{}
	for _, tg := range goliteTargets {
		def, why := goliteOne(repo, tg)
		if why != "" {
			rejected[tg.Name] = why
			b.WriteString(fmt.Sprintf("(* %s: func %s is outside the translated subset: %s *)\nDefinition %s_untranslatable : unit := tt.\n\n", tg.File, tg.Func, strings.ReplaceAll(why, "*)", "* )"), tg.Name))
			continue
		}
		translated = append(translated, tg.Name)
		b.WriteString(def + "\n")
	}
	stats["translated"] = translated
	stats["rejected"] = rejected
	return b.String(), stats, nil
}
