#!/usr/bin/env python3
"""Print the prompt given to an independent 'seeder' sub-agent for one property (nothing from /verif but the property text)."""
import json, sys
pid = sys.argv[1]
wt = sys.argv[2]
n = sys.argv[3] if len(sys.argv) > 3 else "3"
avoid = open(sys.argv[4]).read().strip() if len(sys.argv) > 4 else ""
p = [json.loads(l) for l in open('/verif/properties.jsonl') if l.strip() and json.loads(l)['id'] == pid][0]
print(f"""You are helping to evaluate a verification effort by playing the role of a developer who introduces a subtle regression. You work ONLY inside the scratch git worktree {wt} (a checkout of the Go library hprose/hprose-golang, module github.com/hprose/hprose-golang/v3: a serialization format in io/ plus an RPC framework in rpc/). Do not read or touch /verif or /repo, and do not look for any verification tooling; work only from the property below and the source code in your worktree.

PROPERTY {p['id']} — {p['title']}
Statement: {p['statement']}
Quantified over: {p['quantifier']['text']}
Code it is anchored in: {', '.join(p['anchors']['files'])}

TASK: produce {n} DIFFERENT small changes to the library source (non-test .go files), each of which
 (a) still compiles (`go build ./...`) and still passes the ENTIRE existing test suite unchanged (`flock /tmp/hprose-fulltest.lock go test -p 1 -vet=off -count=1 ./...` (with -p 1: the packages share fixed ports) run from the worktree root — ALWAYS under that flock, because the tests bind fixed TCP/UDP ports and other people run the suite on this machine too; it takes a few minutes; while iterating run only the affected packages' tests, also under the flock; run the full suite for every final candidate; do not edit or add *_test.go files as part of the change),
 (b) makes the property above FALSE, and
 (c) needs something specific to manifest — a particular interleaving, a fault at a particular point, a multi-step sequence of operations, an unusual input or boundary value, a particular configuration, or two cooperating edits that each look fine alone — i.e. NOT something ordinary use or a casual smoke test would expose at once. Prefer realistic mistakes a maintainer could make while refactoring or "optimising" (off-by-one at a boundary, a condition weakened, a state update moved across an early return, a missed case in one of several parallel code paths, a reset that forgets one field, a lock or atomic narrowed, a defer dropped on one path). The changes must be distinct from each other in mechanism and location. Avoid changes that only alter error message text or performance.

For each change i = 1..{n} create the directory {wt}/_out/i/ containing:
  - patch.diff : `git diff` of the library change alone (apply-able with `git apply` at the worktree root on a clean checkout),
  - a demonstration: either demo_test.go (a Go test in the appropriate package, say which directory it must be copied to) or demo/main.go (a small program using the module), which FAILS (test fails / program exits non-zero printing what went wrong) with the change applied and PASSES without it — verify both directions yourself,
  - meta.json : {{"property": "{p['id']}", "summary": "...what was changed...", "needs_to_manifest": "...the specific input/sequence/interleaving/config needed...", "demo": "how to run the demonstration (exact commands, from the worktree root)", "tests_pass": true}}.
After producing each patch, reset the worktree source to clean (`git checkout -- .` ; keep _out/) before starting the next one, so the patches are independent.

Environment: no network. Before go commands: export GOFLAGS=-mod=mod GOPROXY=off GOSUMDB=off GOTOOLCHAIN=local . Go 1.23. Every shell command prints a harmless conda warning line. If a demo needs an extra module file, keep it inside the worktree (e.g. a _test.go in the package directory is simplest). Leave the worktree source clean at the end (only _out/ added). Do not use `git stash` (worktrees share the stash). Report briefly what you produced.""")
if avoid:
    print("\nThese mechanisms were already used by earlier participants; choose DIFFERENT mechanisms and code locations:\n" + avoid)
