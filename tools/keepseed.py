#!/usr/bin/env python3
"""keepseed.py <Cxx> <label> <srcdir> <caught: yes|no|partial> <note...>   -> /verif/seeded/<Cxx>/<label>/"""
import json, os, shutil, sys
pid, label, src, caught = sys.argv[1:5]
note = " ".join(sys.argv[5:])
dst = os.path.join("/verif/seeded", pid, label)
os.makedirs(dst, exist_ok=True)
for f in os.listdir(src):
    if f in ("patch.diff", "meta.json") or f.startswith("demo"):
        p = os.path.join(src, f)
        if os.path.isdir(p):
            shutil.copytree(p, os.path.join(dst, f), dirs_exist_ok=True)
        else:
            shutil.copy(p, os.path.join(dst, f))
m = json.load(open(os.path.join(dst, "meta.json")))
m["breaks_property"] = pid
m["verified_by_lead"] = {"caught_by_check": caught, "what_was_run": "tools/tryseed.sh or tools/confirmseed.sh %s <dir> (scratch worktree of /repo HEAD: demo passes on HEAD and fails with patch.diff, then VERIF_REPO + ./check %s --tier quick)" % (pid, pid), "note": note}
json.dump(m, open(os.path.join(dst, "meta.json"), "w"), indent=1)
print("kept", dst)
