#!/bin/bash
# usage: confirmseed.sh <Cxx> <seed dir> <package dir of the demo> [extra check ids...]
# 1. demo passes on HEAD, 2. fails with patch.diff, 3. ./check Cxx against the changed tree.
set -u
PID=$1; D=$2; PKG=$3; shift 3
export GOFLAGS=-mod=mod GOPROXY=off GOSUMDB=off GOTOOLCHAIN=local
WT=/tmp/wt-try-$$
git -C /repo worktree add -q $WT HEAD || exit 2
trap 'git -C /repo worktree remove --force '$WT' >/dev/null 2>&1' EXIT
cd $WT
TESTS=$(grep -oE '^func (Test[A-Za-z0-9_]+)' $D/demo_test.go | awk '{print $2}' | paste -sd'|')
cp $D/demo_test.go $PKG/zz_seed_demo_test.go
echo "=== $PID $D tests=$TESTS"
timeout 600 go test -vet=off -count=1 -run "^($TESTS)\$" ./$PKG/ > /tmp/confirm-$$.log 2>&1; A=$?
echo "demo on HEAD rc=$A (expect 0)"; [ $A -ne 0 ] && tail -5 /tmp/confirm-$$.log | cut -c1-300
git apply $D/patch.diff || { echo APPLY-FAILED; exit 2; }
go build ./... || { echo BUILD-FAILED; exit 2; }
timeout 600 go test -vet=off -count=1 -run "^($TESTS)\$" ./$PKG/ > /tmp/confirm-$$.log 2>&1; B=$?
echo "demo with change rc=$B (expect non-zero)"; grep -E "^\s+\S+_test.go:[0-9]+:|^--- FAIL|^panic:" /tmp/confirm-$$.log | head -4 | cut -c1-300
rm -f $PKG/zz_seed_demo_test.go /tmp/confirm-$$.log
echo "--- check with change (expect VIOLATION)"
for P in $PID "$@"; do (cd /verif && VERIF_REPO=$WT timeout 2400 ./check $P 2>&1 | grep -E "VIOLATION|RESULT|KNOWN|ENV-ERROR" | cut -c1-300); done
