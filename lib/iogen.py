"""Generator of typed Go values for the io checks (C01-C03...).  All randomness comes from the
rng passed in.  Type descriptors (TD) and value descriptions (VD) are the JSON forms that
harness/cmd/io understands (see desc.go)."""
import json
import struct
import subprocess


def T(k, **kw):
    d = {"k": k}
    d.update(kw)
    return d


def Slice(e): return T("slice", e=e)
def Array(n, e): return T("array", n=n, e=e)
def Map(k, e): return T("map", key=k, e=e)
def Ptr(e): return T("ptr", e=e)
def Reg(name): return T("reg", name=name)
def Anon(fields): return T("anon", fields=[{"n": n, "t": t, "tag": tag, "exp": True} for (n, t, tag) in fields])


IFACE = T("iface")
INTS = ["int", "int8", "int16", "int32", "int64", "uint", "uint8", "uint16", "uint32", "uint64", "uintptr"]
FLOATS = ["float32", "float64"]
BASIC = ["bool"] + INTS + FLOATS + ["string"]
RANGE = {"int": (-2**63, 2**63 - 1), "int8": (-128, 127), "int16": (-2**15, 2**15 - 1), "int32": (-2**31, 2**31 - 1),
         "int64": (-2**63, 2**63 - 1), "uint": (0, 2**64 - 1), "uint8": (0, 255), "uint16": (0, 65535),
         "uint32": (0, 2**32 - 1), "uint64": (0, 2**64 - 1), "uintptr": (0, 2**64 - 1)}


def hx(b):
    return b.hex()


def f64bits(f):
    return "0x%016x" % struct.unpack(">Q", struct.pack(">d", f))[0]


def f32bits(f):
    return "0x%08x" % struct.unpack(">I", struct.pack(">f", f))[0]


F64_BOUND = ["0x0000000000000000", "0x8000000000000000", "0x3ff0000000000000", "0xbff0000000000000",
             "0x7ff0000000000000", "0xfff0000000000000", "0x7ff8000000000001", "0x7fefffffffffffff",
             "0x0000000000000001", "0x000fffffffffffff", "0x0010000000000000", "0x3fb999999999999a",
             "0x4340000000000000", "0x4330000000000001", "0x43e0000000000000", "0xc3e0000000000000",
             "0x400921fb54442d18", "0x3e7ad7f29abcaf48", "0x7e37e43c8800759c", "0x4059000000000000"]
F32_BOUND = ["0x00000000", "0x80000000", "0x3f800000", "0xbf800000", "0x7f800000", "0xff800000", "0x7fc00001",
             "0x7f7fffff", "0x00000001", "0x007fffff", "0x00800000", "0x3dcccccd", "0x4b800000", "0x4b000001",
             "0x40490fdb", "0x42c80000"]

STR_BOUND = [b"", b"a", b"ab", "é".encode(), "中".encode(), "😀".encode(), "a😀".encode(), "中文字符".encode(),
             b"hello world", b"\xff", b"\xc0\x80", b"\xed\xa0\x80", b"\xf5\x80\x80\x80", b"a\xffb", b"\xe4\xbd",
             b'"', b'a"b;{}', b"0", b"s2\"xx\"", "é😀中a".encode(), b"x" * 300, ("中" * 100).encode(),
             b"\x00", b"\x7f", "߿".encode(), "ࠀ".encode(), "￿".encode(), "\U00010000".encode(),
             "\U0010ffff".encode(), b"\xef\xbf\xbd"]


def int_bounds(k):
    lo, hi = RANGE[k]
    c = {lo, hi, 0, 1, 9, 10, -1, -9, -10, 127, 128, 255, 256, 2**31 - 1, 2**31, -2**31, -2**31 - 1,
         2**32 - 1, 2**32, 2**63 - 1, 2**63, -2**63, 99, 100, 999, 1000, 12345, lo + 1, hi - 1}
    return sorted(x for x in c if lo <= x <= hi)


class Gen:
    def __init__(self, rng, registry):
        self.rng = rng
        self.reg = registry
        self.next_ptr = 1

    # ------------------------------------------------------------------ scalars
    def scalar_bounds(self, k):
        if k == "bool":
            return [True, False]
        if k in INTS:
            return [str(x) for x in int_bounds(k)]
        if k == "float64":
            return list(F64_BOUND)
        if k == "float32":
            return list(F32_BOUND)
        if k == "string":
            return [hx(s) for s in STR_BOUND]
        if k == "complex128":
            return [[a, b] for a in F64_BOUND[:6] for b in ("0x0000000000000000", "0x8000000000000000", "0x4000000000000000", "0x7ff8000000000001")]
        if k == "complex64":
            return [[a, b] for a in F32_BOUND[:6] for b in ("0x00000000", "0x80000000", "0x40000000", "0x7fc00001")]
        raise KeyError(k)

    def rand_scalar(self, k):
        r = self.rng
        if k == "bool":
            return r.random() < 0.5
        if k in INTS:
            lo, hi = RANGE[k]
            c = r.random()
            if c < 0.3:
                return str(r.choice(int_bounds(k)))
            if c < 0.6:
                return str(max(lo, min(hi, r.randint(-20, 20))))
            return str(r.randint(lo, hi))
        if k == "float64":
            if r.random() < 0.3:
                return r.choice(F64_BOUND)
            return f64bits(r.choice([r.uniform(-1e6, 1e6), r.random(), float(r.randint(-1000, 1000)), r.uniform(-1, 1) * 10 ** r.randint(-300, 300)]))
        if k == "float32":
            if r.random() < 0.3:
                return r.choice(F32_BOUND)
            return f32bits(r.choice([r.uniform(-1e6, 1e6), r.random(), float(r.randint(-1000, 1000))]))
        if k == "string":
            return hx(self.rand_str())
        if k in ("complex64", "complex128"):
            e = "float32" if k == "complex64" else "float64"
            im = self.rand_scalar(e) if r.random() < 0.6 else ("0x00000000" if e == "float32" else "0x0000000000000000")
            return [self.rand_scalar(e), im]
        raise KeyError(k)

    def rand_str(self):
        r = self.rng
        c = r.random()
        if c < 0.35:
            return r.choice(STR_BOUND)
        if c < 0.6:
            return r.choice([b"id", b"name", b"hello", b"key", "键".encode() * 2, b"value", b"abc"])  # repeats -> references
        n = r.choice([1, 2, 3, 5, 8, 20])
        alphabet = ["a", "b", "z", "0", " ", "é", "中", "😀", "\n", '"', "ÿ"]
        return "".join(r.choice(alphabet) for _ in range(n)).encode()

    # ------------------------------------------------------------------ generic typed values
    def value(self, td, depth=0, cyc=None):
        """Random VD of type td.  cyc: dict with 'pool' {typekey: [ids]} enabling sharing/cycles."""
        r = self.rng
        k = td["k"]
        if k in BASIC or k in ("complex64", "complex128"):
            return self.rand_scalar(k)
        if k == "slice":
            if r.random() < 0.12:
                return None
            if td["e"]["k"] == "uint8" and r.random() < 0.7:
                n = r.choice([0, 1, 2, 5, 40])
                return [str(r.randint(0, 255)) for _ in range(n)]
            n = 0 if depth > 4 else r.choice([0, 1, 1, 2, 3, 5])
            return [self.value(td["e"], depth + 1, cyc) for _ in range(n)]
        if k == "array":
            return [self.value(td["e"], depth + 1, cyc) for _ in range(td["n"])]
        if k == "map":
            if r.random() < 0.12:
                return None
            n = 0 if depth > 4 else r.choice([0, 1, 1, 2, 3])
            out, seen = [], set()
            for _ in range(n):
                kv = self.value(td["key"], depth + 1, None)
                key = json.dumps(kv, sort_keys=True)
                if key in seen or (td["key"]["k"] in FLOATS and "7ff8" in key) or (td["key"]["k"] in FLOATS and "7fc0" in key):
                    continue
                if td["key"]["k"] == "iface":
                    # distinct Go keys must denote distinct wire values: strings and plain ints only
                    kv = {"t": T("string"), "v": hx(self.rand_str())} if r.random() < 0.6 else {"t": T("int"), "v": str(r.randint(-50, 5000))}
                    key = json.dumps(kv, sort_keys=True)
                    if key in seen:
                        continue
                seen.add(key)
                out.append([kv, self.value(td["e"], depth + 1, cyc)])
            return out
        if k == "ptr":
            c = r.random()
            key = json.dumps(td["e"], sort_keys=True)
            if c < 0.2 or depth > 6:
                return None
            if cyc is not None and cyc["pool"].get(key) and c < 0.5:
                return {"ref": r.choice(cyc["pool"][key])}
            pid = self.next_ptr
            self.next_ptr += 1
            if cyc is not None and cyc.get("cycles"):
                cyc["pool"].setdefault(key, []).append(pid)   # visible to its own pointee: cycles
                v = self.value(td["e"], depth + 1, cyc)
            else:
                v = self.value(td["e"], depth + 1, cyc)
                if cyc is not None:
                    cyc["pool"].setdefault(key, []).append(pid)   # visible afterwards only: sharing, no cycles
            return {"id": pid, "v": v}
        if k == "iface":
            c = r.random()
            if c < 0.12 or depth > 5:
                return None
            dt = self.rand_dyn_type(depth)
            return {"t": dt, "v": self.value(dt, depth + 1, cyc)}
        if k == "reg":
            return self.value(self.reg[td["name"]], depth, cyc) if self.reg[td["name"]]["k"] != "anon" else self.struct_value(self.reg[td["name"]], depth, cyc)
        if k == "anon":
            return self.struct_value(td, depth, cyc)
        if k == "time":
            return self.rand_time()
        if k == "uuid":
            return "%032x" % r.getrandbits(128) if r.random() < 0.8 else "0" * 32
        if k == "bigint":
            return str(r.choice([0, 1, -1, 2**64, -2**64, 10**30 + 7, r.randint(-10**40, 10**40)]))
        if k == "bigfloat":
            return {"s": r.choice(["0", "1.5", "-2.25", "1e100", "3.14159", "123456789.125", "-1e-50"]), "prec": r.choice([53, 64, 100])}
        if k == "bigrat":
            return r.choice(["0", "1/3", "-7/2", "5", "22/7", "-3", "12345678901234567890/7", "1/1000000007"])
        if k == "list":
            n = r.choice([0, 1, 2, 4])
            return [self.value(IFACE, depth + 1, cyc) for _ in range(n)]
        if k == "error":
            # a position of the interface type error: nil or an errors.New value
            if r.random() < 0.4:
                return None
            return {"t": T("error"), "v": hx(r.choice([b"boom", b"", b"e\xc3\xa9", b"some error"]))}
        raise KeyError(k)

    def comparable_vd(self, vd):
        if vd is None:
            return True
        k = vd["t"]["k"]
        return k in BASIC and not (k in FLOATS and ("7ff8" in str(vd["v"]) or "7fc0" in str(vd["v"])))

    def rand_dyn_type(self, depth):
        r = self.rng
        c = r.random()
        if c < 0.55 or depth > 3:
            # integers inside interface{} come back as int under the default settings
            return T(r.choice(["bool", "int", "int8", "int16", "int32", "int64", "uint8", "uint16", "uint32", "float64", "float32", "string", "string"]))
        if c < 0.7:
            return Slice(r.choice([T("int"), T("string"), IFACE, T("float64"), T("uint8")]))
        if c < 0.8:
            return Map(T("string"), r.choice([IFACE, T("int"), T("string")]))
        if c < 0.9:
            return r.choice([T("time"), T("uuid"), Ptr(T("bigint")), Slice(Slice(T("int")))])
        return r.choice([Ptr(Reg("Inner")), Reg("Inner"), Ptr(Reg("One")), Map(IFACE, IFACE)])

    def struct_value(self, td, depth, cyc):
        out = {}
        for f in td.get("fields", []):
            if not f.get("exp", True):
                continue
            if f.get("embed") and f["t"]["k"] == "reg":
                out[f["n"]] = self.value(f["t"], depth + 1, cyc)
                continue
            if self.rng.random() < 0.12:
                continue   # leave zero
            out[f["n"]] = self.value(f["t"], depth + 1, cyc)
        return out

    def rand_time(self):
        r = self.rng
        c = r.random()
        if c < 0.08:
            return {"zero": True}
        zone = r.choice(["utc", "utc", "local"])
        unix = r.choice([0, 1, 86399, 86400, 1600000000, 951782400, 253402300799, -62135596800, 4102444800,
                         r.randint(-62135596800, 253402300799), r.randint(0, 2 * 10**9)])
        ns = r.choice([0, 0, 1, 1000, 1000000, 123456789, 999999999, 500000000, 120000000, 123000, r.randint(0, 999999999)])
        if r.random() < 0.25:
            unix = unix - unix % 86400   # midnight UTC: date-only form when zone is utc
            if r.random() < 0.6:
                ns = 0
        if r.random() < 0.15:
            unix = unix % 86400          # 1970-01-01: time-only form
        return {"unix": str(unix), "ns": ns, "zone": zone}


def load_registry(exe):
    out = subprocess.run([exe, "-types"], stdout=subprocess.PIPE, text=True, check=True).stdout
    return json.loads(out)


def contains_cycle_risk(td, reg, seen=None):
    """A type that can point back to itself (needs reference mode when cycles are generated)."""
    return False


def scalar_matrix(gen, per_cell=3):
    """Every basic kind x boundary values x container positions."""
    cases = []
    kinds = BASIC + ["complex64", "complex128"]
    for k in kinds:
        vals = gen.scalar_bounds(k)
        t = T(k)
        positions = [
            ("top", lambda v: (t, v)),
            ("ptr", lambda v: (Ptr(t), {"v": v})),
            ("slice", lambda v: (Slice(t), [v, v])),
            ("array", lambda v: (Array(2, t), [v, v])),
            ("mapval", lambda v: (Map(T("string"), t), [["6b", v]])),
            ("field", lambda v: (Anon([("F", t, "")]), {"F": v})),
            ("pfield", lambda v: (Anon([("A", T("int"), ""), ("P", Ptr(t), ""), ("Z", T("int"), "")]), {"A": "1", "P": {"v": v}, "Z": "2"})),
            ("iface", lambda v: (Slice(IFACE), [{"t": t, "v": v}])),
            ("slice2d", lambda v: (Slice(Slice(t)), [[v], [], None, [v, v]])),
        ]
        if k not in ("complex64", "complex128"):
            positions.append(("mapkey", lambda v: (Map(t, T("int")), [[v, "1"]])))
        for pname, mk in positions:
            for v in vals:
                if pname == "mapkey" and k in FLOATS and ("7ff8" in v or "7fc0" in v):
                    continue
                td, vd = mk(v)
                cases.append({"t": td, "v": vd, "tag": "scalar:%s:%s" % (k, pname)})
    return cases


NAMED_SCALARS = {"MyInt": "int", "MyI8": "int8", "MyU16": "uint16", "MyU32": "uint32", "MyU64": "uint64", "MyU8": "uint8",
                 "MyI64": "int64", "MyF32": "float32", "MyF64": "float64", "MyBool": "bool", "MyStr": "string"}


def named_scalar_matrix(gen):
    """Named scalar types (type IPv4 uint32 …) x boundary values x the positions that take the dynamic paths:
    by value, behind a pointer at top level, as elements of []*T, inside interface{}, as map values and fields."""
    cases = []
    for name, k in sorted(NAMED_SCALARS.items()):
        t = Reg(name)
        for v in gen.scalar_bounds(k):
            pos = [
                ("top", t, v), ("ptr", Ptr(t), {"v": v}), ("sliceptr", Slice(Ptr(t)), [{"v": v}, None, {"v": v}]),
                ("slice", Slice(t), [v, v]), ("iface", Slice(IFACE), [{"t": t, "v": v}, {"t": Ptr(t), "v": {"v": v}}]),
                ("mapptr", Map(T("string"), Ptr(t)), [["6b", {"v": v}]]),
                ("field", Anon([("F", t, ""), ("P", Ptr(t), "")]), {"F": v, "P": {"v": v}}),
            ]
            for pname, td, vd in pos:
                cases.append({"t": td, "v": vd, "tag": "named:%s:%s" % (name, pname)})
    return cases
