"""Shared driver library for the /verif checks (see DESIGN.md section 4).

Every check is   ./check Cxx --tier quick|thorough   and goes through the same
pipeline: lock -> regenerate Gen/ from /repo -> prove -> hygiene -> build the
implementation-side harness against /repo's working tree -> corpus ->
correspondence -> decide -> evidence.
"""
import fcntl
import hashlib
import json
import os
import random
import re
import subprocess
import sys
import time

V = os.path.dirname(os.path.dirname(os.path.abspath(__file__)))
REPO = os.environ.get("VERIF_REPO", "/repo")
BUILD = os.path.join(V, "build")
# An alternative tree (a scratch worktree carrying a seeded change) can be checked with
# VERIF_REPO=/path: the harness is then built against it into its own bin directory.
ALT = "" if REPO == "/repo" else hashlib.sha1(REPO.encode()).hexdigest()[:8]
BIN = os.path.join(BUILD, "bin")
HBIN = BIN if not ALT else os.path.join(BUILD, "alt-" + ALT, "bin")
COQ = os.path.join(V, "coq")

GOENV = dict(os.environ, GOFLAGS="-mod=mod", GOPROXY="off", GOSUMDB="off",
             GOTOOLCHAIN="local", CGO_ENABLED=os.environ.get("CGO_ENABLED", "0"))

ALLOWED_AXIOMS = {
    # standard-library axioms that may appear (none is expected; see DESIGN 7)
    "functional_extensionality_dep", "FunctionalExtensionality.functional_extensionality_dep",
    "proof_irrelevance", "classic", "JMeq_eq", "Eqdep.Eq_rect_eq.eq_rect_eq",
}


# properties whose Props file imports Gen/GoFuncs.v (functions translated from the Go text by golite)
GEN_USERS = {"C03", "C12", "C13", "C16", "C18"}


def cover_flags():
    """development aid (VERIF_COVER=1): build the executors with statement counters for the library's packages"""
    if os.environ.get("VERIF_COVER") == "1":
        # wildcard patterns do not reach a module that is only a (replaced) dependency: list its packages
        rc, out, err = sh(["go", "list", "./..."], cwd=REPO, env=GOENV, timeout=300)
        pkgs = [l for l in out.split() if l.startswith("github.com/hprose/")]
        return ["-cover", "-coverpkg=" + ",".join(pkgs)]
    return []


class EnvError(Exception):
    """The environment (not the property) is broken: toolchain, /repo does not compile..."""


def sh(cmd, cwd=None, env=None, timeout=None, input=None):
    p = subprocess.run(cmd, cwd=cwd, env=env, timeout=timeout, input=input,
                       stdout=subprocess.PIPE, stderr=subprocess.PIPE, text=True,
                       shell=isinstance(cmd, str))
    return p.returncode, p.stdout, p.stderr


class Lock:
    def __init__(self, name):
        os.makedirs(BUILD, exist_ok=True)
        self.path = os.path.join(BUILD, "." + name + ".lock")

    def __enter__(self):
        self.f = open(self.path, "w")
        fcntl.flock(self.f, fcntl.LOCK_EX)
        return self

    def __exit__(self, *a):
        fcntl.flock(self.f, fcntl.LOCK_UN)
        self.f.close()


# --------------------------------------------------------------------------- Coq

def regen_gen():
    """T1/T2: regenerate coq/Gen/*.v from /repo's working tree (write only on change)."""
    tool = os.path.join(BIN, "gotables")
    src = os.path.join(V, "tools", "gotables")
    if not os.path.isdir(src):
        return {}
    with Lock("go"):
        rc, out, err = sh(["go", "build", "-o", tool, "."], cwd=src, env=GOENV, timeout=600)
        if rc != 0:
            raise EnvError("gotables does not build: " + err[-2000:])
    rc, out, err = sh([tool, "-repo", REPO, "-out", os.path.join(COQ, "Gen")], timeout=600)
    if rc != 0:
        raise EnvError("gotables failed: " + err[-2000:])
    try:
        return json.loads(out) if out.strip() else {}
    except Exception:
        return {"raw": out[-2000:]}


def coq_make(targets, timeout=3000):
    """Full .vo build of the given targets (relative to coq/). Returns (ok, log)."""
    with Lock("coq"):
        rc, out, err = sh(["timeout", str(timeout), os.path.join(COQ, "mk.sh"), "-k", "-j16"] + targets,
                          timeout=timeout + 30)
    return rc == 0, out + err


_ERR_RE = re.compile(r'File "\./([^"]+)", line (\d+), characters')


def first_failing_lemma(log):
    """Map the first Coq error in a make log to (file, line, enclosing lemma name)."""
    m = _ERR_RE.search(log)
    if not m:
        return None
    path, line = m.group(1), int(m.group(2))
    name = "?"
    try:
        lines = open(os.path.join(COQ, path)).read().split("\n")
        for i in range(min(line, len(lines)) - 1, -1, -1):
            mm = re.match(r'\s*(Lemma|Theorem|Example|Corollary|Definition|Fixpoint|Fact)\s+([A-Za-z0-9_\']+)', lines[i])
            if mm:
                name = mm.group(2)
                break
    except Exception:
        pass
    msg = log[m.start():m.start() + 600]
    return {"file": path, "line": line, "lemma": name, "message": msg}


def props_assumptions(pid, timeout=900):
    """Re-run coqc on Props/<pid>.v; return list of (theorem, assumptions text)."""
    with Lock("coq"):
        rc, out, err = sh(["timeout", str(timeout), "coqc", "-Q", ".", "HV", "Props/%s.v" % pid],
                          cwd=COQ, timeout=timeout + 30)
    if rc != 0:
        return None, out + err
    src = open(os.path.join(COQ, "Props", pid + ".v")).read()
    names = re.findall(r'^Print Assumptions\s+([A-Za-z0-9_\']+)\s*\.', src, re.M)
    # split the output in blocks: either "Closed under the global context" or "Axioms:\n..."
    blocks = []
    cur = None
    for ln in out.split("\n"):
        if ln.startswith("Closed under the global context"):
            blocks.append("Closed under the global context")
            cur = None
        elif ln.startswith("Axioms:"):
            cur = [ln]
            blocks.append(cur)
        elif cur is not None and (ln.startswith(" ") or ln.strip() == "" or ":" in ln):
            if ln.strip():
                cur.append(ln)
        else:
            cur = None
    blocks = [b if isinstance(b, str) else "\n".join(b) for b in blocks]
    return list(zip(names, blocks + ["<missing>"] * (len(names) - len(blocks)))), out


def coqchk(pid, timeout=2400):
    """Independent re-check of Props/<pid>.vo and everything it depends on (thorough tier)."""
    t0 = time.time()
    try:
        rc, out, err = sh(["timeout", str(timeout), "coqchk", "-silent", "-o", "-Q", ".", "HV", "HV.Props." + pid],
                          cwd=COQ, timeout=timeout + 60)
    except subprocess.TimeoutExpired:
        return {"status": "timeout", "seconds": round(time.time() - t0)}
    txt = (out + err)
    if rc == 124:
        return {"status": "timeout", "seconds": round(time.time() - t0)}
    axioms = []
    m = re.search(r"\* Axioms:(.*?)(\n\s*\n|\* |$)", txt, re.S)
    if m:
        axioms = [a.strip() for a in m.group(1).split("\n") if a.strip() and "<none>" not in a]
    return {"status": "ok" if rc == 0 else "failed", "seconds": round(time.time() - t0), "axioms_reported": axioms,
            "tail": txt[-600:]}


_HYG = re.compile(r'\b(Admitted|admit|Axiom|Axioms|Parameter|Parameters|Conjecture|Conjectures|Hypothesis|Hypotheses|Variable|Variables)\b|Unset\s+Guard|Unset\s+Positivity|Unset\s+Universe\s+Checking|bypass_check|type-in-type|impredicative-set|Admit\s+Obligations')


def strip_coq_comments(s):
    out, depth, i = [], 0, 0
    while i < len(s):
        if s.startswith("(*", i):
            depth += 1
            i += 2
        elif s.startswith("*)", i) and depth > 0:
            depth -= 1
            i += 2
        else:
            if depth == 0:
                out.append(s[i])
            elif s[i] == "\n":
                out.append("\n")
            i += 1
    return "".join(out)


def hygiene():
    """No Admitted/admit/Axiom/Parameter/...; Variable/Hypothesis only inside a Section."""
    bad = []
    for root, _, files in os.walk(COQ):
        for f in files:
            if not f.endswith(".v"):
                continue
            p = os.path.join(root, f)
            txt = strip_coq_comments(open(p).read())
            txt = re.sub(r'"(?:[^"]|"")*"', '""', txt)   # string literals are data, not declarations
            depth = 0
            for n, ln in enumerate(txt.split("\n"), 1):
                if re.match(r'\s*Section\s', ln):
                    depth += 1
                if re.match(r'\s*End\s', ln) and depth > 0:
                    depth -= 1
                for m in _HYG.finditer(ln):
                    w = m.group(0)
                    if w in ("Hypothesis", "Variable") or w.startswith("Hypothes") or w.startswith("Variable"):
                        if depth > 0:
                            continue
                    if w == "Axioms" and "Print" in ln:
                        continue
                    bad.append("%s:%d: %s" % (os.path.relpath(p, V), n, ln.strip()[:120]))
    for f in ("mk.sh", "_CoqProject"):          # compiler flags that switch checks off
        p = os.path.join(COQ, f)
        if os.path.exists(p):
            for n, ln in enumerate(open(p).read().split("\n"), 1):
                if re.search(r'type-in-type|impredicative-set|-vos|-vok|-noinit', ln):
                    bad.append("coq/%s:%d: %s" % (f, n, ln.strip()[:120]))
    return bad


# ------------------------------------------------------------------ implementation side

_repo_ok = {}


def build_harness(name, race=False):
    """Build harness/cmd/<name> with -tags verif against /repo's working tree -> build/bin/hv-<name>."""
    hd = os.path.join(V, "harness")
    os.makedirs(HBIN, exist_ok=True)
    out = os.path.join(HBIN, "hv-%s%s" % (name, "-race" if race else ""))
    with Lock("go" + ALT):
        # the harness module always resolves hprose to /repo's working tree
        try:
            src = open(os.path.join(REPO, "go.sum")).read()
            dst = os.path.join(hd, "go.sum")
            if not os.path.exists(dst) or open(dst).read() != src:
                open(dst, "w").write(src)
        except OSError:
            pass
        if "ok" not in _repo_ok:
            rc, o, e = sh(["go", "build", "-o", "/dev/null", "./..."], cwd=REPO, env=GOENV, timeout=1200)
            if rc != 0:
                raise EnvError("/repo does not compile: " + e[-3000:])
            _repo_ok["ok"] = True
        cmd = ["go", "build", "-tags", "verif", "-o", out]
        cmd[2:2] = cover_flags()
        if ALT:
            mod = os.path.join(BUILD, "alt-" + ALT, "go.mod")
            open(mod, "w").write(open(os.path.join(hd, "go.mod")).read().replace("=> /repo", "=> " + REPO))
            open(mod[:-3] + "sum", "w").write(open(os.path.join(REPO, "go.sum")).read())
            cmd.append("-modfile=" + mod)
        env = dict(GOENV)
        if race:
            cmd.insert(2, "-race")
            env["CGO_ENABLED"] = "1"
        rc, o, e = sh(cmd + ["./cmd/" + name], cwd=hd, env=env, timeout=1800)
        if rc != 0:
            # /repo compiles but the harness does not: an API the harness uses changed
            raise EnvError("harness %s does not build against /repo: %s" % (name, e[-3000:]))
    return out


def build_modelrun(name):
    """Extract coq/Extract/<NAME>.v and link build/bin/modelrun-<name> (rebuilt when stale)."""
    out = os.path.join(BIN, "modelrun-" + name)
    with Lock("coq"):
        srcs = [os.path.join(V, "coq", "Extract", name.upper() + ".v"),
                os.path.join(V, "extract", "drv_%s.ml" % name),
                os.path.join(V, "extract", "common.ml"), os.path.join(V, "extract", "main.ml"),
                os.path.join(V, "extract", "build.sh")]
        for d in ("coq/Model", "coq/Lib", "coq/Gen"):
            dd = os.path.join(V, d)
            if os.path.isdir(dd):
                srcs += [os.path.join(dd, f) for f in os.listdir(dd) if f.endswith(".v")]
        newest = max(os.path.getmtime(s) for s in srcs)
        if os.path.exists(out) and os.path.getmtime(out) >= newest:
            return out
        # the extraction needs the compiled models it imports
        imports = re.findall(r'(Model|Lib|Gen)\.([A-Za-z0-9_]+)', open(srcs[0]).read())
        targets = sorted({"%s/%s.vo" % (d, f) for d, f in imports})
        rc, o, e = sh([os.path.join(COQ, "mk.sh"), "-j16"] + targets, timeout=3000)
        if rc != 0:
            raise EnvError("model files do not compile: " + (o + e)[-3000:])
        rc, o, e = sh([os.path.join(V, "extract", "build.sh"), name], timeout=1800)
        if rc != 0:
            raise EnvError("extraction/driver build failed: " + (o + e)[-3000:])
    return out


def run_harness(name, cases, timeout=3000, race=False, extra_env=None, args=()):
    """cases: list of JSON-able dicts -> (rc, list of observation dicts, stderr)."""
    exe = os.path.join(HBIN, "hv-%s%s" % (name, "-race" if race else ""))
    inp = "".join(json.dumps(c, separators=(",", ":")) + "\n" for c in cases)
    env = dict(os.environ)
    if extra_env:
        env.update(extra_env)
    try:
        p = subprocess.run([exe] + list(args), input=inp, stdout=subprocess.PIPE, stderr=subprocess.PIPE,
                           text=True, timeout=timeout, env=env)
        rc, so, se = p.returncode, p.stdout, p.stderr
    except subprocess.TimeoutExpired as te:
        rc = 124
        so = te.stdout.decode() if isinstance(te.stdout, bytes) else (te.stdout or "")
        se = "TIMEOUT after %ss" % timeout
    obs = []
    for ln in so.split("\n"):
        if ln.strip():
            try:
                obs.append(json.loads(ln))
            except Exception:
                pass
    return rc, obs, se


def _limit_mem():
    import resource
    resource.setrlimit(resource.RLIMIT_AS, (16 << 30, 16 << 30))


def run_model(name, lines, timeout=1800):
    exe = os.path.join(BIN, "modelrun-" + name)
    p = subprocess.run([exe], input="".join(l + "\n" for l in lines), preexec_fn=_limit_mem,
                       stdout=subprocess.PIPE, stderr=subprocess.PIPE, text=True, timeout=timeout)
    if p.returncode != 0:
        raise EnvError("modelrun-%s failed: %s" % (name, p.stderr[-2000:]))
    out = p.stdout.split("\n")
    if out and out[-1] == "":
        out.pop()
    return out


# ------------------------------------------------------------------ verdict plumbing

def load_known():
    p = os.path.join(V, "known_findings.json")
    if not os.path.exists(p):
        return []
    return json.load(open(p)).get("findings", [])


class Ctx:
    def __init__(self, pid, tier, seed):
        self.pid = pid
        self.tier = tier
        self.seed = seed
        self.rng = random.Random(seed)
        self.t0 = time.time()
        self.level = "proof"
        self.cov = {"samples": [], "trusted_base": [], "evaluations": 0, "distinct_nontrivial": 0}
        self.assumptions = []
        self.violations = []       # (key, description, replay dict)
        self.known_hits = []       # (key, description)
        self.known = [k for k in load_known() if k.get("property") == pid]
        self._distinct = set()
        self.obligations = 0
        self.discharged = 0
        self.proof_broken = None

    # -- coverage accounting
    def count_case(self, canonical, nontrivial=True):
        self.cov["evaluations"] += 1
        if nontrivial:
            h = hashlib.sha1(canonical.encode()).digest()[:10]
            self._distinct.add(h)

    def sample(self, s, limit=6):
        if len(self.cov["samples"]) < limit:
            self.cov["samples"].append(s)

    def note(self, key, value):
        self.cov[key] = value

    def bump(self, key, sub=None, n=1):
        if sub is None:
            self.cov[key] = self.cov.get(key, 0) + n
        else:
            d = self.cov.setdefault(key, {})
            d[sub] = d.get(sub, 0) + n

    # -- findings
    def report(self, key, what, replay):
        """A failing case. key identifies the defect; known keys become KNOWN-FINDING."""
        for k in self.known:
            if k.get("status", "known") == "known" and k["key"] == key:
                if not any(h[0] == key for h in self.known_hits):
                    self.known_hits.append((key, k.get("what", what)))
                return "known"
        if not any(v[0] == key for v in self.violations):
            self.violations.append((key, what, replay))
        return "new"

    # -- the proof step shared by all checks
    def prove(self, extra_targets=()):
        pid = self.pid
        if pid in GEN_USERS:
            # T2: the translated Go functions (coq/Gen/GoFuncs.v) are regenerated from the tree under
            # test before the proofs that mention them are rebuilt
            gen = regen_gen()
            self.cov["generated_from_source"] = gen.get("GoFuncs", gen)
            rej = (gen.get("GoFuncs") or {}).get("rejected") or {}
            if rej:
                self.cov["untranslatable"] = rej
        ok, log = coq_make(["Props/%s.vo" % pid] + list(extra_targets))
        if pid in GEN_USERS:
            # T3 for T2: the translated functions evaluated in Coq vs the compiled functions, and the property's
            # oracle on the compiled functions (needs only Gen/GoFuncs.vo, not the proofs)
            import golite_tie
            coq_make(["Gen/GoFuncs.vo"])
            golite_tie.run(self)
        bad = hygiene()
        if bad:
            self.proof_broken = {"lemma": "hygiene", "message": "; ".join(bad[:10])}
            self.cov["hygiene"] = bad[:20]
            return False
        if not ok:
            self.proof_broken = first_failing_lemma(log) or {"lemma": "?", "message": log[-1500:]}
            src = open(os.path.join(COQ, "Props", pid + ".v")).read()
            self.obligations = len(re.findall(r'^Theorem\s', src, re.M))
            self.discharged = 0
            return False
        res, out = props_assumptions(pid)
        if res is None:
            self.proof_broken = first_failing_lemma(out) or {"lemma": "?", "message": out[-1500:]}
            return False
        self.obligations = len(res)
        self.discharged = 0
        axioms = {}
        for name, blk in res:
            if blk == "Closed under the global context":
                self.discharged += 1
            else:
                used = re.findall(r'^\s*([A-Za-z0-9_.\']+)\s*:', blk, re.M)
                axioms[name] = used
                if blk != "<missing>" and all(u.split(".")[-1] in {a.split(".")[-1] for a in ALLOWED_AXIOMS} for u in used) and used:
                    self.discharged += 1
                else:
                    self.proof_broken = {"lemma": name, "message": "depends on non-allow-listed assumptions: " + blk[:500]}
        self.cov["theorems"] = [n for n, _ in res]
        self.cov["print_assumptions"] = ("all Closed under the global context" if not axioms else axioms)
        if self.tier == "thorough" and self.proof_broken is None and os.environ.get("VERIF_NO_COQCHK") != "1":
            self.cov["coqchk"] = coqchk(pid)
            if self.cov["coqchk"].get("status") == "failed":
                self.proof_broken = {"lemma": "coqchk", "message": self.cov["coqchk"].get("tail", "")[:800]}
        return self.proof_broken is None

    def finish(self):
        pid = self.pid
        os.makedirs(os.path.join(V, "evidence"), exist_ok=True)
        os.makedirs(os.path.join(V, "replays"), exist_ok=True)
        for key, what in self.known_hits:
            print("KNOWN-FINDING: property=%s %s [%s]" % (pid, what, key))
        rc = 0
        lines = []
        if self.proof_broken is not None and not self.violations:
            # a proof obligation no longer checks and the search found no failing input
            path = os.path.join(V, "replays", "%s-proof-%s.json" % (pid, self.proof_broken.get("lemma", "x")))
            json.dump({"property": pid, "kind": "broken-proof-obligation", "obligation": self.proof_broken,
                       "seed": self.seed}, open(path, "w"), indent=1)
            lines.append("VIOLATION property=%s replay=%s no-failing-input-found" % (pid, path))
            rc = 1
        for key, what, replay in self.violations:
            h = hashlib.sha1(key.encode()).hexdigest()[:10]
            path = os.path.join(V, "replays", "%s-%s.json" % (pid, h))
            replay = dict(replay)
            replay.update({"property": pid, "key": key, "what": what, "seed": self.seed, "tier": self.tier})
            if self.proof_broken is not None:
                replay["broken_obligation"] = self.proof_broken
            json.dump(replay, open(path, "w"), indent=1)
            suffix = "" if replay.get("failing_input", True) else " no-failing-input-found"
            lines.append("VIOLATION property=%s replay=%s%s" % (pid, path, suffix))
            rc = 1
        cov = dict(self.cov)
        cov["distinct_nontrivial"] = len(self._distinct)
        cov["obligations"] = self.obligations
        cov["discharged"] = self.discharged
        cov.setdefault("checker_cmd", "cd /verif/coq && ./mk.sh -j16 Props/%s.vo && coqc -Q . HV Props/%s.v" % (pid, pid))
        if not cov["trusted_base"]:
            cov["trusted_base"] = DEFAULT_TRUSTED
        cov["known_findings_reproduced"] = [k for k, _ in self.known_hits]
        level = self.level
        if level == "proof" and (self.obligations < 1 or self.discharged < 1):
            # the schema wants >=1; a wholly broken proof is reported through violations
            cov["obligations"] = max(1, self.obligations)
            cov["discharged"] = max(0, self.discharged)
            if cov["discharged"] < 1:
                level = "other"
                cov["explanation"] = "proof step failed on this run: " + json.dumps(self.proof_broken)[:500]
        ev = {"property_id": pid, "tier": self.tier, "seed": self.seed, "level": level,
              "coverage": cov, "assumptions": self.assumptions,
              "wall_s": round(time.time() - self.t0, 2), "violations": len(lines)}
        if not cov["samples"]:
            cov["samples"] = ["(no case executed)"]
        # evidence/ holds runs against /repo itself only; a run against another tree (VERIF_REPO: seeded changes) keeps its
        # record under build/
        evdir = os.path.join(V, "evidence") if not ALT else os.path.join(BUILD, "alt-" + ALT, "evidence")
        os.makedirs(evdir, exist_ok=True)
        json.dump(ev, open(os.path.join(evdir, pid + ".json"), "w"), indent=1, default=str)
        for l in lines:
            print(l)
        print("RESULT property=%s tier=%s obligations=%d discharged=%d evaluations=%d distinct=%d violations=%d known=%d wall=%.1fs"
              % (pid, self.tier, self.obligations, self.discharged, cov["evaluations"], cov["distinct_nontrivial"],
                 len(lines), len(self.known_hits), time.time() - self.t0))
        return rc


DEFAULT_TRUSTED = [
    "Coq 8.16.1 kernel (coqc; vm_compute used, native_compute not used)",
    "no axioms: every theorem in Props/ prints 'Closed under the global context'",
    "extraction: ExtrOcamlBasic only (bool option list prod unit sumbool -> OCaml natives), no Extract Constant",
    "hand-written OCaml glue extract/common.ml, extract/drv_*.ml, extract/main.ml",
    "Go harness (harness/*.go) and Python driver (lib/hv.py, checks/*.py)",
    "hand-written model tied to /repo only through the correspondence run of this check",
]


def run_harness_resilient(name, cases, timeout=3000, max_crashes=25, **kw):
    """Run all cases; when the executor process dies (fatal Go error, stack overflow, timeout) on a
    case, record that case as a crash and continue with the cases after it.
    Returns (obs_by_id, crashes) with crashes = [(case, rc, stderr_tail)]."""
    obs_by_id, crashes = {}, []
    todo = list(cases)
    while todo:
        rc, obs, err = run_harness(name, todo, timeout=timeout, **kw)
        fatal = None
        for o in obs:
            if o.get("fatal"):
                fatal = o          # the executor's watchdog gave up on this case (hang / memory)
            else:
                obs_by_id[o["id"]] = o
        if rc == 0 and len(obs) >= len(todo) and fatal is None:
            break
        done = {o["id"] for o in obs if not o.get("fatal")}
        idx = next((i for i, c in enumerate(todo) if c["id"] not in done), None)
        if idx is None:
            break
        if fatal is not None and fatal["id"] == todo[idx]["id"]:
            err = "fatal error: case exceeded the executor watchdog: " + fatal["fatal"]
        crashes.append((todo[idx], rc, err[:1200] + ' ... ' + err[-300:]))
        todo = todo[idx + 1:]
        if len(crashes) >= max_crashes:
            break
    return obs_by_id, crashes


def run_harness_parallel(name, cases, nproc=8, **kw):
    """Split the cases over several executor processes (for cases that sleep). Returns (rc, obs, stderr)."""
    from concurrent.futures import ThreadPoolExecutor
    chunks = [cases[i::nproc] for i in range(nproc)]
    chunks = [c for c in chunks if c]
    with ThreadPoolExecutor(max_workers=len(chunks) or 1) as ex:
        res = list(ex.map(lambda ch: run_harness(name, ch, **kw), chunks))
    rc = max((r[0] for r in res), default=0)
    obs = [o for r in res for o in r[1]]
    err = "".join(r[2][-500:] for r in res if r[2])
    return rc, obs, err
