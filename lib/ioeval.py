"""Verdicts of the io checks on (case, mode) records.  Each function returns a list of
(key, what, failing_input) for one property; key identifies the defect (DESIGN 4.3)."""
import json
import re
from iosuite import norm


def _sexp(rec):
    return (rec["obs"] or {}).get("sexp", "")


def value_has_invalid_utf8_str(rec):
    # any (str x..) whose bytes are not UTF-8
    for m in re.finditer(r"\(str x([0-9a-f]*)\)", _sexp(rec)):
        try:
            bytes.fromhex(m.group(1)).decode("utf-8")
        except UnicodeDecodeError:
            return True
    return False


def go_bytes(d):
    h = d["go"].get("hex")
    return bytes.fromhex(h) if h else None


# ------------------------------------------------------------------------------------------- C03
def c03(rec, mode, d):
    go, mo = d["go"], d["model"]
    out = []
    if not go.get("hex"):
        return out            # nothing was produced (encode failed): C01's business
    if "model_error" in mo:
        return [("c03:model-error", "model driver failed: " + mo["model_error"][:200], False)]
    nonstrict = mo.get("model") == "ok" and mo.get("model_tok") == "0" and mo.get("model_hex") == go["hex"]
    if mo.get("go_parse") != "ok":
        if nonstrict:
            out.append(("c03:string-tag-with-non-utf8-content",
                        "a Go string that is structurally well-formed but not UTF-8 is emitted under the string tags "
                        "(the independent reader rejects it); the faithful model emits the same bytes (C03_string_tag_refuted)", True))
        else:
            out.append(("c03:not-wellformed:" + rec["case"].get("tag", "?").split(":")[0],
                        "encoder output is not one well-formed Hprose value (independent reader rejects it)", True))
    elif mo.get("go_den") != "ok":
        out.append(("c03:dangling-reference-or-count", "well-formed tokens but a reference/class index/count is inconsistent", True))
    elif mo.get("go_den_eq_abs") != "1" and rec["obs"].get("unordered") and mo.get("den_cyclic") == "1":
        pass    # a cyclic value written through a Go map with several entries: the order of the entries decides which
                # occurrence of a shared node is spelled out; the two denotations are not comparable (round trip decides)
    elif mo.get("go_den_eq_abs") != "1":
        if mo.get("go_den_eq_abs") == "noabs":
            out.append(("c03:no-abs", "model could not compute the expected denotation (abs) for this value", False))
        else:
            out.append(("c03:denotes-other-value:" + rec["case"].get("tag", "?").split(":")[0],
                        "stream read by the independent reader denotes a different value: got %s want %s" % (mo.get("go_den_txt"), mo.get("abs_txt")), True))
    if not out and not rec["obs"].get("unordered") and mo.get("model") == "ok" and mo.get("model_hex") != go["hex"]:
        out.append(("c03:correspondence", "Model/Enc.v bytes differ from io.Marshal although the output is well-formed and denotes the value", False))
    if not out and mo.get("model") not in ("ok",):
        out.append(("c03:correspondence-model-" + str(mo.get("model")), "encoder model fails (%s) where io.Marshal succeeds" % mo.get("model"), False))
    return out


# ------------------------------------------------------------------------------------------- C01
def c01(rec, mode, d):
    go = d["go"]
    tag = rec["case"].get("tag", "")
    out = []
    if go.get("enc_panic"):
        if "time" in _sexp(rec) and ("out of range" in go["enc_panic"]):
            return [("c01:time-year-outside-0-9999-panics", "encoding a time whose year is outside 0..9999 panics: " + go["enc_panic"][:120], True)]
        return [("c01:encode-panics:" + norm(go["enc_panic"]), "Marshal panicked: " + go["enc_panic"][:200], True)]
    if go.get("enc_err"):
        if "is out of range [0, 9999]" in go["enc_err"]:
            return []   # a year the date form cannot express: refused with an error (outside the supported values)
        return [("c01:encode-error:" + norm(go["enc_err"]), "Marshal failed: " + go["enc_err"][:200], True)]
    b = go_bytes(d)
    if go.get("rt_panic"):
        if "hash of unhashable type []uint8" in go["rt_panic"] and value_has_invalid_utf8_str(rec):
            return [("c01:invalid-utf8-string-key-of-interface-map-panics",
                     "a string with invalid UTF-8 used as key of a map[interface{}]… is written as bytes and comes back as []byte, which cannot be a map key: Unmarshal panics (hash of unhashable type)", True)]
        return [("c01:decode-panics:" + norm(go["rt_panic"]), "Unmarshal of the library's own output panicked: " + go["rt_panic"][:200], True)]
    err, diff = go.get("rt_err", ""), go.get("rt", "")
    if not err and not diff:
        return out
    # narrow matchers for defects already understood (each needs its specific input feature)
    if err == "EOF" and not diff and b is not None and len(b) <= 5 and b[:1] == b"u":
        return [("c01:toplevel-one-char-string-spurious-EOF", "a top-level one-character string decodes to the right value but Unmarshal returns EOF", True)]
    if "unhashable map key" in err and value_has_invalid_utf8_str(rec):
        return [("c01:invalid-utf8-string-in-interface-returns-bytes", "a non-UTF-8 string used as key of a map[interface{}]… is written as bytes; it cannot come back as a key (decode error: %s)" % err[:80], True)]
    if "can not cast []interface {} to" in err and "complex" in err:
        return [("c01:complex-with-imaginary-part-not-decodable", "complex with non-zero imaginary part is written as a 2-list that no complex decoder accepts: " + err, True)]
    if "instant" in diff and "(time" in _sexp(rec):
        return [("c01:time-in-other-zone-shifts-instant", "a time in a zone that is neither UTC nor Local comes back as a different instant: " + diff[:160], True)]
    if "came back as []uint8" in diff and value_has_invalid_utf8_str(rec):
        return [("c01:invalid-utf8-string-in-interface-returns-bytes", "a string with invalid UTF-8 inside interface{} comes back as []byte: " + diff[:120], True)]
    if "hash of unhashable type []uint8" in (go.get("rt_panic") or ""):
        pass
    if "big.Float" in diff and '"prec": 100' in json.dumps(rec["case"]["v"]):
        return [("c01:bigfloat-precision-above-64-bits-is-lost", "a *big.Float with more than 64 bits of precision is written with the shortest text for its own precision and parsed back at 64 bits: " + diff[:120], True)]
    m = re.search(r"integer (-?\d+) vs (-?\d+)", diff)
    if m and (int(m.group(1)) >= 2**63 or int(m.group(1)) < -2**63):
        return [("c01:integer-above-int64-in-interface-wraps", "an unsigned integer above MaxInt64 inside interface{} comes back wrapped under the default LongType: " + diff[:120], True)]
    return [("c01:roundtrip:" + norm(err or diff) + ":" + tag.split(":")[0], "Unmarshal(Marshal(v)) differs: err=%r diff=%r" % (err[:160], diff[:200]), True)]


# ------------------------------------------------------------------------------------------- C02
def c02(rec, mode, d):
    """Reference mode only: graphs and reference probes."""
    if mode != "ref":
        return []
    go, mo = d["go"], d["model"]
    tag = rec["case"].get("tag", "")
    out = []
    if go.get("enc_err") and "is out of range [0, 9999]" in go["enc_err"]:
        return []
    if go.get("enc_panic") or go.get("enc_err"):
        return [("c02:encode-fails:" + norm(go.get("enc_panic") or go.get("enc_err")), "encoding the graph failed: " + (go.get("enc_panic") or go.get("enc_err"))[:200], True)]
    if go.get("hex") and mo.get("go_parse") == "ok":
        if mo.get("go_den") != "ok":
            out.append(("c02:dangling-backreference", "a back-reference in the stream points at no earlier referable item", True))
        elif mo.get("go_den_eq_abs") == "0" and rec["obs"].get("unordered") and mo.get("den_cyclic") == "1":
            pass    # see c03: not comparable when the entry order of a map decides where a cycle is closed
        elif mo.get("go_den_eq_abs") == "0":
            out.append(("c02:backreference-resolves-to-other-item:" + tag.split(":")[0],
                        "a back-reference resolves to a different item than the encoder meant: got %s want %s" % (mo.get("go_den_txt"), mo.get("abs_txt")), True))
    # round trip of the graph: scalar-level round-trip defects are C01's business and are skipped here
    scalar = c01(rec, mode, d)
    scalar_keys = {k for k, _, _ in scalar}
    known_scalar = {"c01:integer-above-int64-in-interface-wraps", "c01:invalid-utf8-string-in-interface-returns-bytes",
                    "c01:invalid-utf8-string-key-of-interface-map-panics", "c01:bigfloat-precision-above-64-bits-is-lost"}
    if tag.startswith("probe:error") or tag.startswith("probefield:error"):
        pass   # an error value is written with the protocol tag E: the decoder reports it as the decode error by design
    elif scalar and not (scalar_keys <= known_scalar):
        err, diff = go.get("rt_err", ""), go.get("rt", "")
        cyclic = any(x in tag for x in ("cyc", "loop", "cycle", "self"))
        if go.get("rt_panic"):
            out.append(("c02:decode-panics:" + norm(go["rt_panic"]), "decoding the graph panicked: " + go["rt_panic"][:200], True))
        elif cyclic and not err:
            out.append(("c02:cyclic-pointer-decoded-as-copy-of-unfinished-object",
                        "a back-reference to an object still being decoded is resolved by copying it as decoded so far; fields after the reference are lost: " + diff[:160], True))
        else:
            out.append(("c02:graph-roundtrip:" + norm(err or diff) + ":" + tag.split(":")[0], "graph does not round-trip: err=%r diff=%r" % (err[:160], diff[:200]), True))
    if not out and go.get("hex") and mo.get("model") == "ok" and not rec["obs"].get("unordered") and mo.get("model_hex") != go["hex"]:
        out.append(("c02:correspondence", "reference-mode bytes of Model/Enc.v differ from the library's", False))
    if mo.get("model") == "ok" and mo.get("model_den_eq_abs") == "0":
        out.append(("c02:model-backreference", "the faithful encoder model itself emits a back-reference that resolves to the wrong item", True))
    return out


def run_property(ctx, recs, crashes, fn, prop, modes=("simple", "ref")):
    """Apply fn to every (case, mode); report failures; fill coverage."""
    n_pairs = 0
    for rec in recs:
        c, o = rec["case"], rec["obs"]
        if not o:
            continue
        if o.get("build_err"):
            ctx.bump("generator_build_errors")
            continue
        for m, d in sorted(rec["modes"].items()):
            if m not in modes:
                continue
            n_pairs += 1
            tag = c.get("tag", "?")
            go = d["go"]
            nontrivial = bool(go.get("hex")) and len(go["hex"]) > 6
            ctx.count_case(m + "|" + json.dumps(c["t"], sort_keys=True) + json.dumps(c["v"], sort_keys=True), nontrivial)
            ctx.bump("cases_by_family", tag.split(":")[0])
            fails = fn(rec, m, d)
            for key, what, failing in fails:
                ctx.report(key, what, {"case": {k: c[k] for k in ("t", "v", "top", "modes", "tag") if k in c}, "mode": m,
                                       "go": go, "model": {k: v for k, v in d["model"].items() if k != "model_hex"},
                                       "sexp": o.get("sexp", "")[:2000], "failing_input": failing})
            if not fails and tag.split(":")[0] in ("probe", "graph", "reg", "str") and len(ctx.cov["samples"]) < 6:
                ctx.sample({"tag": tag, "mode": m, "bytes": (go_bytes(d) or b"")[:160].decode("latin-1")})
    for c, rc, err in crashes:
        m = re.search(r"(fatal error:[^\n]*|panic:[^\n]*|SIG[A-Z]+[^\n]*)", err)
        ctx.report("%s:process-killed:%s" % (prop.lower(), norm(m.group(1) if m else "unknown")),
                   "the executor process was killed while running a case (fatal error, not a recoverable panic): " + (m.group(1) if m else err[:200]),
                   {"case": c, "stderr": err[:1500], "failing_input": True})
    ctx.note("case_mode_pairs", n_pairs)
