"""C06: case construction, execution (extracted model + real decoder) and judgement."""
import json
import os
import subprocess
import hv
import c06gen as G


# ---------------------------------------------------------------------------------------- environment

def prepare(ctx):
    hv.build_harness("c06")
    hv.build_modelrun("c06")
    exe = os.path.join(hv.HBIN, "hv-c06")
    out = subprocess.run([exe, "-types"], stdout=subprocess.PIPE, text=True, check=True).stdout
    info = json.loads(out)
    return {"structs": info["structs"], "registered": info["registered"], "oracle": {}}


class Case:
    __slots__ = ("id", "w", "t", "opts", "tag", "pos", "inner", "model", "go", "crash", "io", "chunk", "tz")

    def __init__(self, w, t, opts, tag, pos="top", inner=None, io="", tz=0):
        self.w, self.t, self.opts, self.tag, self.pos, self.inner = w, t, opts, tag, pos, inner
        self.model, self.go, self.crash = None, None, None
        self.chunk = None
        self.io = io      # "" | "reader" (stream decoder, buffer refilled afterwards) | "overwrite" (input slice reused)
        self.tz = tz      # offset (seconds east) of the fixed zone installed as time.Local for this case and its oracle answers

    def to_replay_json(self):
        return {"w": wire_to_json(self.w), "t": self.t, "opts": self.opts.go(), "tag": self.tag, "pos": self.pos, "io": self.io, "tz": self.tz,
                "chunk": self.chunk if self.chunk is not None else getattr(self, "id", 0) % 9}


def _tup(x):
    if isinstance(x, list):
        return tuple(_tup(y) for y in x)
    return x


def _wire_from_json(x):
    t = x[0]
    if t in ("d", "u", "s", "b", "g"):
        return (t, bytes(x[1]))
    if t in ("a", "m"):
        return (t, [_wire_from_json(y) for y in x[1]])
    if t == "c":
        return (t, bytes(x[1]), [bytes(f) for f in x[2]], _wire_from_json(x[3]))
    if t == "o":
        return (t, x[1], [_wire_from_json(y) for y in x[2]])
    if t == "E":
        return (t, _wire_from_json(x[1]))
    if t in ("DT",):
        return tuple(x[:7]) + (list(x[7]), x[8])
    if t == "T":
        return tuple(x[:4]) + (list(x[4]), x[5])
    return tuple(x)


def wire_to_json(w):
    t = w[0]
    if t in ("d", "u", "s", "b", "g"):
        return [t, list(w[1])]
    if t in ("a", "m"):
        return [t, [wire_to_json(y) for y in w[1]]]
    if t == "c":
        return [t, list(w[1]), [list(f) for f in w[2]], wire_to_json(w[3])]
    if t == "o":
        return [t, w[1], [wire_to_json(y) for y in w[2]]]
    if t == "E":
        return [t, wire_to_json(w[1])]
    return [list(x) if isinstance(x, (list, tuple)) else x for x in w]


def case_from_replay(d):
    o = d["opts"]
    c = Case(_wire_from_json(d["w"]), d["t"], G.Opts(o["simple"], o["long"], o["real"], o["simap"], o["structval"], o["listslice"]),
             d.get("tag", "replay"), d.get("pos", "top"), io=d.get("io", ""), tz=d.get("tz", 0))
    c.chunk = d.get("chunk")
    return c


# ---------------------------------------------------------------------------------------- positions

SCALARS_FIELD = {"bool": "b", "int": "i", "int8": "i8", "int16": "i16", "int32": "i32", "int64": "i64", "uint": "u",
                 "uint8": "u8", "uint16": "u16", "uint32": "u32", "uint64": "u64", "uintptr": "uP", "float32": "f32",
                 "float64": "f64", "string": "s"}
COMPARABLE = set(G.INTS) | {"bool", "float32", "float64", "complex64", "complex128", "string", "iface", "time", "uuid"}


def positions(w, t):
    """The same token and type in the other container positions."""
    out = [("slice", ("a", [w]), G.Slice(t)),
           ("array", ("a", [w, w]), G.Array(2, t)),
           ("mapval", ("m", [("u", b"k"), w]), G.Map(G.T("string"), t)),
           ("ptr", w, G.Ptr(t)),
           ("ptr3", w, G.Ptr(G.Ptr(G.Ptr(t))))]
    if t["k"] in COMPARABLE:
        out.append(("mapkey", ("m", [w, ("dig", 1)]), G.Map(t, G.T("int"))))
    if t["k"] in SCALARS_FIELD:
        out.append(("field", ("c", b"Scalars", [SCALARS_FIELD[t["k"]].encode()], ("o", 0, [w])), G.Reg("Scalars")))
    if t["k"] == "ptr" and t["e"]["k"] in SCALARS_FIELD and t["e"]["k"] != "uint32":
        out.append(("pfield", ("c", b"PScalars", [SCALARS_FIELD[t["e"]["k"]].encode()], ("o", 0, [w])), G.Reg("PScalars")))
    return out


# ---------------------------------------------------------------------------------------- cases

def build_cases(ctx, env):
    rng = ctx.rng
    quick = ctx.tier == "quick"
    cases = []
    toks = G.scalar_tokens(ctx.tier)
    types = G.dest_types()
    default = G.Opts()
    for w in toks:
        for t in types:
            cases.append(Case(w, t, default, "matrix:" + w[0]))
    # the other positions: every (tag class, type) cell at least once, values rotated by the seed
    by_class = {}
    for w in toks:
        by_class.setdefault(w[0], []).append(w)
    per_cell = 2 if quick else 8
    for cls, ws in sorted(by_class.items()):
        for t in G.SCALAR_TYPES + [G.Ptr(x) for x in G.SCALAR_TYPES[:17]]:
            for w in rng.sample(ws, min(per_cell, len(ws))):
                for pname, w2, t2 in positions(w, t):
                    cases.append(Case(w2, t2, default, "pos:" + pname + ":" + cls, pos=pname, inner=(w, t)))
    # reference mode on a sample of the matrix (reference-list effects of scalar tokens)
    refopt = G.Opts(simple=False)
    for c in rng.sample(cases, min(len(cases), 1500 if quick else 8000)):
        cases.append(Case(c.w, c.t, refopt, "ref:" + c.tag, pos=c.pos, inner=c.inner))
    # interface{} destinations under every option setting
    for w in toks:
        for lng in ("int", "uint", "int64", "uint64", "bigint"):
            for real in ("f64", "f32", "bigfloat"):
                if w[0] in ("l", "d", "N", "I", "a", "m") or (lng == "int" and real == "f64"):
                    for simap in (False, True):
                        for ls in (False, True):
                            if (simap or ls) and w[0] not in ("a", "m"):
                                continue
                            o = G.Opts(True, lng, real, simap, False, ls)
                            cases.append(Case(w, G.IFACE, o, "ifaceopts:" + w[0]))
                            cases.append(Case(("a", [w, w]), G.Slice(G.IFACE), o, "ifaceopts-elem:" + w[0]))
    # containers, objects, references
    for fam, toks2, types2 in (("list", G.LIST_TOKENS, G.LIST_TYPES), ("map", G.MAP_TOKENS, G.MAP_TYPES), ("obj", G.OBJ_TOKENS, G.OBJ_TYPES)):
        for w in toks2:
            for t in types2:
                cases.append(Case(w, t, default, fam + ":" + w[0]))
                cases.append(Case(w, t, refopt, fam + "-ref:" + w[0]))
                if t["k"] == "iface" or (t["k"] == "slice" and t["e"]["k"] == "iface"):
                    for o in (G.Opts(True, "int64", "f32", True, True, True), G.Opts(False, "bigint", "bigfloat", True, False, True),
                              G.Opts(True, "uint", "f64", False, True, False), G.Opts(True, "int", "f64", False, False, True)):
                        cases.append(Case(w, t, o, fam + "-opts:" + w[0]))
    for w, t in G.ref_cases():
        cases.append(Case(w, t, refopt, "refs:" + w[0]))
        cases.append(Case(w, t, G.Opts(False, "int", "f64", True, True, False), "refs-opts:" + w[0]))
        for pname, w2, t2 in positions(w, t):
            if pname in ("ptr", "mapval"):
                continue   # reference indices shift inside a wrapper
    # the decoded value must not share memory with the decoder's input: the same cases through a stream decoder whose
    # buffer is refilled after the value, and through NewDecoder on a slice that is overwritten after decoding
    def keeps_bytes(t):
        ts = G.type_sexp(t)
        return any(x in ts for x in ("(string)", "(bytes)", "(iface)", "(bigint)", "(bigfloat)", "(bigrat)", "(uuid)", "(struct", "(list)"))
    base = [c for c in cases if c.opts is default and keeps_bytes(c.t)]
    stride = 2 if quick else 1
    for i, c in enumerate(base):
        if c.tag.split(":")[0] in ("matrix", "pos") and i % stride:
            continue
        cases.append(Case(c.w, c.t, default, "io-reader:" + c.w[0], pos=c.pos, io="reader"))
        if c.tag.split(":")[0] in ("matrix", "pos"):
            cases.append(Case(c.w, c.t, default, "io-overwrite:" + c.w[0], pos=c.pos, io="overwrite"))
    for c in [c for c in cases if c.opts is refopt and c.tag.startswith("refs:")]:
        cases.append(Case(c.w, c.t, refopt, "io-reader:" + c.w[0], io="reader"))
    # strings over every UTF-8 lead-byte class in every string position: destinations that take text, element / key /
    # value / field positions, class and field names, reference mode, and the stream decoder (chunks split characters)
    text_types = [G.T("string"), G.BYTES, G.IFACE, G.Reg("MyStr"), G.Ptr(G.T("string")), G.T("int"), G.T("bigint"), G.T("time")]
    for b in G.UTF8_STRINGS + ([] if quick else G.UTF8_LEADS):
        w = ("s", b)
        for t in text_types[:3] if b in G.UTF8_LEADS else text_types:
            cases.append(Case(w, t, default, "utf8:s"))
            cases.append(Case(w, t, refopt, "utf8-ref:s"))
            cases.append(Case(w, t, default, "utf8-reader:s", io="reader"))
        for it in (G.T("string"), G.IFACE):
            for pname, w2, t2 in positions(w, it):
                cases.append(Case(w2, t2, default, "utf8-pos:" + pname, pos=pname, inner=(w, it)))
        # as a map key next to itself by reference, as an unknown field name, as a class name
        cases.append(Case(("m", [w, ("dig", 1), ("s", b"k"), ("r", 1)]), G.Map(G.T("string"), G.IFACE), refopt, "utf8-key:s"))
        cases.append(Case(("m", [w, w]), G.Map(G.IFACE, G.IFACE), default, "utf8-key:s"))
        cases.append(Case(("c", b"Inner", [b"x", b, b"y"], ("o", 0, [("dig", 1), w, ("s", b"why")])), G.Reg("Inner"), default, "utf8-field:s"))
        cases.append(Case(("c", b"Inner", [b"x", b, b"y"], ("o", 0, [("dig", 1), w, ("s", b"why")])), G.IFACE, default, "utf8-field:s"))
        cases.append(Case(("c", b, [b"x"], ("o", 0, [("dig", 1)])), G.IFACE, default, "utf8-class:s"))
        cases.append(Case(("c", b, [b"x"], ("o", 0, [("dig", 1)])), G.Map(G.T("string"), G.IFACE), refopt, "utf8-class:s"))
    for b in G.UTF8_CHARS:
        w = ("u", b)
        for t in text_types + [G.T("uint16"), G.T("bool")]:
            cases.append(Case(w, t, default, "utf8:u"))
            cases.append(Case(w, t, default, "utf8-reader:u", io="reader"))
        for pname, w2, t2 in positions(w, G.T("string")):
            cases.append(Case(w2, t2, default, "utf8-pos:" + pname, pos=pname, inner=(w, G.T("string"))))
    # the cost limits of *big.Int (binary digits of a double) and *big.Rat (written exponent of a text)
    big_types = [G.T("bigint"), G.Ptr(G.T("bigint")), G.T("bigrat"), G.Ptr(G.T("bigrat")), G.T("bigfloat"), G.IFACE, G.T("float64"),
                 G.T("string"), G.Slice(G.T("bigint")), G.Slice(G.T("bigrat")), G.Map(G.T("string"), G.Ptr(G.T("bigrat")))]
    for kind, texts in (("d", G.COST_DOUBLES), ("s", G.COST_STRINGS)):
        for b in texts:
            w = (kind, b)
            for t in big_types:
                w2 = ("a", [w, w]) if t["k"] == "slice" else (("m", [("u", b"k"), w]) if t["k"] == "map" else w)
                cases.append(Case(w2, t, default, "cost:" + kind))
            if kind == "s":    # the same text through the converters of the reference list
                cases.append(Case(("a", [w, ("r", 1)]), G.Slice(G.T("bigrat")), refopt, "cost-ref:s"))
                cases.append(Case(("a", [w, ("r", 1)]), G.Slice(G.Ptr(G.T("bigrat"))), refopt, "cost-ref:s"))
            cases.append(Case(w, G.IFACE, G.Opts(True, "bigint", "bigfloat"), "cost-opts:" + kind))
    # local zones with an offset: every time token (and the numbers and strings that convert to times) into the time
    # destinations with time.Local at +05:00 and -09:30; the oracle answers (unix, tstr, ptime) are taken in the same zone
    time_toks = [w for w in toks if w[0] in ("D", "DT", "T")]
    time_toks += [("i", 0), ("i", 86400), ("l", 1600000000123456789), ("d", b"1.5"), ("s", b"2020-01-02 03:04:05"),
                  ("s", b"2020-01-02T03:04:05Z"), ("s", b"15:04:05"), ("s", b"2020-01-02T03:04:05+07:00"), ("e",), ("n",)]
    time_types = [G.T("time"), G.Ptr(G.T("time")), G.IFACE, G.T("string"), G.Slice(G.T("time")), G.Map(G.T("string"), G.T("time")),
                  G.Map(G.T("time"), G.T("int"))]
    for tz in (18000, -34200):
        for w in time_toks:
            for t in time_types:
                if t["k"] == "slice":
                    w2 = ("a", [w, w])
                elif t["k"] == "map":
                    w2 = ("m", [("u", b"k"), w]) if t["key"]["k"] == "string" else ("m", [w, ("dig", 1)])
                else:
                    w2 = w
                cases.append(Case(w2, t, default, "tz:" + w[0], tz=tz))
            cases.append(Case(("a", [w, ("r", 1)]), G.Slice(G.IFACE), refopt, "tz-ref:" + w[0], tz=tz))
            cases.append(Case(("a", [w, ("r", 1)]), G.Slice(G.T("string")), refopt, "tz-ref:" + w[0], tz=tz))
    # random structured values: types of depth <= 3 and wire trees shaped by them
    rg = G.RandGen(rng, env["structs"])
    for i in range(1500 if quick else 40000):
        w, t = rg.case(3)
        o = rng.choice([default, default, refopt, G.Opts(True, rng.choice(["int", "uint", "int64", "uint64", "bigint"]),
                                                         rng.choice(["f64", "f32", "bigfloat"]), rng.random() < 0.5, rng.random() < 0.5, rng.random() < 0.5)])
        cases.append(Case(w, t, o, "rand:" + w[0]))
    cases = corpus_cases() + cases
    for i, c in enumerate(cases):
        c.id = i + 1
    return cases


def corpus_cases():
    """Minimised streams of past findings (corpus/C06-*.json): fixed ones must pass, known ones keep their key."""
    import glob
    out = []
    for f in sorted(glob.glob(os.path.join(hv.V, "corpus", "C06-*.json"))):
        try:
            r = json.load(open(f))
            c = case_from_replay(r["case"])
            c.tag = "corpus:" + os.path.basename(f)
            out.append(c)
        except Exception:
            pass
    return out


# ---------------------------------------------------------------------------------------- execution

def _table(env, tz):
    """The oracle answers obtained with time.Local at that offset (unix, tstr and ptime depend on it)."""
    if not tz:
        return env["oracle"]
    return env.setdefault("oracle_tz", {}).setdefault(tz, {})


def _go_oracle(env, queries, tz=0):
    tab = _table(env, tz)
    qs = sorted(q for q in queries if q not in tab)
    if not qs:
        return
    send = []
    for i in range(0, len(qs), 2000):
        chunk = qs[i:i + 2000]
        send.append({"id": i + 1, "op": "orc", "tz": tz, "q": [[f.hex(), a.hex()] for f, a in chunk]})
    rc, obs, err = hv.run_harness("c06", send, timeout=600)
    if rc != 0:
        raise hv.EnvError("oracle executor failed: " + err[-500:])
    for s, o in zip(send, obs):
        for (f, a), r in zip(s["q"], o.get("r", [])):
            tab[(bytes.fromhex(f), bytes.fromhex(a))] = bytes.fromhex(r)


def _model_line(env, c, extra, go=None):
    names = G.struct_names(c.t, set()) | set(env["registered"])
    qs = G.oracle_queries(c.w) | extra
    tab = _table(env, c.tz)
    orc = " ".join("(x%s x%s x%s)" % (f.hex(), a.hex(), tab[(f, a)].hex()) for f, a in sorted(qs) if (f, a) in tab)
    return "(case %s %s (type %s) (wire %s) (orc %s)%s)" % (
        c.opts.sexp(env["registered"]), G.tenv_sexp(env["structs"], names), G.type_sexp(c.t), G.wire_sexp(c.w), orc,
        " (go %s)" % go if go else "")


def _kv(line):
    d = {}
    for tok in line.strip().split(" "):
        if "=" in tok:
            k, v = tok.split("=", 1)
            d[k] = v
    if "val" in d:
        d["val"] = d["val"].replace("_", " ")
    return d


def execute(ctx, env, cases):
    # oracle tables for every text that occurs in the streams
    qs = {}
    for c in cases:
        qs.setdefault(c.tz, set()).update(G.oracle_queries(c.w))
    for tz in sorted(qs):
        _go_oracle(env, qs[tz], tz)
    extra = {c.id: set() for c in cases}
    todo = list(cases)
    for rnd in range(8):
        lines = [_model_line(env, c, extra[c.id]) for c in todo]
        outs = hv.run_model("c06", lines) if lines else []
        again, need = [], {}
        for c, out in zip(todo, outs):
            c.model = _kv(out) if not out.startswith("MODEL-ERROR") else {"out": "modelerror", "msg": out[:200]}
            miss = None
            if c.model.get("out") == "miss":
                miss = (c.model["fn"], c.model["arg"])
            elif c.model.get("rep") == "miss":
                miss = (c.model["rfn"], c.model["rarg"])
            if miss:
                q = (bytes.fromhex(miss[0]), bytes.fromhex(miss[1][1:]))
                if q in extra[c.id]:
                    c.model = {"out": "modelerror", "msg": "oracle entry rejected: %r" % (q,), "hex": c.model.get("hex", "")}
                    continue
                extra[c.id].add(q)
                need.setdefault(c.tz, set()).add(q)
                again.append(c)
        if not again:
            break
        for tz in sorted(need):
            _go_oracle(env, need[tz], tz)
        todo = again
    send = []
    for c in cases:
        if c.model.get("hex") is None:
            continue
        d = {"id": c.id, "op": "dec", "t": c.t, "hex": c.model["hex"]}
        if c.io:
            d["io"] = c.io
            d["chunk"] = c.chunk if c.chunk is not None else c.id % 9
        if c.tz:
            d["tz"] = c.tz
        d.update(c.opts.go())
        send.append(d)
    obs_by_id, crashes = hv.run_harness_resilient("c06", send, timeout=1800, max_crashes=60)
    crashed = {cc["id"]: (rc, err) for cc, rc, err in crashes}
    for c in cases:
        c.go = obs_by_id.get(c.id)
        if c.id in crashed:
            c.crash = crashed[c.id]
    # the property's oracle on the implementation's behaviour where it differs from the model's
    env["extra"] = extra
    redo = [c for c in cases if c.model.get("mv") and not agree(c)]
    lines = []
    for c in redo:
        g = go_class(c)
        go = "ok " + c.go["val"] if g == "ok" else ("err" if g == "err" else "panic")
        lines.append(_model_line(env, c, extra[c.id], go))
    outs = hv.run_model("c06", lines) if lines else []
    for c, out in zip(redo, outs):
        c.model["gv"] = _kv(out).get("gv", "unknown")


# ---------------------------------------------------------------------------------------- judgement

def go_class(c):
    if c.crash is not None:
        return "fatal"
    if c.go is None:
        return "none"
    return c.go.get("out", "none")


def model_class(c):
    o = c.model.get("out")
    return {"ok": "ok", "err": "err", "panic": "panic"}.get(o, o)


def agree(c):
    """Projected observables: outcome class, and the value when both succeed."""
    g, m = go_class(c), model_class(c)
    if m == "panic" and c.model.get("site") in ("objintoiimap", "mapcopy"):
        return g in ("fatal", "walkpanic", "panic")     # memory corrupted: the process dies now or on first use
    if g != m:
        return False
    if g == "ok":
        return c.go.get("val") == c.model.get("val")
    return True


def short(c):
    return {"type": G.type_sexp(c.t), "wire": G.wire_sexp(c.w), "hex": c.model.get("hex"), "opts": c.opts.go(), "io": c.io,
            "model": {k: c.model.get(k) for k in ("out", "val", "cls", "site", "why", "msg") if c.model.get(k) is not None},
            "go": ({k: c.go.get(k) for k in ("out", "val", "msg") if c.go.get(k)} if c.go else None),
            "crash": (c.crash[1][-300:] if c.crash else None)}


UNSIGNED = ("KUint", "KUint8", "KUint16", "KUint32", "KUint64", "KUintptr")


def _ints_in(w, acc):
    t = w[0]
    if t in ("i", "l"):
        acc.append(w[1])
    elif t in ("a", "m"):
        for x in w[1]:
            _ints_in(x, acc)
    elif t == "c":
        _ints_in(w[3], acc)
    elif t == "o":
        for x in w[2]:
            _ints_in(x, acc)
    return acc


def _has_tag(w, tag):
    t = w[0]
    if t == tag:
        return True
    if t in ("a", "m"):
        return any(_has_tag(x, tag) for x in w[1])
    if t == "c":
        return _has_tag(w[3], tag)
    if t == "o":
        return any(_has_tag(x, tag) for x in w[2])
    return False


def finding_key(c, verdict):
    """One key per defect class (what the value is converted into x which value class)."""
    ts = G.type_sexp(c.t)
    if c.inner is not None:
        ts = G.type_sexp(c.inner[1])      # the same token and type in another position: one defect class
    msg = ((c.go or {}).get("msg") or "") + (c.crash[1] if c.crash else "")
    if verdict == "panic":
        if model_class(c) == "err" and go_class(c) == "panic":
            # the model stops at the first error; the implementation goes on and trips over the rest of the stream
            return ("c06:error-then-desynchronised-stream-panics",
                    "after a first conversion error decodeError no longer consumes the values it rejects: their payload is then read as tags and a bogus reference/class index panics instead of the error being returned")
        if "unhashable" in msg:
            return "c06:unhashable-map-key-panics", "a list, map or byte string used as a map key makes the decoder panic (hash of unhashable type)"
        if c.model.get("site") == "objintoiimap" or "name offset" in msg or go_class(c) == "fatal" and _has_tag(c.w, "o") and "(map (iface)" in ts:
            return "c06:object-into-interface-keyed-map-corrupts-memory", "an object decoded into map[interface{}]interface{} writes a string header as an interface key: the process dies"
        if c.model.get("site") == "objasmapfield":
            return "c06:object-as-map-unknown-field-nil-deref", "an object of a registered class with a field the Go type does not have, decoded into map[string]interface{}: nil FieldAccessor dereferenced"
        if c.model.get("site") == "mapcopy":
            return "c06:reference-to-object-map-corrupts-typed-map", "a reference to an object that was read as map[string]interface{}, decoded into a typed map: mapCopy reads the map header as a pointer"
        return "c06:panic:" + (c.model.get("site") or "unknown") + ":" + c.w[0], "the decoder panics on a well-formed stream"
    if c.io and verdict in ("missingerror", "wrongvalue", "spuriouserror") and not agree(c):
        if _has_tag(c.w, "s") or _has_tag(c.w, "b"):
            return ("c06:string-window-overwritten-by-refill-before-use",
                    "simple mode, stream decoder: ReadUnsafeString / readUnsafeBytes return a window of the read buffer and then Skip() the "
                    "closing quote; when that Skip refills the buffer the window is overwritten BEFORE the string is parsed or copied "
                    "(strconv / big / uuid / [N]byte destinations): wrong value or spurious error")
        return ("c06:decoded-value-shares-the-read-buffer:" + c.io,
                "a decoded string / byte slice still points into the decoder's input: it changes when the stream decoder refills its "
                "buffer (reader) or when the caller reuses the input slice (overwrite)")
    if verdict in ("missingerror", "wrongvalue"):
        ints = _ints_in(c.w, [])
        # an object of a registered class decoded through interface{} has typed (integer) fields as well
        intdest = "(int " in ts or "bigint" in ts or "(struct" in ts or _has_tag(c.w, "o")
        if _has_tag(c.w, "d") and intdest:
            return "c06:float-to-int-truncates-silently", "a double that is not an integer of the destination's range is converted to an integer without error"
        if ("(iface)" in ts or "(list)" in ts) and _has_tag(c.w, "l") and not ("(int " in ts or "bigint" in ts):
            if c.opts.long in ("uint", "uint64") and any(z < 0 for z in ints):
                return "c06:negative-into-unsigned-wraps", "a negative integer decoded into an unsigned destination wraps around without error"
            return "c06:integer-above-int64-in-interface-wraps", "a long outside the configured integer type decoded into interface{} wraps around without error"
        if intdest:
            if any(u in ts for u in UNSIGNED) and any(z < 0 for z in ints):
                return "c06:negative-into-unsigned-wraps", "a negative integer decoded into an unsigned destination wraps around without error"
            return "c06:narrowing-int-overflow-wraps-silently", "an integer outside the destination's range is stored modulo 2^n without error"
        return "c06:%s:%s:%s" % (verdict, ts[:40], c.w[0]), "the decoder returns a value where the destination cannot represent the denoted value"
    if verdict == "spuriouserror":
        return "c06:refuses-representable:%s:%s" % (ts[:40], c.w[0]), "the decoder reports an error although the destination can represent the denoted value exactly"
    return "c06:%s:%s" % (verdict, c.w[0]), verdict


def _elems(sx):
    """Top-level elements of an S-expression string "(a b (c d))" -> ["a", "b", "(c d)"]."""
    sx = sx.strip()
    if not (sx.startswith("(") and sx.endswith(")")):
        return None
    out, depth, cur = [], 0, ""
    for ch in sx[1:-1]:
        if ch == "(":
            depth += 1
        elif ch == ")":
            depth -= 1
        if ch == " " and depth == 0:
            if cur:
                out.append(cur)
            cur = ""
        else:
            cur += ch
    if cur:
        out.append(cur)
    return out


def project(pos, val):
    """The inner value of a decoded wrapper (position independence): None when the shape is not the wrapper's."""
    e = _elems(val or "")
    if not e:
        return None
    if pos == "slice" and e[0] == "slice" and len(e) == 2:
        return [e[1]]
    if pos == "array" and e[0] == "arr" and len(e) == 3:
        return [e[1], e[2]]
    if pos == "ptr" and e[0] == "ptr" and len(e) == 2:
        return [e[1]]
    if pos == "ptr3" and e[0] == "ptr":
        x = val
        for _ in range(3):
            ee = _elems(x)
            if not ee or ee[0] != "ptr" or len(ee) != 2:
                return None
            x = ee[1]
        return [x]
    if pos == "mapval" and e[0] == "map" and len(e) == 2:
        kv = _elems(e[1])
        return [kv[1]] if kv and len(kv) == 2 else None
    if pos == "mapkey" and e[0] == "map" and len(e) == 2:
        kv = _elems(e[1])
        return [kv[0]] if kv and len(kv) == 2 else None
    return None


def judge(ctx, env, cases, verbose=False):
    bad = 0
    unmodelled = {}
    # how the input reaches the decoder must not matter: the implementation's result from a stream decoder / a reused
    # input slice against its own result from NewDecoder on the same bytes
    plain = {}
    for c in cases:
        if not c.io and c.go:
            plain[(G.wire_sexp(c.w), G.type_sexp(c.t), c.opts.key(), c.tz)] = (go_class(c), c.go.get("val"))
    for c in cases:
        if c.io and c.go and c.model.get("mv"):
            p = plain.get((G.wire_sexp(c.w), G.type_sexp(c.t), c.opts.key(), c.tz))
            if p is not None and p != (go_class(c), c.go.get("val")) and (c.model.get("gv") or c.model.get("mv")) in ("ok", "unspec"):
                c.model["gv"] = "wrongvalue"
    for c in cases:
        m = model_class(c)
        ctx.bump("cases_by_family", c.tag.split(":")[0])
        ctx.bump("tags_hit", c.w[0])
        ctx.bump("go_outcomes", go_class(c))
        if m in ("unk", "modelerror", "fuel", "miss"):
            unmodelled[c.model.get("why", m)] = unmodelled.get(c.model.get("why", m), 0) + 1
            ctx.bump("unmodelled")
            continue
        canon = c.io + c.opts.key() + ("@%d" % c.tz if c.tz else "") + "|" + G.type_sexp(c.t) + "|" + G.wire_sexp(c.w)
        ctx.count_case(canon, nontrivial=(c.w[0] not in ("n",)))
        ctx.sample("%s <- %s : %s" % (G.type_sexp(c.t), c.model.get("hex"), c.model.get("val") or m))
        if verbose:
            print(json.dumps(short(c))[:1500])
        if not agree(c) and not (m == "err" and go_class(c) == "panic") and not (
                c.io and (c.model.get("gv") in ("wrongvalue", "spuriouserror", "missingerror"))):
            bad += 1
            key = "c06:correspondence:%s:%s" % (c.tag.split(":")[0], c.w[0])
            ctx.report(key, "model and implementation disagree (%s into %s: model %s, go %s)" % (
                G.wire_sexp(c.w)[:80], G.type_sexp(c.t), (c.model.get("val") or m)[:80], ((c.go or {}).get("val") or go_class(c))[:80]),
                {"case": {"w": wire_to_json(c.w), "t": c.t, "opts": c.opts.go(), "tag": c.tag, "pos": c.pos},
                 "detail": short(c), "failing_input": False,
                 "correspondence": "Model/DecVal.v dec vs io.Decoder.Decode"})
    ctx.note("unmodelled_paths", unmodelled)
    # "the outcome is the same in every position": the implementation's own results, top level against wrapped
    tops = {}
    for c in cases:
        if c.pos == "top" and c.go and not c.io:
            tops[(G.wire_sexp(c.w), G.type_sexp(c.t), c.opts.key(), c.tz)] = c
    for c in cases:
        if c.inner is None or c.io or not c.go or c.inner[0][0] == "n":
            continue
        top = tops.get((G.wire_sexp(c.inner[0]), G.type_sexp(c.inner[1]), c.opts.key(), c.tz))
        if top is None:
            continue
        tv = top.go.get("val") or ""
        if c.pos == "mapkey" and (tv.startswith("(iface (bytes)") or tv.startswith("(iface (slice") or tv.startswith("(iface (map")):
            continue       # a Go map key cannot hold a slice or a map: the language, not the decoder
        ctx.bump("position_pairs")
        gt, gp = go_class(top), go_class(c)
        same = gt == gp
        if same and gt == "ok":
            inner = project(c.pos, c.go.get("val"))
            if inner is not None:
                same = all(x == top.go.get("val") for x in inner)
        if not same:
            bad += 1
            ctx.report("c06:position-dependent:%s:%s" % (c.pos, c.inner[0][0]),
                       "the same token decodes differently at top level and as %s: %s vs %s" % (
                           c.pos, (top.go.get("val") or gt)[:80], (c.go.get("val") or gp)[:80]),
                       {"case": c.to_replay_json(), "detail": short(c), "top": short(top), "failing_input": True})
    # the property's own oracle on the implementation's behaviour (every case, agreeing or not)
    groups = {}
    for c in cases:
        v = c.model.get("gv") or c.model.get("mv")
        ctx.bump("verdicts", v or "none")
        if v in (None, "ok", "unspec", "specmiss", "unknown"):
            continue
        key, what = finding_key(c, v)
        g = groups.setdefault(key, [what, [], set()])
        g[1].append(c)
        g[2].add(v)
    for key, (what, cs, vs) in sorted(groups.items()):
        cs.sort(key=lambda c: (len(c.model.get("hex") or ""), c.id))
        c = cs[0]
        bad += 1
        ctx.bump("finding_cases", key, len(cs))
        ctx.report(key, "%s; minimal stream %s into %s (%d cases, verdicts %s)" % (
            what, bytes.fromhex(c.model.get("hex") or "").decode("latin1"), G.type_sexp(c.t), len(cs), ",".join(sorted(vs))),
            {"case": c.to_replay_json(), "detail": short(c), "failing_input": True, "stream_hex": c.model.get("hex"),
             "expected": c.model.get("repval") or c.model.get("rep"), "cases": len(cs)})
    return bad
