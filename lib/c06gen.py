"""C06: generator of (wire tree, destination type, decoder options) cases.

Wire trees are Python tuples mirroring Model/Wire.v and are written as the S-expressions that
extract/drv_c06.ml reads; the byte stream itself is produced by the extracted Wire.emit (the
independent writer), never by Go.  Types are the TD dictionaries of harness/cmd/io/desc.go plus
their model form (gtype S-expression)."""
import json

INTS = ["int", "int8", "int16", "int32", "int64", "uint", "uint8", "uint16", "uint32", "uint64", "uintptr"]
KNAME = {"int": "KInt", "int8": "KInt8", "int16": "KInt16", "int32": "KInt32", "int64": "KInt64", "uint": "KUint",
         "uint8": "KUint8", "uint16": "KUint16", "uint32": "KUint32", "uint64": "KUint64", "uintptr": "KUintptr"}
NAMED_BASIC = {"MyInt": "int", "MyI8": "int8", "MyU16": "uint16", "MyStr": "string", "MyF64": "float64", "MyBool": "bool"}


def T(k, **kw):
    d = {"k": k}
    d.update(kw)
    return d


def Slice(e): return T("slice", e=e)
def Array(n, e): return T("array", n=n, e=e)
def Map(k, e): return T("map", key=k, e=e)
def Ptr(e): return T("ptr", e=e)
def Reg(name): return T("reg", name=name)


IFACE = T("iface")
LIST = Ptr(T("list"))


def hx(b):
    return "x" + bytes(b).hex()


def type_sexp(td):
    k = td["k"]
    if k in INTS:
        return "(int %s)" % KNAME[k]
    if k == "bool": return "(bool)"
    if k == "float32": return "(f32)"
    if k == "float64": return "(f64)"
    if k == "complex64": return "(c64)"
    if k == "complex128": return "(c128)"
    if k == "string": return "(string)"
    if k in ("time", "uuid", "bigint", "bigfloat", "bigrat", "iface"): return "(%s)" % k
    if k == "slice":
        if td["e"]["k"] == "uint8":
            return "(bytes)"
        return "(slice %s)" % type_sexp(td["e"])
    if k == "array": return "(array %d %s)" % (td["n"], type_sexp(td["e"]))
    if k == "map": return "(map %s %s)" % (type_sexp(td["key"]), type_sexp(td["e"]))
    if k == "ptr":
        if td["e"]["k"] == "list":
            return "(list)"
        return "(ptr %s)" % type_sexp(td["e"])
    if k == "reg":
        if td["name"] in NAMED_BASIC:
            return type_sexp(T(NAMED_BASIC[td["name"]]))
        return "(struct %s)" % hx(td["name"].encode())
    raise ValueError("type_sexp %r" % (td,))


def struct_names(td, acc):
    k = td["k"]
    if k == "reg" and td["name"] not in NAMED_BASIC:
        acc.add(td["name"])
    for sub in ("e", "key"):
        if sub in td and isinstance(td[sub], dict):
            struct_names(td[sub], acc)
    return acc


def tenv_sexp(structs, roots):
    """Type environment: the struct types reachable from roots (registered names are always included)."""
    todo, seen = list(roots), set()
    while todo:
        n = todo.pop()
        if n in seen or n not in structs:
            continue
        seen.add(n)
        for f in structs[n]:
            for m in struct_names(f["t"], set()):
                todo.append(m)
    out = []
    for n in sorted(seen):
        fs = " ".join("(%s %s)" % (hx(f["alias"].encode()), type_sexp(f["t"])) for f in structs[n])
        out.append("(%s %s)" % (hx(n.encode()), fs) if fs else "(%s)" % hx(n.encode()))
    return "(tenv %s)" % " ".join(out) if out else "(tenv)"


# ---------------------------------------------------------------------------------------- wire trees

def wire_sexp(w):
    t = w[0]
    if t in ("n", "e", "t", "f", "N"):
        return "(%s)" % t
    if t == "I": return "(I %d)" % (1 if w[1] else 0)
    if t == "dig": return "(dig %d)" % w[1]
    if t in ("i", "l"): return "(%s %d)" % (t, w[1])
    if t in ("d", "u", "s", "b", "g"): return "(%s %s)" % (t, hx(w[1]))
    if t == "D": return "(D %d %d %d %d)" % (w[1], w[2], w[3], 1 if w[4] else 0)
    if t == "DT": return "(DT %d %d %d %d %d %d (%s) %d)" % (w[1], w[2], w[3], w[4], w[5], w[6], " ".join(map(str, w[7])), 1 if w[8] else 0)
    if t == "T": return "(T %d %d %d (%s) %d)" % (w[1], w[2], w[3], " ".join(map(str, w[4])), 1 if w[5] else 0)
    if t in ("a", "m"): return "(%s%s)" % (t, "".join(" " + wire_sexp(x) for x in w[1]))
    if t == "c": return "(c %s (%s) %s)" % (hx(w[1]), " ".join(hx(f) for f in w[2]), wire_sexp(w[3]))
    if t == "o": return "(o %d%s)" % (w[1], "".join(" " + wire_sexp(x) for x in w[2]))
    if t == "r": return "(r %d)" % w[1]
    if t == "E": return "(E %s)" % wire_sexp(w[1])
    raise ValueError("wire_sexp %r" % (w,))


def has_ref(w):
    t = w[0]
    if t == "r":
        return True
    if t in ("a", "m"):
        return any(has_ref(x) for x in w[1])
    if t == "c":
        return has_ref(w[3])
    if t == "o":
        return any(has_ref(x) for x in w[2])
    if t == "E":
        return has_ref(w[1])
    return False


def texts_of(w, acc):
    """Strings the model may hand to an oracle: number texts, string/char/bytes contents."""
    t = w[0]
    if t in ("i", "l"):
        acc.add(("num", str(w[1]).encode()))
    elif t == "dig":
        acc.add(("num", str(w[1]).encode()))
    elif t == "d":
        acc.add(("num", bytes(w[1])))
    elif t in ("u", "s", "b"):
        acc.add(("str", bytes(w[1])))
    elif t in ("a", "m"):
        for x in w[1]:
            texts_of(x, acc)
        for i in range(len(w[1])):
            acc.add(("idx", str(i).encode()))
    elif t == "c":
        texts_of(w[3], acc)
    elif t == "o":
        for x in w[2]:
            texts_of(x, acc)
    elif t == "E":
        texts_of(w[1], acc)
    elif t in ("D", "DT", "T"):
        if t == "T":
            y, mo, d, h, mi, s, fr, utc = 1970, 1, 1, w[1], w[2], w[3], w[4], w[5]
        elif t == "D":
            y, mo, d, h, mi, s, fr, utc = w[1], w[2], w[3], 0, 0, 0, [], w[4]
        else:
            y, mo, d, h, mi, s, fr, utc = w[1:9]
        ns = 0
        for i, g in enumerate(fr[:3]):
            ns += g * (1000000, 1000, 1)[i]
        acc.add(("time", ("%d,%d,%d,%d,%d,%d,%d,%d" % (y, mo, d, h, mi, s, ns, 1 if utc else 0)).encode()))
    return acc


NUM_FNS = [b"pf64", b"pf32", b"bf", b"bfint", b"nf", b"ratf", b"unix"] + [b"f2i:" + k.encode() for k in INTS]
STR_FNS = [b"pf64", b"pf32", b"pc64", b"pc128", b"bf", b"rat", b"ptime", b"uuid"]


def oracle_queries(w):
    qs = set()
    for kind, txt in texts_of(w, set()):
        if kind == "num":
            for f in NUM_FNS:
                qs.add((f, txt))
        elif kind == "idx":
            qs.add((b"pf64", txt)); qs.add((b"pf32", txt))
        elif kind == "str":
            for f in STR_FNS:
                qs.add((f, txt))
        elif kind == "time":
            qs.add((b"tstr", txt))
    qs.add((b"unix", b"0")); qs.add((b"unix", b"1"))
    return qs


class Opts:
    def __init__(self, simple=True, long="int", real="f64", simap=False, structval=False, listslice=False):
        self.simple, self.long, self.real, self.simap, self.structval, self.listslice = simple, long, real, simap, structval, listslice

    def sexp(self, registered):
        return "(opts %d %s %s %d %d %d (reg%s))" % (
            1 if self.simple else 0, self.long, self.real, 1 if self.simap else 0, 1 if self.structval else 0,
            1 if self.listslice else 0, "".join(" " + hx(n.encode()) for n in registered))

    def go(self):
        return {"simple": self.simple, "long": self.long, "real": self.real, "simap": self.simap,
                "structval": self.structval, "listslice": self.listslice}

    def key(self):
        return "%d%s%s%d%d%d" % (self.simple, self.long, self.real, self.simap, self.structval, self.listslice)


# ---------------------------------------------------------------------------------------- token sets

def S(x):
    return x.encode() if isinstance(x, str) else bytes(x)


GUID = b"3f257da7-0b85-48d6-8f5c-6cd13d2d60c9"


def scalar_tokens(tier):
    """Every tag class with its alternative spellings and boundary values."""
    toks = [("n",), ("e",), ("t",), ("f",), ("N",), ("I", False), ("I", True)]
    toks += [("dig", d) for d in (0, 1, 5, 9)]
    ints = [0, 1, 5, 9, 10, -1, -9, 127, 128, -128, -129, 255, 256, 300, 32767, 32768, -32769, 65535, 65536,
            2147483647, -2147483648]
    toks += [("i", z) for z in ints]
    longs = [0, 5, -1, 255, 256, 300, 65536, 2147483647, 2147483648, -2147483649, 4294967295, 4294967296,
             9007199254740992, 9007199254740993, 9223372036854775807, 9223372036854775808, -9223372036854775808,
             -9223372036854775809, 18446744073709551615, 18446744073709551616, 18446744073709551617,
             123456789012345678901234567890, -123456789012345678901234567890]
    toks += [("l", z) for z in longs]
    dbl = ["0", "-0", "1", "1.5", "-1.5", "2.0", "0.0", "0.1", "1e3", "1E3", "255", "256.0", "300.5", "-1", "-129",
           "1e10", "2147483649", "4294967297", "9.223372036854776e18", "1e19", "1.8446744073709552e19", "1e100",
           "-1e100", "1e-320", "1e400", "3.4028235e38", "3.5e38", "0.30000000000000004", "123456789012345678",
           "1.7976931348623157e308", "5e-324", ".5", "5.", "+1.5"]
    toks += [("d", S(x)) for x in dbl]
    toks += [("u", S(x)) for x in ["a", "5", "0", "1", "t", "T", "-", "é", "中", " "]]
    strs = ["", "a", "5", "12", "-7", "+7", "300", "1.5", "true", "false", "TRUE", "abc", "é中😀", "18446744073709551616",
            "-129", "128", "1e3", "NaN", "inf", "-Inf", "0x10", "1_000", " 5", "(1+2i)", "1+2i", "3i", "2020-01-02 03:04:05",
            "2020-01-02T03:04:05Z", "15:04:05", "1/3", "-2/4", "1e400", GUID.decode(), "{" + GUID.decode() + "}",
            GUID.decode().upper(), "9223372036854775808", "65536", "99999999999999999999.5"]
    toks += [("s", S(x)) for x in strs]
    toks += [("b", S(x)) for x in [b"", b"a", b"hello", b"\x00\xff", bytes(range(16)), GUID, b"12"]]
    toks += [("g", GUID), ("g", GUID.upper())]
    toks += [("D", 2020, 1, 2, True), ("D", 2020, 2, 29, False), ("DT", 2020, 1, 2, 3, 4, 5, [], True),
             ("DT", 1, 1, 1, 0, 0, 0, [], True), ("DT", 9999, 12, 31, 23, 59, 59, [999, 999, 999], False),
             ("DT", 1969, 12, 31, 23, 59, 59, [123], False), ("DT", 2020, 6, 15, 12, 0, 0, [123, 456], True),
             ("T", 3, 4, 5, [], True), ("T", 0, 0, 0, [], False), ("T", 23, 59, 59, [1, 2, 3], False)]
    toks += [("a", []), ("a", [("dig", 1), ("i", 22)]), ("a", [("d", b"1.5"), ("d", b"-2")]), ("a", [("dig", 1)]),
             ("a", [("dig", 1), ("dig", 2), ("dig", 3)]), ("a", [("i", 300)]), ("a", [("s", b"hi"), ("n",)]),
             ("m", []), ("m", [("u", b"a"), ("dig", 1)]), ("m", [("dig", 1), ("s", b"one"), ("dig", 2), ("s", b"two")]),
             ("E", ("s", b"boom"))]
    return toks


SCALAR_TYPES = ([T("bool")] + [T(k) for k in INTS] + [T("float32"), T("float64"), T("complex64"), T("complex128"),
                T("string"), Slice(T("uint8")), T("bigint"), T("bigfloat"), T("bigrat"), T("time"), T("uuid"), IFACE])


def dest_types():
    ts = list(SCALAR_TYPES)
    ts += [Ptr(t) for t in SCALAR_TYPES]
    ts += [Ptr(Ptr(T("int"))), Ptr(Ptr(Ptr(T("string")))), Ptr(Ptr(T("bigint"))), Ptr(Ptr(T("time")))]
    ts += [Reg(n) for n in NAMED_BASIC]
    return ts


def tag_class(w):
    return w[0]
