"""C06: generator of (wire tree, destination type, decoder options) cases.

Wire trees are Python tuples mirroring Model/Wire.v and are written as the S-expressions that
extract/drv_c06.ml reads; the byte stream itself is produced by the extracted Wire.emit (the
independent writer), never by Go.  Types are the TD dictionaries of harness/cmd/io/desc.go plus
their model form (gtype S-expression)."""
import json

INTS = ["int", "int8", "int16", "int32", "int64", "uint", "uint8", "uint16", "uint32", "uint64", "uintptr"]
KNAME = {"int": "KInt", "int8": "KInt8", "int16": "KInt16", "int32": "KInt32", "int64": "KInt64", "uint": "KUint",
         "uint8": "KUint8", "uint16": "KUint16", "uint32": "KUint32", "uint64": "KUint64", "uintptr": "KUintptr"}
NAMED_BASIC = {"MyInt": "int", "MyI8": "int8", "MyU16": "uint16", "MyStr": "string", "MyF64": "float64", "MyBool": "bool"}
NAMED_OTHER = {"MyInts": {"k": "slice", "e": {"k": "int"}}, "MyBytes": {"k": "slice", "e": {"k": "uint8"}}}


def T(k, **kw):
    d = {"k": k}
    d.update(kw)
    return d


def Slice(e): return T("slice", e=e)
def Array(n, e): return T("array", n=n, e=e)
def Map(k, e): return T("map", key=k, e=e)
def Ptr(e): return T("ptr", e=e)
def Reg(name): return T("reg", name=name)


IFACE = T("iface")
LIST = Ptr(T("list"))


def hx(b):
    return "x" + bytes(b).hex()


def type_sexp(td):
    k = td["k"]
    if k in INTS:
        return "(int %s)" % KNAME[k]
    if k == "bool": return "(bool)"
    if k == "float32": return "(f32)"
    if k == "float64": return "(f64)"
    if k == "complex64": return "(c64)"
    if k == "complex128": return "(c128)"
    if k == "string": return "(string)"
    if k in ("time", "uuid", "bigint", "bigfloat", "bigrat", "iface"): return "(%s)" % k
    if k == "slice":
        if td["e"]["k"] == "uint8":
            return "(bytes)"
        return "(slice %s)" % type_sexp(td["e"])
    if k == "array": return "(array %d %s)" % (td["n"], type_sexp(td["e"]))
    if k == "map": return "(map %s %s)" % (type_sexp(td["key"]), type_sexp(td["e"]))
    if k == "ptr":
        if td["e"]["k"] == "list":
            return "(list)"
        return "(ptr %s)" % type_sexp(td["e"])
    if k == "reg":
        if td["name"] in NAMED_BASIC:
            return type_sexp(T(NAMED_BASIC[td["name"]]))
        if td["name"] in NAMED_OTHER:
            return type_sexp(NAMED_OTHER[td["name"]])
        return "(struct %s)" % hx(td["name"].encode())
    raise ValueError("type_sexp %r" % (td,))


def struct_names(td, acc):
    k = td["k"]
    if k == "reg" and td["name"] not in NAMED_BASIC and td["name"] not in NAMED_OTHER:
        acc.add(td["name"])
    for sub in ("e", "key"):
        if sub in td and isinstance(td[sub], dict):
            struct_names(td[sub], acc)
    return acc


def tenv_sexp(structs, roots):
    """Type environment: the struct types reachable from roots (registered names are always included)."""
    todo, seen = list(roots), set()
    while todo:
        n = todo.pop()
        if n in seen or n not in structs:
            continue
        seen.add(n)
        for f in (structs[n] or []):
            for m in struct_names(f["t"], set()):
                todo.append(m)
    out = []
    for n in sorted(seen):
        fs = " ".join("(%s %s)" % (hx(f["alias"].encode()), type_sexp(f["t"])) for f in (structs[n] or []))
        out.append("(%s %s)" % (hx(n.encode()), fs) if fs else "(%s)" % hx(n.encode()))
    return "(tenv %s)" % " ".join(out) if out else "(tenv)"


# ---------------------------------------------------------------------------------------- wire trees

def wire_sexp(w):
    t = w[0]
    if t in ("n", "e", "t", "f", "N"):
        return "(%s)" % t
    if t == "I": return "(I %d)" % (1 if w[1] else 0)
    if t == "dig": return "(dig %d)" % w[1]
    if t in ("i", "l"): return "(%s %d)" % (t, w[1])
    if t in ("d", "u", "s", "b", "g"): return "(%s %s)" % (t, hx(w[1]))
    if t == "D": return "(D %d %d %d %d)" % (w[1], w[2], w[3], 1 if w[4] else 0)
    if t == "DT": return "(DT %d %d %d %d %d %d (%s) %d)" % (w[1], w[2], w[3], w[4], w[5], w[6], " ".join(map(str, w[7])), 1 if w[8] else 0)
    if t == "T": return "(T %d %d %d (%s) %d)" % (w[1], w[2], w[3], " ".join(map(str, w[4])), 1 if w[5] else 0)
    if t in ("a", "m"): return "(%s%s)" % (t, "".join(" " + wire_sexp(x) for x in w[1]))
    if t == "c": return "(c %s (%s) %s)" % (hx(w[1]), " ".join(hx(f) for f in w[2]), wire_sexp(w[3]))
    if t == "o": return "(o %d%s)" % (w[1], "".join(" " + wire_sexp(x) for x in w[2]))
    if t == "r": return "(r %d)" % w[1]
    if t == "E": return "(E %s)" % wire_sexp(w[1])
    raise ValueError("wire_sexp %r" % (w,))


def has_ref(w):
    t = w[0]
    if t == "r":
        return True
    if t in ("a", "m"):
        return any(has_ref(x) for x in w[1])
    if t == "c":
        return has_ref(w[3])
    if t == "o":
        return any(has_ref(x) for x in w[2])
    if t == "E":
        return has_ref(w[1])
    return False


def texts_of(w, acc):
    """Strings the model may hand to an oracle: number texts, string/char/bytes contents."""
    t = w[0]
    if t in ("i", "l"):
        acc.add(("num", str(w[1]).encode()))
    elif t == "dig":
        acc.add(("num", str(w[1]).encode()))
    elif t == "d":
        acc.add(("num", bytes(w[1])))
    elif t in ("u", "s", "b"):
        acc.add(("str", bytes(w[1])))
    elif t in ("a", "m"):
        for x in w[1]:
            texts_of(x, acc)
        for i in range(len(w[1])):
            acc.add(("idx", str(i).encode()))
    elif t == "c":
        texts_of(w[3], acc)
    elif t == "o":
        for x in w[2]:
            texts_of(x, acc)
    elif t == "E":
        texts_of(w[1], acc)
    elif t in ("D", "DT", "T"):
        if t == "T":
            y, mo, d, h, mi, s, fr, utc = 1970, 1, 1, w[1], w[2], w[3], w[4], w[5]
        elif t == "D":
            y, mo, d, h, mi, s, fr, utc = w[1], w[2], w[3], 0, 0, 0, [], w[4]
        else:
            y, mo, d, h, mi, s, fr, utc = w[1:9]
        ns = 0
        for i, g in enumerate(fr[:3]):
            ns += g * (1000000, 1000, 1)[i]
        acc.add(("time", ("%d,%d,%d,%d,%d,%d,%d,%d" % (y, mo, d, h, mi, s, ns, 1 if utc else 0)).encode()))
    return acc


NUM_FNS = [b"pf64", b"pf32", b"bf", b"bfexp", b"bfint", b"nf", b"ratf", b"unix"] + [b"f2i:" + k.encode() for k in INTS]
STR_FNS = [b"pf64", b"pf32", b"pc64", b"pc128", b"bf", b"rat", b"ptime", b"uuid"]


def huge_exponent(txt):
    import re
    m = re.search(rb"[eEpP]([+-]?[0-9]+)$", txt)
    return bool(m) and abs(int(m.group(1))) > 25000


def oracle_queries(w):
    qs = set()
    for kind, txt in texts_of(w, set()):
        if kind == "num":
            for f in NUM_FNS:
                if f == b"bfint" and huge_exponent(txt):
                    continue      # never prefetched: the integer of "1e100000000" has 332 million bits (the model asks bfexp first)
                qs.add((f, txt))
        elif kind == "idx":
            qs.add((b"pf64", txt)); qs.add((b"pf32", txt))
        elif kind == "str":
            for f in STR_FNS:
                if f == b"rat" and huge_exponent(txt):
                    continue      # megabytes of digits; the model refuses the text before asking
                qs.add((f, txt))
        elif kind == "time":
            qs.add((b"tstr", txt))
    qs.add((b"unix", b"0")); qs.add((b"unix", b"1"))
    return qs


class Opts:
    def __init__(self, simple=True, long="int", real="f64", simap=False, structval=False, listslice=False):
        self.simple, self.long, self.real, self.simap, self.structval, self.listslice = simple, long, real, simap, structval, listslice

    def sexp(self, registered):
        return "(opts %d %s %s %d %d %d (reg%s))" % (
            1 if self.simple else 0, self.long, self.real, 1 if self.simap else 0, 1 if self.structval else 0,
            1 if self.listslice else 0, "".join(" " + hx(n.encode()) for n in registered))

    def go(self):
        return {"simple": self.simple, "long": self.long, "real": self.real, "simap": self.simap,
                "structval": self.structval, "listslice": self.listslice}

    def key(self):
        return "%d%s%s%d%d%d" % (self.simple, self.long, self.real, self.simap, self.structval, self.listslice)


# ---------------------------------------------------------------------------------------- token sets

def S(x):
    return x.encode() if isinstance(x, str) else bytes(x)


GUID = b"3f257da7-0b85-48d6-8f5c-6cd13d2d60c9"


def scalar_tokens(tier):
    """Every tag class with its alternative spellings and boundary values."""
    toks = [("n",), ("e",), ("t",), ("f",), ("N",), ("I", False), ("I", True)]
    toks += [("dig", d) for d in (0, 1, 5, 9)]
    ints = [0, 1, 5, 9, 10, -1, -9, 127, 128, -128, -129, 255, 256, 300, 32767, 32768, -32769, 65535, 65536,
            2147483647, -2147483648]
    toks += [("i", z) for z in ints]
    longs = [0, 5, -1, 255, 256, 300, 65536, 2147483647, 2147483648, -2147483649, 4294967295, 4294967296,
             9007199254740992, 9007199254740993, 9223372036854775807, 9223372036854775808, -9223372036854775808,
             -9223372036854775809, 18446744073709551615, 18446744073709551616, 18446744073709551617,
             123456789012345678901234567890, -123456789012345678901234567890]
    toks += [("l", z) for z in longs]
    dbl = ["0", "-0", "1", "1.5", "-1.5", "2.0", "0.0", "0.1", "1e3", "1E3", "255", "256.0", "300.5", "-1", "-129",
           "1e10", "2147483649", "4294967297", "9.223372036854776e18", "1e19", "1.8446744073709552e19", "1e100",
           "-1e100", "1e-320", "1e400", "3.4028235e38", "3.5e38", "0.30000000000000004", "123456789012345678",
           "1.7976931348623157e308", "5e-324", ".5", "5.", "+1.5",
           # maxBigIntBits (2^65536 ~ 2.0e19728): refused for *big.Int from 3e19728 on (MantExp 65537); the accepted side
           # is exercised at 1e1000 only - the extracted model's arithmetic on inductive Z needs minutes for a 65536-bit
           # integer - and the constant itself is read from the source into the action table (AReadBigFloatInt 65536)
           "1e1000", "3e19728"]
    toks += [("d", S(x)) for x in dbl]
    toks += [("u", S(x)) for x in ["a", "5", "0", "1", "t", "T", "-", "é", "中", " "]]
    strs = ["", "a", "5", "12", "-7", "+7", "300", "1.5", "true", "false", "TRUE", "abc", "é中😀", "18446744073709551616",
            "-129", "128", "1e3", "NaN", "inf", "-Inf", "0x10", "1_000", " 5", "(1+2i)", "1+2i", "3i", "2020-01-02 03:04:05",
            "2020-01-02T03:04:05Z", "15:04:05", "1/3", "-2/4", "1e400", GUID.decode(), "{" + GUID.decode() + "}",
            GUID.decode().upper(), "9223372036854775808", "65536", "99999999999999999999.5",
            # around maxTextExponent (16384) for *big.Rat: decimal, signed, binary and hexadecimal exponents
            "1e16384", "1e16385"]
    toks += [("s", S(x)) for x in strs]
    toks += [("b", S(x)) for x in [b"", b"a", b"hello", b"\x00\xff", bytes(range(16)), GUID, b"12"]]
    toks += [("g", GUID), ("g", GUID.upper())]
    toks += [("D", 2020, 1, 2, True), ("D", 2020, 2, 29, False), ("DT", 2020, 1, 2, 3, 4, 5, [], True),
             ("DT", 1, 1, 1, 0, 0, 0, [], True), ("DT", 9999, 12, 31, 23, 59, 59, [999, 999, 999], False),
             ("DT", 1969, 12, 31, 23, 59, 59, [123], False), ("DT", 2020, 6, 15, 12, 0, 0, [123, 456], True),
             ("T", 3, 4, 5, [], True), ("T", 0, 0, 0, [], False), ("T", 23, 59, 59, [1, 2, 3], False),
             # every fraction length with either terminator, in the time-only and in the date+time form
             ("T", 12, 13, 14, [123], True), ("T", 12, 13, 14, [123, 456], True), ("T", 12, 13, 14, [123, 456, 789], True),
             ("T", 12, 13, 14, [123], False), ("T", 12, 13, 14, [123, 456], False),
             ("DT", 1970, 1, 1, 12, 13, 14, [123], True), ("DT", 2021, 3, 4, 12, 13, 14, [123, 456, 789], True),
             ("DT", 2021, 3, 4, 12, 13, 14, [5], False)]
    toks += [("a", []), ("a", [("dig", 1), ("i", 22)]), ("a", [("d", b"1.5"), ("d", b"-2")]), ("a", [("dig", 1)]),
             ("a", [("dig", 1), ("dig", 2), ("dig", 3)]), ("a", [("i", 300)]), ("a", [("s", b"hi"), ("n",)]),
             ("m", []), ("m", [("u", b"a"), ("dig", 1)]), ("m", [("dig", 1), ("s", b"one"), ("dig", 2), ("s", b"two")]),
             ("E", ("s", b"boom"))]
    return toks


def _ch(cp):
    return chr(cp).encode("utf-8")


# strings over every UTF-8 lead-byte class: the 2-byte leads C2..DF (Latin-1 .. N'Ko: Cyrillic D0/D1, Hebrew D7, Arabic D8/D9),
# the 3-byte leads E0..EF and the 4-byte leads F0..F4, each at the first and the last code point of its range
UTF8_STRINGS = [
    "Привет".encode(), "שלום".encode(), "مرحبا".encode(), "Ελλάδα".encode(), "Հայ".encode(), "ߊߋߌ".encode(),
    _ch(0x80) + _ch(0x3FF) + _ch(0x400) + _ch(0x7FF), _ch(0x800) + _ch(0xFFF) + _ch(0x1000) + _ch(0xD7FF) + _ch(0xE000) + _ch(0xFFFF),
    _ch(0x10000) + _ch(0x3FFFF) + _ch(0x40000) + _ch(0xFFFFF) + _ch(0x100000) + _ch(0x10FFFF),
    b"".join(bytes([lead, 0xA5]) for lead in range(0xC2, 0xE0)),                    # one character per 2-byte lead
    b"".join(bytes([lead, 0xA5, 0xA5]) for lead in range(0xE1, 0xF0) if lead != 0xED) + b"\xe0\xa5\xa5\xed\x95\xa5",   # per 3-byte lead
    b"".join(bytes([lead, 0x95 if lead > 0xF0 else 0xA5, 0xA5, 0xA5]) for lead in range(0xF0, 0xF4)) + b"\xf4\x8f\xa5\xa5",
    "aПb中c😀d".encode(), "д".encode() * 40,
]
UTF8_CHARS = [_ch(0x80), _ch(0x3FF), _ch(0x400), "П".encode(), "ש".encode(), "ع".encode(), _ch(0x7FF), _ch(0x800), _ch(0xFFFF)]
UTF8_LEADS = ([bytes([lead, 0xA5]) for lead in range(0xC2, 0xE0)] +
              [bytes([lead, 0xA5 if lead != 0xED else 0x95, 0xA5]) for lead in range(0xE0, 0xF0)] +
              [bytes([lead, 0xA5 if lead == 0xF0 else (0x8F if lead == 0xF4 else 0x95), 0xA5, 0xA5]) for lead in range(0xF0, 0xF5)])

# the cost limits of the exact destinations (big_decoder.go): more spellings, crossed with the destinations concerned only
COST_DOUBLES = [b"1e1000", b"3e19728", b"1e19729", b"-1e19729", b"1e1000000", b"0x1p65536", b"0x1p1000", b"1e-19729"]
COST_STRINGS = [b"1e16384", b"1e16385", b"-3e-16384", b"1e-16385", b"1E+16385", b"1p16385", b"0x1p16385", b"0x1e5", b"0X1P-16385",
                b"1e99999999999999999999", b"1/3e16385", b"1e16385/2", b"2e", b"e5", b"1e1000000", b"+0x1p16385", b"1e+16384"]

SCALAR_TYPES = ([T("bool")] + [T(k) for k in INTS] + [T("float32"), T("float64"), T("complex64"), T("complex128"),
                T("string"), Slice(T("uint8")), T("bigint"), T("bigfloat"), T("bigrat"), T("time"), T("uuid"), IFACE])


def dest_types():
    ts = list(SCALAR_TYPES)
    ts += [Ptr(t) for t in SCALAR_TYPES]
    ts += [Ptr(Ptr(T("int"))), Ptr(Ptr(Ptr(T("string")))), Ptr(Ptr(T("bigint"))), Ptr(Ptr(T("time")))]
    ts += [Reg(n) for n in NAMED_BASIC]
    return ts


def tag_class(w):
    return w[0]


# ---------------------------------------------------------------------------------------- containers

INT, STR, F64 = T("int"), T("string"), T("float64")
BYTES = Slice(T("uint8"))


def cls(name, fields, body):
    return ("c", S(name), [S(f) for f in fields], body)


def obj(k, *vals):
    return ("o", k, list(vals))


def lst(*ws):
    return ("a", list(ws))


def mp(*ws):
    return ("m", list(ws))


def d(n):
    return ("dig", n)


def s(x):
    return ("s", S(x))


def u(x):
    return ("u", S(x))


LIST_TOKENS = [
    lst(), lst(d(1)), lst(d(1), d(2), d(3)), lst(("i", 300), ("i", -5)), lst(("l", 2 ** 40)), lst(s("ab"), s("cd")),
    lst(u("a"), ("e",)), lst(("n",), d(1)), lst(("d", b"1.5"), d(2)), lst(("t",), ("f",)), lst(lst(d(1)), lst()),
    lst(lst(d(1), d(2)), lst(d(3), d(4))), lst(d(1), s("two"), ("d", b"3.5"), ("n",), ("t",)), lst(d(1), d(2), d(3), d(4), d(5)),
    lst(("b", b"ab"), ("b", b"")), lst(mp(u("a"), d(1))), lst(("i", 255), ("i", 256)), lst(d(7), d(7)),
    lst(("D", 2020, 1, 2, True), ("T", 1, 2, 3, [], False)), lst(("g", GUID)), lst(lst(lst(d(1)))),
    # longer than the 16 elements a container reserves on the word of the wire: grown while decoding
    lst(*[d(i % 10) for i in range(16)]), lst(*[("i", i) for i in range(17)]), lst(*[("i", 100 + i) for i in range(40)]),
    lst(*[s("e%d" % i) for i in range(33)]), lst(*[lst(d(i % 10)) for i in range(20)]),
    # elements that own storage, each no longer than the one before (a reused slice or pointee would show)
    lst(lst(d(1), d(2), d(3)), lst(d(4), d(5), d(6)), lst(d(7), d(8))), lst(lst(d(1), d(2)), lst(d(3)), lst()),
    lst(mp(u("a"), d(1)), mp(u("a"), d(2), u("b"), d(3)), mp()), lst(lst(s("ab"), s("cd")), lst(s("ef"))),
    cls("Inner", ["x", "y"], lst(obj(0, d(1), s("a")), obj(0, d(2), s("b")), obj(0, d(3), s("c")))),
    lst(mp(s("x"), d(1), s("y"), s("one")), mp(s("x"), d(2), s("y"), s("two"))),
    lst(("b", b"abc"), ("b", b"de"), ("b", b"")), lst(d(1), ("n",), d(3)),
]
LIST_TYPES = [Slice(INT), Slice(T("int8")), Slice(T("uint8")), Slice(STR), Slice(IFACE), Slice(F64), Slice(T("bool")),
              Array(3, INT), Array(2, STR), Array(4, T("uint8")), Array(0, INT), Array(2, IFACE),
              Map(INT, STR), Map(STR, INT), Map(F64, INT), Map(T("uint8"), IFACE), Map(IFACE, IFACE), Map(T("bool"), INT),
              Map(T("complex128"), INT), LIST, IFACE, Slice(Ptr(INT)), Slice(Slice(INT)), Slice(Slice(Slice(INT))),
              Slice(Array(2, INT)), Ptr(Slice(INT)), Ptr(Array(2, INT)), Slice(BYTES), Slice(T("time")), Slice(T("uuid")),
              Slice(Map(STR, INT)), T("complex64"), T("complex128"), Ptr(T("complex128")), Slice(T("complex128")),
              Reg("Inner"), Reg("MyInts"), Slice(T("bigint")), Slice(Ptr(T("bigint"))),
              # the list form into maps (index -> element) whose values own storage: fresh storage per entry
              Map(INT, Slice(INT)), Map(STR, Slice(INT)), Map(F64, Slice(STR)), Map(INT, Ptr(INT)), Map(STR, Ptr(Slice(INT))),
              Map(INT, Array(2, INT)), Map(INT, Map(STR, INT)), Map(INT, Ptr(Map(STR, INT))), Map(T("uint8"), BYTES),
              Map(INT, Reg("Inner")), Map(STR, Ptr(Reg("Inner"))), Map(IFACE, Slice(INT)), Map(INT, Slice(Slice(INT))),
              Map(INT, Ptr(T("bigint"))), Map(INT, IFACE), Map(T("complex64"), Slice(INT)), Slice(Ptr(Reg("Inner"))),
              Slice(Reg("Inner"))]

MAP_TOKENS = [
    mp(), mp(u("a"), d(1)), mp(u("a"), d(1), u("b"), d(2)), mp(d(1), s("one"), d(2), s("two")), mp(s("x"), d(5), s("y"), s("why")),
    mp(s("y"), s("why"), s("x"), d(5), s("zz"), d(9)), mp(u("x"), d(1)), mp(s("k"), lst(d(1), d(2)), s("l"), lst(d(3), d(4))),
    mp(s("k"), lst(d(1), d(2)), s("l"), lst(d(3))), mp(("d", b"1.5"), d(1)), mp(("n",), d(1)), mp(("t",), d(1), ("f",), d(0)),
    mp(lst(), d(1)), mp(("b", b"k"), d(1)), mp(mp(), d(1)), mp(d(1), d(1), ("i", 1), d(2)), mp(u("a"), mp(u("b"), mp())),
    mp(s("a"), ("n",), s("b"), d(2)), mp(d(5), d(1), s("5"), d(2)), mp(("D", 2020, 1, 2, True), d(1)), mp(("g", GUID), d(1)),
    mp(s("x"), d(1), s("x"), d(2)), mp(("i", 300), d(1), ("i", 44), d(2)),
    mp(*[x for i in range(20) for x in (("i", i), s("v%d" % i))]),
]
MAP_TYPES = [Map(STR, INT), Map(INT, STR), Map(STR, IFACE), Map(IFACE, IFACE), Map(STR, STR), Map(T("int8"), INT), Map(F64, INT),
             Map(STR, Slice(INT)), Map(STR, Array(2, INT)), Map(STR, Ptr(INT)), Map(STR, Map(STR, IFACE)), Map(T("bool"), INT),
             Map(T("time"), INT), Map(T("uuid"), INT), Map(Ptr(STR), INT), Map(Array(1, INT), INT),
             Reg("Inner"), Ptr(Reg("Inner")), Reg("Scalars"), Reg("Tagged"), IFACE, Slice(INT), LIST, INT, STR, Ptr(Map(STR, INT))]


def inner_obj(fields, vals):
    return cls("Inner", fields, obj(0, *vals))


OBJ_TOKENS = [
    inner_obj(["x", "y"], [d(1), s("why")]),                               # as declared
    inner_obj(["y", "x"], [s("why"), d(1)]),                               # reordered
    inner_obj(["x", "extra", "y"], [d(1), lst(s("skipped"), d(2)), s("why")]),  # extra field (with a referable inside)
    inner_obj(["x"], [d(1)]),                                              # missing field
    inner_obj([], []),                                                     # no fields
    inner_obj(["X", "Y"], [d(1), s("why")]),                               # names in another case: unknown
    inner_obj(["x", "y"], [s("12"), d(7)]),                                # convertible field values
    inner_obj(["x", "y"], [s("abc"), d(7)]),                               # field value not convertible
    inner_obj(["x", "y"], [("n",), ("n",)]),
    cls("Zzz", ["x", "y"], obj(0, d(1), s("why"))),                        # unregistered class name
    cls("Zzz", ["p", "q"], obj(0, d(1), lst(d(2)))),
    cls("One", ["v"], obj(0, ("i", 77))),
    cls("Tagged", ["x", "y", "e", "longer_name", "c", "d"], obj(0, d(1), d(2), d(3), d(4), d(5), d(6))),
    cls("Node2", ["v", "next"], obj(0, d(1), obj(0, d(2), ("n",)))),        # nested object of the same class
    cls("Inner", ["x", "y"], cls("One", ["v"], lst(obj(0, d(1), s("a")), obj(1, d(9)), obj(0, d(2), s("b"))))),
    cls("Outer", ["x", "y", "z", "p", "l", "m", "v"],
        obj(0, d(1), s("in"), d(3), cls("Inner", ["x", "y"], obj(1, d(4), s("p"))), lst(obj(1, d(5), s("l0"))),
            mp(s("k"), obj(1, d(6), s("mk"))), obj(1, d(7), s("v")))),
    cls("Scalars", ["i8", "u8", "f32", "s", "b"], obj(0, ("i", 300), ("i", -1), ("d", b"0.1"), d(5), ("i", 2))),
]
OBJ_TYPES = [Reg("Inner"), Ptr(Reg("Inner")), Ptr(Ptr(Reg("Inner"))), IFACE, Map(STR, IFACE), Map(STR, INT), Reg("One"), Reg("Tagged"),
             Reg("Node2"), Ptr(Reg("Node2")), Slice(Reg("Inner")), Slice(Ptr(Reg("Inner"))), Slice(IFACE), Reg("Outer"), Reg("Scalars"),
             Reg("Empty"), INT, STR, Slice(INT), Map(INT, IFACE), Map(IFACE, IFACE)]


def ref_cases():
    """(wire, type) pairs that need reference mode: 'r' to every referable construct into many destinations."""
    out = []
    hello = s("hello")
    for t in [Slice(STR), Slice(IFACE), Slice(Ptr(STR)), Array(3, IFACE), Slice(BYTES), Slice(INT), LIST, Map(INT, STR), IFACE]:
        out.append((lst(hello, ("r", 1), ("r", 1)), t))
    for t in [Slice(INT), Slice(T("int8")), Slice(T("uint16")), Slice(F64), Slice(T("float32")), Slice(T("bigint")), Slice(Ptr(T("bigint"))),
              Slice(T("bigfloat")), Slice(T("bigrat")), Slice(T("complex128")), Slice(STR), Slice(IFACE), Slice(Ptr(INT)), Slice(T("bool")),
              Slice(T("time")), Slice(T("uuid"))]:
        out.append((lst(s("12"), ("r", 1)), t))
        out.append((lst(s("300"), ("r", 1)), t))
        out.append((lst(s("abc"), ("r", 1)), t))
    for t in [Slice(T("bool")), Slice(IFACE)]:
        out.append((lst(s("true"), ("r", 1)), t))
    for t in [Slice(T("time")), Slice(STR), Slice(IFACE)]:
        out.append((lst(s("2020-01-02 03:04:05"), ("r", 1)), t))
    for t in [Slice(T("uuid")), Slice(STR), Slice(IFACE), Slice(BYTES)]:
        out.append((lst(s(GUID), ("r", 1)), t))
    for t in [Slice(BYTES), Slice(STR), Slice(IFACE), Slice(Ptr(BYTES)), Slice(INT), Slice(T("uuid"))]:
        out.append((lst(("b", b"ab"), ("r", 1)), t))
    for tok in [("D", 2020, 1, 2, True), ("DT", 2020, 1, 2, 3, 4, 5, [6], False), ("T", 1, 2, 3, [], False)]:
        for t in [Slice(T("time")), Slice(Ptr(T("time"))), Slice(IFACE), Slice(STR), Slice(INT), Array(2, T("time"))]:
            out.append((lst(tok, ("r", 1)), t))
    for t in [Slice(T("uuid")), Slice(Ptr(T("uuid"))), Slice(IFACE), Slice(STR), Slice(BYTES), Slice(INT)]:
        out.append((lst(("g", GUID), ("r", 1)), t))
    # references to containers: alias or copy by converter
    inner = lst(d(1), d(2))
    for t in [Slice(Slice(INT)), Slice(IFACE), Array(2, Slice(INT)), Slice(Ptr(Slice(INT))), Slice(Array(2, INT)), Slice(STR), Slice(INT),
              Slice(Slice(T("int8"))), LIST]:
        out.append((lst(inner, ("r", 1)), t))
        out.append((lst(inner, ("r", 1), ("r", 1)), t))
    m1 = mp(u("a"), d(1))
    for t in [Slice(Map(STR, INT)), Slice(IFACE), Slice(Ptr(Map(STR, INT))), Slice(Map(STR, IFACE)), Slice(Reg("Inner")), Slice(INT)]:
        out.append((lst(m1, ("r", 1)), t))
    o1 = cls("Inner", ["x", "y"], lst(obj(0, d(1), s("why")), ("r", 3)))     # refs: 0 list, 1 "x", 2 "y", 3 object, 4 "why"
    for t in [Slice(Ptr(Reg("Inner"))), Slice(Reg("Inner")), Slice(IFACE), Array(2, Ptr(Reg("Inner"))), Slice(Map(STR, IFACE)), Slice(STR)]:
        out.append((o1, t))
    # class field names are referable: r2 is the string "y"
    out.append((cls("Inner", ["x", "y"], obj(0, d(1), ("r", 1))), Reg("Inner")))
    out.append((cls("Inner", ["x", "y"], obj(0, d(1), ("r", 1))), IFACE))
    out.append((cls("Inner", ["x", "y"], obj(0, ("r", 0), s("a"))), Reg("Inner")))
    # cycles
    out.append((cls("Node2", ["v", "next"], obj(0, d(1), ("r", 2))), Ptr(Reg("Node2"))))
    out.append((cls("Node2", ["v", "next"], obj(0, d(1), ("r", 2))), IFACE))
    out.append((cls("Node2", ["next", "v"], obj(0, ("r", 2), d(1))), Ptr(Reg("Node2"))))
    out.append((cls("Node2", ["v", "next"], obj(0, d(1), obj(0, d(2), ("r", 2)))), Ptr(Reg("Node2"))))
    out.append((cls("Node", ["next", "v"], obj(0, ("r", 2), d(5))), Ptr(Reg("Node"))))
    out.append((lst(("r", 0)), Slice(IFACE)))
    out.append((lst(("r", 0)), IFACE))
    out.append((mp(u("a"), ("r", 0)), Map(STR, IFACE)))
    out.append((mp(u("a"), ("r", 0)), IFACE))
    # an object read as a map, referenced again (typed map destination)
    out.append((cls("Zzz", ["x"], lst(obj(0, d(1)), ("r", 2))), Slice(IFACE)))
    out.append((mp(u("a"), cls("Zzz", ["x"], obj(0, d(1))), u("b"), ("r", 2)), Reg("SM")))
    # a shared string inside map values and keys
    out.append((mp(s("kk"), s("vv"), ("r", 2), ("r", 1)), Map(STR, STR)))
    out.append((mp(s("kk"), s("vv"), ("r", 2), ("r", 1)), IFACE))
    # bytes written as a list of small integers, then referenced
    out.append((lst(lst(d(1), ("i", 200)), ("r", 1)), Slice(BYTES)))
    out.append((lst(lst(s("12"), ("i", 200)), ("r", 1), ("r", 2)), Slice(IFACE)))
    return out


# ---------------------------------------------------------------------------------------- random structured cases

STRUCT_POOL = ["Inner", "One", "OneS", "Tagged", "Node2", "Scalars", "Strs"]
KEY_TYPES = [T("string"), T("int"), T("int8"), T("uint16"), T("float64"), T("bool"), IFACE, T("uint64")]


class RandGen:
    """Random destination types and wire trees shaped by them (mostly matching, sometimes not).  Every object
    defines its own class, so class indices are the order of appearance; no back-references."""

    def __init__(self, rng, structs):
        self.rng = rng
        self.structs = structs
        self.ncls = 0

    def rtype(self, depth):
        r = self.rng
        x = r.random()
        if depth <= 0 or x < 0.45:
            return r.choice(SCALAR_TYPES)
        if x < 0.55:
            return Ptr(self.rtype(depth - 1))
        if x < 0.70:
            return Slice(self.rtype(depth - 1))
        if x < 0.76:
            return Array(r.randint(0, 3), self.rtype(depth - 1))
        if x < 0.88:
            return Map(r.choice(KEY_TYPES), self.rtype(depth - 1))
        if x < 0.97:
            return Reg(r.choice(STRUCT_POOL))
        return LIST

    def scalar(self, t):
        r = self.rng
        k = t["k"]
        ints = [0, 1, 7, 9, 10, -1, 127, 128, -128, 255, 256, 65535, 65536, -32769, 2 ** 31 - 1, -2 ** 31]
        longs = ints + [2 ** 31, 2 ** 32, 2 ** 53 + 1, 2 ** 63 - 1, 2 ** 63, -2 ** 63, 2 ** 64 - 1, 2 ** 64, 10 ** 30]
        if k in INTS or k in ("bigint", "bigrat"):
            return r.choice([("dig", r.randint(0, 9)), ("i", r.choice(ints)), ("l", r.choice(longs)), ("d", S(r.choice(["1", "2.0", "1.5", "-3", "1e3"]))),
                             ("s", S(str(r.choice(longs)))), ("u", S(str(r.randint(0, 9)))), ("t",), ("n",)])
        if k in ("float32", "float64", "complex64", "complex128", "bigfloat"):
            return r.choice([("d", S(r.choice(["0", "-0", "1.5", "0.1", "1e10", "3.4028235e38", "1e-45", "2.5e-320", "1e308"]))),
                             ("dig", r.randint(0, 9)), ("i", r.choice(ints)), ("l", r.choice(longs)), ("N",), ("I", r.random() < 0.5),
                             ("s", S(r.choice(["1.5", "1e3", "x", "-2"]))), ("n",)])
        if k == "bool":
            return r.choice([("t",), ("f",), ("n",), ("dig", r.randint(0, 2)), ("s", S(r.choice(["true", "false", "1", "x"]))), ("i", r.choice(ints))])
        if k == "string":
            return r.choice([("s", S(r.choice(["hello", "ab", "é中😀", "12", "a b c"]))), ("u", S(r.choice(["a", "é", "中"]))), ("e",), ("n",),
                             ("i", r.choice(ints)), ("b", b"raw"), ("g", GUID), ("dig", 3), ("d", b"1.5"), ("t",)])
        if k == "slice":      # []byte
            return r.choice([("b", S(r.choice(["", "ab", "\x00\xff"]))), ("e",), ("n",), ("s", b"str"), ("u", b"c"), ("a", [("dig", 1), ("i", 255)]), ("g", GUID)])
        if k == "time":
            return r.choice([("D", 2020, r.randint(1, 12), r.randint(1, 28), r.random() < 0.5), ("DT", 1999, 12, 31, 23, 59, 59, [r.randint(0, 999)], True),
                             ("T", r.randint(0, 23), 0, 1, [], False), ("n",), ("i", 5), ("s", b"2020-01-02 03:04:05")])
        if k == "uuid":
            return r.choice([("g", GUID), ("s", GUID), ("b", bytes(range(16))), ("e",), ("n",), ("i", 1)])
        if k == "iface":
            return self.wire_for(self.rtype(1), 1)
        return ("n",)

    def wrong(self):
        return self.rng.choice([("t",), ("N",), ("s", b"zz"), ("a", []), ("m", []), ("i", 77), ("b", b"x"), ("g", GUID), ("D", 2001, 2, 3, True), ("e",)])

    def wire_for(self, t, depth):
        r = self.rng
        if r.random() < 0.06:
            return self.wrong()
        k = t["k"]
        if k == "ptr":
            if t["e"]["k"] == "list":
                return r.choice([("n",), ("a", [self.scalar(IFACE) for _ in range(r.randint(0, 3))])])
            return ("n",) if r.random() < 0.15 else self.wire_for(t["e"], depth)
        if k == "slice" and t["e"]["k"] != "uint8":
            if r.random() < 0.1:
                return ("n",)
            return ("a", [self.wire_for(t["e"], depth - 1) for _ in range(r.randint(0, 3))])
        if k == "array":
            n = t["n"] if r.random() < 0.7 else r.randint(0, 4)
            return ("a", [self.wire_for(t["e"], depth - 1) for _ in range(n)])
        if k == "map":
            x = r.random()
            if x < 0.1:
                return ("n",)
            if x < 0.2:
                return ("a", [self.wire_for(t["e"], depth - 1) for _ in range(r.randint(0, 3))])
            kvs, seen = [], set()
            for _ in range(r.randint(0, 3)):
                saved = self.ncls
                kw = self.scalar(t["key"])
                if kw[0] in ("a", "m", "c", "o") or repr(kw) in seen:
                    self.ncls = saved        # a dropped key must not leave class numbers behind
                    continue
                seen.add(repr(kw))
                kvs += [kw, self.wire_for(t["e"], depth - 1)]
            return ("m", kvs)
        if k == "reg" and t["name"] in self.structs:
            fs = list(self.structs[t["name"]] or [])
            r.shuffle(fs)
            if fs and r.random() < 0.3:
                fs = fs[:-1]
            names = [f["alias"] for f in fs]
            as_map = r.random() < 0.15
            idx = None
            if not as_map:
                idx = self.ncls            # the class definition comes first in the stream: number it before the fields
                self.ncls += 1
            vals = [self.wire_for(f["t"], depth - 1) for f in fs]
            if r.random() < 0.25:
                pos = r.randint(0, len(names))
                names.insert(pos, "extra%d" % r.randint(0, 9))
                vals.insert(pos, r.choice([("dig", 1), ("s", b"skipped"), ("a", [("s", b"in"), ("n",)])]))
            if as_map:
                kvs = []
                for n_, v_ in zip(names, vals):
                    kvs += [("s", S(n_)) if len(n_) != 1 else ("u", S(n_)), v_]
                return ("m", kvs)
            return ("c", S(r.choice([t["name"], t["name"], "Other"])), [S(n_) for n_ in names], ("o", idx, vals))
        return self.scalar(t)

    def case(self, depth=3):
        self.ncls = 0
        t = self.rtype(depth)
        # class indices are assigned in stream order: definitions nested inside an object's fields come
        # after the object's own definition, which wire_for respects by numbering before recursing
        w = self._build(t, depth)
        return w, t

    def _build(self, t, depth):
        # number classes in stream order: pre-order
        return self.wire_for(t, depth)
