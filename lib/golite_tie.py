"""T3 cross-check of T2: the Go functions that tools/gotables (golite.go) translates into Gallina
(coq/Gen/GoFuncs.v) are called - compiled, through their verif accessors - on generated inputs; the
generated Gallina definitions are evaluated inside Coq (vm_compute) on the same inputs; the results must be
equal.  This validates the translator against the compiler on every run (it does not go through the
refinement proofs).  In addition the property itself is evaluated on the compiled functions (header round
trip, single-bit corruption, strict UTF-8 / UTF-16 length, gcd), with an oracle written here, so that a
broken refinement lemma comes with a concrete failing input whenever one exists in the explored set."""
import json
import math
import os
import re
import subprocess

import hv

FUNCS = {
    "C03": ["io_utf16Length"],
    "C12": ["socket_makeHeader", "socket_parseHeader", "udp_makeHeader", "udp_parseHeader", "ws_makeHeader", "ws_parseHeader"],
    "C13": ["socket_makeHeader", "socket_parseHeader", "udp_makeHeader", "udp_parseHeader"],
    "C16": ["cluster_getIndex"],
    "C18": ["lb_gcd", "rr_getIndex"],
}

EDGES31 = [0, 1, 2, 127, 128, 255, 256, 65535, 65536, 2**24 - 1, 2**24, 2**27 - 1, 2**27, 2**27 + 5, 2**30, 2**31 - 2, 2**31 - 1]
EDGES16 = [0, 1, 127, 128, 255, 256, 257, 4095, 4096, 32767, 32768, 32769, 65534, 65535]
INDEX32 = EDGES31 + [2**31, 2**31 + 1, 2**32 - 1, -1, -2**31, 2**31 + 12345]
UTF8_ALPHABET = [0x00, 0x41, 0x7f, 0x80, 0xa0, 0xbf, 0xc0, 0xc1, 0xc2, 0xdf, 0xe0, 0xe1, 0xec, 0xed, 0xee, 0xef,
                 0xf0, 0xf1, 0xf4, 0xf5, 0xff, 0x8f, 0x90, 0x9f]


def gen_cases(ctx, funcs):
    rng = ctx.rng
    cases = []

    def add(**kw):
        kw["id"] = len(cases)
        cases.append(kw)
    if "socket_makeHeader" in funcs:
        pairs = [(l, i) for l in EDGES31 for i in INDEX32[::2]] + [(rng.randrange(2**31), rng.randrange(-2**31, 2**32)) for _ in range(60)]
        for l, i in pairs:
            add(f="socket_makeHeader", l=l, i=i)
    if "udp_makeHeader" in funcs:
        pairs = [(l, i) for l in EDGES16 for i in EDGES16[::2] + [65536, -1]] + [(rng.randrange(65536), rng.randrange(65536)) for _ in range(40)]
        for l, i in pairs:
            add(f="udp_makeHeader", l=l, i=i)
    if "ws_makeHeader" in funcs:
        for i in INDEX32 + [rng.randrange(-2**31, 2**32) for _ in range(40)]:
            add(f="ws_makeHeader", l=0, i=i)
    if "io_utf16Length" in funcs:
        strs = [b""]
        for a in UTF8_ALPHABET:
            strs.append(bytes([a]))
            for b in UTF8_ALPHABET:
                strs.append(bytes([a, b]))
        for _ in range(400):
            n = rng.randint(3, 9)
            strs.append(bytes(rng.choice(UTF8_ALPHABET) for _ in range(n)))
        for txt in ["héllo", "中文", "😀", "a😀b", "߿ࠀ￿", "\U00010000\U0010ffff"]:
            e = txt.encode()
            strs += [e, e[:-1], e[1:], e + b"\x80", b"A" + e]
        for s in strs:
            add(f="io_utf16Length", h=s.hex())
    for gf in ("cluster_getIndex", "rr_getIndex"):
        if gf in funcs:
            for n in (-1, 0, 1, 2, 3, 5, 8, 1000):
                for idx in (-1, 0, 1, 2, 3, 4, 6, 7, 8, 998, 999, 1000, 2**40):
                    add(f=gf, x=idx, y=n)           # x: the cell before the call, y: n
    if "lb_gcd" in funcs:
        vals = [0, 1, 2, 3, 4, 6, 9, 12, 18, 35, 64, 97, 1000, 2**31 - 1, 2**62, 2**63 - 1]
        for x in vals:
            for y in vals[::2]:
                add(f="lb_gcd", x=x, y=y)
        for _ in range(60):
            add(f="lb_gcd", x=rng.randrange(2**40), y=rng.randrange(2**40))
    return cases


def coq_term(c):
    def blist(h):
        return "(map byte_of_Z [%s])" % "; ".join(str(b) for b in bytes.fromhex(h))
    f = c["f"]
    if f in ("socket_makeHeader", "udp_makeHeader"):
        return "hdr (%s (%d) (%d))" % (f, c["l"], c["i"])
    if f == "ws_makeHeader":
        return "hdr (ws_makeHeader (%d))" % c["i"]
    if f == "ws_parseHeader":
        return "duo (ws_parseHeader %s)" % blist(c["h"])
    if f in ("socket_parseHeader", "udp_parseHeader"):
        return "tri (%s %s)" % (f, blist(c["h"]))
    if f == "io_utf16Length":
        return "one (io_utf16Length %s)" % blist(c["h"])
    if f == "lb_gcd":
        return "one (lb_gcd 200 (%d) (%d))" % (c["x"], c["y"])
    if f == "cluster_getIndex":
        return "two (cluster_getIndex (%d) (%d))" % (c["x"], c["y"])
    if f == "rr_getIndex":
        return "two (rr_getIndex (%d) (%d))" % (c["y"], c["x"])
    raise KeyError(f)


PRELUDE = """From Coq Require Import List ZArith Strings.Byte Bool.
From HV Require Import Lib.Crc32 Lib.GoLite Gen.GoFuncs.
Import ListNotations. Local Open Scope Z_scope.
Definition hdr (r : gres (list byte)) : list Z := match r with GRet h => map Z_of_byte h | GPanic => [-999] | GFuel => [-998] end.
Definition tri (r : gres (Z * Z * bool)) : list Z :=
  match r with GRet (l, i, ok) => [l; i; if ok then 1 else 0] | GPanic => [-999] | GFuel => [-998] end.
Definition duo (r : gres (Z * bool)) : list Z :=
  match r with GRet (i, ok) => [i; if ok then 1 else 0] | GPanic => [-999] | GFuel => [-998] end.
Definition two (r : gres (Z * Z)) : list Z := match r with GRet (a, b) => [a; b] | GPanic => [-999] | GFuel => [-998] end.
Definition one (r : gres Z) : list Z := match r with GRet z => [z] | GPanic => [-999] | GFuel => [-998] end.
"""


def eval_in_coq(cases):
    """evaluate the generated definitions on the cases with vm_compute; returns a list of int lists"""
    d = os.path.join(hv.BUILD, "golite")
    os.makedirs(d, exist_ok=True)
    out = []
    for lo in range(0, len(cases), 400):
        chunk = cases[lo:lo + 400]
        src = PRELUDE + "Definition R := Eval vm_compute in [\n  " + ";\n  ".join(coq_term(c) for c in chunk) + "].\nPrint R.\n"
        path = os.path.join(d, "cases_%d.v" % lo)
        open(path, "w").write(src)
        with hv.Lock("coq"):
            rc, so, se = hv.sh(["timeout", "600", "coqc", "-Q", hv.COQ, "HV", path], cwd=d, timeout=700)
        if rc != 0:
            raise hv.EnvError("golite tie: coqc failed on the generated cases: " + (so + se)[-1500:])
        m = re.search(r"R\s*=\s*(\[.*\])\s*:\s*list", so, re.S)
        if not m:
            raise hv.EnvError("golite tie: cannot read Coq's answer: " + so[-500:])
        txt = re.sub(r"%Z", "", m.group(1))
        txt = txt.replace(";", ",")
        vals = json.loads(txt)
        if len(vals) != len(chunk):
            raise hv.EnvError("golite tie: %d answers for %d cases" % (len(vals), len(chunk)))
        out += vals
    return out


def run_go(cases):
    hv.build_harness("golite")
    rc, obs, err = hv.run_harness("golite", cases, timeout=600)
    byid = {o["id"]: o for o in obs}
    if len(byid) != len(cases):
        raise hv.EnvError("golite tie: executor returned %d of %d answers: %s" % (len(byid), len(cases), err[-300:]))
    return [([-999] if byid[c["id"]].get("panic") else byid[c["id"]]["out"]) for c in cases]


def utf16_oracle(b):
    try:
        s = b.decode("utf-8", "strict")
    except UnicodeDecodeError:
        return -1
    return len(s.encode("utf-16-le")) // 2


def run(ctx):
    funcs = FUNCS.get(ctx.pid, [])
    # a function that left the translated subset is tied by the compiled function and the oracle below only
    rej = {f: w for f, w in (ctx.cov.get("untranslatable") or {}).items() if f in funcs}
    if rej:
        ctx.note("golite_untranslatable", rej)
    if not funcs:
        return
    cases = gen_cases(ctx, funcs)
    go = run_go(cases)
    # second stage: parse what make produced (and single-bit corruptions of it)
    stage2 = []
    for c, g in zip(cases, go):
        if c["f"] == "ws_makeHeader" and g != [-999]:
            stage2.append({"f": "ws_parseHeader", "h": bytes(g).hex(), "made_from": (0, c["i"])})
        if c["f"] in ("socket_makeHeader", "udp_makeHeader") and g != [-999]:
            pf = c["f"].replace("make", "parse")
            h = bytes(g)
            stage2.append({"f": pf, "h": h.hex(), "made_from": (c["l"], c["i"])})
            for bit in ctx.rng.sample(range(len(h) * 8), 6):
                hb = bytearray(h)
                hb[bit // 8] ^= 1 << (bit % 8)
                stage2.append({"f": pf, "h": bytes(hb).hex(), "flipped": bit, "made_from": (c["l"], c["i"])})
    if "udp_parseHeader" in funcs:
        for n in (0, 3, 7, 9):
            stage2.append({"f": "udp_parseHeader", "h": "00" * n})
    if "ws_parseHeader" in funcs:
        for n in (0, 1, 3, 5):
            stage2.append({"f": "ws_parseHeader", "h": "80" * n})
    for k, c in enumerate(stage2):
        c["id"] = k
    go2 = run_go(stage2) if stage2 else []
    allc, allg = cases + stage2, go + go2
    trc = [(c, g) for c, g in zip(allc, allg) if c["f"] not in rej]
    try:
        coq = eval_in_coq([c for c, _ in trc]) if trc else []
    except hv.EnvError as e:
        # the generated file does not compile (the proof step reports that as a broken obligation): the compiled
        # functions are still judged by the oracle below
        ctx.note("golite_coq_evaluation_failed", str(e)[:400])
        trc, coq = [], []
    ctx.bump("golite_cases", None, len(allc))
    bad_tr = 0
    for (c, g), q in zip(trc, coq):
        if c["f"] == "udp_parseHeader" and len(bytes.fromhex(c["h"])) > 8:
            continue
        if g != q:
            bad_tr += 1
            if bad_tr <= 3:
                ctx.report("golite:translation-differs-from-compiled-function:" + c["f"],
                           "the Gallina translation of %s (coq/Gen/GoFuncs.v) and the compiled function disagree on %s: Coq %s, Go %s"
                           % (c["f"], {k: v for k, v in c.items() if k not in ("id",)}, q, g),
                           {"case": c, "coq": q, "go": g, "failing_input": False})
    # the property on the compiled functions
    for c, g in zip(allc, allg):
        f = c["f"]
        if f == "io_utf16Length":
            want = utf16_oracle(bytes.fromhex(c["h"]))
            if g != [want]:
                ctx.report("utf16length-wrong", "utf16Length(%r) = %s; a strict UTF-8 decoder gives %d (-1 = not UTF-8)"
                           % (bytes.fromhex(c["h"]), g, want), {"case": c, "go": g, "want": want, "failing_input": True})
                break
        elif f in ("cluster_getIndex", "rr_getIndex"):
            idx, n = c["x"], c["y"]
            # the property's reading: one more than the cursor while that stays below n, else back to 0; n <= 1: always 0
            want = ([idx + 1, idx + 1] if idx + 1 < n else [0, 0]) if n > 1 else [0, idx]
            if g != want:
                ctx.report("getindex-wrong:" + f, "%s with the cursor at %d and n = %d returned %s and left the cursor at %s; "
                           "expected (returned, cursor) = %s" % (f, idx, n, g[:1], g[1:], want),
                           {"case": c, "go": g, "want": want, "failing_input": True})
                break
        elif f == "lb_gcd":
            if g != [math.gcd(c["x"], c["y"])]:
                ctx.report("gcd-wrong", "gcd(%d, %d) = %s, the greatest common divisor is %d" % (c["x"], c["y"], g, math.gcd(c["x"], c["y"])),
                           {"case": c, "go": g, "failing_input": True})
                break
        elif f == "ws_parseHeader" and "made_from" in c:
            iw = c["made_from"][1] % 2**32
            want = [iw % 2**31, 1 if iw < 2**31 else 0]
            if g != want:
                ctx.report("header-roundtrip-wrong:" + f, "websocket parseHeader(makeHeader(%d)) = %s, sent (index, no-error-flag) = %s"
                           % (c["made_from"][1], g, want), {"case": c, "go": g, "want": want, "failing_input": True})
                break
        elif f in ("socket_parseHeader", "udp_parseHeader") and "made_from" in c:
            l, i = c["made_from"]
            bits, mask = (32, 2**31) if f.startswith("socket") else (16, 2**15)
            if "flipped" in c:
                if g != [0, -1, 0]:
                    ctx.report("header-bit-flip-accepted:" + f, "%s accepts the header of (length %d, index %d) with bit %d flipped: %s"
                               % (f, l, i, c["flipped"], g), {"case": c, "go": g, "failing_input": True})
                    break
            else:
                iw = i % (2 ** bits)
                want = [l, iw % mask, 1 if iw < mask else 0]
                if g != want:
                    ctx.report("header-roundtrip-wrong:" + f, "parseHeader(makeHeader(%d, %d)) = %s, sent (length, index, no-error-flag) = %s"
                               % (l, i, g, want), {"case": c, "go": g, "want": want, "failing_input": True})
                    break
    ctx.note("golite_tie", {"functions": funcs, "cases": len(allc), "translation_mismatches": bad_tr})
