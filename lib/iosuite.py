"""Case families for the io checks and the shared failure classification."""
import json
import os
import re
import iogen
from iogen import T, Slice, Array, Map, Ptr, Reg, Anon, IFACE, hx

V = os.path.dirname(os.path.dirname(os.path.abspath(__file__)))


def corpus_cases(prop=None):
    """Minimised failing cases of earlier runs (fixed defects and known findings); they run first."""
    out = []
    d = os.path.join(V, "corpus", "io")
    if os.path.isdir(d):
        for f in sorted(os.listdir(d)):
            if f.endswith(".json"):
                c = json.load(open(os.path.join(d, f)))
                if prop and prop not in c.get("properties", []):
                    continue
                for case in c["cases"]:
                    case = dict(case)
                    case["tag"] = "corpus:" + f[:-5]
                    out.append(case)
    return out


# registered types with positions of the interface type error: an error is written as the RPC error item
# 'E', which the decoder turns into the decode's own error by design, so those types are outside the
# round-trip domain of C01/C02 (the type list of C01 has interface{} only); the encoder's output for
# them must still be well-formed (C03)
ENCODE_ONLY = ("ErrF",)


def registered(gen, reg, per_type, cycles=False, modes=None, roundtrip=True):
    cases = []
    for name in sorted(reg):
        if roundtrip and name in ENCODE_ONLY:
            continue
        for _ in range(per_type):
            td = Reg(name)
            c = {"t": td, "v": gen.value(td, 0, {"pool": {}, "cycles": cycles}),
                 "tag": "reg:" + name + (":cyc" if cycles else ""), "top": gen.rng.choice(["value", "ptr"])}
            if modes:
                c["modes"] = modes
            cases.append(c)
    return cases


def strings_family(gen):
    """Strings of every shape in every string position (C03 length fields; references to strings)."""
    cases = []
    S = T("string")
    for s in iogen.STR_BOUND:
        h = hx(s)
        cases.append({"t": S, "v": h, "tag": "str:top"})
        cases.append({"t": Slice(S), "v": [h, h, hx(b"other"), h], "tag": "str:repeat"})
        cases.append({"t": Map(S, S), "v": [[h, h]], "tag": "str:mapkv"})
        cases.append({"t": Anon([("A", S, ""), ("B", S, ""), ("C", Ptr(S), "")]), "v": {"A": h, "B": h, "C": {"v": h}}, "tag": "str:fields"})
        cases.append({"t": Slice(IFACE), "v": [{"t": S, "v": h}, {"t": S, "v": h}], "tag": "str:iface"})
        cases.append({"t": Reg("MyStr"), "v": h, "tag": "str:named"})
        cases.append({"t": Slice(T("uint8")), "v": [str(b) for b in s], "tag": "bytes:top"})
    # field aliases (tags) that are not ASCII / share text with values
    cases.append({"t": Anon([("A", S, 'hprose:"名字"'), ("B", S, 'json:"名字2"'), ("C", S, "")]),
                  "v": {"A": hx("名字".encode()), "B": hx("名字".encode()), "C": hx(b"c")}, "tag": "str:alias"})
    return cases


UTF8_ALPHABET = [0x61, 0x7f, 0x80, 0x9f, 0xa0, 0xa9, 0xbf, 0xc0, 0xc3, 0xdf, 0xe0, 0xe4, 0xed, 0xf0, 0xf4, 0xf5, 0xff]


def utf8_shapes_family(gen, quick=True):
    """Every byte string over an alphabet of UTF-8 class representatives up to length 3 (quick: a 12-byte
    alphabet), plus random ones of length 4..7: lead bytes followed by ASCII, stray/missing continuations,
    overlong and surrogate forms, out-of-range leads.  Decides between the string tags and the bytes tag."""
    import itertools
    alpha = UTF8_ALPHABET if not quick else [0x61, 0x80, 0xa0, 0xa9, 0xbf, 0xc3, 0xe0, 0xe4, 0xed, 0xf0, 0xf4, 0xff]
    S = T("string")
    cases = []
    for L in (1, 2, 3):
        for tup in itertools.product(alpha, repeat=L):
            cases.append({"t": S, "v": hx(bytes(tup)), "tag": "utf8:len%d" % L})
    for _ in range(400 if quick else 4000):
        L = gen.rng.randint(4, 7)
        b = bytes(gen.rng.choice(UTF8_ALPHABET) for _ in range(L))
        cases.append({"t": S, "v": hx(b), "tag": "utf8:rand"})
        if gen.rng.random() < 0.2:
            cases.append({"t": Slice(IFACE), "v": [{"t": S, "v": hx(b)}, {"t": S, "v": hx(b)}], "tag": "utf8:iface"})
    return cases


MAPK = ["string", "int", "int8", "int16", "int32", "int64", "uint", "uint8", "uint16", "uint32", "uint64", "float32", "float64"]
MAPV = MAPK + ["bool"]


def maps_family(gen):
    """All specialised key/value pairs (plus interface{} on either side), one and two entries."""
    cases = []
    for k in MAPK + ["iface"]:
        for v in MAPV + ["iface"]:
            kt = IFACE if k == "iface" else T(k)
            vt = IFACE if v == "iface" else T(v)
            for n in (1, 2):
                entries, seen = [], set()
                while len(entries) < n:
                    kv = gen.value(kt, 4, None) if k != "iface" else {"t": T("string"), "v": hx(gen.rand_str())}
                    key = json.dumps(kv)
                    if key in seen or "7ff8" in key or "7fc0" in key:
                        continue
                    seen.add(key)
                    vv = gen.value(vt, 4, None) if v != "iface" else {"t": T("int"), "v": str(gen.rng.randint(-5, 300))}
                    entries.append([kv, vv])
                cases.append({"t": Map(kt, vt), "v": entries, "tag": "map:%s:%s" % (k, v)})
    # values (and keys) that own storage: every entry must get its own (slices, pointers, maps, structs,
    # interfaces, and arrays of those), two and three entries
    I, S = T("int"), T("string")
    st = Anon([("A", Slice(I), ""), ("P", Ptr(I), "")])
    vts = [Slice(I), Slice(S), Ptr(I), Ptr(S), Map(S, I), st, Ptr(st), IFACE, Slice(Slice(I)),
           Array(2, I), Array(2, Slice(I)), Array(2, Ptr(I)), Array(2, Map(S, I)), Array(2, st), Array(2, IFACE),
           Array(2, Array(2, Slice(I))), Slice(Array(2, Ptr(S)))]
    for vt in vts:
        for kt in (I, S):
            for n in (2, 3):
                entries, seen = [], set()
                tries = 0
                while len(entries) < n and tries < 50:
                    tries += 1
                    kv = gen.value(kt, 4, None)
                    if json.dumps(kv) in seen:
                        continue
                    seen.add(json.dumps(kv))
                    if vt is IFACE:
                        vv = {"t": Slice(I), "v": [str(gen.rng.randint(0, 99)) for _ in range(len(entries) + 1)]}
                    else:
                        vv = gen.value(vt, 1, None)
                    entries.append([kv, vv])
                cases.append({"t": Map(kt, vt), "v": entries, "tag": "mapv:%s" % vt["k"]})
    for kt in (Ptr(I), Ptr(S), Array(2, I)):
        entries = [[gen.value(kt, 1, None), str(i)] for i in range(3)]
        if len({json.dumps(e[0]) for e in entries}) == 3 or kt["k"] == "ptr":
            cases.append({"t": Map(kt, I), "v": entries, "tag": "mapk:%s" % kt["k"]})
    return cases


def times_family(gen):
    cases = []
    TT = T("time")
    specials = [
        {"zero": True},
        {"unix": "0", "ns": 0, "zone": "utc"}, {"unix": "0", "ns": 1, "zone": "utc"},
        {"unix": "86399", "ns": 999999999, "zone": "utc"}, {"unix": "86400", "ns": 0, "zone": "utc"},
        {"unix": "1600000000", "ns": 0, "zone": "utc"}, {"unix": "1600000000", "ns": 120000000, "zone": "utc"},
        {"unix": "1600000000", "ns": 123456000, "zone": "utc"}, {"unix": "1600000000", "ns": 123456789, "zone": "local"},
        {"unix": "1599955200", "ns": 0, "zone": "utc"}, {"unix": "1599955200", "ns": 0, "zone": "local"},
        {"unix": "1599955200", "ns": 1, "zone": "utc"}, {"unix": "1599955200", "ns": 1000, "zone": "utc"},
        {"unix": "1599955200", "ns": 500000000, "zone": "utc"}, {"unix": "1599955200", "ns": 999999999, "zone": "utc"},
        {"unix": "0", "ns": 500000000, "zone": "utc"}, {"unix": "86400", "ns": 7, "zone": "utc"},
        {"unix": "253402300799", "ns": 0, "zone": "utc"}, {"unix": "-62135596800", "ns": 0, "zone": "utc"},
        {"unix": "-62167219200", "ns": 0, "zone": "utc"},
        {"unix": "1600000000", "ns": 0, "zone": "fixed:28800"}, {"unix": "1600000000", "ns": 5000, "zone": "fixed:-18000"},
        {"unix": "253402300800", "ns": 0, "zone": "utc"}, {"unix": "-62167219201", "ns": 0, "zone": "utc"},
    ]
    for sp in specials:
        cases.append({"t": TT, "v": sp, "tag": "time:top"})
        cases.append({"t": Ptr(TT), "v": {"v": sp}, "tag": "time:ptr"})
        cases.append({"t": Slice(TT), "v": [sp, sp], "tag": "time:slice"})
        cases.append({"t": Reg("Times"), "v": {"T": sp, "PT": {"v": sp}}, "tag": "time:struct"})
        cases.append({"t": Slice(IFACE), "v": [{"t": TT, "v": sp}], "tag": "time:iface"})
    # the same under local zones with a non-zero offset (time.Local is replaced while the case runs):
    # local times are written without 'Z' and must come back as the same instant
    tzs = [{"unix": "0", "ns": 0, "zone": "local"}, {"unix": "3600", "ns": 0, "zone": "local"},
           {"unix": "45296", "ns": 5000, "zone": "local"}, {"unix": "-28800", "ns": 0, "zone": "local"},
           {"unix": "1600000000", "ns": 0, "zone": "local"}, {"unix": "1599955200", "ns": 0, "zone": "local"},
           {"unix": "1599955200", "ns": 120000000, "zone": "local"}, {"unix": "86399", "ns": 999999999, "zone": "local"},
           {"unix": "1600000000", "ns": 1, "zone": "utc"}, {"unix": "1600000000", "ns": 0, "zone": "fixed:3600"}]
    for off in (28800, -18000, 19800):
        for sp in tzs:
            cases.append({"t": TT, "v": sp, "tz": off, "tag": "timetz:top"})
            cases.append({"t": Reg("Times"), "v": {"T": sp, "PT": {"v": sp}}, "tz": off, "tag": "timetz:struct"})
            cases.append({"t": Slice(IFACE), "v": [{"t": TT, "v": sp}], "tz": off, "tag": "timetz:iface"})
    return cases


def probe_family(gen):
    """The reference probe (DESIGN C02): every referable construct X is followed by back-references
    to a string and to a pointer registered BEFORE it, and X itself is repeated: an off-by-one in X's
    reference accounting makes a later reference resolve to the wrong item."""
    S = T("string")
    inner = {"X": "7", "Y": hx(b"inner-y")}
    xs = {
        "string": (S, hx(b"probe-x")),
        "bytes": (Slice(T("uint8")), ["1", "2", "3"]),
        "time": (T("time"), {"unix": "1600000000", "ns": 5000, "zone": "utc"}),
        "uuid": (T("uuid"), "00112233445566778899aabbccddeeff"),
        "slice": (Slice(T("int")), ["1", "2"]),
        "emptyslice": (Slice(T("int")), []),
        "slice2d": (Slice(Slice(T("int"))), [["1"], [], ["2", "3"]]),
        "strslice2d": (Slice(Slice(S)), [[hx(b"aa"), hx(b"aa")], [hx(b"bb")]]),
        "bytes2d": (Slice(Slice(T("uint8"))), [["1"], None, ["2", "3"], []]),
        "array": (Array(2, T("int")), ["4", "5"]),
        "bytearray": (Array(3, T("uint8")), ["4", "5", "6"]),
        "map": (Map(S, T("int")), [[hx(b"kk"), "1"]]),
        "emptymap": (Map(S, T("int")), []),
        "struct": (Reg("Inner"), inner),
        "one": (Reg("One"), {"V": "3"}),
        "empty": (Reg("Empty"), {}),
        "anon": (Anon([("Aa", T("int"), ""), ("Bb", S, "")]), {"Aa": "1", "Bb": hx(b"anon-b")}),
        "anon1": (Anon([("Aa", T("int"), "")]), {"Aa": "1"}),
        "anon0": (Anon([]), {}),
        "panon0": (Ptr(Anon([])), {"v": {}}),
        "panon": (Ptr(Anon([("Aa", T("int"), ""), ("Bb", S, "")])), {"v": {"Aa": "2", "Bb": hx(b"anon-p")}}),
        "pempty": (Ptr(Reg("Empty")), {"v": {}}),
        "anonslice": (Slice(Anon([])), [{}, {}]),
        "complex": (T("complex128"), ["0x3ff0000000000000", "0x4000000000000000"]),
        "complexslice": (Slice(T("complex128")), [["0x3ff0000000000000", "0x4000000000000000"], ["0x3ff0000000000000", "0x0000000000000000"]]),
        "bigrat": (Ptr(T("bigrat")), {"v": "22/7"}),
        "bigratint": (Ptr(T("bigrat")), {"v": "6/3"}),
        "bigfloat": (Ptr(T("bigfloat")), {"v": {"s": "1.5", "prec": 53}}),
        "bigint": (Ptr(T("bigint")), {"v": "123456789012345678901234567890"}),
        "pslice": (Ptr(Slice(T("int"))), {"v": ["1"]}),
        "pmap": (Ptr(Map(S, T("int"))), {"v": [[hx(b"pm"), "1"]]}),
        "parray": (Ptr(Array(2, T("int"))), {"v": ["1", "2"]}),
        "ptime": (Ptr(T("time")), {"v": {"unix": "1600000000", "ns": 0, "zone": "utc"}}),
        "puuid": (Ptr(T("uuid")), {"v": "ffeeddccbbaa99887766554433221100"}),
        "pstruct": (Ptr(Reg("Inner")), {"v": inner}),
        "list": (Ptr(T("list")), {"v": [{"t": S, "v": hx(b"in-list")}, {"t": T("int"), "v": "5"}]}),
        "tagged": (Reg("Tagged"), {"A": "1", "B": "2", "E": "3", "F": "4"}),
        "outer": (Reg("Outer"), {"Inner": inner, "Z": "1", "V": inner, "L": [inner]}),
        "error": (T("error"), hx(b"some error")),
        "mystr": (Reg("MyStr"), hx(b"named-string")),
    }
    cases = []
    for name, (xt, xv) in xs.items():
        def X():
            return {"t": xt, "v": json.loads(json.dumps(xv))}
        pid = gen.next_ptr
        qid = gen.next_ptr + 1
        gen.next_ptr += 2
        P = Ptr(Reg("Inner"))
        # s1, p1 are registered BEFORE X; s2, p2 AFTER it: a miscount at X shifts the indices the encoder
        # gives to s2/p2 (and the reader does not follow), a missing count shifts them the other way
        items = [{"t": S, "v": hx(b"probe-str")},
                 {"t": P, "v": {"id": pid, "v": {"X": "42", "Y": hx(b"shared-inner")}}},
                 X(),
                 {"t": S, "v": hx(b"after-x")},
                 {"t": P, "v": {"id": qid, "v": {"X": "43", "Y": hx(b"second-inner")}}},
                 {"t": S, "v": hx(b"probe-str")},
                 {"t": P, "v": {"ref": pid}},
                 {"t": S, "v": hx(b"after-x")},
                 {"t": P, "v": {"ref": qid}},
                 X(),
                 {"t": S, "v": hx(b"after-x")},
                 {"t": P, "v": {"ref": qid}}]
        cases.append({"t": Slice(IFACE), "v": items, "tag": "probe:" + name})
        # the same inside a struct with typed fields around X
        cases.append({"t": Anon([("S1", S, ""), ("P1", P, ""), ("X", xt, ""), ("S2", S, ""), ("P2", P, ""),
                                 ("S3", S, ""), ("P3", P, ""), ("S4", S, ""), ("P4", P, "")]),
                      "v": {"S1": hx(b"probe-str"), "P1": {"id": pid + 100000, "v": {"X": "1", "Y": hx(b"yy")}}, "X": json.loads(json.dumps(xv)),
                            "S2": hx(b"after-x"), "P2": {"id": qid + 100000, "v": {"X": "2", "Y": hx(b"zz")}},
                            "S3": hx(b"probe-str"), "P3": {"ref": pid + 100000}, "S4": hx(b"after-x"), "P4": {"ref": qid + 100000}},
                      "tag": "probefield:" + name})
    return cases


def graphs_family(gen, n):
    """Pointer graphs: sharing (both modes) and cycles (reference mode only)."""
    cases = []
    # hand-made shapes
    def node(v, nxt): return {"V": str(v), "Next": nxt}
    cases.append({"t": Reg("Node"), "v": {"V": "1", "Next": {"id": 1, "v": node(2, {"ref": 1})}}, "top": "ptr", "modes": ["ref"], "tag": "graph:selfloop-after"})
    cases.append({"t": Reg("Node2"), "v": {"V": "1", "Next": {"id": 2, "v": node(2, {"ref": 2})}}, "top": "ptr", "modes": ["ref"], "tag": "graph:selfloop-before"})
    cases.append({"t": Ptr(Reg("Node2")), "v": {"id": 3, "v": node(1, {"id": 4, "v": node(2, {"id": 5, "v": node(3, {"ref": 3})})})}, "modes": ["ref"], "tag": "graph:cycle3"})
    cases.append({"t": Ptr(Reg("Tree")), "v": {"id": 6, "v": {"Name": hx(b"root"), "L": {"id": 7, "v": {"Name": hx(b"leaf")}}, "R": {"ref": 7}}}, "tag": "graph:dag"})
    cases.append({"t": Ptr(Reg("Tree")), "v": {"id": 8, "v": {"Name": hx(b"root"), "L": {"ref": 8}, "R": {"ref": 8}}}, "modes": ["ref"], "tag": "graph:tree-self"})
    cases.append({"t": Reg("Graph"), "v": {"Nodes": [{"id": 9, "v": node(1, None)}, {"id": 10, "v": node(2, {"ref": 9})}, {"ref": 9}],
                                         "Root": {"ref": 10}, "Index": [[hx(b"a"), {"ref": 9}], [hx(b"b"), {"ref": 10}]]}, "tag": "graph:graph-shared"})
    cases.append({"t": Reg("Shared"), "v": {"A": {"id": 11, "v": {"X": "1", "Y": hx(b"yy")}}, "B": {"ref": 11}, "S1": hx(b"same"), "S2": hx(b"same"),
                                          "T1": {"id": 12, "v": {"unix": "1600000000", "ns": 0, "zone": "utc"}}, "T2": {"ref": 12},
                                          "L1": {"id": 13, "v": ["1", "2"]}, "L2": {"ref": 13}, "M1": {"id": 14, "v": [[hx(b"k"), "1"]]}, "M2": {"ref": 14}}, "tag": "graph:shared-all"})
    cases.append({"t": Slice(IFACE), "v": [{"t": Ptr(Slice(IFACE)), "v": {"id": 15, "v": [{"t": T("int"), "v": "1"}, {"t": Ptr(Slice(IFACE)), "v": {"ref": 15}}]}}], "modes": ["ref"], "tag": "graph:cycle-through-slice"})
    cases.append({"t": Ptr(Map(T("string"), IFACE)), "v": {"id": 16, "v": [[hx(b"self"), {"t": Ptr(Map(T("string"), IFACE)), "v": {"ref": 16}}]]}, "modes": ["ref"], "tag": "graph:cycle-through-map"})
    # a cycle through a shared *[]*T: every member points at the one family list, which is still being read
    # when the first back-reference to it arrives (elements after that point must not be lost)
    def member(i, name, fam, extra=None):
        d = {"Name": hx(name), "Family": fam}
        d.update(extra or {})
        return {"id": i, "v": d}
    F = 40
    fam = {"id": F, "v": [member(41, b"ann", {"ref": F}), member(42, b"bob", {"ref": F}), member(43, b"cy", {"ref": F}), {"ref": 41}]}
    cases.append({"t": Ptr(Slice(Ptr(Reg("Member")))), "v": fam, "modes": ["ref"], "tag": "graph:cycle-shared-slice-ptr"})
    cases.append({"t": Reg("Member"), "v": {"Name": hx(b"root"), "Family": {"id": 44, "v": [member(45, b"a", {"ref": 44}), member(46, b"b", {"ref": 44}, {"Peers": [{"ref": 45}, {"ref": 46}]}), member(47, b"c", None)]}},
                  "modes": ["ref"], "tag": "graph:cycle-shared-slice-field"})
    cases.append({"t": Ptr(Reg("Member")), "v": {"id": 48, "v": {"Name": hx(b"m"), "ByName": [[hx(b"me"), {"ref": 48}], [hx(b"other"), member(49, b"o", None, {"Peers": [{"ref": 48}, {"ref": 49}]})]]}},
                  "modes": ["ref"], "tag": "graph:cycle-through-map-field"})
    cases.append({"t": Ptr(Reg("Member")), "v": {"id": 50, "v": {"Name": hx(b"p"), "Peers": [{"ref": 50}, member(51, b"q", None), {"ref": 50}, {"ref": 51}]}},
                  "modes": ["ref"], "tag": "graph:cycle-through-slice-field"})
    # shared lists longer than the decoder's initial reservation (16): the back-referenced occurrence must be whole
    for n in (16, 17, 40):
        lst = {"id": 60 + n, "v": [str(i) for i in range(n)]}
        cases.append({"t": Reg("Shared"), "v": {"L1": lst, "L2": {"ref": 60 + n}}, "modes": ["ref"], "tag": "graph:shared-long-list"})
        sl = {"t": Ptr(Slice(T("string"))), "v": {"id": 160 + n, "v": [hx(b"s%d" % i) for i in range(n)]}}
        cases.append({"t": Slice(IFACE), "v": [sl, {"t": Ptr(Slice(T("string"))), "v": {"ref": 160 + n}}, {"t": T("int"), "v": "1"}],
                      "modes": ["ref"], "tag": "graph:shared-long-list-iface"})
        fam = {"id": 260 + n, "v": [member(1000 * n + i, b"m%d" % i, {"ref": 260 + n}) for i in range(n)]}
        cases.append({"t": Ptr(Slice(Ptr(Reg("Member")))), "v": fam, "modes": ["ref"], "tag": "graph:cycle-shared-long-slice"})
    for name in ("Node", "Node2", "Tree", "Graph", "Shared", "OneP", "Outer", "Deep", "Member"):
        for _ in range(n):
            td = Ptr(Reg(name))
            cases.append({"t": td, "v": gen.value(td, 0, {"pool": {}, "cycles": True}), "modes": ["ref"], "tag": "graph:cyc:" + name})
            cases.append({"t": td, "v": gen.value(td, 0, {"pool": {}, "cycles": False}), "tag": "graph:share:" + name})
    return cases


def slices2d_family(gen):
    """Two-dimensional slices of every fast-path element type (and the generic path), with referable
    content repeated ACROSS rows: the per-row vs up-front reference accounting must agree with the
    stream order (C02) and nil rows must be written the way the typed path writes them."""
    S = T("string")
    cases = []
    rep = hx(b"alpha")
    pid = gen.next_ptr
    gen.next_ptr += 1
    inner = {"t": Ptr(Reg("Inner")), "v": {"id": pid, "v": {"X": "1", "Y": hx(b"inner")}}}
    cases.append({"t": Slice(Slice(IFACE)), "tag": "slice2d:iface",
                  "v": [[{"t": S, "v": rep}, {"t": T("int"), "v": "1"}], [{"t": S, "v": rep}, {"t": S, "v": hx(b"gamma")}], None,
                        [inner, {"t": Ptr(Reg("Inner")), "v": {"ref": pid}}, {"t": S, "v": hx(b"gamma")}]]})
    cases.append({"t": Slice(Slice(IFACE)), "tag": "slice2d:iface", "v": [[{"t": S, "v": rep}], [{"t": S, "v": rep}]]})
    cases.append({"t": Slice(Slice(S)), "tag": "slice2d:string", "v": [[rep, hx(b"beta")], [rep, hx(b"beta")], [], None, [rep]]})
    cases.append({"t": Anon([("A", Slice(Slice(IFACE)), ""), ("S", S, "")]), "tag": "slice2d:iface-field",
                  "v": {"A": [[{"t": S, "v": rep}], [{"t": S, "v": hx(b"beta")}]], "S": rep}})
    for k in ["int", "int8", "int16", "int32", "int64", "uint", "uint16", "uint32", "uint64", "bool", "float32", "float64", "complex64", "complex128"]:
        e = T(k)
        rows = [[gen.rand_scalar(k) for _ in range(gen.rng.choice([1, 2]))], [], None, [gen.rand_scalar(k)]]
        cases.append({"t": Anon([("A", Slice(Slice(e)), ""), ("S1", S, ""), ("S2", S, "")]), "tag": "slice2d:" + k,
                      "v": {"A": rows, "S1": rep, "S2": rep}})
    cases.append({"t": Anon([("A", Slice(Slice(T("uint8"))), ""), ("S1", S, ""), ("S2", S, "")]), "tag": "slice2d:bytes",
                  "v": {"A": [["1", "2"], None, [], ["3"]], "S1": rep, "S2": rep}})
    cases.append({"t": Anon([("A", Slice(Slice(Reg("Inner"))), ""), ("S1", S, ""), ("S2", S, "")]), "tag": "slice2d:struct",
                  "v": {"A": [[{"X": "1", "Y": rep}], None, [{"X": "2", "Y": rep}]], "S1": rep, "S2": rep}})
    cases.append({"t": Slice(Slice(Slice(S))), "tag": "slice3d:string", "v": [[[rep], [rep]], [[rep]]]})
    return cases


def sequences_family(gen, n):
    """Several values written to ONE encoder (shared reference and class tables), with Reset in between."""
    S = T("string")
    cases = []
    pool = [
        lambda: {"t": S, "v": hx(gen.rng.choice([b"alpha", b"beta", b"alpha", "中文".encode(), b"a", b""]))},
        lambda: {"t": Reg("Inner"), "v": {"X": str(gen.rng.randint(-5, 500)), "Y": hx(gen.rng.choice([b"alpha", b"yy"]))}},
        lambda: {"t": Reg("One"), "v": {"V": str(gen.rng.randint(0, 20))}},
        lambda: {"t": Slice(S), "v": [hx(b"alpha"), hx(b"beta"), hx(b"alpha")]},
        lambda: {"t": T("int"), "v": str(gen.rng.randint(-100, 100000))},
        lambda: {"t": Slice(T("uint8")), "v": ["1", "2", "3"]},
        lambda: {"t": T("time"), "v": {"unix": "1600000000", "ns": 0, "zone": "utc"}},
        lambda: {"t": Map(S, T("int")), "v": [[hx(b"alpha"), "1"]]},
        lambda: {"t": Anon([("Aa", T("int"), ""), ("Bb", S, "")]), "v": {"Aa": "1", "Bb": hx(b"alpha")}},
        lambda: {"t": Ptr(Reg("Inner")), "v": {"v": {"X": "9", "Y": hx(b"beta")}}},
        lambda: {"t": T("float64"), "v": "0x400921fb54442d18"},
        lambda: {"t": S, "v": hx(gen.rng.choice([b"x", "中".encode(), b"y"]))},       # 11: one UTF-16 unit
        lambda: {"t": S, "v": ""},                                                       # 12: empty
        # 13, 14: one message that registers well over a thousand strings / pointers (tables of that size may be
        # handled differently by Reset); what follows the Reset must start from empty tables and index 0
        lambda: {"t": Slice(S), "v": [hx(b"big-%d" % i) for i in range(gen.rng.choice([1030, 1200]))]},
        lambda: {"t": Slice(Ptr(Reg("One"))), "v": [{"id": 880000 + i, "v": {"V": str(i)}} for i in range(1100)]},
    ]
    NSMALL = 13   # random scripts draw from the first 13 entries only
    fixed = [
        [("encode", 1), ("reset",), ("encode", 1)],                       # same struct type again after Reset
        [("encode", 1), ("encode", 1), ("encode", 0), ("encode", 0)],     # class and string reuse without Reset
        [("encode", 0), ("reset",), ("encode", 0)],
        [("encode", 8), ("encode", 8), ("reset",), ("encode", 8)],
        [("encode", 2), ("reset",), ("encode", 1), ("reset",), ("encode", 2), ("encode", 1)],
        # the Write entry point: the value is written out (never as a back-reference) but registered
        [("write", 11), ("encode", 3), ("encode", 3)],                    # Write("x") then a repeated list of strings
        [("write", 12), ("encode", 0), ("encode", 3), ("write", 3)],      # Write("") ...
        [("write", 0), ("write", 0), ("encode", 0), ("encode", 3)],
        [("write", 9), ("encode", 9), ("write", 1), ("encode", 1), ("write", 3), ("encode", 3)],
        [("write", 11), ("write", 12), ("write", 1), ("reset",), ("write", 1), ("encode", 1)],
        [("encode", 13), ("reset",), ("encode", 3), ("encode", 0), ("encode", 9), ("encode", 9)],
        [("encode", 14), ("reset",), ("encode", 9), ("encode", 3), ("encode", 3)],
        [("encode", 13), ("encode", 14), ("reset",), ("reset",), ("encode", 3)],
        [("encode", 3), ("reset",), ("encode", 13), ("reset",), ("encode", 3), ("encode", 1), ("encode", 1)],
    ]
    scripts = list(fixed)
    for _ in range(n):
        L = gen.rng.randint(2, 6)
        sc = []
        for _ in range(L):
            if gen.rng.random() < 0.25 and sc:
                sc.append(("reset",))
            else:
                sc.append(("write" if gen.rng.random() < 0.3 else "encode", gen.rng.randrange(NSMALL)))
        scripts.append(sc)
    for sc in scripts:
        seq = []
        for st in sc:
            if st[0] == "reset":
                seq.append({"op": "reset"})
            else:
                x = pool[st[1]]()
                seq.append({"op": st[0], "t": x["t"], "v": x["v"]})
        cases.append({"seq": seq, "t": T("string"), "v": "", "tag": "seq:encoder"})
        # the same script through NewEncoder(w), with ResetBuffer between some values: what reaches w must be
        # the same stream (ResetBuffer is invisible to the model: it is not a step)
        wseq = []
        for st in seq:
            wseq.append(st)
            if st["op"] in ("encode", "write") and gen.rng.random() < 0.5:
                wseq.append({"op": "resetbuffer"})
        cases.append({"seq": wseq, "writer": True, "t": T("string"), "v": "", "tag": "seqw:writer"})
    # decoding over a destination that already holds a graph (a caller reusing its variable): chains, rings and
    # trees of different shapes one after the other, Reset in between; back-references must close the NEW graph
    def node2(v, nxt): return {"V": str(v), "Next": nxt}
    base = 70000
    def chain(k, ring, off):
        ids = [base + off + i for i in range(k)]
        v = {"ref": ids[0]} if ring else None
        for i in reversed(range(k)):
            v = {"id": ids[i], "v": node2(i + 1 + off, v)}
        return {"t": Ptr(Reg("Node2")), "v": v}
    shapes = [(3, False), (2, True), (1, True), (4, False), (3, True), (1, False)]
    for a_ in shapes:
        for b_ in shapes:
            if a_ == b_ or a_[1]:
                continue      # the graph already in the destination is acyclic (decoding over a cyclic one aliases the caller's own nodes)
            x, y = chain(a_[0], a_[1], 0), chain(b_[0], b_[1], 100)
            base += 1000
            cases.append({"seq": [{"op": "encode", "t": x["t"], "v": x["v"]}, {"op": "reset"}, {"op": "encode", "t": y["t"], "v": y["v"]}],
                          "reuse": True, "modes": ["ref"], "t": T("string"), "v": "", "tag": "seqr:reuse-dest"})
    return cases


# ------------------------------------------------------------------------------------------------
# classification of failures into keys (one key per distinct defect; DESIGN 4.3)

def norm(msg):
    msg = re.sub(r"\[[^\]]*\]", "[]", msg or "")
    msg = re.sub(r"-?\d+(\.\d+)?(e[+-]?\d+)?", "#", msg)
    msg = re.sub(r'"[^"]*"', '"…"', msg)
    return msg[:90]


def has_type(td, pred):
    if pred(td):
        return True
    for k in ("e", "key"):
        if k in td and td[k] and has_type(td[k], pred):
            return True
    for f in td.get("fields", []) or []:
        if has_type(f["t"], pred):
            return True
    return False
