"""Shared execution of io cases: harness (real library) + extracted model, joined per (case, mode)."""
import os
import hv
import iogen


def parse_kv(line):
    d = {}
    for tok in line.strip().split(" "):
        if "=" in tok:
            k, v = tok.split("=", 1)
            d[k] = v
    return d


def prepare(ctx):
    hv.build_harness("io")
    hv.build_modelrun("io")
    reg = iogen.load_registry(os.path.join(hv.HBIN, "hv-io"))
    return reg


def run_cases(ctx, cases):
    """cases: list of dicts with t, v, optional top, modes, tag.  Returns (records, crashes)."""
    for i, c in enumerate(cases):
        c["id"] = i + 1
    send = [{k: c[k] for k in ("id", "t", "v", "top", "modes", "seq", "writer", "tz", "reuse") if k in c} for c in cases]
    obs_by_id, crashes = hv.run_harness_resilient("io", send, timeout=1800)
    lines, index = [], []
    for c in cases:
        o = obs_by_id.get(c["id"])
        if o and o.get("seq_modes") and not o.get("build_err"):
            # a sequence through one encoder: map the observation onto the common shape
            o["modes"] = {}
            for m, so in sorted(o["seq_modes"].items()):
                o["modes"][m] = {"hex": so.get("hex"), "enc_err": so.get("enc_err"), "enc_panic": so.get("enc_panic"),
                                 "rt": so.get("rt", ""), "rt_err": so.get("dec_err"), "rt_panic": so.get("dec_panic")}
                o["modes"][m] = {k: v for k, v in o["modes"][m].items() if v}
                o["modes"][m].setdefault("rt", "")
                o["sexp"] = " ; ".join(so["steps"])
                lines.append("seq\t%s\t%s\t%s" % (m, so.get("hex") or "-", "\t".join(so["steps"])))
                index.append((c["id"], m))
            continue
        if not o or o.get("build_err") or not o.get("sexp"):
            continue
        for m, mo in sorted(o.get("modes", {}).items()):
            lines.append("%s %s %s" % (m, mo.get("hex") or "-", o["sexp"]))
            index.append((c["id"], m))
    outs = hv.run_model("io", lines) if lines else []
    model = {}
    for (cid, m), out in zip(index, outs):
        model[(cid, m)] = parse_kv(out) if not out.startswith("MODEL-ERROR") else {"model_error": out}
    records = []
    for c in cases:
        o = obs_by_id.get(c["id"])
        rec = {"case": c, "obs": o, "modes": {}}
        if o:
            for m, mo in o.get("modes", {}).items():
                rec["modes"][m] = {"go": mo, "model": model.get((c["id"], m), {})}
        records.append(rec)
    return records, crashes
