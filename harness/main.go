// hv: implementation-side executor of the correspondence checks.
// Reads one JSON case per line on stdin, runs it against /repo (through the
// replace directive), prints one JSON observation per line on stdout.
package main

import (
	"bufio"
	"encoding/json"
	"fmt"
	"os"
)

type runner func(in *bufio.Scanner, out *json.Encoder) error

var runners = map[string]runner{}

func register(name string, r runner) { runners[name] = r }

func main() {
	if len(os.Args) < 2 {
		fmt.Fprintln(os.Stderr, "usage: hv <runner>")
		os.Exit(2)
	}
	r, ok := runners[os.Args[1]]
	if !ok {
		fmt.Fprintln(os.Stderr, "unknown runner", os.Args[1])
		os.Exit(2)
	}
	in := bufio.NewScanner(os.Stdin)
	in.Buffer(make([]byte, 1<<20), 1<<28)
	w := bufio.NewWriterSize(os.Stdout, 1<<20)
	out := json.NewEncoder(w)
	err := r(in, out)
	w.Flush()
	if err != nil {
		fmt.Fprintln(os.Stderr, "hv:", err)
		os.Exit(3)
	}
}
