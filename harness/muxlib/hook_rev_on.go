//go:build c09revhook
// +build c09revhook

package muxlib

import (
	"sync"

	"github.com/hprose/hprose-golang/v3/rpc/plugins/reverse"
)

// the yield point "caller.appended" of rpc/plugins/reverse (a call is queued for its provider, its result
// channel is not registered yet): every caller arriving there while a hold is set waits for the release
var revMu sync.Mutex
var revHold chan struct{}

func revHoldAppended() {
	revMu.Lock()
	revHold = make(chan struct{})
	revMu.Unlock()
	reverse.VerifYieldHook = func(point string, obj interface{}) {
		if point != "caller.appended" {
			return
		}
		revMu.Lock()
		ch := revHold
		revMu.Unlock()
		if ch != nil {
			<-ch
		}
	}
}

func revReleaseAppended() {
	revMu.Lock()
	ch := revHold
	revHold = nil
	revMu.Unlock()
	if ch != nil {
		close(ch)
	}
	reverse.VerifYieldHook = nil
}
