package muxlib

// Reverse calls (C09_reverse): a real rpc.Service with reverse.NewCaller on loopback tcp.  The providers
// are either real (reverse.NewProvider with an echo function that sleeps as the payload says) or
// scripted: plain hprose clients that call "!" (begin) to fetch the queued calls and "=" (end) to return
// results in the order the case dictates, with strays and duplicates.

import (
	"context"
	"errors"
	"fmt"
	"net"
	"reflect"
	"strconv"
	"strings"
	"sync"
	"time"

	"github.com/hprose/hprose-golang/v3/rpc"
	"github.com/hprose/hprose-golang/v3/rpc/core"
	"github.com/hprose/hprose-golang/v3/rpc/plugins/reverse"
)

type RevCase struct {
	Providers       []string `json:"providers"`
	Mode            string   `json:"mode"`              // real | script
	Late            []string `json:"late"`              // real providers that start listening only at a "listen" step
	CallerTimeoutMs int      `json:"caller_timeout_ms"` // reverse.Caller.Timeout (default 4000)
}

type RevObs struct {
	Fetched map[string]int `json:"fetched"` // provider id -> calls fetched
}

type revProxy struct {
	Begin func() ([][]interface{}, error)     `name:"!"`
	End   func(results [][]interface{}) error `name:"="`
	Close func() error                        `name:"!!"`
}

type revCall struct {
	index int
	body  string
}

func runReverse(c *Case) *Obs {
	o := &Obs{ID: c.ID, Results: map[string]string{}, Rev: &RevObs{Fetched: map[string]int{}}}
	rs := &runState{results: map[int]string{}, done: map[int]chan struct{}{}, cancel: map[int]context.CancelFunc{},
		goids: map[int64]int{}, connIDs: map[interface{}]int{}, holds: map[string]chan struct{}{}, arrived: map[string]chan struct{}{}}
	if c.Rev == nil {
		o.Note = "no reverse section"
		return o
	}
	// the providers' clients use rpc/socket: their connections belong to this case (so that goroutines they leave
	// behind are not taken for connections of a later case)
	rs.pkg = "socket"
	installHooks(rs)
	defer uninstallHooks()
	var ln net.Listener
	var err error
	for attempt := 0; attempt < 3; attempt++ {
		ln, err = net.Listen("tcp", "127.0.0.1:0")
		if err == nil {
			break
		}
		time.Sleep(50 * time.Millisecond)
	}
	if err != nil {
		o.Env = err.Error()
		return o
	}
	service := rpc.NewService()
	caller := reverse.NewCaller(service)
	caller.Timeout = 4 * time.Second
	if c.Rev.CallerTimeoutMs > 0 {
		caller.Timeout = time.Duration(c.Rev.CallerTimeoutMs) * time.Millisecond
	}
	if err := service.Bind(ln); err != nil {
		o.Env = err.Error()
		return o
	}
	defer ln.Close()
	time.Sleep(5 * time.Millisecond)
	url := "tcp://" + ln.Addr().String() + "/"

	var mu sync.Mutex
	provIndex := map[string]int{}
	clients := map[string]*core.Client{}
	proxies := map[string]*revProxy{}
	pendingCalls := map[string]map[int]revCall{} // provider -> caller k -> call
	var realProviders []*reverse.Provider
	lateProviders := map[string]*reverse.Provider{}
	if c.Rev.Mode == "real" {
		// what the real providers fetch ("!") and return ("=") is observed at the service, with the identifiers
		service.Use(func(ctx context.Context, name string, args []interface{}, next core.NextInvokeHandler) ([]interface{}, error) {
			id := core.GetServiceContext(ctx).RequestHeaders().GetString("id")
			if name == "=" && len(args) == 1 {
				v := reflect.ValueOf(args[0])
				for j := 0; v.Kind() == reflect.Slice && j < v.Len(); j++ {
					rv := v.Index(j)
					if rv.Kind() != reflect.Array || rv.Len() != 3 {
						continue
					}
					text := fmt.Sprint(rv.Index(1).Interface()) + " " + fmt.Sprint(rv.Index(2).Interface())
					e := ev("prov-send")
					e.C, e.I, e.K = provIndex[id], num(rv.Index(0).Interface()), callerInText(text)
					e.X = j // the slot of this result in the batch
					rs.add(e)
				}
			}
			res, err := next(ctx, name, args)
			if name == "!" && err == nil && len(res) == 1 {
				v := reflect.ValueOf(res[0])
				for j := 0; v.Kind() == reflect.Slice && j < v.Len(); j++ {
					cl := v.Index(j)
					if cl.Kind() != reflect.Array || cl.Len() != 3 {
						continue
					}
					e := ev("prov-recv")
					e.C, e.I, e.K = provIndex[id], num(cl.Index(0).Interface()), callerInText(fmt.Sprint(cl.Index(2).Interface()))
					e.X = j
					rs.add(e)
				}
			}
			return res, err
		})
	}
	for pi, id := range c.Rev.Providers {
		id := id
		provIndex[id] = pi + 1
		cl := rpc.NewClient(url)
		cl.Timeout = 5 * time.Second
		clients[id] = cl
		pendingCalls[id] = map[int]revCall{}
		if c.Rev.Mode == "real" {
			p := reverse.NewProvider(cl, id)
			p.RetryInterval = 10 * time.Millisecond
			p.AddFunction(func(body string) string {
				if d := delayOf([]byte(body)); d > 0 {
					time.Sleep(time.Duration(d) * time.Millisecond)
				}
				return "R:" + body
			}, "echo")
			p.AddFunction(func(body string) (string, error) {
				return "", errors.New("E:" + body)
			}, "fail")
			p.AddFunction(func(body string) string {
				panic("B:" + body)
			}, "boom")
			late := false
			for _, l := range c.Rev.Late {
				if l == id {
					late = true
				}
			}
			lateProviders[id] = p
			if !late {
				go p.Listen()
			}
			realProviders = append(realProviders, p)
		} else {
			cl.RequestHeaders().Set("id", id)
			px := &revProxy{}
			cl.UseService(px)
			proxies[id] = px
		}
	}
	if c.Rev.Mode == "real" {
		time.Sleep(60 * time.Millisecond)
	}
	defer func() {
		for _, p := range realProviders {
			p.Close()
		}
		for _, cl := range clients {
			cl.Abort()
		}
	}()

	var burstGate chan struct{} // non-nil while an invoke_burst is being armed: the callers start together
	invoke := func(k int, id string, timeoutMs int, delay int, method string) {
		if method == "" || method == "0" {
			method = "echo"
		}
		gate := burstGate
		done := make(chan struct{})
		parent, cancel := context.WithCancel(context.Background())
		rs.mu.Lock()
		rs.done[k] = done
		rs.cancel[k] = cancel
		rs.mu.Unlock()
		pl := string(payload(c.ID, k, delay))
		go func() {
			defer close(done)
			if gate != nil {
				<-gate
			}
			e := ev("call-begin")
			e.K, e.C = k, provIndex[id]
			rs.add(e)
			ctx := parent
			if timeoutMs > 0 {
				var cf context.CancelFunc
				ctx, cf = context.WithTimeout(parent, time.Duration(timeoutMs)*time.Millisecond)
				defer cf()
			}
			res, err := caller.InvokeContext(ctx, id, method, []interface{}{pl}, reflect.TypeOf(""))
			var out string
			switch {
			case err != nil && strings.Contains(err.Error(), pl):
				// the error / panic of its own call: "E:<payload>" or a panic text holding "B:<payload>"
				out = "ownerr:" + method
			case err != nil && callerInText(err.Error()) >= 0:
				out = fmt.Sprintf("othererr:%d", callerInText(err.Error()))
			case err != nil:
				out = classify(nil, err, nil)
			case len(res) == 1:
				s, _ := res[0].(string)
				out = classify([]byte(s), nil, []byte(pl))
			default:
				out = fmt.Sprintf("resp:%v", res)
			}
			rs.mu.Lock()
			rs.results[k] = out
			rs.mu.Unlock()
			e2 := ev("call-ret")
			e2.K, e2.S = k, out
			rs.add(e2)
		}()
	}

	for si, st := range c.Steps {
		if len(st) == 0 {
			continue
		}
		arg := func(i int) interface{} {
			if i < len(st) {
				return st[i]
			}
			return 0.0
		}
		switch str(st[0]) {
		case "invoke": // ["invoke", k, provider id, timeout_ms, delay_ms, method: echo | fail | boom]
			invoke(num(arg(1)), str(arg(2)), num(arg(3)), num(arg(4)), str(arg(5)))
		case "listen": // ["listen", provider id]: a late real provider starts polling: it fetches everything queued as one batch
			if p := lateProviders[str(arg(1))]; p != nil {
				go p.Listen()
			}
		case "invoke_burst": // ["invoke_burst", first k, n, provider id]: n callers make their calls to that provider at the same instant
			burstGate = make(chan struct{})
			for j := 0; j < num(arg(2)); j++ {
				invoke(num(arg(1))+j, str(arg(3)), 0, 0, "echo")
			}
			time.Sleep(2 * time.Millisecond)
			close(burstGate)
			burstGate = nil
		case "hold_appended": // every caller stops right after its call is queued for the provider (hook)
			revHoldAppended()
		case "release_appended":
			revReleaseAppended()
		case "sleep":
			time.Sleep(time.Duration(num(arg(1))) * time.Millisecond)
		case "fetch": // ["fetch", provider id]: scripted provider calls begin
			id := str(arg(1))
			px := proxies[id]
			if px == nil {
				break
			}
			calls, err := px.Begin()
			if err != nil {
				e := ev("prov-error")
				e.C, e.S = provIndex[id], err.Error()
				rs.add(e)
				break
			}
			mu.Lock()
			for _, cl := range calls {
				if len(cl) != 3 {
					continue
				}
				idx := num(cl[0])
				body := ""
				if args, ok := cl[2].([]interface{}); ok && len(args) == 1 {
					body, _ = args[0].(string)
				}
				k := callerOf([]byte(body))
				pendingCalls[id][k] = revCall{index: idx, body: body}
				o.Rev.Fetched[id]++
				e := ev("prov-recv")
				e.K, e.C, e.I = k, provIndex[id], idx
				rs.add(e)
			}
			mu.Unlock()
		case "end": // ["end", provider id, [["k", k] | ["dup", k] | ["stray", index] ...]]
			id := str(arg(1))
			px := proxies[id]
			items, _ := arg(2).([]interface{})
			if px == nil {
				break
			}
			var results [][]interface{}
			mu.Lock()
			for _, it := range items {
				pair, _ := it.([]interface{})
				if len(pair) != 2 {
					continue
				}
				switch str(pair[0]) {
				case "k", "dup":
					cl, ok := pendingCalls[id][num(pair[1])]
					if !ok {
						e := ev("script-error")
						e.S = fmt.Sprintf("step %d: provider %s has not fetched the call of caller %d", si, id, num(pair[1]))
						rs.add(e)
						continue
					}
					n := 1
					if str(pair[0]) == "dup" {
						n = 2
					}
					for j := 0; j < n; j++ {
						e := ev("prov-send")
						e.K, e.C, e.I = num(pair[1]), provIndex[id], cl.index
						rs.add(e)
						results = append(results, []interface{}{cl.index, "R:" + cl.body, ""})
					}
				case "stray":
					e := ev("prov-stray")
					e.C, e.I = provIndex[id], num(pair[1])
					rs.add(e)
					results = append(results, []interface{}{num(pair[1]), "STRAY", ""})
				}
			}
			mu.Unlock()
			if err := px.End(results); err != nil {
				e := ev("prov-error")
				e.C, e.S = provIndex[id], err.Error()
				rs.add(e)
			}
		case "await_ret":
			rs.mu.Lock()
			d := rs.done[num(arg(1))]
			rs.mu.Unlock()
			e := ev("await-ret")
			e.K = num(arg(1))
			if d != nil {
				select {
				case <-d:
					e.X = 1
				case <-time.After(time.Duration(num(arg(2))) * time.Millisecond):
				}
			}
			rs.add(e)
		case "cancel":
			e := ev("user-cancel")
			e.K = num(arg(1))
			rs.add(e)
			rs.mu.Lock()
			cf := rs.cancel[num(arg(1))]
			rs.mu.Unlock()
			if cf != nil {
				cf()
			}
		}
	}
	rs.mu.Lock()
	o.Log = append([]Event{}, rs.log...)
	for k, v := range rs.results {
		o.Results[strconv.Itoa(k)] = v
	}
	for _, cf := range rs.cancel {
		cf()
	}
	rs.mu.Unlock()
	return o
}

// callerInText finds a payload "P<case>.<k>.<nonce>" inside a text (an error message, a printed argument list) and returns k
func callerInText(t string) int {
	i := strings.Index(t, "P")
	for i >= 0 {
		if k := callerOf([]byte(t[i:])); k >= 0 {
			return k
		}
		j := strings.Index(t[i+1:], "P")
		if j < 0 {
			break
		}
		i += 1 + j
	}
	return -1
}
