//go:build !c09c10hook
// +build !c09c10hook

package muxlib

import "github.com/hprose/hprose-golang/v3/rpc/core"

// HookAvailable: the executor was built without the transport hooks (the tree under test does not
// carry hooks/c09c10-transports.patch): only what is visible from outside is observed.
const HookAvailable = false

func installHooks(rs *runState) {}
func uninstallHooks()           {}

func hookProbe(rs *runState, client *core.Client, transport string, pr *Probe) {}

func hookStep(rs *runState, op string, st []interface{}, client *core.Client, transport string) {
	e := ev("script-error")
	e.S = "step " + op + " needs the transport hooks"
	rs.add(e)
}
