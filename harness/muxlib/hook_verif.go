//go:build c09c10hook
// +build c09c10hook

package muxlib

// Compiled only with -tags "verif c09c10hook", which checks/C09.py and checks/C10.py pass when the tree
// under test contains the hooks of hooks/c09c10-transports.patch (rpc/{socket,websocket,udp}/verif_on.go).

import (
	"fmt"
	"strconv"
	"strings"
	"sync"
	"time"

	"github.com/hprose/hprose-golang/v3/rpc"
	"github.com/hprose/hprose-golang/v3/rpc/core"
	"github.com/hprose/hprose-golang/v3/rpc/socket"
	"github.com/hprose/hprose-golang/v3/rpc/udp"
	"github.com/hprose/hprose-golang/v3/rpc/websocket"
)

const HookAvailable = true

// arrival bookkeeping: key -> channel closed when somebody has arrived at that yield point since the last "hold"
type arrival struct {
	ch     chan struct{}
	closed bool
}

var arrivals = map[string]*arrival{}
var arrMu sync.Mutex

func arrChan(key string, reset bool) chan struct{} {
	arrMu.Lock()
	defer arrMu.Unlock()
	a := arrivals[key]
	if a == nil || reset {
		a = &arrival{ch: make(chan struct{})}
		arrivals[key] = a
	}
	return a.ch
}

func arrMark(key string) {
	arrMu.Lock()
	defer arrMu.Unlock()
	a := arrivals[key]
	if a == nil {
		a = &arrival{ch: make(chan struct{})}
		arrivals[key] = a
	}
	if !a.closed {
		a.closed = true
		close(a.ch)
	}
}

// connections seen in earlier cases of this process: goroutines they left behind (a Send parked after
// Abort, a Receive that notices the closed socket late) may still reach a yield point; their events do
// not belong to the current case
var staleMu sync.Mutex
var ownerOf = map[interface{}]*runState{}

// the package of a connection handle: "socket", "udp" or "websocket"
func pkgOf(conn interface{}) string {
	t := fmt.Sprintf("%T", conn)
	t = strings.TrimPrefix(t, "*")
	if i := strings.IndexByte(t, '.'); i >= 0 {
		return t[:i]
	}
	return t
}

func foreign(rs *runState, conn interface{}) bool {
	if rs.pkg != "" && pkgOf(conn) != rs.pkg {
		return true // a goroutine left behind by an earlier case on another transport
	}
	staleMu.Lock()
	defer staleMu.Unlock()
	o, ok := ownerOf[conn]
	if !ok {
		ownerOf[conn] = rs
		return false
	}
	return o != rs
}

func (rs *runState) connID(h interface{}) int {
	rs.mu.Lock()
	defer rs.mu.Unlock()
	if id, ok := rs.connIDs[h]; ok {
		return id
	}
	id := len(rs.connOf)
	rs.connIDs[h] = id
	rs.connOf = append(rs.connOf, h)
	return id
}

func installHooks(rs *runState) {
	arrMu.Lock()
	arrivals = map[string]*arrival{}
	arrMu.Unlock()
	yield := func(point string, conn interface{}, index int) {
		if foreign(rs, conn) {
			return
		}
		role := roleOfStack()
		k := -1
		if role == "call" {
			rs.mu.Lock()
			if kk, ok := rs.goids[goid()]; ok {
				k = kk
			}
			rs.mu.Unlock()
		}
		cid := rs.connID(conn)
		e := ev("y:" + point)
		e.K, e.C, e.I, e.Role = k, cid, index, role
		rs.add(e)
		who := role
		if role == "call" {
			who = "k" + strconv.Itoa(k)
		}
		key := who + "|" + point
		keyc := who + "@" + strconv.Itoa(cid) + "|" + point // the same, for the goroutine of one connection only
		arrMark(key)
		arrMark(keyc)
		rs.mu.Lock()
		hold := rs.holds[key]
		if hold == nil {
			hold = rs.holds[keyc]
		}
		rs.mu.Unlock()
		if hold != nil {
			h := ev("held")
			h.K, h.C, h.I, h.Role, h.S = k, cid, index, role, point
			rs.add(h)
			<-hold
			r := ev("resumed")
			r.K, r.C, r.I, r.Role, r.S = k, cid, index, role, point
			rs.add(r)
		}
	}
	event := func(kind string, conn interface{}, index int, present bool, pending int) {
		if foreign(rs, conn) {
			return
		}
		role := roleOfStack()
		k := -1
		if role == "call" {
			rs.mu.Lock()
			if kk, ok := rs.goids[goid()]; ok {
				k = kk
			}
			rs.mu.Unlock()
		}
		e := ev("t:" + kind)
		e.K, e.C, e.I, e.N, e.Role = k, rs.connID(conn), index, pending, role
		if present {
			e.X = 1
		}
		rs.add(e)
	}
	socket.VerifYieldHook, socket.VerifEventHook = yield, event
	udp.VerifYieldHook, udp.VerifEventHook = yield, event
	websocket.VerifYieldHook, websocket.VerifEventHook = yield, event
}

func uninstallHooks() {
	socket.VerifYieldHook, socket.VerifEventHook = nil, nil
	udp.VerifYieldHook, udp.VerifEventHook = nil, nil
	websocket.VerifYieldHook, websocket.VerifEventHook = nil, nil
}

func pendingOf(transport string, h interface{}) int {
	switch transport {
	case "udp":
		return udp.VerifPendingOf(h)
	case "ws":
		return websocket.VerifPendingOf(h)
	default:
		return socket.VerifPendingOf(h)
	}
}

func hookProbe(rs *runState, client *core.Client, transport string, pr *Probe) {
	rs.mu.Lock()
	handles := append([]interface{}{}, rs.connOf...)
	rs.mu.Unlock()
	pr.Pending = map[string]int{}
	for id, h := range handles {
		pr.Pending[strconv.Itoa(id)] = pendingOf(transport, h)
	}
	switch transport {
	case "udp":
		pr.Pooled = rpc.UDPTransport(client).VerifConnCount()
	case "ws":
		pr.Pooled = rpc.WebSocketTransport(client).VerifConnCount()
	default:
		pr.Pooled = rpc.SocketTransport(client).VerifConnCount()
	}
}

func hookStep(rs *runState, op string, st []interface{}, client *core.Client, transport string) {
	arg := func(i int) interface{} {
		if i < len(st) {
			return st[i]
		}
		return 0.0
	}
	switch op {
	case "hold": // ["hold", who, point]
		key := str(arg(1)) + "|" + str(arg(2))
		rs.mu.Lock()
		rs.holds[key] = make(chan struct{})
		rs.mu.Unlock()
		arrChan(key, true)
	case "release": // ["release", who, point]
		key := str(arg(1)) + "|" + str(arg(2))
		rs.mu.Lock()
		ch := rs.holds[key]
		delete(rs.holds, key)
		rs.mu.Unlock()
		if ch != nil {
			close(ch)
		}
	case "await_yield": // ["await_yield", who, point, ms]
		key := str(arg(1)) + "|" + str(arg(2))
		ch := arrChan(key, false)
		e := ev("await-yield")
		e.S = key
		select {
		case <-ch:
			e.X = 1
		case <-time.After(time.Duration(num(arg(3))) * time.Millisecond):
		}
		rs.add(e)
	case "setctr", "addctr": // on the connection seen last
		rs.mu.Lock()
		n := len(rs.connOf)
		var h interface{}
		if n > 0 {
			h = rs.connOf[n-1]
		}
		rs.mu.Unlock()
		if h == nil {
			e := ev("script-error")
			e.S = "setctr: no connection yet"
			rs.add(e)
			return
		}
		var curv int32
		switch transport {
		case "udp":
			curv = udp.VerifCounterOf(h)
		case "ws":
			curv = websocket.VerifCounterOf(h)
		default:
			curv = socket.VerifCounterOf(h)
		}
		v := int32(num(arg(1)))
		if op == "addctr" {
			v = int32(uint32(curv) + uint32(int64(num(arg(1)))))
		}
		e := ev("setctr")
		e.C, e.X, e.N = n-1, int(curv), int(v)
		rs.add(e)
		switch transport {
		case "udp":
			udp.VerifSetCounter(h, v)
		case "ws":
			websocket.VerifSetCounter(h, v)
		default:
			socket.VerifSetCounter(h, v)
		}
	}
}
