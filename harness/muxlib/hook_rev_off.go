//go:build !c09revhook
// +build !c09revhook

package muxlib

// the tree under test has no yield point in rpc/plugins/reverse: the forced schedule is not available
func revHoldAppended()    {}
func revReleaseAppended() {}
