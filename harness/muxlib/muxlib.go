// Package muxlib: scenario executor shared by the C09 and C10 executors (harness/cmd/c09, harness/cmd/c10).
//
// A case is a script of controller steps run against ONE real hprose client (rpc.NewClient) talking
// either to a scripted raw-socket peer that speaks the frame protocol of the transport (tcp, unix,
// websocket, udp) or to a real rpc.Service on loopback.  Every request carries a unique payload that
// names its caller, so a response delivered to the wrong caller is visible.  Everything that happens
// is appended to one totally ordered event log (one mutex); the executor only observes -- comparing
// with the model and evaluating the property is the check's job.
//
// With the build tag c09c10hook (and a tree that carries hooks/c09c10-transports.patch) the yield
// points and table events of the transports are logged too, callers and goroutines can be held at
// yield points, the pending tables can be counted and the request counter preset (hook_verif.go).
package muxlib

import (
	"bytes"
	"context"
	"encoding/binary"
	"encoding/json"
	"errors"
	"fmt"
	"hash/crc32"
	"io"
	"io/ioutil"
	"net"
	"net/http"
	"os"
	"path/filepath"
	"runtime"
	"strconv"
	"strings"
	"sync"
	"time"

	"sync/atomic"

	"github.com/fasthttp/websocket"
	"github.com/hprose/hprose-golang/v3/rpc"
	"github.com/hprose/hprose-golang/v3/rpc/core"
	rpchttp "github.com/hprose/hprose-golang/v3/rpc/http"
	rpcfasthttp "github.com/hprose/hprose-golang/v3/rpc/http/fasthttp"
	"github.com/hprose/hprose-golang/v3/rpc/mock"
	"github.com/valyala/fasthttp"
)

// ---------------------------------------------------------------------------------- case / observation

type Case struct {
	ID        int             `json:"id"`
	Kind      string          `json:"kind"`      // "mux" (default) | "reverse"
	Transport string          `json:"transport"` // tcp unix ws udp
	Peer      string          `json:"peer"`      // script | service
	Steps     [][]interface{} `json:"steps"`
	Hook      bool            `json:"hook"` // the case needs the hooks
	Pool      bool            `json:"pool"` // real service: Handler.Pool is a small worker pool (2 workers, queue of 8)
	// LateReadErrMs > 0 (tcp, unix): the client's connections report READ errors that many milliseconds late
	// (an environment in which the reader notices a closed connection only after a while)
	LateReadErrMs int `json:"late_read_err_ms,omitempty"`
	// reverse
	Rev *RevCase `json:"rev,omitempty"`
}

type Event struct {
	Seq  int    `json:"q"`
	E    string `json:"e"`           // kind
	K    int    `json:"k"`           // caller (-1 none)
	C    int    `json:"c"`           // connection id (-1 none): client-side handle in hook events, peer-side accept number in peer events
	I    int    `json:"i"`           // index (-1 none)
	X    int    `json:"x,omitempty"` // aux: present flag, byte counts, ...
	N    int    `json:"n,omitempty"` // aux: pending count
	Role string `json:"r,omitempty"` // send | recv | abort | call
	S    string `json:"s,omitempty"` // text: outcome, payload
}

type Probe struct {
	Name     string            `json:"name"`
	Pending  map[string]int    `json:"pending,omitempty"` // hook: client conn id -> pending entries
	Pooled   int               `json:"pooled"`            // hook: pooled connections (-1 unknown)
	SendG    int               `json:"send_g"`            // goroutines inside (*conn).Send of the transport package, minus baseline
	RecvG    int               `json:"recv_g"`
	CallG    int               `json:"call_g"`           // goroutines inside (*conn).Transport
	Opened   int               `json:"opened"`           // connections of the client's multiplexed transports: OnConnect calls ...
	Closed   int               `json:"closed"`           // ... and OnClose calls so far
	Parked   map[string]string `json:"parked,omitempty"` // caller -> goroutine state if it sits in (*conn).Transport
	Returned []int             `json:"returned"`
}

type Obs struct {
	ID       int               `json:"id"`
	Env      string            `json:"env,omitempty"` // environment trouble: the case says nothing
	HookUsed bool              `json:"hook_used"`
	Log      []Event           `json:"log"`
	Results  map[string]string `json:"results"` // caller -> outcome text
	Probes   []Probe           `json:"probes"`
	Note     string            `json:"note,omitempty"`
	Rev      *RevObs           `json:"rev,omitempty"`
}

// ---------------------------------------------------------------------------------- the log

type runState struct {
	mu      sync.Mutex
	log     []Event
	results map[int]string
	done    map[int]chan struct{}
	cancel  map[int]context.CancelFunc
	goids   map[int64]int // goroutine id -> caller
	connIDs map[interface{}]int
	connOf  []interface{}
	pkg     string // transport package of the case: hook events of other packages' connections are not its own
	// hook control
	holds   map[string]chan struct{} // who|point -> release channel
	arrived map[string]chan struct{} // who|point -> closed on arrival
}

var cur *runState

func (rs *runState) add(ev Event) {
	rs.mu.Lock()
	ev.Seq = len(rs.log)
	rs.log = append(rs.log, ev)
	rs.mu.Unlock()
}

func ev(kind string) Event { return Event{E: kind, K: -1, C: -1, I: -1} }

func goid() int64 {
	var buf [64]byte
	n := runtime.Stack(buf[:], false)
	f := bytes.Fields(buf[:n])
	if len(f) < 2 {
		return -1
	}
	id, err := strconv.ParseInt(string(f[1]), 10, 64)
	if err != nil {
		return -1
	}
	return id
}

// ---------------------------------------------------------------------------------- frames

func streamFrame(length int, index uint32, body []byte) []byte {
	var h [12]byte
	binary.BigEndian.PutUint32(h[4:8], uint32(length)|0x80000000)
	binary.BigEndian.PutUint32(h[8:12], index)
	binary.BigEndian.PutUint32(h[0:4], crc32.ChecksumIEEE(h[4:12]))
	return append(h[:], body...)
}

func udpFrame(length int, index uint16, body []byte) []byte {
	var h [8]byte
	binary.BigEndian.PutUint16(h[4:6], uint16(length))
	binary.BigEndian.PutUint16(h[6:8], index)
	binary.BigEndian.PutUint32(h[0:4], crc32.ChecksumIEEE(h[4:8]))
	return append(h[:], body...)
}

func wsFrame(index uint32, body []byte) []byte {
	var h [4]byte
	binary.BigEndian.PutUint32(h[0:4], index)
	return append(h[:], body...)
}

// payload of caller k in case id: "P<id>.<k>.<nonce>|d=<ms>"
func payload(id, k, delay int) []byte {
	return []byte(fmt.Sprintf("P%d.%d.%x|d=%d", id, k, time.Now().UnixNano()&0xffffff, delay))
}

func callerOf(p []byte) int {
	s := string(p)
	if !strings.HasPrefix(s, "P") {
		return -1
	}
	parts := strings.SplitN(s[1:], ".", 3)
	if len(parts) < 3 {
		return -1
	}
	k, err := strconv.Atoi(parts[1])
	if err != nil {
		return -1
	}
	return k
}

func delayOf(p []byte) int {
	s := string(p)
	if i := strings.LastIndex(s, "|d="); i >= 0 {
		d, _ := strconv.Atoi(s[i+3:])
		return d
	}
	return 0
}

// ---------------------------------------------------------------------------------- scripted peer

type request struct {
	conn  int
	index uint32
	body  []byte
	addr  *net.UDPAddr
}

type peerConn struct {
	id int
	c  net.Conn        // tcp / unix
	w  *websocket.Conn // ws
	wm sync.Mutex
}

type peer struct {
	kind    string
	rs      *runState
	ln      net.Listener
	udp     *net.UDPConn
	server  *http.Server
	url     string
	mu      sync.Mutex
	conns   []*peerConn
	reqs    map[int]request // caller -> latest request
	nreq    int
	auto    bool
	lastUDP *net.UDPAddr
	udpIDs  map[string]int
	closed  bool
	tmp     string
}

func (p *peer) record(pc int, index uint32, body []byte, addr *net.UDPAddr) {
	k := callerOf(body)
	p.mu.Lock()
	p.reqs[k] = request{conn: pc, index: index, body: append([]byte{}, body...), addr: addr}
	p.nreq++
	auto := p.auto
	p.mu.Unlock()
	e := ev("peer-recv")
	e.K, e.C, e.I = k, pc, int(index)
	p.rs.add(e)
	if auto {
		p.sendReply(pc, index, append([]byte("R:"), body...), addr, k, "peer-send")
	}
}

func (p *peer) sendRaw(pc int, raw []byte, addr *net.UDPAddr) error {
	switch p.kind {
	case "udp":
		if addr == nil {
			p.mu.Lock()
			addr = p.lastUDP
			p.mu.Unlock()
		}
		if addr == nil {
			return errors.New("no udp client address known")
		}
		_, err := p.udp.WriteToUDP(raw, addr)
		return err
	case "ws":
		p.mu.Lock()
		if pc < 0 || pc >= len(p.conns) {
			p.mu.Unlock()
			return errors.New("no such peer connection")
		}
		c := p.conns[pc]
		p.mu.Unlock()
		c.wm.Lock()
		defer c.wm.Unlock()
		return c.w.WriteMessage(websocket.BinaryMessage, raw)
	default:
		p.mu.Lock()
		if pc < 0 || pc >= len(p.conns) {
			p.mu.Unlock()
			return errors.New("no such peer connection")
		}
		c := p.conns[pc]
		p.mu.Unlock()
		c.wm.Lock()
		defer c.wm.Unlock()
		_, err := c.c.Write(raw)
		return err
	}
}

func (p *peer) frame(index uint32, body []byte) []byte {
	switch p.kind {
	case "udp":
		return udpFrame(len(body), uint16(index), body)
	case "ws":
		return wsFrame(index, body)
	default:
		return streamFrame(len(body), index, body)
	}
}

// the event is logged BEFORE the bytes leave, so that it precedes everything the client does with them
func (p *peer) sendReply(pc int, index uint32, body []byte, addr *net.UDPAddr, prov int, kind string) {
	e := ev(kind)
	e.K, e.C, e.I = prov, pc, int(index)
	p.rs.add(e)
	if err := p.sendRaw(pc, p.frame(index, body), addr); err != nil {
		e2 := ev("peer-send-error")
		e2.C, e2.S = pc, err.Error()
		p.rs.add(e2)
	}
}

func (p *peer) serveStream(pc *peerConn) {
	for {
		var h [12]byte
		if _, err := io.ReadFull(pc.c, h[:]); err != nil {
			e := ev("peer-eof")
			e.C = pc.id
			p.rs.add(e)
			return
		}
		length := int(binary.BigEndian.Uint32(h[4:8]) & 0x7fffffff)
		index := binary.BigEndian.Uint32(h[8:12])
		if crc32.ChecksumIEEE(h[4:12]) != binary.BigEndian.Uint32(h[0:4]) || length > 1<<24 {
			e := ev("peer-bad-frame")
			e.C = pc.id
			p.rs.add(e)
			return
		}
		body := make([]byte, length)
		if _, err := io.ReadFull(pc.c, body); err != nil {
			return
		}
		p.record(pc.id, index, body, nil)
	}
}

func (p *peer) acceptLoop() {
	for {
		c, err := p.ln.Accept()
		if err != nil {
			return
		}
		p.mu.Lock()
		pc := &peerConn{id: len(p.conns), c: c}
		p.conns = append(p.conns, pc)
		p.mu.Unlock()
		e := ev("peer-accept")
		e.C = pc.id
		p.rs.add(e)
		go p.serveStream(pc)
	}
}

func (p *peer) udpLoop() {
	buf := make([]byte, 70000)
	for {
		n, addr, err := p.udp.ReadFromUDP(buf)
		if err != nil {
			return
		}
		if n < 8 {
			continue
		}
		length := int(binary.BigEndian.Uint16(buf[4:6]))
		index := uint32(binary.BigEndian.Uint16(buf[6:8]))
		if crc32.ChecksumIEEE(buf[4:8]) != binary.BigEndian.Uint32(buf[0:4]) || 8+length > n {
			continue
		}
		// a "connection" of the udp client is its source address
		key := addr.String()
		p.mu.Lock()
		p.lastUDP = addr
		id, seen := p.udpIDs[key]
		if !seen {
			id = len(p.udpIDs)
			p.udpIDs[key] = id
			p.conns = append(p.conns, &peerConn{id: id})
		}
		p.mu.Unlock()
		if !seen {
			e := ev("peer-accept")
			e.C = id
			p.rs.add(e)
		}
		p.record(id, index, buf[8:8+length], addr)
	}
}

func newPeer(kind string, rs *runState, id int) (*peer, error) {
	p := &peer{kind: kind, rs: rs, reqs: map[int]request{}, udpIDs: map[string]int{}}
	switch kind {
	case "tcp":
		ln, err := net.Listen("tcp", "127.0.0.1:0")
		if err != nil {
			return nil, err
		}
		p.ln = ln
		p.url = "tcp://" + ln.Addr().String() + "/"
		go p.acceptLoop()
	case "unix":
		d, err := ioutil.TempDir("", "hv-mux-")
		if err != nil {
			return nil, err
		}
		p.tmp = d
		path := filepath.Join(d, "p.sock")
		ln, err := net.Listen("unix", path)
		if err != nil {
			return nil, err
		}
		p.ln = ln
		p.url = "unix://" + path
		go p.acceptLoop()
	case "udp":
		a, _ := net.ResolveUDPAddr("udp", "127.0.0.1:0")
		c, err := net.ListenUDP("udp", a)
		if err != nil {
			return nil, err
		}
		_ = c.SetReadBuffer(8 << 20)
		p.udp = c
		p.url = "udp://" + c.LocalAddr().String() + "/"
		go p.udpLoop()
	case "ws":
		ln, err := net.Listen("tcp", "127.0.0.1:0")
		if err != nil {
			return nil, err
		}
		p.ln = ln
		up := websocket.Upgrader{Subprotocols: []string{"hprose"}}
		p.server = &http.Server{Handler: http.HandlerFunc(func(w http.ResponseWriter, r *http.Request) {
			c, err := up.Upgrade(w, r, nil)
			if err != nil {
				return
			}
			p.mu.Lock()
			pc := &peerConn{id: len(p.conns), w: c}
			p.conns = append(p.conns, pc)
			p.mu.Unlock()
			e := ev("peer-accept")
			e.C = pc.id
			p.rs.add(e)
			for {
				mt, data, err := c.ReadMessage()
				if err != nil {
					e := ev("peer-eof")
					e.C = pc.id
					p.rs.add(e)
					return
				}
				if mt != websocket.BinaryMessage || len(data) < 4 {
					continue
				}
				p.record(pc.id, binary.BigEndian.Uint32(data[0:4]), data[4:], nil)
			}
		})}
		go p.server.Serve(ln)
		p.url = "ws://" + ln.Addr().String() + "/"
	default:
		return nil, fmt.Errorf("unknown transport %q", kind)
	}
	return p, nil
}

func (p *peer) lastConn() int {
	p.mu.Lock()
	defer p.mu.Unlock()
	return len(p.conns) - 1
}

// closeConn: how = "close" | "rst"
func (p *peer) closeConn(pc int, how string) {
	e := ev("peer-close")
	e.C, e.S = pc, how
	p.rs.add(e)
	if p.kind == "udp" {
		return
	}
	p.mu.Lock()
	if pc < 0 || pc >= len(p.conns) {
		p.mu.Unlock()
		return
	}
	c := p.conns[pc]
	p.mu.Unlock()
	if c.w != nil {
		c.w.UnderlyingConn().Close()
		return
	}
	if how == "rst" {
		if t, ok := c.c.(*net.TCPConn); ok {
			t.SetLinger(0)
		}
	}
	c.c.Close()
}

func (p *peer) shutdown() {
	p.mu.Lock()
	p.closed = true
	conns := append([]*peerConn{}, p.conns...)
	p.mu.Unlock()
	if p.ln != nil {
		p.ln.Close()
	}
	if p.server != nil {
		p.server.Close()
	}
	if p.udp != nil {
		p.udp.Close()
	}
	for _, c := range conns {
		if c.c != nil {
			c.c.Close()
		}
		if c.w != nil {
			c.w.UnderlyingConn().Close()
		}
	}
	if p.tmp != "" {
		os.RemoveAll(p.tmp)
	}
}

// ---------------------------------------------------------------------------------- real service

type service struct {
	rs   *runState
	url  string
	stop func()
}

// smallPool: a core.WorkerPool with two workers and a queue of eight; every task takes a moment, so that with
// tens of requests in flight tasks do wait in the queue
type smallPool struct{ q chan func() }

func newSmallPool() *smallPool {
	p := &smallPool{q: make(chan func(), 8)}
	for i := 0; i < 2; i++ {
		go func() {
			for f := range p.q {
				time.Sleep(300 * time.Microsecond)
				f()
			}
		}()
	}
	return p
}

func (p *smallPool) Submit(f func()) { p.q <- f }

func newService(kind string, rs *runState, pool bool) (*service, error) {
	s := &service{rs: rs}
	svc := rpc.NewService()
	if pool {
		switch kind {
		case "tcp", "unix":
			rpc.SocketHandler(svc).Pool = newSmallPool()
		case "udp":
			rpc.UDPHandler(svc).Pool = newSmallPool()
		case "ws":
			rpc.WebSocketHandler(svc).Pool = newSmallPool()
		}
	}
	svc.Use(core.IOHandler(func(ctx context.Context, req []byte, next core.NextIOHandler) ([]byte, error) {
		k := callerOf(req)
		e := ev("svc-recv")
		e.K = k
		rs.add(e)
		if d := delayOf(req); d > 0 {
			time.Sleep(time.Duration(d) * time.Millisecond)
		}
		e2 := ev("svc-send")
		e2.K = k
		rs.add(e2)
		return append([]byte("R:"), req...), nil
	}))
	switch kind {
	case "tcp":
		ln, err := net.Listen("tcp", "127.0.0.1:0")
		if err != nil {
			return nil, err
		}
		if err := svc.Bind(ln); err != nil {
			return nil, err
		}
		s.url = "tcp://" + ln.Addr().String() + "/"
		s.stop = func() { ln.Close() }
	case "unix":
		d, err := ioutil.TempDir("", "hv-mux-")
		if err != nil {
			return nil, err
		}
		path := filepath.Join(d, "s.sock")
		ln, err := net.Listen("unix", path)
		if err != nil {
			return nil, err
		}
		if err := svc.Bind(ln); err != nil {
			return nil, err
		}
		s.url = "unix://" + path
		s.stop = func() { ln.Close(); os.RemoveAll(d) }
	case "udp":
		a, _ := net.ResolveUDPAddr("udp", "127.0.0.1:0")
		c, err := net.ListenUDP("udp", a)
		if err != nil {
			return nil, err
		}
		_ = c.SetReadBuffer(8 << 20)
		if err := svc.Bind(c); err != nil {
			return nil, err
		}
		s.url = "udp://" + c.LocalAddr().String() + "/"
		s.stop = func() { c.Close() }
	case "ws":
		ln, err := net.Listen("tcp", "127.0.0.1:0")
		if err != nil {
			return nil, err
		}
		server := &http.Server{}
		if err := svc.Bind(server); err != nil {
			return nil, err
		}
		go server.Serve(ln)
		s.url = "ws://" + ln.Addr().String() + "/"
		s.stop = func() { server.Close() }
	case "http":
		ln, err := net.Listen("tcp", "127.0.0.1:0")
		if err != nil {
			return nil, err
		}
		server := &http.Server{}
		if err := svc.Bind(server); err != nil {
			return nil, err
		}
		go server.Serve(ln)
		rpchttp.RegisterTransport() // scheme http -> net/http client
		s.url = "http://" + ln.Addr().String() + "/"
		s.stop = func() { server.Close() }
	case "fasthttp":
		ln, err := net.Listen("tcp", "127.0.0.1:0")
		if err != nil {
			return nil, err
		}
		server := &fasthttp.Server{}
		if err := svc.Bind(server); err != nil {
			return nil, err
		}
		go server.Serve(ln)
		rpcfasthttp.RegisterTransport() // scheme http -> fasthttp client
		s.url = "http://" + ln.Addr().String() + "/"
		s.stop = func() { ln.Close(); rpchttp.RegisterTransport() }
	case "mock":
		addr := fmt.Sprintf("hv-mux-%d", time.Now().UnixNano())
		server := mock.Server{Address: addr}
		if err := svc.Bind(server); err != nil {
			return nil, err
		}
		s.url = "mock://" + addr
		s.stop = func() { server.Close() }
	default:
		return nil, fmt.Errorf("unknown transport %q", kind)
	}
	time.Sleep(10 * time.Millisecond)
	return s, nil
}

// ---------------------------------------------------------------------------------- goroutine census

type census struct {
	kind      map[int64]string // goroutine id -> "send" | "recv" | "call"
	callState map[int64]string
}

// goroutines that sit inside (*conn).Send / Receive / Transport of one of the three transport packages
func takeCensus() census {
	buf := make([]byte, 4<<20)
	n := runtime.Stack(buf, true)
	c := census{kind: map[int64]string{}, callState: map[int64]string{}}
	for _, blk := range strings.Split(string(buf[:n]), "\n\n") {
		if !strings.HasPrefix(blk, "goroutine ") {
			continue
		}
		head := blk
		if i := strings.IndexByte(blk, '\n'); i >= 0 {
			head = blk[:i]
		}
		inTransportPkg := strings.Contains(blk, "/rpc/socket.(*conn).") || strings.Contains(blk, "/rpc/udp.(*conn).") ||
			strings.Contains(blk, "/rpc/websocket.(*conn).")
		if !inTransportPkg {
			continue
		}
		f := strings.Fields(head)
		if len(f) < 3 {
			continue
		}
		id, _ := strconv.ParseInt(f[1], 10, 64)
		switch {
		case strings.Contains(blk, ".(*conn).Send("):
			c.kind[id] = "send"
		case strings.Contains(blk, ".(*conn).Receive("):
			c.kind[id] = "recv"
		case strings.Contains(blk, ".(*conn).Transport("):
			c.kind[id] = "call"
			c.callState[id] = strings.Trim(strings.Join(f[2:], " "), "[]:")
		}
	}
	return c
}

// count the goroutines of each kind that did not exist at the start of the case
func (c census) since(base census) (send, recv, call int) {
	for id, k := range c.kind {
		if _, old := base.kind[id]; old {
			continue
		}
		switch k {
		case "send":
			send++
		case "recv":
			recv++
		case "call":
			call++
		}
	}
	return
}

func roleOfStack() string {
	var buf [8192]byte
	n := runtime.Stack(buf[:], false)
	s := string(buf[:n])
	switch {
	case strings.Contains(s, ".(*conn).Send("):
		return "send"
	case strings.Contains(s, ".(*conn).Receive("):
		return "recv"
	case strings.Contains(s, ".(*Transport).Abort("):
		return "abort"
	case strings.Contains(s, ".(*conn).Transport("):
		return "call"
	}
	return "?"
}

// ---------------------------------------------------------------------------------- running a case

func isEnvErr(s string) bool {
	return strings.Contains(s, "too many open files") || strings.Contains(s, "cannot assign requested address") ||
		strings.Contains(s, "no buffer space") || strings.Contains(s, "address already in use")
}

func num(v interface{}) int {
	switch x := v.(type) {
	case float64:
		return int(x)
	case int:
		return x
	case string:
		n, _ := strconv.Atoi(x)
		return n
	}
	return 0
}

func str(v interface{}) string {
	if s, ok := v.(string); ok {
		return s
	}
	return fmt.Sprint(v)
}

func classify(resp []byte, err error, want []byte) string {
	if err == nil {
		if bytes.Equal(resp, append([]byte("R:"), want...)) {
			return "own"
		}
		if bytes.HasPrefix(resp, []byte("R:P")) {
			return fmt.Sprintf("other:%d", callerOf(resp[2:]))
		}
		return "resp:" + string(resp)
	}
	m := err.Error()
	switch {
	case errors.Is(err, context.DeadlineExceeded) || strings.Contains(m, "deadline exceeded") || core.IsTimeoutError(err):
		return "timeout:" + m
	case errors.Is(err, context.Canceled) || strings.Contains(m, "context canceled"):
		return "canceled:" + m
	default:
		return "error:" + m
	}
}

// Run executes one case.
func Run(c *Case) *Obs {
	if c.Kind == "reverse" {
		return runReverse(c)
	}
	o := &Obs{ID: c.ID, Results: map[string]string{}}
	if c.Hook && !HookAvailable {
		o.Note = "case needs the transport hooks; executor built without them"
		return o
	}
	rs := &runState{results: map[int]string{}, done: map[int]chan struct{}{}, cancel: map[int]context.CancelFunc{},
		goids: map[int64]int{}, connIDs: map[interface{}]int{}, holds: map[string]chan struct{}{}, arrived: map[string]chan struct{}{}}
	cur = rs
	rs.pkg = map[string]string{"tcp": "socket", "unix": "socket", "udp": "udp", "ws": "websocket"}[c.Transport]
	o.HookUsed = HookAvailable
	installHooks(rs)
	defer uninstallHooks()

	var p *peer
	var s *service
	var url string
	var err error
	for attempt := 0; attempt < 3; attempt++ {
		if c.Peer == "service" {
			s, err = newService(c.Transport, rs, c.Pool)
			if err == nil {
				url = s.url
			}
		} else {
			p, err = newPeer(c.Transport, rs, c.ID)
			if err == nil {
				url = p.url
			}
		}
		if err == nil {
			break
		}
		time.Sleep(50 * time.Millisecond)
	}
	if err != nil {
		o.Env = err.Error()
		return o
	}
	client := rpc.NewClient(url)
	client.Timeout = 10 * time.Second
	var opened, closed int32
	rpc.SocketTransport(client).OnConnect = func(nc net.Conn) net.Conn {
		atomic.AddInt32(&opened, 1)
		if c.LateReadErrMs > 0 {
			return &lateErrConn{Conn: nc, d: time.Duration(c.LateReadErrMs) * time.Millisecond}
		}
		return nc
	}
	rpc.SocketTransport(client).OnClose = func(net.Conn) { atomic.AddInt32(&closed, 1) }
	rpc.UDPTransport(client).OnConnect = func(c net.Conn) net.Conn { atomic.AddInt32(&opened, 1); return c }
	rpc.UDPTransport(client).OnClose = func(net.Conn) { atomic.AddInt32(&closed, 1) }
	rpc.WebSocketTransport(client).OnConnect = func(c *websocket.Conn) *websocket.Conn { atomic.AddInt32(&opened, 1); return c }
	rpc.WebSocketTransport(client).OnClose = func(*websocket.Conn) { atomic.AddInt32(&closed, 1) }
	base := takeCensus()
	defer func() {
		client.Abort()
		if p != nil {
			p.shutdown()
		}
		if s != nil {
			s.stop()
		}
	}()

	startCall := func(k int, timeoutMs int, delay int, pl []byte) {
		done := make(chan struct{})
		parent, cancel := context.WithCancel(context.Background())
		rs.mu.Lock()
		rs.done[k] = done
		rs.cancel[k] = cancel
		rs.mu.Unlock()
		if pl == nil {
			pl = payload(c.ID, k, delay)
		}
		go func() {
			defer close(done)
			rs.mu.Lock()
			rs.goids[goid()] = k
			rs.mu.Unlock()
			cc := core.NewClientContext()
			if timeoutMs > 0 {
				cc.Timeout = time.Duration(timeoutMs) * time.Millisecond
			} else if timeoutMs < 0 {
				cc.Timeout = -1
			}
			cc.Init(client)
			ctx := core.WithContext(parent, cc)
			e := ev("call-begin")
			e.K, e.X = k, timeoutMs
			rs.add(e)
			resp, err := client.Request(ctx, pl)
			out := classify(resp, err, pl)
			rs.mu.Lock()
			rs.results[k] = out
			rs.mu.Unlock()
			e2 := ev("call-ret")
			e2.K, e2.S = k, out
			rs.add(e2)
		}()
	}
	waitRet := func(k int, ms int) bool {
		rs.mu.Lock()
		d := rs.done[k]
		rs.mu.Unlock()
		if d == nil {
			return false
		}
		select {
		case <-d:
			return true
		case <-time.After(time.Duration(ms) * time.Millisecond):
			return false
		}
	}
	probe := func(name string) {
		cs := takeCensus()
		sg, rg, cg := cs.since(base)
		pr := Probe{Name: name, Pooled: -1, SendG: sg, RecvG: rg, CallG: cg, Parked: map[string]string{},
			Opened: int(atomic.LoadInt32(&opened)), Closed: int(atomic.LoadInt32(&closed))}
		rs.mu.Lock()
		for g, k := range rs.goids {
			if st, ok := cs.callState[g]; ok {
				pr.Parked[strconv.Itoa(k)] = st
			}
		}
		for k := range rs.results {
			pr.Returned = append(pr.Returned, k)
		}
		rs.mu.Unlock()
		hookProbe(rs, client, c.Transport, &pr)
		o.Probes = append(o.Probes, pr)
		e := ev("probe")
		e.S = name
		rs.add(e)
	}

	for si, st := range c.Steps {
		if len(st) == 0 {
			continue
		}
		op := str(st[0])
		arg := func(i int) interface{} {
			if i < len(st) {
				return st[i]
			}
			return 0.0
		}
		switch op {
		case "call": // ["call", k, timeout_ms (0 default, -1 none), service delay ms]
			startCall(num(arg(1)), num(arg(2)), num(arg(3)), nil)
		case "call_big": // ["call_big", k, size]: a request padded to size bytes (a request that does not fit the transport)
			pl := payload(c.ID, num(arg(1)), 0)
			if n := num(arg(2)); n > len(pl) {
				pl = append(pl, bytes.Repeat([]byte("."), n-len(pl))...)
			}
			startCall(num(arg(1)), 0, 0, pl)
		case "await_ret": // ["await_ret", k, ms]
			ok := waitRet(num(arg(1)), num(arg(2)))
			e := ev("await-ret")
			e.K = num(arg(1))
			if ok {
				e.X = 1
			}
			rs.add(e)
		case "await_recv": // ["await_recv", n, ms]: until the peer has seen n requests in total
			deadline := time.Now().Add(time.Duration(num(arg(2))) * time.Millisecond)
			for p != nil {
				p.mu.Lock()
				n := p.nreq
				p.mu.Unlock()
				if n >= num(arg(1)) || time.Now().After(deadline) {
					break
				}
				time.Sleep(200 * time.Microsecond)
			}
		case "await_req": // ["await_req", k, ms]: until the peer has seen a request of caller k
			deadline := time.Now().Add(time.Duration(num(arg(2))) * time.Millisecond)
			for p != nil {
				p.mu.Lock()
				_, ok := p.reqs[num(arg(1))]
				p.mu.Unlock()
				if ok || time.Now().After(deadline) {
					break
				}
				time.Sleep(200 * time.Microsecond)
			}
		case "await_svc": // ["await_svc", n, ms]: until the real service has received n requests
			deadline := time.Now().Add(time.Duration(num(arg(2))) * time.Millisecond)
			for {
				rs.mu.Lock()
				n := 0
				for _, e := range rs.log {
					if e.E == "svc-recv" {
						n++
					}
				}
				rs.mu.Unlock()
				if n >= num(arg(1)) || time.Now().After(deadline) {
					break
				}
				time.Sleep(500 * time.Microsecond)
			}
		case "auto":
			if p != nil {
				p.mu.Lock()
				p.auto = num(arg(1)) != 0
				p.mu.Unlock()
			}
		case "reply", "reply_dup": // ["reply", k]
			if p != nil {
				p.mu.Lock()
				r, ok := p.reqs[num(arg(1))]
				p.mu.Unlock()
				if !ok {
					e := ev("script-error")
					e.S = fmt.Sprintf("step %d: no request of caller %d seen", si, num(arg(1)))
					rs.add(e)
					break
				}
				p.sendReply(r.conn, r.index, append([]byte("R:"), r.body...), r.addr, num(arg(1)), "peer-send")
				if op == "reply_dup" {
					p.sendReply(r.conn, r.index, append([]byte("R:"), r.body...), r.addr, num(arg(1)), "peer-send")
				}
			}
		case "peer_text": // ["peer_text", k]: websocket only - a TEXT frame that starts with the index of caller k's pending request
			if p != nil && p.kind == "ws" {
				p.mu.Lock()
				r, ok := p.reqs[num(arg(1))]
				var c *peerConn
				if ok && r.conn >= 0 && r.conn < len(p.conns) {
					c = p.conns[r.conn]
				}
				p.mu.Unlock()
				if c != nil {
					raw := []byte{byte(r.index >> 24), byte(r.index >> 16), byte(r.index >> 8), byte(r.index)}
					raw = append(raw, []byte("TEXT:not-a-response")...)
					c.wm.Lock()
					_ = c.w.WriteMessage(websocket.TextMessage, raw)
					c.wm.Unlock()
				}
			}
		case "stray": // ["stray", index]
			if p != nil {
				p.sendReply(p.lastConn(), uint32(num(arg(1))), []byte("STRAY"), nil, -1, "peer-stray")
			}
		case "peer_close":
			if p != nil {
				p.closeConn(p.lastConn(), "close")
			}
		case "peer_rst":
			if p != nil {
				p.closeConn(p.lastConn(), "rst")
			}
		case "peer_raw": // ["peer_raw", hex, then "close"|"keep"]: bytes that are not a frame
			if p != nil {
				raw := unhex(str(arg(1)))
				e := ev("peer-garbage")
				e.C, e.X = p.lastConn(), len(raw)
				rs.add(e)
				p.sendRaw(p.lastConn(), raw, nil)
				if str(arg(2)) == "close" {
					p.closeConn(p.lastConn(), "close")
				}
			}
		case "peer_partial": // ["peer_partial", k, nbytes]: the first nbytes of the reply to k, then close
			if p != nil {
				p.mu.Lock()
				r, ok := p.reqs[num(arg(1))]
				p.mu.Unlock()
				if ok {
					raw := p.frame(r.index, append([]byte("R:"), r.body...))
					n := num(arg(2))
					if n > len(raw) {
						n = len(raw)
					}
					e := ev("peer-partial")
					e.K, e.C, e.I, e.X = num(arg(1)), r.conn, int(r.index), n
					rs.add(e)
					if p.kind == "ws" {
						// a websocket frame header announcing 256 bytes of binary payload, then only n of them
						p.mu.Lock()
						pc := p.conns[r.conn]
						p.mu.Unlock()
						pc.wm.Lock()
						pc.w.UnderlyingConn().Write(append([]byte{0x82, 0x7e, 0x01, 0x00}, raw[:n]...))
						pc.wm.Unlock()
					} else {
						p.sendRaw(r.conn, raw[:n], r.addr)
					}
					p.closeConn(r.conn, "close")
				}
			}
		case "cancel":
			e := ev("user-cancel")
			e.K = num(arg(1))
			rs.add(e)
			rs.mu.Lock()
			cf := rs.cancel[num(arg(1))]
			rs.mu.Unlock()
			if cf != nil {
				cf()
			}
		case "abort":
			rs.add(ev("abort-begin"))
			client.Abort()
			rs.add(ev("abort-end"))
		case "sleep":
			time.Sleep(time.Duration(num(arg(1))) * time.Millisecond)
		case "probe":
			probe(str(arg(1)))
		case "quick": // ["quick", n, first_k, timeout_ms]: n sequential calls, each awaited (the peer should be in auto mode)
			n, first, tmo := num(arg(1)), num(arg(2)), num(arg(3))
			if tmo == 0 {
				tmo = 300
			}
			for j := 0; j < n; j++ {
				startCall(first+j, tmo, 0, nil)
				waitRet(first+j, tmo+2000)
			}
		case "hold", "release", "await_yield", "setctr", "addctr":
			hookStep(rs, op, st, client, c.Transport)
		default:
			e := ev("script-error")
			e.S = "unknown step " + op
			rs.add(e)
		}
	}
	rs.mu.Lock()
	o.Log = append([]Event{}, rs.log...)
	rs.mu.Unlock()
	// teardown (not part of the replayed history): everything still inside Request is let go, Client.Abort, and then
	// every connection that was ever opened must be closed and no Send/Receive goroutine of this case may be left
	rs.mu.Lock()
	for _, cf := range rs.cancel {
		cf()
	}
	for key, ch := range rs.holds {
		select {
		case <-ch:
		default:
			close(ch)
		}
		delete(rs.holds, key)
	}
	dones := []chan struct{}{}
	for _, d := range rs.done {
		dones = append(dones, d)
	}
	rs.mu.Unlock()
	for _, d := range dones {
		select {
		case <-d:
		case <-time.After(2 * time.Second):
		}
	}
	client.Abort()
	for wait := 0; wait < 150; wait++ {
		cs := takeCensus()
		sg, rg, _ := cs.since(base)
		if sg == 0 && rg == 0 && atomic.LoadInt32(&opened) == atomic.LoadInt32(&closed) {
			break
		}
		time.Sleep(10 * time.Millisecond)
	}
	probe("teardown")
	rs.mu.Lock()
	for k, v := range rs.results {
		o.Results[strconv.Itoa(k)] = v
		if isEnvErr(v) {
			o.Env = v
		}
	}
	// let every caller that is still inside Request go: the case is over
	for _, cf := range rs.cancel {
		cf()
	}
	for _, ch := range rs.holds {
		select {
		case <-ch:
		default:
			close(ch)
		}
	}
	rs.mu.Unlock()
	return o
}

func unhex(s string) []byte {
	out := make([]byte, 0, len(s)/2)
	for i := 0; i+1 < len(s); i += 2 {
		b, err := strconv.ParseUint(s[i:i+2], 16, 8)
		if err != nil {
			break
		}
		out = append(out, byte(b))
	}
	return out
}

// MainLoop is the body of both executors.
// lateErrConn reports read errors late.
type lateErrConn struct {
	net.Conn
	d time.Duration
}

func (l *lateErrConn) Read(b []byte) (int, error) {
	n, err := l.Conn.Read(b)
	if err != nil {
		time.Sleep(l.d)
	}
	return n, err
}

func MainLoop(line []byte, out *json.Encoder) error {
	var c Case
	if err := json.Unmarshal(line, &c); err != nil {
		return err
	}
	return out.Encode(Run(&c))
}
