// Package hvlib: shared plumbing of the implementation-side executors.
// An executor reads one JSON case per line on stdin, runs it against /repo
// (through the module's replace directive), and prints one JSON observation
// per line on stdout.
package hvlib

import (
	"bufio"
	"encoding/json"
	"fmt"
	"os"
)

// Main runs f over every input line.
func Main(f func(line []byte, out *json.Encoder) error) {
	in := bufio.NewScanner(os.Stdin)
	in.Buffer(make([]byte, 1<<20), 1<<28)
	w := bufio.NewWriterSize(os.Stdout, 1<<20)
	out := json.NewEncoder(w)
	for in.Scan() {
		if len(in.Bytes()) == 0 {
			continue
		}
		if err := f(in.Bytes(), out); err != nil {
			w.Flush()
			fmt.Fprintln(os.Stderr, "hv:", err)
			os.Exit(3)
		}
		w.Flush()
	}
	w.Flush()
	if err := in.Err(); err != nil {
		fmt.Fprintln(os.Stderr, "hv:", err)
		os.Exit(3)
	}
}
