// Package hvlib: shared plumbing of the implementation-side executors.
// An executor reads one JSON case per line on stdin, runs it against /repo
// (through the module's replace directive), and prints one JSON observation
// per line on stdout.
package hvlib

import (
	"bufio"
	"encoding/json"
	"fmt"
	"os"
	"runtime"
	"sync/atomic"
	"time"
)

// Watchdog: a case that runs longer than CaseTimeout or grows the heap beyond HeapLimit makes the
// executor print {"id":..,"fatal":..} for that case and exit(5); the driver then continues after it.
var (
	CaseTimeout = 20 * time.Second
	HeapLimit   = uint64(3) << 30
	curID       int64
	curStart    int64
)

// Begin marks the start of case id (call it first thing in the case function).
func Begin(id int) {
	atomic.StoreInt64(&curID, int64(id))
	atomic.StoreInt64(&curStart, time.Now().UnixNano())
}

func watchdog(flush func()) {
	var ms runtime.MemStats
	for {
		time.Sleep(200 * time.Millisecond)
		st := atomic.LoadInt64(&curStart)
		if st == 0 {
			continue
		}
		why := ""
		if time.Duration(time.Now().UnixNano()-st) > CaseTimeout {
			why = "timeout"
		} else {
			runtime.ReadMemStats(&ms)
			if ms.HeapAlloc > HeapLimit {
				why = "memory"
			}
		}
		if why != "" {
			flush()
			fmt.Fprintf(os.Stdout, "{\"id\":%d,\"fatal\":%q}\n", atomic.LoadInt64(&curID), why)
			os.Exit(5)
		}
	}
}

// Main runs f over every input line.
func Main(f func(line []byte, out *json.Encoder) error) {
	in := bufio.NewScanner(os.Stdin)
	in.Buffer(make([]byte, 1<<20), 1<<28)
	w := bufio.NewWriterSize(os.Stdout, 1<<20)
	out := json.NewEncoder(w)
	go watchdog(func() {})
	for in.Scan() {
		if len(in.Bytes()) == 0 {
			continue
		}
		if err := f(in.Bytes(), out); err != nil {
			w.Flush()
			fmt.Fprintln(os.Stderr, "hv:", err)
			os.Exit(3)
		}
		w.Flush()
	}
	w.Flush()
	if err := in.Err(); err != nil {
		fmt.Fprintln(os.Stderr, "hv:", err)
		os.Exit(3)
	}
}
