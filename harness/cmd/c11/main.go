// C11 executor: faults are contained to the call that caused them.
//
// Parent mode (default): one JSON case per input line; the executor re-executes ITSELF as a
// child process for that case ("-child <json>") and observes the child from outside: exit
// status, the panic line and origin in its stderr, and the observation the child printed
// before exiting (results of sentinel calls issued before, during and after the fault, on
// the same connection, on another connection and on a fresh one).  One JSON observation per
// case.  The executor only observes; classifying and comparing is the check's job.
//
// Child mode: starts a real hprose service on the cell's transport (mock, net/http,
// fasthttp, tcp, unix, websocket, udp; worker pool on/off) with real clients, injects the
// cell's fault — a panicking service function / plugin / missing-method handler / codec,
// hand-crafted request bytes, malformed frames from a raw peer, oversized requests and
// responses — or, for client-side cells, starts a scripted peer that answers a real client
// with malformed frames, and reports what every sentinel saw.  If the fault kills the
// process the child prints nothing: that IS the observation.
package main

import (
	"bufio"
	"bytes"
	"context"
	"encoding/binary"
	"encoding/json"
	"errors"
	"fmt"
	"hash/crc32"
	"io"
	"io/ioutil"
	"net"
	"net/http"
	"os"
	"os/exec"
	"path/filepath"
	"reflect"
	"regexp"
	"strconv"
	"strings"
	"sync"
	"sync/atomic"
	"syscall"
	"time"

	"github.com/fasthttp/websocket"
	"github.com/hprose/hprose-golang/v3/rpc"
	"github.com/hprose/hprose-golang/v3/rpc/core"
	rpcfasthttp "github.com/hprose/hprose-golang/v3/rpc/http/fasthttp"
	"github.com/hprose/hprose-golang/v3/rpc/mock"
	"github.com/hprose/hprose-golang/v3/rpc/plugins/circuitbreaker"
	"github.com/hprose/hprose-golang/v3/rpc/plugins/cluster"
	"github.com/hprose/hprose-golang/v3/rpc/plugins/limiter"
	"github.com/hprose/hprose-golang/v3/rpc/plugins/loadbalance"
	rpclog "github.com/hprose/hprose-golang/v3/rpc/plugins/log"
	"github.com/hprose/hprose-golang/v3/rpc/plugins/oneway"
	"github.com/hprose/hprose-golang/v3/rpc/plugins/push"
	"github.com/hprose/hprose-golang/v3/rpc/plugins/reverse"
	"github.com/hprose/hprose-golang/v3/rpc/plugins/timeout"
	rpcsocket "github.com/hprose/hprose-golang/v3/rpc/socket"
	rpcudp "github.com/hprose/hprose-golang/v3/rpc/udp"
	rpcws "github.com/hprose/hprose-golang/v3/rpc/websocket"
	"github.com/valyala/fasthttp"
	"hv/hvlib"
)

// ---------------------------------------------------------------- case / observation

type c11Case struct {
	ID        int    `json:"id"`
	Cell      string `json:"cell"`      // name as printed by the model
	Transport string `json:"transport"` // mock http fasthttp tcp unix websocket udp
	Side      string `json:"side"`      // server client
	Pool      bool   `json:"pool"`
	Fault     string `json:"fault"`
	Variant   string `json:"variant"` // panic value kind / payload / frame variant
	Godebug   string `json:"godebug"` // GODEBUG of the child (default panicnil=0)
	Slow      int    `json:"slow"`    // re-run under load: every deadline of the scenario is multiplied by 1+slow
}

type childObs struct {
	Before        map[string]string `json:"before"`
	Fault         string            `json:"fault"`              // what the faulty call returned (ok:/err:/hang/callerpanic:) or n/a
	Raw           string            `json:"raw,omitempty"`      // raw peer: what came back after the malformed bytes (eof/data/timeout)
	InflightSame  string            `json:"inflight_same"`      // call in flight on the same connection
	InflightOther string            `json:"inflight_other"`     // call in flight on another connection
	AfterSame     string            `json:"after_same"`         // the same client, after the fault
	AfterOther    string            `json:"after_other"`        // the other client, after the fault
	AfterFresh    string            `json:"after_fresh"`        // a new client, after the fault
	During        string            `json:"during"`             // the same client, issued from inside the transport's OnClose hook while the faulty connection is torn down (n/a: no teardown)
	ReqLen        int               `json:"req_len,omitempty"`  // encoded length of the sized request, as the service side saw or the client sent it
	RespLen       int               `json:"resp_len,omitempty"` // encoded length of the sized response, as the service produced it
	Notes         []string          `json:"notes,omitempty"`
	Done          bool              `json:"done"`
}

type c11Obs struct {
	ID        int       `json:"id"`
	Cell      string    `json:"cell"`
	Variant   string    `json:"variant"`
	Exit      int       `json:"exit"`
	Killed    bool      `json:"killed"` // the parent had to kill the child (hang)
	Died      bool      `json:"died"`   // the child ended without reporting
	PanicLine string    `json:"panic_line,omitempty"`
	Origin    string    `json:"origin,omitempty"`     // innermost /repo frame of the panicking goroutine
	CreatedBy string    `json:"created_by,omitempty"` // where that goroutine was started
	Stderr    string    `json:"stderr,omitempty"`
	Child     *childObs `json:"child,omitempty"`
	Ms        int64     `json:"ms"`
}

var (
	clientTimeout = 2 * time.Second
	callGuard     = 7 * time.Second
	childDeadline = 40 * time.Second
	enterWait     = 4 * time.Second
	callerTimeout = 3 * time.Second
)

// slowDown stretches every deadline of a scenario (a re-run of a case whose only symptom was a timeout)
func slowDown(k int) {
	if k < 0 {
		// self-test of the driver's retry path: deadlines nobody can meet
		clientTimeout = time.Millisecond
		return
	}
	if k == 0 {
		return
	}
	f := time.Duration(1 + k)
	clientTimeout *= f
	callGuard *= f
	childDeadline *= f
	enterWait *= f
	callerTimeout *= f
}

// ---------------------------------------------------------------- parent

var (
	rePanic   = regexp.MustCompile(`(?m)^(panic: .*|fatal error: .*)$`)
	reFrame   = regexp.MustCompile(`(?m)^github\.com/hprose/hprose-golang/v3/([^\s(]+(?:\([^)]*\))?[^\s(]*)\(`)
	reCreated = regexp.MustCompile(`(?m)^created by github\.com/hprose/hprose-golang/v3/(\S+)`)
)

func parseStderr(o *c11Obs, se string) {
	if m := rePanic.FindString(se); m != "" {
		if len(m) > 300 {
			m = m[:300]
		}
		o.PanicLine = m
	}
	// the first goroutine dump is the panicking one
	dump := se
	if i := strings.Index(se, "\ngoroutine "); i >= 0 {
		dump = se[i+1:]
		if j := strings.Index(dump, "\n\n"); j >= 0 {
			dump = dump[:j]
		}
	}
	for _, m := range reFrame.FindAllStringSubmatch(dump, -1) {
		// skip the frames of panic value construction; keep the innermost library frame
		o.Origin = m[1]
		break
	}
	if m := reCreated.FindStringSubmatch(dump); m != nil {
		o.CreatedBy = m[1]
	}
	if len(se) > 1200 {
		se = se[:1200]
	}
	o.Stderr = se
}

func runParent(line []byte, out *json.Encoder) error {
	var c c11Case
	if err := json.Unmarshal(line, &c); err != nil {
		return err
	}
	hvlib.Begin(c.ID)
	deadline := childDeadline
	if c.Slow > 0 {
		deadline *= time.Duration(1 + c.Slow)
	}
	t0 := time.Now()
	o := c11Obs{ID: c.ID, Cell: c.Cell, Variant: c.Variant}
	ctx, cancel := context.WithTimeout(context.Background(), deadline)
	defer cancel()
	cmd := exec.CommandContext(ctx, os.Args[0], "-child", string(line))
	gd := c.Godebug
	if gd == "" {
		gd = "panicnil=0"
	}
	env := []string{}
	for _, e := range os.Environ() {
		if !strings.HasPrefix(e, "GODEBUG=") && !strings.HasPrefix(e, "GOTRACEBACK=") {
			env = append(env, e)
		}
	}
	cmd.Env = append(env, "GODEBUG="+gd, "GOTRACEBACK=single")
	var so, se bytes.Buffer
	cmd.Stdout, cmd.Stderr = &so, &se
	err := cmd.Run()
	o.Ms = int64(time.Since(t0) / time.Millisecond)
	if ctx.Err() != nil {
		o.Killed = true
	}
	if err != nil {
		if ee, ok := err.(*exec.ExitError); ok {
			o.Exit = ee.ExitCode()
			if ws, ok := ee.Sys().(syscall.WaitStatus); ok && ws.Signaled() {
				o.Exit = 128 + int(ws.Signal())
			}
		} else {
			o.Exit = -1
			o.Stderr = err.Error()
		}
	}
	var ch childObs
	for _, ln := range strings.Split(so.String(), "\n") {
		if strings.HasPrefix(ln, "{") {
			if json.Unmarshal([]byte(ln), &ch) == nil {
				cp := ch
				o.Child = &cp
			}
		}
	}
	if o.Child == nil || !o.Child.Done {
		o.Died = !o.Killed
	}
	if se.Len() > 0 && (o.Exit != 0 || o.Child == nil) {
		parseStderr(&o, se.String())
	}
	return out.Encode(o)
}

func main() {
	if len(os.Args) >= 3 && os.Args[1] == "-child" {
		childMain([]byte(os.Args[2]))
		return
	}
	hvlib.CaseTimeout = 8*childDeadline + 20*time.Second
	hvlib.Main(runParent)
}

// ---------------------------------------------------------------- child: plumbing

var (
	obsMu  sync.Mutex
	theObs = childObs{Before: map[string]string{}, Fault: "n/a", InflightSame: "n/a", InflightOther: "n/a",
		AfterSame: "n/a", AfterOther: "n/a", AfterFresh: "n/a", During: "n/a"}
)

func note(format string, a ...interface{}) {
	obsMu.Lock()
	theObs.Notes = append(theObs.Notes, fmt.Sprintf(format, a...))
	obsMu.Unlock()
}

func emit(done bool) {
	obsMu.Lock()
	theObs.Done = done
	b, _ := json.Marshal(theObs)
	obsMu.Unlock()
	os.Stdout.Write(append(b, '\n'))
}

func childMain(line []byte) {
	var c c11Case
	if err := json.Unmarshal(line, &c); err != nil {
		fmt.Fprintln(os.Stderr, "c11 child: bad case:", err)
		os.Exit(3)
	}
	slowDown(c.Slow)
	go func() {
		time.Sleep(childDeadline - 5*time.Second)
		note("child watchdog: scenario did not finish")
		emit(false)
		os.Exit(0)
	}()
	if c.Transport == "fasthttp" {
		// the fasthttp client transport takes over the http scheme in this process
		rpcfasthttp.RegisterTransport()
	}
	var err error
	switch {
	case c.Fault == "provider-panic" || (c.Side == "client" && (c.Fault == "hostile-panic-value" || c.Fault == "nested-hostile-panic-value")):
		err = scenarioProvider(&c)
	case c.Fault == "subscriber-panic":
		err = scenarioSubscriber(&c)
	case c.Side == "server" && isRawFault(c.Fault):
		err = scenarioServerRaw(&c)
	case c.Side == "server":
		err = scenarioServerAPI(&c)
	case c.Fault == "oversize-request":
		err = scenarioClientOversize(&c)
	default:
		err = scenarioClientScripted(&c)
	}
	if err != nil {
		note("env: %v", err)
		emit(false)
		os.Exit(4)
	}
	emit(true)
	os.Exit(0)
}

func isRawFault(f string) bool {
	return f == "frame-short" || f == "frame-bad-crc" || f == "frame-length"
}

// guard runs f, converting a panic that reaches the calling goroutine and a hang into results
func guard(f func() string) string {
	ch := make(chan string, 1)
	go func() {
		defer func() {
			if e := recover(); e != nil {
				ch <- fmt.Sprintf("callerpanic:%v", e)
			}
		}()
		ch <- f()
	}()
	select {
	case r := <-ch:
		return r
	case <-time.After(callGuard):
		return "hang"
	}
}

func short(s string) string {
	s = strings.Replace(s, "\r\n", " ", -1)
	s = strings.Replace(s, "\n", " ", -1)
	if len(s) > 160 {
		s = s[:160]
	}
	return s
}

// ---------------------------------------------------------------- panic values

type customPanic struct {
	Code int
	Why  string
}

type ptrErr struct{ msg string }

func (e *ptrErr) Error() string { return e.msg } // panics on a nil receiver

var panicKind = "string"

// values whose own methods misbehave when the recovered panic is formatted
type errPanics struct{}

func (errPanics) Error() string { panic("Error() of the panic value panics") }

type errRuntime struct{ a []int }

func (e errRuntime) Error() string { return strconv.Itoa(e.a[len(e.a)+2]) }

type strPanics struct{}

func (strPanics) String() string { panic("String() of the panic value panics") }

type errDeep struct{ d int }

func (e errDeep) Error() string {
	if e.d == 0 {
		return "bottom"
	}
	return fmt.Sprintf("<%v>", errDeep{e.d - 1})
}

type errSelf struct{}

func (e errSelf) Error() string { panic(e) } // panics with a value that panics again: defeats fmt (and net/http)

type errNested struct{}

func (errNested) Error() string { panic(errPanics{}) }

func panicValue(kind string) interface{} {
	switch kind {
	case "hostile-error-nilptr":
		var e *ptrErr
		return e
	case "hostile-error-panics":
		return errPanics{}
	case "hostile-error-runtime":
		return errRuntime{}
	case "hostile-stringer-panics":
		return strPanics{}
	case "hostile-error-pointer-panics":
		return &errPanics{}
	case "hostile-deep-format":
		return errDeep{300}
	case "nested-hostile":
		return errNested{}
	case "self-hostile":
		return errSelf{}
	case "string":
		return "boom-string"
	case "error":
		return errors.New("boom-error")
	case "custom":
		return customPanic{Code: 7, Why: "boom-custom"}
	case "nil":
		return nil
	case "int":
		return 42
	case "pointer":
		return &customPanic{Code: 8}
	case "wrapped-error":
		return fmt.Errorf("outer: %w", io.ErrUnexpectedEOF)
	case "nil-error-pointer":
		var e *ptrErr
		return e
	case "func":
		return func() {}
	case "slice":
		return []byte("boom-bytes")
	}
	return "boom-" + kind
}

func doPanic(kind string) {
	switch kind {
	case "runtime-index":
		var a []int
		i := 3
		_ = a[i]
	case "runtime-nilmap":
		var m map[string]int
		m["x"] = 1
	case "runtime-nilptr":
		var p *customPanic
		_ = p.Code
	case "runtime-divide":
		z := 0
		_ = 1 / z
	}
	panic(panicValue(kind))
}

// ---------------------------------------------------------------- the real service

type workerPool struct{ ch chan func() }

func newWorkerPool(n int) *workerPool {
	p := &workerPool{ch: make(chan func(), 64)}
	for i := 0; i < n; i++ {
		go func() { // a plain worker: no recover, as the model assumes
			for f := range p.ch {
				f()
			}
		}()
	}
	return p
}

func (p *workerPool) Submit(f func()) { p.ch <- f }

type boomCodec struct{ core.ServiceCodec }

func (c boomCodec) Decode(request []byte, context *core.ServiceContext) (string, []interface{}, error) {
	if bytes.Contains(request, []byte("CODEC-BOOM")) {
		doPanic(panicKind)
	}
	return c.ServiceCodec.Decode(request, context)
}

type realServer struct {
	broker  *push.Broker
	tr      string
	service *core.Service
	url     string
	addr    string
	entered chan string
	release chan struct{}
	once    sync.Once
}

func (s *realServer) releaseAll() { s.once.Do(func() { close(s.release) }) }

var tmpDir string

func startReal(tr string, pool bool, c *c11Case) (*realServer, error) {
	s := &realServer{tr: tr, entered: make(chan string, 16), release: make(chan struct{})}
	s.service = rpc.NewService()
	svc := s.service
	svc.AddFunction(func(a string) string { return a }, "echo")
	svc.AddFunction(func(a, b int) int { return a + b }, "sum")
	svc.AddFunction(func(tag string) string {
		s.entered <- tag
		select {
		case <-s.release:
		case <-time.After(15 * time.Second):
		}
		return "slow:" + tag
	}, "slow")
	svc.AddFunction(func(kind string) string { doPanic(kind); return "unreachable" }, "boom")
	svc.AddFunction(func(n int) string { return strings.Repeat("R", n) }, "big")
	svc.Use(func(ctx context.Context, name string, args []interface{}, next core.NextInvokeHandler) ([]interface{}, error) {
		if name == "echo" && len(args) == 1 && args[0] == "INVOKE-PLUGIN-BOOM" {
			doPanic(panicKind)
		}
		return next(ctx, name, args)
	})
	svc.Use(func(ctx context.Context, request []byte, next core.NextIOHandler) ([]byte, error) {
		if bytes.Contains(request, []byte("IO-PLUGIN-BOOM")) {
			doPanic(panicKind)
		}
		sized := bytes.Contains(request, []byte("\"big\"")) || bytes.Contains(request, []byte("qqqqqqqq"))
		if sized {
			obsMu.Lock()
			theObs.ReqLen = len(request)
			obsMu.Unlock()
		}
		resp, err := next(ctx, request)
		if sized {
			obsMu.Lock()
			theObs.RespLen = len(resp)
			obsMu.Unlock()
		}
		return resp, err
	})
	if c != nil && c.Fault == "panic-under-timeout-plugin" {
		svc.Use(timeout.New(5 * time.Second)) // every service function now runs on the plugin's goroutine
	}
	if c != nil && c.Fault == "subscriber-panic" {
		s.broker = push.NewBroker(svc)
	}
	if c != nil && strings.HasPrefix(c.Variant, "under:") {
		// the service function panics below a standard plugin that wraps the execution on the service side
		switch c.Variant {
		case "under:ratelimiter":
			rl := limiter.NewRateLimiter(1000000)
			svc.Use(rl.IOHandler, rl.InvokeHandler)
		case "under:concurrentlimiter":
			svc.Use(limiter.NewConcurrentLimiter(64).Handler)
		case "under:log":
			lg := rpclog.New(func(v ...interface{}) {})
			svc.Use(lg.IOHandler, lg.InvokeHandler)
		case "under:timeout-disabled":
			svc.Use(timeout.New(0)) // timeout <= 0: the plugin calls next on the caller's goroutine
		}
	}
	if c != nil && c.Fault == "missing-method-panic" {
		svc.AddMissingMethod(func(name string, args []interface{}) ([]interface{}, error) {
			if name == "nosuchboom" {
				doPanic(panicKind)
			}
			return nil, errors.New("no such method " + name)
		})
	}
	if c != nil && c.Fault == "decode-panic" && c.Variant == "codec-panic" {
		svc.Codec = boomCodec{core.NewServiceCodec()}
	}
	if c != nil && c.Fault == "oversize-request" && c.Side == "server" {
		svc.MaxRequestLength = 2048
	}
	var wp core.WorkerPool
	if pool {
		wp = newWorkerPool(4)
	}
	switch tr {
	case "mock":
		s.addr = "c11mock"
		if err := svc.Bind(mock.Server{Address: s.addr}); err != nil {
			return nil, err
		}
		s.url = "mock://" + s.addr
	case "tcp":
		if pool {
			rpc.SocketHandler(svc).Pool = wp
		}
		ln, err := net.Listen("tcp", "127.0.0.1:0")
		if err != nil {
			return nil, err
		}
		if err := svc.Bind(ln); err != nil {
			return nil, err
		}
		s.addr = ln.Addr().String()
		s.url = "tcp://" + s.addr + "/"
	case "unix":
		if pool {
			rpc.SocketHandler(svc).Pool = wp
		}
		if tmpDir == "" {
			d, err := ioutil.TempDir("", "hv-c11-")
			if err != nil {
				return nil, err
			}
			tmpDir = d
		}
		path := filepath.Join(tmpDir, fmt.Sprintf("s%d.sock", time.Now().UnixNano()))
		ln, err := net.Listen("unix", path)
		if err != nil {
			return nil, err
		}
		if err := svc.Bind(ln); err != nil {
			return nil, err
		}
		s.addr = path
		s.url = "unix://" + path
	case "udp":
		if pool {
			rpc.UDPHandler(svc).Pool = wp
		}
		a, _ := net.ResolveUDPAddr("udp", "127.0.0.1:0")
		conn, err := net.ListenUDP("udp", a)
		if err != nil {
			return nil, err
		}
		if err := svc.Bind(conn); err != nil {
			return nil, err
		}
		s.addr = conn.LocalAddr().String()
		s.url = "udp://" + s.addr + "/"
	case "websocket", "http":
		if pool {
			rpc.WebSocketHandler(svc).Pool = wp
		}
		ln, err := net.Listen("tcp", "127.0.0.1:0")
		if err != nil {
			return nil, err
		}
		server := &http.Server{}
		if err := svc.Bind(server); err != nil {
			return nil, err
		}
		go server.Serve(ln)
		s.addr = ln.Addr().String()
		if tr == "websocket" {
			s.url = "ws://" + s.addr + "/"
		} else {
			s.url = "http://" + s.addr + "/"
		}
	case "fasthttp":
		ln, err := net.Listen("tcp", "127.0.0.1:0")
		if err != nil {
			return nil, err
		}
		server := &fasthttp.Server{MaxRequestBodySize: 64 << 20}
		if err := svc.Bind(server); err != nil {
			return nil, err
		}
		go server.Serve(ln)
		s.addr = ln.Addr().String()
		s.url = "http://" + s.addr + "/"
	default:
		return nil, fmt.Errorf("unknown transport %q", tr)
	}
	time.Sleep(30 * time.Millisecond)
	return s, nil
}

func newClient(url string) *core.Client {
	c := rpc.NewClient(url)
	c.Timeout = clientTimeout
	return c
}

// invoke name(args...) and describe the outcome
func call(c *core.Client, name string, want string, args ...interface{}) string {
	return guard(func() string {
		res, err := c.Invoke(name, args)
		if err != nil {
			return "err:" + short(err.Error())
		}
		got := ""
		if len(res) > 0 {
			got = fmt.Sprintf("%v", res[0])
		}
		if want != "" && got != want {
			return "wrong:" + short(got)
		}
		return "ok"
	})
}

func echo(c *core.Client, tag string) string { return call(c, "echo", tag, tag) }

// send hand-crafted request bytes through the real client's transport
func rawRequest(c *core.Client, req []byte) string {
	return guard(func() string {
		cc := core.NewClientContext()
		cc.Init(c)
		ctx := core.WithContext(context.Background(), cc)
		resp, err := c.Request(ctx, req)
		if err != nil {
			return "err:" + short(err.Error())
		}
		if len(resp) > 0 && resp[0] == 'R' {
			return "ok"
		}
		if len(resp) > 0 && resp[0] == 'E' {
			return "err:" + short(string(resp))
		}
		return "wrong:" + short(string(resp))
	})
}

func waitEntered(ch chan string, n int, what string) bool {
	for i := 0; i < n; i++ {
		select {
		case <-ch:
		case <-time.After(enterWait):
			note("in-flight call %s did not reach its function", what)
			return false
		}
	}
	return true
}

func collect(ch chan string) string {
	select {
	case r := <-ch:
		return r
	case <-time.After(callGuard + time.Second):
		return "hang"
	}
}

// ---------------------------------------------------------------- scenario: server-side fault through the client API

func scenarioServerAPI(c *c11Case) error {
	panicKind = c.Variant
	if panicKind == "" {
		panicKind = "string"
	}
	s, err := startReal(c.Transport, c.Pool, c)
	if err != nil {
		return err
	}
	a, b := newClient(s.url), newClient(s.url)
	slowClose(a, func() string { return echo(a, "during") })
	theObs.Before["same"] = echo(a, "before-a")
	theObs.Before["other"] = echo(b, "before-b")
	ia, ib := make(chan string, 1), make(chan string, 1)
	go func() { ia <- call(a, "slow", "slow:a", "a") }()
	go func() { ib <- call(b, "slow", "slow:b", "b") }()
	waitEntered(s.entered, 2, "slow")
	var fault string
	switch c.Fault {
	case "service-panic", "hostile-panic-value", "nested-hostile-panic-value", "panic-under-timeout-plugin":
		kind := c.Variant
		if strings.HasPrefix(kind, "under:") || strings.HasPrefix(kind, "via:") {
			kind = "string"
		}
		switch c.Variant {
		// ... or is observed by a client through a standard plugin that wraps the call on the client side
		case "via:circuitbreaker":
			a.Use(circuitbreaker.New())
		case "via:cluster-failover":
			a.Use(cluster.New(cluster.FailoverConfig(cluster.WithRetry(1))))
		case "via:cluster-forking":
			a.Use(cluster.Forking)
		case "via:cluster-broadcast":
			a.Use(cluster.Broadcast)
		case "via:loadbalance":
			a.Use(loadbalance.NewRandomLoadBalance())
		case "via:log":
			lg := rpclog.New(func(v ...interface{}) {})
			a.Use(lg.IOHandler, lg.InvokeHandler)
		case "via:oneway":
			a.Use(oneway.Oneway{})
		}
		if c.Variant == "via:oneway" {
			// a oneway call returns at once and reports nothing: the panic happens behind the caller's back
			fault = guard(func() string {
				cc := core.NewClientContext()
				cc.Items().Set("oneway", true)
				_, err := a.InvokeContext(core.WithContext(context.Background(), cc), "boom", []interface{}{kind})
				if err != nil {
					return "err:" + short(err.Error())
				}
				time.Sleep(200 * time.Millisecond)
				return "ok"
			})
		} else {
			fault = call(a, "boom", "", kind)
		}
	case "invoke-plugin-panic":
		fault = echo(a, "INVOKE-PLUGIN-BOOM")
	case "io-plugin-panic":
		fault = echo(a, "IO-PLUGIN-BOOM")
	case "missing-method-panic":
		fault = call(a, "nosuchboom", "")
	case "decode-error":
		switch c.Variant {
		case "unknown-method":
			fault = rawRequest(a, []byte("Cs6\"nosuch\"z"))
		case "type-mismatch":
			fault = rawRequest(a, []byte("Cs3\"sum\"a2{s1\"x\"s1\"y\"}z"))
		case "garbage":
			fault = rawRequest(a, []byte("Xfoo"))
		case "truncated":
			fault = rawRequest(a, []byte("Cs3\"sum\"a2{1;"))
		case "too-few-args":
			fault = rawRequest(a, []byte("Cs3\"sum\"a1{1}z"))
		default:
			return fmt.Errorf("unknown decode-error variant %q", c.Variant)
		}
	case "decode-panic":
		switch c.Variant {
		case "codec-panic":
			fault = echo(a, "CODEC-BOOM")
		case "neg-count":
			fault = rawRequest(a, []byte("Cs3\"sum\"a-1{}z"))
		case "bad-ref":
			fault = rawRequest(a, []byte("Cs4\"echo\"a1{r9;}z"))
		case "bad-class":
			fault = rawRequest(a, []byte("Cs4\"echo\"a1{o5{}}z"))
		default:
			return fmt.Errorf("unknown decode-panic variant %q", c.Variant)
		}
	case "oversize-request":
		n := 5000
		if sz, ok := sizeVariant(c.Variant); ok {
			n = argLenForRequest(sz)
		}
		recordRequestLength(a)
		fault = echo(a, strings.Repeat("q", n))
	case "oversize-response":
		n := 70000
		if sz, ok := sizeVariant(c.Variant); ok {
			n = resultLenForResponse(sz)
		}
		fault = call(a, "big", "", n)
	default:
		return fmt.Errorf("unknown fault %q", c.Fault)
	}
	theObs.Fault = fault
	s.releaseAll()
	theObs.InflightSame = collect(ia)
	theObs.InflightOther = collect(ib)
	theObs.AfterSame = echo(a, "after-a")
	theObs.AfterOther = echo(b, "after-b")
	theObs.AfterFresh = echo(newClient(s.url), "after-c")
	collectDuring()
	return nil
}

// ---------------------------------------------------------------- frames, written independently of /repo

func sockFrame(index uint32, body []byte, declLen int, badCRC bool) []byte {
	h := make([]byte, 12)
	binary.BigEndian.PutUint32(h[4:8], uint32(declLen)|0x80000000)
	binary.BigEndian.PutUint32(h[8:12], index)
	crc := crc32.ChecksumIEEE(h[4:12])
	if badCRC {
		crc ^= 0x00010000
	}
	binary.BigEndian.PutUint32(h[0:4], crc)
	return append(h, body...)
}

func udpFrame(index uint16, body []byte, declLen int, badCRC bool) []byte {
	h := make([]byte, 8)
	binary.BigEndian.PutUint16(h[4:6], uint16(declLen))
	binary.BigEndian.PutUint16(h[6:8], index)
	crc := crc32.ChecksumIEEE(h[4:8])
	if badCRC {
		crc ^= 0x00010000
	}
	binary.BigEndian.PutUint32(h[0:4], crc)
	return append(h, body...)
}

func wsFrame(index uint32, body []byte) []byte {
	h := make([]byte, 4)
	binary.BigEndian.PutUint32(h, index)
	return append(h, body...)
}

func readSockFrame(r io.Reader) (index uint32, body []byte, err error) {
	h := make([]byte, 12)
	if _, err = io.ReadFull(r, h); err != nil {
		return
	}
	n := binary.BigEndian.Uint32(h[4:8]) & 0x7fffffff
	index = binary.BigEndian.Uint32(h[8:12])
	if n > 1<<24 {
		return index, nil, fmt.Errorf("absurd length %d", n)
	}
	body = make([]byte, n)
	_, err = io.ReadFull(r, body)
	return
}

func hproseCall(name, arg string) []byte {
	return []byte(fmt.Sprintf("Cs%d\"%s\"a1{s%d\"%s\"}z", len(name), name, len(arg), arg))
}

func describeRead(err error) string {
	if err == nil {
		return "data"
	}
	if err == io.EOF || err == io.ErrUnexpectedEOF || strings.Contains(err.Error(), "reset") ||
		strings.Contains(err.Error(), "closed") || strings.Contains(err.Error(), "EOF") {
		return "eof"
	}
	if ne, ok := err.(net.Error); ok && ne.Timeout() {
		return "timeout"
	}
	return "err:" + short(err.Error())
}

// ---------------------------------------------------------------- scenario: malformed frames from a raw peer to a real server

func scenarioServerRaw(c *c11Case) error {
	s, err := startReal(c.Transport, c.Pool, c)
	if err != nil {
		return err
	}
	a, b := newClient(s.url), newClient(s.url)
	theObs.Before["same"] = echo(a, "before-a")
	theObs.Before["other"] = echo(b, "before-b")
	ib := make(chan string, 1)
	go func() { ib <- call(b, "slow", "slow:b", "b") }()
	slowReq := hproseCall("slow", "r")
	valid := hproseCall("echo", "0123456789abcdef")
	switch c.Transport {
	case "tcp", "unix":
		network := "tcp"
		if c.Transport == "unix" {
			network = "unix"
		}
		r, err := net.Dial(network, s.addr)
		if err != nil {
			return err
		}
		r.Write(sockFrame(1, slowReq, len(slowReq), false))
		waitEntered(s.entered, 2, "slow")
		halfClose := func() {
			if cw, ok := r.(interface{ CloseWrite() error }); ok {
				cw.CloseWrite()
			}
		}
		switch c.Fault {
		case "frame-short":
			n := 5
			if c.Variant == "one-byte" {
				n = 1
			} else if c.Variant == "eleven-bytes" {
				n = 11
			}
			r.Write(sockFrame(2, valid, len(valid), false)[:n])
			halfClose()
		case "frame-bad-crc":
			r.Write(sockFrame(2, valid, len(valid), true))
		case "frame-length":
			if c.Variant == "declares-more" {
				r.Write(sockFrame(2, valid, len(valid)+50, false))
				halfClose()
			} else { // declares-less: the tail is read as the next header
				r.Write(sockFrame(2, valid, 5, false))
			}
		}
		s.releaseAllAfter(300 * time.Millisecond)
		// what comes back on the raw connection: the in-flight call's response, or the end of the stream
		r.SetReadDeadline(time.Now().Add(3 * time.Second))
		got := false
		var rerr error
		for {
			idx, body, err := readSockFrame(r)
			if err != nil {
				rerr = err
				break
			}
			if idx == 1 && bytes.Contains(body, []byte("slow:r")) {
				got = true
			}
		}
		theObs.Raw = describeRead(rerr)
		if got {
			theObs.InflightSame = "ok"
		} else {
			theObs.InflightSame = "lost:" + theObs.Raw
		}
		r.Close()
	case "udp":
		ua, _ := net.ResolveUDPAddr("udp", s.addr)
		r, err := net.DialUDP("udp", nil, ua)
		if err != nil {
			return err
		}
		r.Write(udpFrame(1, slowReq, len(slowReq), false))
		waitEntered(s.entered, 2, "slow")
		switch c.Fault {
		case "frame-short":
			n := 3
			if c.Variant == "seven-bytes" {
				n = 7
			} else if c.Variant == "empty" {
				n = 0
			}
			r.Write(udpFrame(2, valid, len(valid), false)[:n])
		case "frame-bad-crc":
			r.Write(udpFrame(2, valid, len(valid), true))
		case "frame-length":
			if c.Variant == "declares-more" {
				r.Write(udpFrame(2, valid, len(valid)+50, false))
			} else {
				r.Write(udpFrame(2, valid, 5, false))
			}
		}
		s.releaseAllAfter(300 * time.Millisecond)
		got := false
		buf := make([]byte, 65536)
		r.SetReadDeadline(time.Now().Add(2 * time.Second))
		var rerr error
		for !got {
			n, err := r.Read(buf)
			if err != nil {
				rerr = err
				break
			}
			if n >= 8 && binary.BigEndian.Uint16(buf[6:8])&0x7fff == 1 && bytes.Contains(buf[8:n], []byte("slow:r")) {
				got = true
			}
		}
		theObs.Raw = describeRead(rerr)
		if got {
			theObs.InflightSame = "ok"
		} else {
			theObs.InflightSame = "lost:" + theObs.Raw
		}
		r.Close()
	case "websocket":
		d := websocket.Dialer{Subprotocols: []string{"hprose"}, HandshakeTimeout: 3 * time.Second}
		r, _, err := d.Dial("ws://"+s.addr+"/", nil)
		if err != nil {
			return err
		}
		r.WriteMessage(websocket.BinaryMessage, wsFrame(1, slowReq))
		waitEntered(s.entered, 2, "slow")
		switch c.Fault {
		case "frame-short":
			n := 2
			if c.Variant == "empty" {
				n = 0
			} else if c.Variant == "three-bytes" {
				n = 3
			}
			r.WriteMessage(websocket.BinaryMessage, wsFrame(2, valid)[:n])
		case "frame-length":
			// a websocket frame header announcing 100 payload bytes, 10 delivered, then the stream ends
			raw := []byte{0x82, 0x80 | 100, 1, 2, 3, 4}
			raw = append(raw, bytes.Repeat([]byte{0x55}, 10)...)
			uc := r.UnderlyingConn()
			uc.Write(raw)
			if cw, ok := uc.(interface{ CloseWrite() error }); ok {
				cw.CloseWrite()
			}
		}
		s.releaseAllAfter(300 * time.Millisecond)
		got := false
		var rerr error
		r.SetReadDeadline(time.Now().Add(3 * time.Second))
		for {
			_, msg, err := r.ReadMessage()
			if err != nil {
				rerr = err
				break
			}
			if len(msg) >= 4 && binary.BigEndian.Uint32(msg[:4]) == 1 && bytes.Contains(msg[4:], []byte("slow:r")) {
				got = true
			}
		}
		theObs.Raw = describeRead(rerr)
		if got {
			theObs.InflightSame = "ok"
		} else {
			theObs.InflightSame = "lost:" + theObs.Raw
		}
		r.Close()
	case "http", "fasthttp":
		r, err := net.Dial("tcp", s.addr)
		if err != nil {
			return err
		}
		waitEntered(s.entered, 1, "slow")
		body := valid
		decl := len(body) + 50
		if c.Variant == "declares-less" {
			decl = 5
		}
		fmt.Fprintf(r, "POST / HTTP/1.1\r\nHost: %s\r\nContent-Type: text/plain\r\nContent-Length: %d\r\n\r\n", s.addr, decl)
		r.Write(body)
		if cw, ok := r.(interface{ CloseWrite() error }); ok && c.Variant != "declares-less" {
			cw.CloseWrite()
		}
		s.releaseAllAfter(300 * time.Millisecond) // the in-flight call on the other connection must not wait for this peer
		r.SetReadDeadline(time.Now().Add(1500 * time.Millisecond))
		buf, rerr := ioutil.ReadAll(r)
		theObs.Raw = describeRead(rerr)
		if len(buf) > 0 {
			theObs.Raw = "data+" + theObs.Raw + ":" + short(strings.SplitN(string(buf), "\r\n", 2)[0])
		}
		s.releaseAll()
		r.Close()
	default:
		return fmt.Errorf("no raw peer for transport %q", c.Transport)
	}
	s.releaseAll()
	theObs.InflightOther = collect(ib)
	theObs.AfterSame = echo(a, "after-a")
	theObs.AfterOther = echo(b, "after-b")
	theObs.AfterFresh = echo(newClient(s.url), "after-c")
	return nil
}

func (s *realServer) releaseAllAfter(d time.Duration) {
	time.Sleep(d)
	s.releaseAll()
}

// ---------------------------------------------------------------- scripted peers answering a real client

type scripted struct {
	tr      string
	url     string
	fault   string
	variant string
	entered chan string
	release chan struct{}
	once    sync.Once
}

func (s *scripted) releaseAll() { s.once.Do(func() { close(s.release) }) }

var okPayload = []byte("Rs2\"ok\"z")

func badPayload(variant string) []byte {
	switch variant {
	case "truncated":
		return []byte("Rs5\"ab")
	case "wrong-tag":
		return []byte("Xzz")
	case "empty":
		return []byte{}
	case "error-truncated":
		return []byte("Es9\"abc")
	}
	return []byte("R")
}

// classify a request by its payload
func kindOf(body []byte) string {
	switch {
	case bytes.Contains(body, []byte("FAULT")):
		return "fault"
	case bytes.Contains(body, []byte("\"slow\"")):
		return "slow"
	}
	return "plain"
}

func (s *scripted) hold() {
	s.entered <- "s"
	select {
	case <-s.release:
	case <-time.After(15 * time.Second):
	}
}

func startScripted(c *c11Case) (*scripted, error) {
	s := &scripted{tr: c.Transport, fault: c.Fault, variant: c.Variant, entered: make(chan string, 16), release: make(chan struct{})}
	switch c.Transport {
	case "tcp", "unix":
		network, addr := "tcp", "127.0.0.1:0"
		if c.Transport == "unix" {
			d, err := ioutil.TempDir("", "hv-c11s-")
			if err != nil {
				return nil, err
			}
			network, addr = "unix", filepath.Join(d, "p.sock")
		}
		ln, err := net.Listen(network, addr)
		if err != nil {
			return nil, err
		}
		if network == "tcp" {
			s.url = "tcp://" + ln.Addr().String() + "/"
		} else {
			s.url = "unix://" + addr
		}
		go func() {
			for {
				conn, err := ln.Accept()
				if err != nil {
					return
				}
				go s.serveSock(conn)
			}
		}()
	case "udp":
		a, _ := net.ResolveUDPAddr("udp", "127.0.0.1:0")
		conn, err := net.ListenUDP("udp", a)
		if err != nil {
			return nil, err
		}
		s.url = "udp://" + conn.LocalAddr().String() + "/"
		go s.serveUDP(conn)
	case "websocket":
		ln, err := net.Listen("tcp", "127.0.0.1:0")
		if err != nil {
			return nil, err
		}
		s.url = "ws://" + ln.Addr().String() + "/"
		up := websocket.Upgrader{Subprotocols: []string{"hprose"}, CheckOrigin: func(*http.Request) bool { return true }}
		go http.Serve(ln, http.HandlerFunc(func(w http.ResponseWriter, r *http.Request) {
			conn, err := up.Upgrade(w, r, nil)
			if err != nil {
				return
			}
			s.serveWS(conn)
		}))
	case "http", "fasthttp":
		ln, err := net.Listen("tcp", "127.0.0.1:0")
		if err != nil {
			return nil, err
		}
		s.url = "http://" + ln.Addr().String() + "/"
		go func() {
			for {
				conn, err := ln.Accept()
				if err != nil {
					return
				}
				go s.serveHTTP(conn)
			}
		}()
	default:
		return nil, fmt.Errorf("no scripted peer for transport %q", c.Transport)
	}
	time.Sleep(20 * time.Millisecond)
	return s, nil
}

func (s *scripted) serveSock(conn net.Conn) {
	var mu sync.Mutex
	write := func(b []byte) { mu.Lock(); conn.Write(b); mu.Unlock() }
	for {
		idx, body, err := readSockFrame(conn)
		if err != nil {
			conn.Close()
			return
		}
		switch kindOf(body) {
		case "slow":
			go func(idx uint32) { s.hold(); write(sockFrame(idx, okPayload, len(okPayload), false)) }(idx)
		case "plain":
			write(sockFrame(idx, okPayload, len(okPayload), false))
		case "fault":
			switch s.fault {
			case "frame-short":
				n := 5
				if s.variant == "one-byte" {
					n = 1
				} else if s.variant == "eleven-bytes" {
					n = 11
				}
				write(sockFrame(idx, okPayload, len(okPayload), false)[:n])
				conn.Close()
				return
			case "frame-bad-crc":
				write(sockFrame(idx, okPayload, len(okPayload), true))
			case "frame-length":
				if s.variant == "declares-more" {
					write(sockFrame(idx, okPayload, len(okPayload)+50, false))
					conn.Close()
					return
				}
				write(sockFrame(idx, okPayload, 3, false))
			case "bad-payload":
				p := badPayload(s.variant)
				write(sockFrame(idx, p, len(p), false))
			}
		}
	}
}

func (s *scripted) serveUDP(conn *net.UDPConn) {
	buf := make([]byte, 65536)
	for {
		n, addr, err := conn.ReadFromUDP(buf)
		if err != nil {
			return
		}
		if n < 8 {
			continue
		}
		idx := binary.BigEndian.Uint16(buf[6:8])
		body := append([]byte{}, buf[8:n]...)
		switch kindOf(body) {
		case "slow":
			go func() { s.hold(); conn.WriteToUDP(udpFrame(idx, okPayload, len(okPayload), false), addr) }()
		case "plain":
			conn.WriteToUDP(udpFrame(idx, okPayload, len(okPayload), false), addr)
		case "fault":
			switch s.fault {
			case "frame-short":
				k := 3
				if s.variant == "seven-bytes" {
					k = 7
				} else if s.variant == "empty" {
					k = 0
				}
				conn.WriteToUDP(udpFrame(idx, okPayload, len(okPayload), false)[:k], addr)
			case "frame-bad-crc":
				conn.WriteToUDP(udpFrame(idx, okPayload, len(okPayload), true), addr)
			case "frame-length":
				if s.variant == "declares-more" {
					conn.WriteToUDP(udpFrame(idx, okPayload, len(okPayload)+50, false), addr)
				} else {
					conn.WriteToUDP(udpFrame(idx, okPayload, 3, false), addr)
				}
			case "bad-payload":
				p := badPayload(s.variant)
				conn.WriteToUDP(udpFrame(idx, p, len(p), false), addr)
			}
		}
	}
}

func (s *scripted) serveWS(conn *websocket.Conn) {
	var mu sync.Mutex
	write := func(b []byte) { mu.Lock(); conn.WriteMessage(websocket.BinaryMessage, b); mu.Unlock() }
	for {
		_, msg, err := conn.ReadMessage()
		if err != nil {
			conn.Close()
			return
		}
		if len(msg) < 4 {
			continue
		}
		idx := binary.BigEndian.Uint32(msg[:4])
		switch kindOf(msg[4:]) {
		case "slow":
			go func() { s.hold(); write(wsFrame(idx, okPayload)) }()
		case "plain":
			write(wsFrame(idx, okPayload))
		case "fault":
			switch s.fault {
			case "frame-short":
				k := 2
				if s.variant == "empty" {
					k = 0
				} else if s.variant == "three-bytes" {
					k = 3
				}
				write(wsFrame(idx, okPayload)[:k])
			case "frame-length":
				mu.Lock()
				uc := conn.UnderlyingConn()
				uc.Write(append([]byte{0x82, 100}, bytes.Repeat([]byte{0x55}, 10)...))
				uc.Close()
				mu.Unlock()
				return
			case "bad-payload":
				write(wsFrame(idx, badPayload(s.variant)))
			}
		}
	}
}

func (s *scripted) serveHTTP(conn net.Conn) {
	defer conn.Close()
	br := bufio.NewReader(conn)
	for {
		req, err := http.ReadRequest(br)
		if err != nil {
			return
		}
		body, _ := ioutil.ReadAll(req.Body)
		reply := func(declared int, payload []byte) {
			fmt.Fprintf(conn, "HTTP/1.1 200 OK\r\nContent-Type: text/plain\r\nContent-Length: %d\r\n\r\n", declared)
			conn.Write(payload)
		}
		switch kindOf(body) {
		case "slow":
			s.hold()
			reply(len(okPayload), okPayload)
		case "plain":
			reply(len(okPayload), okPayload)
		case "fault":
			switch s.fault {
			case "frame-length":
				if s.variant == "declares-more" {
					reply(len(okPayload)+50, okPayload)
					return
				}
				reply(3, okPayload)
				return
			case "bad-payload":
				p := badPayload(s.variant)
				reply(len(p), p)
			}
		}
	}
}

// ---------------------------------------------------------------- scenario: malformed responses to a real client

func scenarioClientScripted(c *c11Case) error {
	s, err := startScripted(c)
	if err != nil {
		return err
	}
	h, err := startReal(c.Transport, false, nil) // a healthy server of the same kind for the other connection
	if err != nil {
		return err
	}
	a, b := newClient(s.url), newClient(h.url)
	slowClose(a, func() string { return call(a, "echo", "ok", "during") })
	theObs.Before["same"] = call(a, "echo", "ok", "before-a")
	theObs.Before["other"] = echo(b, "before-b")
	ia, ib := make(chan string, 1), make(chan string, 1)
	go func() { ia <- call(a, "slow", "ok", "a") }()
	go func() { ib <- call(b, "slow", "slow:b", "b") }()
	waitEntered(s.entered, 1, "slow@scripted")
	waitEntered(h.entered, 1, "slow@healthy")
	theObs.Fault = call(a, "echo", "", "FAULT")
	s.releaseAll()
	h.releaseAll()
	theObs.InflightSame = collect(ia)
	theObs.InflightOther = collect(ib)
	theObs.AfterSame = call(a, "echo", "ok", "after-a")
	theObs.AfterOther = echo(b, "after-b")
	theObs.AfterFresh = call(newClient(s.url), "echo", "ok", "after-c")
	collectDuring()
	return nil
}

// ---------------------------------------------------------------- scenario: a request too large for the transport

func scenarioClientOversize(c *c11Case) error {
	h, err := startReal(c.Transport, false, nil)
	if err != nil {
		return err
	}
	a, b := newClient(h.url), newClient(h.url)
	slowClose(a, func() string { return echo(a, "during") })
	theObs.Before["same"] = echo(a, "before-a")
	theObs.Before["other"] = echo(b, "before-b")
	ia, ib := make(chan string, 1), make(chan string, 1)
	go func() { ia <- call(a, "slow", "slow:a", "a") }()
	go func() { ib <- call(b, "slow", "slow:b", "b") }()
	waitEntered(h.entered, 2, "slow")
	n := 70000
	if sz, ok := sizeVariant(c.Variant); ok {
		n = argLenForRequest(sz)
	}
	recordRequestLength(a)
	theObs.Fault = echo(a, strings.Repeat("q", n))
	h.releaseAll()
	theObs.InflightSame = collect(ia)
	theObs.InflightOther = collect(ib)
	theObs.AfterSame = echo(a, "after-a")
	theObs.AfterOther = echo(b, "after-b")
	theObs.AfterFresh = echo(newClient(h.url), "after-c")
	collectDuring()
	return nil
}

// ---------------------------------------------------------------- scenario: reverse provider

func scenarioProvider(c *c11Case) error {
	panicKind = c.Variant
	if panicKind == "" {
		panicKind = "string"
	}
	s, err := startReal(c.Transport, false, nil)
	if err != nil {
		return err
	}
	caller := reverse.NewCaller(s.service)
	caller.Timeout = callerTimeout
	p := rpc.NewClient(s.url)
	provider := reverse.NewProvider(p, "1")
	pEntered := make(chan string, 4)
	pRelease := make(chan struct{})
	provider.AddFunction(func(name string) string { return "hello " + name }, "hello")
	provider.AddFunction(func(tag string) string {
		pEntered <- tag
		select {
		case <-pRelease:
		case <-time.After(15 * time.Second):
		}
		return "pslow:" + tag
	}, "slow")
	provider.AddFunction(func(kind string) string { doPanic(kind); return "unreachable" }, "boom")
	if c.Variant == "provider-plugin" {
		provider.Use(func(ctx context.Context, name string, args []interface{}, next core.NextInvokeHandler) ([]interface{}, error) {
			if name == "boom" {
				doPanic("string")
			}
			return next(ctx, name, args)
		})
	}
	if c.Variant == "provider-missing" {
		provider.AddMissingMethod(func(name string, args []interface{}) ([]interface{}, error) {
			doPanic("string")
			return nil, nil
		})
	}
	go provider.Listen()
	for i := 0; i < 100 && !caller.Exists("1"); i++ {
		time.Sleep(20 * time.Millisecond)
	}
	strT := reflect.TypeOf("")
	pcall := func(name, want string, arg string) string {
		return guard(func() string {
			res, err := caller.Invoke("1", name, []interface{}{arg}, strT)
			if err != nil {
				return "err:" + short(err.Error())
			}
			got := ""
			if len(res) > 0 {
				got = fmt.Sprintf("%v", res[0])
			}
			if want != "" && got != want {
				return "wrong:" + short(got)
			}
			return "ok"
		})
	}
	b := newClient(s.url)
	theObs.Before["same"] = pcall("hello", "hello x", "x")
	theObs.Before["other"] = echo(b, "before-b")
	ia, ib := make(chan string, 1), make(chan string, 1)
	go func() { ia <- pcall("slow", "pslow:a", "a") }()
	go func() { ib <- call(b, "slow", "slow:b", "b") }()
	waitEntered(pEntered, 1, "slow@provider")
	waitEntered(s.entered, 1, "slow@service")
	if c.Variant == "provider-missing" {
		theObs.Fault = pcall("nosuch", "", "x")
	} else {
		theObs.Fault = pcall("boom", "", panicKindOr(c.Variant))
	}
	close(pRelease)
	s.releaseAll()
	theObs.InflightSame = collect(ia)
	theObs.InflightOther = collect(ib)
	theObs.AfterSame = pcall("hello", "hello y", "y")
	theObs.AfterOther = echo(b, "after-b")
	theObs.AfterFresh = echo(newClient(s.url), "after-c")
	return nil
}

func panicKindOr(v string) string {
	if v == "" || v == "provider-plugin" || v == "provider-missing" {
		return "string"
	}
	return v
}

// ---------------------------------------------------------------- sized messages

// variant "size=N": the ENCODED request (resp. response) shall be N bytes long
func sizeVariant(v string) (int, bool) {
	if strings.HasPrefix(v, "size=") {
		n, err := strconv.Atoi(v[5:])
		return n, err == nil
	}
	return 0, false
}

// Cs4"echo"a1{s<n>"q...q"}z : 17 bytes + the digits of n + n
func argLenForRequest(total int) int {
	for n := total; n > 0; n-- {
		if 17+len(strconv.Itoa(n))+n == total {
			return n
		}
	}
	return 1
}

// Rs<n>"R...R"z : 5 bytes + the digits of n + n
func resultLenForResponse(total int) int {
	for n := total; n > 0; n-- {
		if 5+len(strconv.Itoa(n))+n == total {
			return n
		}
	}
	return 1
}

// the encoded length of what the client really sends, measured on the client's own IO chain
func recordRequestLength(c *core.Client) {
	c.Use(func(ctx context.Context, request []byte, next core.NextIOHandler) ([]byte, error) {
		if bytes.Contains(request, []byte("qqqqqqqq")) {
			obsMu.Lock()
			theObs.ReqLen = len(request)
			obsMu.Unlock()
		}
		return next(ctx, request)
	})
}

// ---------------------------------------------------------------- teardown window

var duringCh = make(chan string, 1)
var duringFired int32

// slowClose installs a slow OnClose hook on the client's multiplexing transport.  When the client tears a
// connection down, the hook issues one sentinel call on the same client (from its own goroutine) and keeps the
// teardown busy for 300 ms, so that the sentinel falls into the window in which the dying connection is closed
// but its pending calls are not failed yet.
func slowClose(c *core.Client, sentinel func() string) {
	fire := func() {
		if atomic.CompareAndSwapInt32(&duringFired, 0, 1) {
			go func() { duringCh <- sentinel() }()
		}
		time.Sleep(300 * time.Millisecond)
	}
	if t, ok := c.GetTransport("socket").(*rpcsocket.Transport); ok && t != nil {
		t.OnClose = func(net.Conn) { fire() }
	}
	if t, ok := c.GetTransport("udp").(*rpcudp.Transport); ok && t != nil {
		t.OnClose = func(net.Conn) { fire() }
	}
	if t, ok := c.GetTransport("websocket").(*rpcws.Transport); ok && t != nil {
		t.OnClose = func(*websocket.Conn) { fire() }
	}
}

func collectDuring() {
	if atomic.LoadInt32(&duringFired) == 0 {
		return
	}
	select {
	case r := <-duringCh:
		theObs.During = r
	case <-time.After(callGuard + time.Second):
		theObs.During = "hang"
	}
}

// ---------------------------------------------------------------- scenario: push subscriber callback

func scenarioSubscriber(c *c11Case) error {
	panicKind = c.Variant
	if panicKind == "" {
		panicKind = "string"
	}
	s, err := startReal(c.Transport, false, c)
	if err != nil {
		return err
	}
	ca, cb := newClient(s.url), newClient(s.url)
	gotA, gotB := make(chan string, 8), make(chan string, 8)
	pa := push.NewProsumer(ca, "A")
	pa.RetryInterval = 10 * time.Millisecond
	pb := push.NewProsumer(cb, "B")
	pb.RetryInterval = 10 * time.Millisecond
	if _, err := pa.Subscribe("t", func(data string) {
		if data == "BOOM" {
			doPanic(panicKind)
		}
		gotA <- data
	}); err != nil {
		return err
	}
	if _, err := pb.Subscribe("t", func(data string) { gotB <- data }); err != nil {
		return err
	}
	deliver := func(id, data string, got chan string) string {
		return guard(func() string {
			r := s.broker.Push(data, "t", id)
			if !r[id] {
				return "err:broker could not queue the message for " + id
			}
			select {
			case d := <-got:
				if d != data {
					return "wrong:" + short(d)
				}
				return "ok"
			case <-time.After(clientTimeout + time.Second):
				return "err:timeout: message not delivered"
			}
		})
	}
	b := newClient(s.url)
	// (over the mock transport a subscriber is marked offline after its first delivery — the request context the
	// broker's heartbeat hangs on ends with the call; so the faulty message is A's first one on every transport)
	theObs.Before["same"] = echo(ca, "before-a")
	theObs.Before["other"] = echo(cb, "before-b")
	ia, ib := make(chan string, 1), make(chan string, 1)
	go func() { ia <- call(ca, "slow", "slow:a", "a") }() // a call in flight on the subscriber's own client
	go func() { ib <- call(b, "slow", "slow:b", "b") }()
	waitEntered(s.entered, 2, "slow")
	// the fault: a message whose delivery makes A's callback panic
	r := s.broker.Push("BOOM", "t", "A")
	if !r["A"] {
		note("broker could not queue the faulty message")
	}
	time.Sleep(300 * time.Millisecond)
	theObs.Fault = "n/a"
	s.releaseAll()
	theObs.InflightSame = collect(ia)
	theObs.InflightOther = collect(ib)
	if c.Transport == "mock" {
		theObs.AfterSame = echo(ca, "after-a")
	} else {
		theObs.AfterSame = deliver("A", "after-a", gotA) // the subscriber keeps receiving
	}
	theObs.AfterOther = deliver("B", "hello-b", gotB)
	theObs.AfterFresh = echo(newClient(s.url), "after-c")
	return nil
}
