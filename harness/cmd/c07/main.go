// hv-c07: implementation side of C07 (RPC codec round trip).
// One JSON case per line.  The real client codec encodes a call (name, arguments, headers); the real
// service codec decodes it against a real Service with a method of the case's signature; the real service
// codec encodes the case's result / error (directly, and through Service.Handle with a scripted function);
// the real client codec decodes the response.  Everything is only OBSERVED here (bytes, decoded values
// printed by the reflection walker, error texts, panics) together with independent oracles: the plain
// io round trip of every value into its expected type, and the property's normalising equality.
package main

import (
	"context"
	"encoding/hex"
	"encoding/json"
	"errors"
	"fmt"
	"os"
	"reflect"
	"sort"
	"strings"

	hio "github.com/hprose/hprose-golang/v3/io"
	"github.com/hprose/hprose-golang/v3/rpc/codec/jsonrpc"
	"github.com/hprose/hprose-golang/v3/rpc/core"
	"hv/hvlib"
)

type methodJ struct {
	ID       int    `json:"id"`
	Name     string `json:"name"` // hex: the alias it is registered under
	Missing  bool   `json:"missing"`
	Ctx      bool   `json:"ctx"`
	Params   []int  `json:"params"` // indexes into types
	Variadic bool   `json:"variadic"`
	Results  []int  `json:"results"`
	Err      bool   `json:"err"`
}

type resJ struct {
	Kind   string `json:"kind"` // values | error | panic
	Values []valJ `json:"values"`
	Msg    string `json:"msg"` // hex
}

type c07Case struct {
	ID      int       `json:"id"`
	Codec   string    `json:"codec"` // hprose | jsonrpc
	Copts   optsJ     `json:"copts"`
	Sopts   optsJ     `json:"sopts"`
	Types   []*TD     `json:"types"`
	Methods []methodJ `json:"methods"`
	Call    string    `json:"call"` // hex
	Args    []valJ    `json:"args"`
	Want    []int     `json:"want"` // expected type of each argument: index into types, -1 = interface{}
	Hdrs    []hdrJ    `json:"hdrs"`
	Rhdrs   []hdrJ    `json:"rhdrs"`
	Res     resJ      `json:"res"`
	Rtypes  []int     `json:"rtypes"`
	RtDef   bool      `json:"rt_default"` // ReturnType as Client.Invoke leaves it: [interface{}]
}

type encObs struct {
	Hex   string `json:"hex,omitempty"`
	Err   string `json:"err,omitempty"`
	Panic string `json:"panic,omitempty"`
}

type decObs struct {
	Failed  bool     `json:"failed"`
	Name    string   `json:"name"` // hex
	Method  int      `json:"method"`
	Err     string   `json:"err,omitempty"`
	Panic   string   `json:"panic,omitempty"`
	Hdrs    []kv     `json:"hdrs"`
	HdrSigs []kv     `json:"hdr_sigs"`
	Args    []tv     `json:"args"`
	Eq      []string `json:"eq"` // property oracle per argument ("" = equal)
	HdrEq   []string `json:"hdr_eq"`
	NilArgs bool     `json:"nil_args"`
}

type cdecObs struct {
	Failed  bool     `json:"failed"`
	Results []tv     `json:"results"`
	Err     string   `json:"err,omitempty"`
	ErrKind string   `json:"err_kind,omitempty"` // timeout | decode | panicerror | jsonrpc | other
	Stack   string   `json:"stack,omitempty"`
	Panic   string   `json:"panic,omitempty"`
	Hdrs    []kv     `json:"hdrs"`
	HdrSigs []kv     `json:"hdr_sigs"`
	Eq      []string `json:"eq"`
}

type jenv struct {
	ID        int64  `json:"id"`
	Method    string `json:"method,omitempty"` // hex
	HasParams bool   `json:"has_params,omitempty"`
	NParams   int    `json:"nparams,omitempty"`
	HasHdrs   bool   `json:"has_hdrs,omitempty"`
	HasResult bool   `json:"has_result,omitempty"`
	HasError  bool   `json:"has_error,omitempty"`
	Code      int64  `json:"code,omitempty"`
	Message   string `json:"message,omitempty"` // hex
	HasData   bool   `json:"has_data,omitempty"`
	BadJSON   string `json:"bad_json,omitempty"`
}

type c07Obs struct {
	ID         int      `json:"id"`
	BuildErr   string   `json:"build_err,omitempty"`
	Heap       string   `json:"heap"`
	ArgsSx     []string `json:"args_sx"`
	HdrsSx     []kv     `json:"hdrs_sx"`
	ResSx      []string `json:"res_sx"`
	RhdrsSx    []kv     `json:"rhdrs_sx"`
	Unordered  bool     `json:"unordered,omitempty"`
	Unsup      string   `json:"unsup,omitempty"`
	TypeNames  []string `json:"type_names"`
	Lower      []kv     `json:"lower"` // strings.ToLower of every name involved (hex -> hex)
	Req        encObs   `json:"req"`
	Dec        decObs   `json:"dec"`
	OrArgs     []tv     `json:"or_args"`
	OrHdrs     []kv     `json:"or_hdrs"`
	OrHdrSigs  []kv     `json:"or_hdr_sigs"`
	Resp       encObs   `json:"resp"`
	RespH      encObs   `json:"resp_handle"`
	HandleLog  []string `json:"handle_log"` // invocations seen by the scripted functions during Handle
	Cdec       cdecObs  `json:"cdec"`
	OrRes      []tv     `json:"or_res"`
	OrRhdrs    []kv     `json:"or_rhdrs"`
	OrRhdrSigs []kv     `json:"or_rhdr_sigs"`
	Zeros      []tv     `json:"zeros"`
	JReq       *jenv    `json:"jreq,omitempty"`
	JResp      *jenv    `json:"jresp,omitempty"`
}

type built struct {
	types  []reflect.Type
	args   []reflect.Value
	hdrs   []reflect.Value
	rhdrs  []reflect.Value
	res    []reflect.Value
	rtypes []reflect.Type
}

func runCase(line []byte, out *json.Encoder) error {
	var c c07Case
	if err := json.Unmarshal(line, &c); err != nil {
		return err
	}
	hvlib.Begin(c.ID)
	obs := c07Obs{ID: c.ID}
	b, err := build(&c)
	if err != nil {
		obs.BuildErr = err.Error()
		return out.Encode(&obs)
	}
	describeAll(&c, b, &obs)
	for _, t := range b.types {
		obs.TypeNames = append(obs.TypeNames, t.String())
	}
	names := map[string]bool{unhexs(c.Call): true, "*": true, "~": true}
	for _, m := range c.Methods {
		names[unhexs(m.Name)] = true
	}
	for n := range names {
		obs.Lower = append(obs.Lower, kv{hexs(n), hexs(strings.ToLower(n))})
	}
	sort.Slice(obs.Lower, func(i, j int) bool { return obs.Lower[i].K < obs.Lower[j].K })

	// ---- the service and its methods
	service := core.NewService()
	var log []string
	ids := map[string]int{} // lower-cased alias -> id
	var missingID = -1
	for i := range c.Methods {
		m := c.Methods[i]
		if m.Missing {
			missingID = m.ID
			id := m.ID
			if m.Ctx {
				service.AddMissingMethod(func(ctx context.Context, name string, args []interface{}) ([]interface{}, error) {
					log = append(log, fmt.Sprintf("%d missing %s %s", id, hexs(name), unfoldI(args)))
					return scripted(&c, b)
				})
			} else {
				service.AddMissingMethod(func(name string, args []interface{}) ([]interface{}, error) {
					log = append(log, fmt.Sprintf("%d missing %s %s", id, hexs(name), unfoldI(args)))
					return scripted(&c, b)
				})
			}
			continue
		}
		f, e := makeFunc(&c, b, m, &log)
		if e != nil {
			obs.BuildErr = e.Error()
			return out.Encode(&obs)
		}
		service.AddFunction(f, unhexs(m.Name))
		ids[strings.ToLower(unhexs(m.Name))] = m.ID
	}
	methodID := func(m core.Method) int {
		if m == nil {
			return -1
		}
		if m.Missing() {
			return missingID
		}
		if id, ok := ids[strings.ToLower(m.Name())]; ok {
			return id
		}
		return -2
	}

	var cc core.ClientCodec
	var sc core.ServiceCodec
	if c.Codec == "jsonrpc" {
		cc = jsonrpc.NewClientCodec(nil)
		sc = jsonrpc.NewServiceCodec(nil, codecOptions(c.Sopts, true)...)
	} else {
		cc = core.NewClientCodec(codecOptions(c.Copts, false)...)
		sc = core.NewServiceCodec(codecOptions(c.Sopts, true)...)
	}
	service.Codec = sc

	// ---- request: client Encode
	clientCtx := core.NewClientContext()
	for i, h := range c.Hdrs {
		clientCtx.RequestHeaders().Set(unhexs(h.K), ifaceOf(b.hdrs[i]))
	}
	args := make([]interface{}, len(b.args))
	for i, a := range b.args {
		args[i] = ifaceOf(a)
	}
	var req []byte
	obs.Req.Panic = safely(func() {
		r, e := cc.Encode(unhexs(c.Call), args, clientCtx)
		if e != nil {
			obs.Req.Err = e.Error()
		}
		req = append([]byte{}, r...)
	})
	obs.Req.Hex = hex.EncodeToString(req)
	if c.Codec == "jsonrpc" {
		obs.JReq = parseJReq(req)
	}

	// ---- request: service Decode
	serviceCtx := core.NewServiceContext(service)
	var decName string
	var decArgs []interface{}
	obs.Dec.Method = -1
	obs.Dec.Panic = safely(func() {
		n, a, e := sc.Decode(req, serviceCtx)
		decName, decArgs = n, a
		if e != nil {
			obs.Dec.Err = e.Error()
			obs.Dec.Failed = true
		}
	})
	obs.Dec.Name = hexs(decName)
	obs.Dec.Method = methodID(serviceCtx.Method)
	obs.Dec.NilArgs = decArgs == nil
	obs.Dec.Hdrs = sortedKV(serviceCtx.RequestHeaders().ToMap(), unfoldI)
	obs.Dec.HdrSigs = sortedKV(serviceCtx.RequestHeaders().ToMap(), typeSig)
	for i, a := range decArgs {
		obs.Dec.Args = append(obs.Dec.Args, tv{Ty: typeName(a), V: unfoldI(a), Sig: typeSig(a)})
		if i < len(b.args) {
			obs.Dec.Eq = append(obs.Dec.Eq, equalTo(b.args[i], a))
		}
	}
	decH := serviceCtx.RequestHeaders().ToMap()
	for i, h := range c.Hdrs {
		got, ok := decH[unhexs(h.K)]
		if !ok {
			obs.Dec.HdrEq = append(obs.Dec.HdrEq, "header missing")
		} else {
			obs.Dec.HdrEq = append(obs.Dec.HdrEq, equalTo(b.hdrs[i], got))
		}
	}

	// ---- oracles for the request: plain round trips into the expected types
	rt := func(v interface{}, t reflect.Type, writerSimple bool, readerOpts optsJ) (interface{}, string) {
		if c.Codec == "jsonrpc" {
			return jsonRoundTrip(v, t)
		}
		return ioRoundTrip(v, t, writerSimple, readerOpts)
	}
	wantT := make([]reflect.Type, len(args))
	wantN := make([]string, len(args))
	for i := range args {
		wantN[i] = "interface {}"
		if i < len(c.Want) && c.Want[i] >= 0 {
			wantT[i] = b.types[c.Want[i]]
			wantN[i] = wantT[i].String()
		}
	}
	var joint []interface{}
	var jerrs []string
	if c.Codec != "jsonrpc" && len(args) > 0 {
		joint, jerrs = ioTupleRoundTrip(args, wantT, c.Copts.Simple, c.Sopts)
	}
	for i, a := range args {
		e := tv{Ty: wantN[i]}
		so, se := rt(a, wantT[i], c.Copts.Simple, c.Sopts)
		if se != "" {
			e.SoloErr = se
		} else {
			e.Solo, e.SoloEq = unfoldI(so), equalTo(b.args[i], so)
		}
		if joint == nil {
			// JSON-RPC: every parameter makes its own trip
			e.V, e.Eq, e.Err = e.Solo, e.SoloEq, e.SoloErr
		} else if jerrs[i] != "" {
			e.Err = jerrs[i]
		} else {
			e.V, e.Eq, e.Sig = unfoldI(joint[i]), equalTo(b.args[i], joint[i]), typeSig(joint[i])
		}
		if joint == nil && se == "" {
			e.Sig = typeSig(so)
		}
		obs.OrArgs = append(obs.OrArgs, e)
	}
	if len(c.Hdrs) > 0 {
		if c.Codec == "jsonrpc" {
			for i, h := range c.Hdrs {
				o, e := rt(ifaceOf(b.hdrs[i]), nil, c.Copts.Simple, c.Sopts)
				if e != "" {
					obs.OrHdrs = append(obs.OrHdrs, kv{h.K, "ERR " + e})
				} else {
					obs.OrHdrs = append(obs.OrHdrs, kv{h.K, unfoldI(o)})
				}
			}
		} else {
			hm := map[string]interface{}{}
			for i, h := range c.Hdrs {
				hm[unhexs(h.K)] = ifaceOf(b.hdrs[i])
			}
			om, e := ioHeadersRoundTrip(hm, c.Copts.Simple, c.Sopts)
			for _, h := range c.Hdrs {
				if e != "" {
					obs.OrHdrs = append(obs.OrHdrs, kv{h.K, "ERR " + e})
				} else {
					obs.OrHdrs = append(obs.OrHdrs, kv{h.K, unfoldI(om[unhexs(h.K)])})
					obs.OrHdrSigs = append(obs.OrHdrSigs, kv{h.K, typeSig(om[unhexs(h.K)])})
				}
			}
		}
	}

	// ---- response: service Encode of the case's outcome, directly ...
	var result interface{}
	switch c.Res.Kind {
	case "error":
		result = errors.New(unhexs(c.Res.Msg))
	case "panic":
		result = &core.PanicError{Panic: unhexs(c.Res.Msg), Stack: []byte("STACK")}
	default:
		// Service.Process: switch len(results) { case 0: nil; case 1: results[0]; default: results }
		switch len(b.res) {
		case 0:
			result = nil
		case 1:
			result = ifaceOf(b.res[0])
		default:
			l := make([]interface{}, len(b.res))
			for i, r := range b.res {
				l[i] = ifaceOf(r)
			}
			result = l
		}
	}
	// the response context: the one that decoded the request (it carries the JSON-RPC id)
	for i, h := range c.Rhdrs {
		serviceCtx.ResponseHeaders().Set(unhexs(h.K), ifaceOf(b.rhdrs[i]))
	}
	var resp []byte
	obs.Resp.Panic = safely(func() {
		r, e := sc.Encode(result, serviceCtx)
		if e != nil {
			obs.Resp.Err = e.Error()
		}
		resp = append([]byte{}, r...)
	})
	obs.Resp.Hex = hex.EncodeToString(resp)
	if c.Codec == "jsonrpc" {
		obs.JResp = parseJResp(resp)
	}

	// ... and through Service.Handle (Decode, Execute the scripted function, result shaping, Encode)
	if obs.Req.Panic == "" {
		ctx2 := core.NewServiceContext(service)
		for i, h := range c.Rhdrs {
			ctx2.ResponseHeaders().Set(unhexs(h.K), ifaceOf(b.rhdrs[i]))
		}
		obs.RespH.Panic = safely(func() {
			r, e := service.Handle(core.WithContext(context.Background(), ctx2), req)
			if e != nil {
				obs.RespH.Err = e.Error()
			}
			obs.RespH.Hex = hex.EncodeToString(r)
		})
		obs.HandleLog = log
	}

	// ---- response: client Decode
	clientCtx2 := core.NewClientContext()
	if c.RtDef {
		clientCtx2.ReturnType = []reflect.Type{ifaceType}
	} else {
		clientCtx2.ReturnType = b.rtypes
		if clientCtx2.ReturnType == nil {
			clientCtx2.ReturnType = []reflect.Type{}
		}
	}
	var results []interface{}
	obs.Cdec.Panic = safely(func() {
		r, e := cc.Decode(resp, clientCtx2)
		results = r
		if e != nil {
			obs.Cdec.Err = e.Error()
			obs.Cdec.Failed = true
			switch x := e.(type) {
			case *core.PanicError:
				obs.Cdec.ErrKind = "panicerror"
				obs.Cdec.Stack = hexs(string(x.Stack))
			case hio.DecodeError:
				obs.Cdec.ErrKind = "decode"
			default:
				if e == core.ErrTimeout {
					obs.Cdec.ErrKind = "timeout"
				} else if strings.HasPrefix(e.Error(), "hprose/rpc/codec/jsonrpc: ") {
					obs.Cdec.ErrKind = "jsonrpc"
				} else {
					obs.Cdec.ErrKind = "other"
				}
			}
		}
	})
	obs.Cdec.Hdrs = sortedKV(clientCtx2.ResponseHeaders().ToMap(), unfoldI)
	obs.Cdec.HdrSigs = sortedKV(clientCtx2.ResponseHeaders().ToMap(), typeSig)
	for i, r := range results {
		obs.Cdec.Results = append(obs.Cdec.Results, tv{Ty: typeName(r), V: unfoldI(r), Sig: typeSig(r)})
		if len(clientCtx2.ReturnType) == 1 && len(b.res) != 1 {
			continue // one declared type for none / several results: compared by the check through the oracle
		}
		if i < len(b.res) {
			obs.Cdec.Eq = append(obs.Cdec.Eq, equalTo(b.res[i], r))
		}
	}

	// ---- oracles for the response
	rts := clientCtx2.ReturnType
	switch {
	case len(rts) == 1:
		o, e := rt(result, rts[0], c.Sopts.Simple, c.Copts)
		if _, isErr := result.(error); !isErr {
			if e != "" {
				obs.OrRes = append(obs.OrRes, tv{Ty: rts[0].String(), Err: e})
			} else {
				t := tv{Ty: rts[0].String(), V: unfoldI(o), Sig: typeSig(o)}
				if len(b.res) == 1 {
					t.Eq = equalTo(b.res[0], o)
				}
				obs.OrRes = append(obs.OrRes, t)
			}
		}
	case len(rts) >= 2:
		vals := make([]interface{}, len(b.res))
		for i, r := range b.res {
			vals[i] = ifaceOf(r)
		}
		var joint []interface{}
		var jerrs []string
		if c.Codec != "jsonrpc" && len(vals) >= 2 {
			joint, jerrs = ioTupleRoundTrip(vals, rts, c.Sopts.Simple, c.Copts)
		}
		for i, r := range b.res {
			if i >= len(rts) {
				break
			}
			e := tv{Ty: rts[i].String()}
			so, se := rt(ifaceOf(r), rts[i], c.Sopts.Simple, c.Copts)
			if se != "" {
				e.SoloErr = se
			} else {
				e.Solo, e.SoloEq = unfoldI(so), equalTo(r, so)
			}
			if joint == nil {
				e.V, e.Eq, e.Err = e.Solo, e.SoloEq, e.SoloErr
			} else if jerrs[i] != "" {
				e.Err = jerrs[i]
			} else {
				e.V, e.Eq, e.Sig = unfoldI(joint[i]), equalTo(r, joint[i]), typeSig(joint[i])
			}
			if joint == nil && se == "" {
				e.Sig = typeSig(so)
			}
			obs.OrRes = append(obs.OrRes, e)
		}
	}
	for i, h := range c.Rhdrs {
		o, e := rt(ifaceOf(b.rhdrs[i]), nil, c.Sopts.Simple, c.Copts)
		if e != "" {
			obs.OrRhdrs = append(obs.OrRhdrs, kv{h.K, "ERR " + e})
		} else {
			obs.OrRhdrs = append(obs.OrRhdrs, kv{h.K, unfoldI(o)})
			obs.OrRhdrSigs = append(obs.OrRhdrSigs, kv{h.K, typeSig(o)})
		}
	}
	for _, t := range rts {
		z := reflect.New(t).Elem()
		obs.Zeros = append(obs.Zeros, tv{Ty: t.String(), V: unfoldI(z.Interface())})
	}
	return out.Encode(&obs)
}

func build(c *c07Case) (*built, error) {
	b := &built{}
	for _, td := range c.Types {
		t, err := typeOf(td)
		if err != nil {
			return nil, err
		}
		b.types = append(b.types, t)
	}
	bl := &builder{ptrs: map[int]reflect.Value{}}
	mk := func(v valJ) (reflect.Value, error) {
		t, err := typeOf(v.T)
		if err != nil {
			return reflect.Value{}, err
		}
		holder := reflect.New(t)
		if err := bl.fill(holder.Elem(), v.V); err != nil {
			return reflect.Value{}, err
		}
		return holder.Elem(), nil
	}
	for _, a := range c.Args {
		v, err := mk(a)
		if err != nil {
			return nil, fmt.Errorf("arg: %v", err)
		}
		b.args = append(b.args, v)
	}
	// the same order as the generator's: a value may refer to a pointer defined by an earlier one
	for _, r := range c.Res.Values {
		v, err := mk(r)
		if err != nil {
			return nil, fmt.Errorf("res: %v", err)
		}
		b.res = append(b.res, v)
	}
	for _, h := range c.Hdrs {
		v, err := mk(h.V)
		if err != nil {
			return nil, fmt.Errorf("hdr: %v", err)
		}
		b.hdrs = append(b.hdrs, v)
	}
	for _, h := range c.Rhdrs {
		v, err := mk(h.V)
		if err != nil {
			return nil, fmt.Errorf("rhdr: %v", err)
		}
		b.rhdrs = append(b.rhdrs, v)
	}
	if c.Rtypes != nil {
		b.rtypes = []reflect.Type{}
		for _, i := range c.Rtypes {
			if i < 0 {
				b.rtypes = append(b.rtypes, ifaceType)
			} else {
				b.rtypes = append(b.rtypes, b.types[i])
			}
		}
	}
	return b, nil
}

// describeAll prints every input value with ONE walker, so that a pointer shared by arguments, headers
// and results has one identity in the model's heap.
func describeAll(c *c07Case, b *built, obs *c07Obs) {
	w := &walker{ids: map[ptrKey]int{}}
	one := func(v reflect.Value) string {
		iv := reflect.New(ifaceType).Elem()
		if x := ifaceOf(v); x != nil {
			iv.Set(reflect.ValueOf(x))
		}
		return w.walk(iv)
	}
	for _, a := range b.args {
		obs.ArgsSx = append(obs.ArgsSx, one(a))
	}
	for i, h := range c.Hdrs {
		obs.HdrsSx = append(obs.HdrsSx, kv{h.K, one(b.hdrs[i])})
	}
	for _, r := range b.res {
		obs.ResSx = append(obs.ResSx, one(r))
	}
	for i, h := range c.Rhdrs {
		obs.RhdrsSx = append(obs.RhdrsSx, kv{h.K, one(b.rhdrs[i])})
	}
	var sb strings.Builder
	sb.WriteString("(heap")
	for i, h := range w.heap {
		fmt.Fprintf(&sb, " (%d %s)", i+1, h)
	}
	sb.WriteString(")")
	obs.Heap = sb.String()
	obs.Unordered = w.unordered
	obs.Unsup = w.unsup
}

var ctxType = reflect.TypeOf((*context.Context)(nil)).Elem()

// the outcome of the scripted functions: the case's results / error / panic
func scripted(c *c07Case, b *built) ([]interface{}, error) {
	switch c.Res.Kind {
	case "error":
		return nil, errors.New(unhexs(c.Res.Msg))
	case "panic":
		panic(unhexs(c.Res.Msg))
	}
	out := make([]interface{}, len(b.res))
	for i, r := range b.res {
		out[i] = ifaceOf(r)
	}
	return out, nil
}

// makeFunc builds a function of the case's signature with reflect.FuncOf / MakeFunc; it logs its arguments
// and returns the case's results.
func makeFunc(c *c07Case, b *built, m methodJ, log *[]string) (reflect.Value, error) {
	var in, outT []reflect.Type
	for _, i := range append(append([]int{}, m.Params...), m.Results...) {
		if i >= len(b.types) {
			return reflect.Value{}, fmt.Errorf("type index %d out of range", i)
		}
	}
	if m.Ctx {
		in = append(in, ctxType)
	}
	for _, i := range m.Params {
		in = append(in, b.types[i])
	}
	for _, i := range m.Results {
		if i < 0 {
			outT = append(outT, ifaceType)
		} else {
			outT = append(outT, b.types[i])
		}
	}
	if m.Err {
		outT = append(outT, errorType)
	}
	if m.Variadic && (len(in) == 0 || in[len(in)-1].Kind() != reflect.Slice) {
		return reflect.Value{}, fmt.Errorf("variadic method needs a final slice parameter")
	}
	ft := reflect.FuncOf(in, outT, m.Variadic)
	id := m.ID
	return reflect.MakeFunc(ft, func(args []reflect.Value) []reflect.Value {
		var sb strings.Builder
		fmt.Fprintf(&sb, "%d call", id)
		for i, a := range args {
			if m.Ctx && i == 0 {
				continue
			}
			sb.WriteString(" " + unfoldI(a.Interface()))
		}
		*log = append(*log, sb.String())
		res := make([]reflect.Value, len(outT))
		for i := range outT {
			res[i] = reflect.Zero(outT[i])
		}
		switch c.Res.Kind {
		case "error":
			if m.Err {
				res[len(outT)-1] = reflect.ValueOf(errors.New(unhexs(c.Res.Msg))).Convert(errorType)
			}
			return res
		case "panic":
			panic(unhexs(c.Res.Msg))
		}
		n := len(outT)
		if m.Err {
			n--
		}
		for i := 0; i < n && i < len(b.res); i++ {
			v := b.res[i]
			if v.Type() == outT[i] {
				res[i] = v
			} else if x := ifaceOf(v); x != nil && reflect.TypeOf(x).AssignableTo(outT[i]) {
				nv := reflect.New(outT[i]).Elem()
				nv.Set(reflect.ValueOf(x))
				res[i] = nv
			}
		}
		return res
	}), nil
}

func parseJReq(req []byte) *jenv {
	var m map[string]json.RawMessage
	e := &jenv{}
	if err := json.Unmarshal(req, &m); err != nil {
		e.BadJSON = err.Error()
		return e
	}
	_ = json.Unmarshal(m["id"], &e.ID)
	var s string
	_ = json.Unmarshal(m["method"], &s)
	e.Method = hexs(s)
	if p, ok := m["params"]; ok {
		e.HasParams = true
		var l []json.RawMessage
		_ = json.Unmarshal(p, &l)
		e.NParams = len(l)
	}
	_, e.HasHdrs = m["headers"]
	return e
}

func parseJResp(resp []byte) *jenv {
	var m map[string]json.RawMessage
	e := &jenv{}
	if err := json.Unmarshal(resp, &m); err != nil {
		e.BadJSON = err.Error()
		return e
	}
	_ = json.Unmarshal(m["id"], &e.ID)
	_, e.HasHdrs = m["headers"]
	if r, ok := m["result"]; ok && string(r) != "null" {
		e.HasResult = true
	}
	if er, ok := m["error"]; ok {
		e.HasError = true
		var em map[string]json.RawMessage
		_ = json.Unmarshal(er, &em)
		_ = json.Unmarshal(em["code"], &e.Code)
		var s string
		_ = json.Unmarshal(em["message"], &s)
		e.Message = hexs(s)
		_, e.HasData = em["data"]
	}
	return e
}

func main() {
	if len(os.Args) > 1 && os.Args[1] == "-types" {
		reg := map[string]*TD{}
		for name, t := range registry {
			reg[name] = descOf(t, true)
		}
		json.NewEncoder(os.Stdout).Encode(reg)
		return
	}
	hvlib.Main(runCase)
}
