package main

import (
	"container/list"
	"encoding/hex"
	"encoding/json"
	"errors"
	"fmt"
	"math"
	"math/big"
	"reflect"
	"strconv"
	"strings"
	"time"

	"github.com/google/uuid"
)

// TD is a type descriptor exchanged with the case generator.
type TD struct {
	K      string `json:"k"`
	E      *TD    `json:"e,omitempty"`
	Key    *TD    `json:"key,omitempty"`
	N      int    `json:"n,omitempty"`
	Name   string `json:"name,omitempty"`
	Fields []FD   `json:"fields,omitempty"`
}

// FD is a field descriptor (anonymous structs, and the exported registry).
type FD struct {
	N     string `json:"n"`
	T     *TD    `json:"t"`
	Tag   string `json:"tag,omitempty"`
	Embed bool   `json:"embed,omitempty"`
	Exp   bool   `json:"exp"`
}

var basicKinds = map[string]reflect.Type{
	"bool": reflect.TypeOf(false), "int": reflect.TypeOf(int(0)), "int8": reflect.TypeOf(int8(0)),
	"int16": reflect.TypeOf(int16(0)), "int32": reflect.TypeOf(int32(0)), "int64": reflect.TypeOf(int64(0)),
	"uint": reflect.TypeOf(uint(0)), "uint8": reflect.TypeOf(uint8(0)), "uint16": reflect.TypeOf(uint16(0)),
	"uint32": reflect.TypeOf(uint32(0)), "uint64": reflect.TypeOf(uint64(0)), "uintptr": reflect.TypeOf(uintptr(0)),
	"float32": reflect.TypeOf(float32(0)), "float64": reflect.TypeOf(float64(0)),
	"complex64": reflect.TypeOf(complex64(0)), "complex128": reflect.TypeOf(complex128(0)),
	"string": reflect.TypeOf(""),
}

func typeOf(td *TD) (reflect.Type, error) {
	if t, ok := basicKinds[td.K]; ok {
		return t, nil
	}
	switch td.K {
	case "slice", "array", "ptr":
		e, err := typeOf(td.E)
		if err != nil {
			return nil, err
		}
		switch td.K {
		case "slice":
			return reflect.SliceOf(e), nil
		case "array":
			return reflect.ArrayOf(td.N, e), nil
		default:
			return reflect.PtrTo(e), nil
		}
	case "map":
		k, err := typeOf(td.Key)
		if err != nil {
			return nil, err
		}
		e, err := typeOf(td.E)
		if err != nil {
			return nil, err
		}
		return reflect.MapOf(k, e), nil
	case "iface":
		return ifaceType, nil
	case "reg":
		if t, ok := registry[td.Name]; ok {
			return t, nil
		}
		return nil, fmt.Errorf("unknown registered type %s", td.Name)
	case "anon":
		var fs []reflect.StructField
		for _, f := range td.Fields {
			ft, err := typeOf(f.T)
			if err != nil {
				return nil, err
			}
			fs = append(fs, reflect.StructField{Name: f.N, Type: ft, Tag: reflect.StructTag(f.Tag)})
		}
		return reflect.StructOf(fs), nil
	case "time":
		return timeType, nil
	case "uuid":
		return uuidType, nil
	case "bigint":
		return bigIntType, nil
	case "bigfloat":
		return bigFloatType, nil
	case "bigrat":
		return bigRatType, nil
	case "list":
		return listType, nil
	case "error":
		return errorType, nil
	}
	return nil, fmt.Errorf("unknown type kind %q", td.K)
}

// descOf: the inverse, used to export the registry (named types are expanded one level).
func descOf(t reflect.Type, expand bool) *TD {
	switch t {
	case timeType:
		return &TD{K: "time"}
	case uuidType:
		return &TD{K: "uuid"}
	case bigIntType:
		return &TD{K: "bigint"}
	case bigFloatType:
		return &TD{K: "bigfloat"}
	case bigRatType:
		return &TD{K: "bigrat"}
	case listType:
		return &TD{K: "list"}
	case ifaceType:
		return &TD{K: "iface"}
	case errorType:
		return &TD{K: "error"}
	}
	if t.Name() != "" && t.PkgPath() == "main" && !expand {
		return &TD{K: "reg", Name: t.Name()}
	}
	switch t.Kind() {
	case reflect.Slice:
		return &TD{K: "slice", E: descOf(t.Elem(), false)}
	case reflect.Array:
		return &TD{K: "array", N: t.Len(), E: descOf(t.Elem(), false)}
	case reflect.Ptr:
		return &TD{K: "ptr", E: descOf(t.Elem(), false)}
	case reflect.Map:
		return &TD{K: "map", Key: descOf(t.Key(), false), E: descOf(t.Elem(), false)}
	case reflect.Struct:
		td := &TD{K: "anon"}
		for i := 0; i < t.NumField(); i++ {
			f := t.Field(i)
			td.Fields = append(td.Fields, FD{N: f.Name, T: descOf(f.Type, false), Tag: string(f.Tag),
				Embed: f.Anonymous, Exp: f.PkgPath == ""})
		}
		return td
	default:
		return &TD{K: t.Kind().String()}
	}
}

type builder struct {
	ptrs map[int]reflect.Value
}

func unhex(s string) ([]byte, error) { return hex.DecodeString(s) }

func (b *builder) build(t reflect.Type, raw json.RawMessage) (reflect.Value, error) {
	v := reflect.New(t).Elem()
	err := b.fill(v, raw)
	return v, err
}

func isNull(raw json.RawMessage) bool { return len(raw) == 0 || string(raw) == "null" }

func (b *builder) fill(v reflect.Value, raw json.RawMessage) error {
	t := v.Type()
	switch t {
	case timeType:
		var d struct {
			Zero bool   `json:"zero"`
			Unix string `json:"unix"`
			Ns   int64  `json:"ns"`
			Zone string `json:"zone"`
		}
		if err := json.Unmarshal(raw, &d); err != nil {
			return err
		}
		if d.Zero {
			return nil
		}
		sec, _ := strconv.ParseInt(d.Unix, 10, 64)
		tm := time.Unix(sec, d.Ns)
		switch {
		case d.Zone == "utc":
			tm = tm.In(time.UTC)
		case d.Zone == "local" || d.Zone == "":
			tm = tm.In(time.Local)
		case strings.HasPrefix(d.Zone, "fixed:"):
			off, _ := strconv.Atoi(d.Zone[6:])
			tm = tm.In(time.FixedZone("X", off))
		}
		v.Set(reflect.ValueOf(tm))
		return nil
	case uuidType:
		var s string
		if err := json.Unmarshal(raw, &s); err != nil {
			return err
		}
		bs, err := unhex(s)
		if err != nil || len(bs) != 16 {
			return errors.New("bad uuid")
		}
		var u uuid.UUID
		copy(u[:], bs)
		v.Set(reflect.ValueOf(u))
		return nil
	case bigIntType:
		var s string
		if err := json.Unmarshal(raw, &s); err != nil {
			return err
		}
		x, ok := new(big.Int).SetString(s, 10)
		if !ok {
			return errors.New("bad bigint")
		}
		v.Set(reflect.ValueOf(*x))
		return nil
	case bigFloatType:
		var d struct {
			S    string `json:"s"`
			Prec uint   `json:"prec"`
		}
		if err := json.Unmarshal(raw, &d); err != nil {
			return err
		}
		x, _, err := big.ParseFloat(d.S, 10, d.Prec, big.ToNearestEven)
		if err != nil {
			return err
		}
		v.Set(reflect.ValueOf(*x))
		return nil
	case bigRatType:
		var s string
		if err := json.Unmarshal(raw, &s); err != nil {
			return err
		}
		x, ok := new(big.Rat).SetString(s)
		if !ok {
			return errors.New("bad bigrat")
		}
		v.Set(reflect.ValueOf(*x))
		return nil
	case listType:
		var items []json.RawMessage
		if err := json.Unmarshal(raw, &items); err != nil {
			return err
		}
		l := list.New()
		for _, it := range items {
			e, err := b.build(ifaceType, it)
			if err != nil {
				return err
			}
			l.PushBack(e.Interface())
		}
		v.Set(reflect.ValueOf(*l))
		return nil
	}
	switch t.Kind() {
	case reflect.Bool:
		var x bool
		if err := json.Unmarshal(raw, &x); err != nil {
			return err
		}
		v.SetBool(x)
	case reflect.Int, reflect.Int8, reflect.Int16, reflect.Int32, reflect.Int64:
		var s string
		if err := json.Unmarshal(raw, &s); err != nil {
			return err
		}
		x, err := strconv.ParseInt(s, 10, 64)
		if err != nil {
			return err
		}
		v.SetInt(x)
	case reflect.Uint, reflect.Uint8, reflect.Uint16, reflect.Uint32, reflect.Uint64, reflect.Uintptr:
		var s string
		if err := json.Unmarshal(raw, &s); err != nil {
			return err
		}
		x, err := strconv.ParseUint(s, 10, 64)
		if err != nil {
			return err
		}
		v.SetUint(x)
	case reflect.Float32, reflect.Float64:
		var s string
		if err := json.Unmarshal(raw, &s); err != nil {
			return err
		}
		f, err := floatOfBits(s, t.Kind() == reflect.Float32)
		if err != nil {
			return err
		}
		v.SetFloat(f)
	case reflect.Complex64, reflect.Complex128:
		var p [2]string
		if err := json.Unmarshal(raw, &p); err != nil {
			return err
		}
		re, err := floatOfBits(p[0], t.Kind() == reflect.Complex64)
		if err != nil {
			return err
		}
		im, err := floatOfBits(p[1], t.Kind() == reflect.Complex64)
		if err != nil {
			return err
		}
		v.SetComplex(complex(re, im))
	case reflect.String:
		var s string
		if err := json.Unmarshal(raw, &s); err != nil {
			return err
		}
		bs, err := unhex(s)
		if err != nil {
			return err
		}
		v.SetString(string(bs))
	case reflect.Slice:
		if isNull(raw) {
			return nil
		}
		var items []json.RawMessage
		if err := json.Unmarshal(raw, &items); err != nil {
			return err
		}
		s := reflect.MakeSlice(t, len(items), len(items))
		for i, it := range items {
			if err := b.fill(s.Index(i), it); err != nil {
				return err
			}
		}
		v.Set(s)
	case reflect.Array:
		var items []json.RawMessage
		if err := json.Unmarshal(raw, &items); err != nil {
			return err
		}
		for i := 0; i < t.Len() && i < len(items); i++ {
			if err := b.fill(v.Index(i), items[i]); err != nil {
				return err
			}
		}
	case reflect.Map:
		if isNull(raw) {
			return nil
		}
		var items [][2]json.RawMessage
		if err := json.Unmarshal(raw, &items); err != nil {
			return err
		}
		m := reflect.MakeMapWithSize(t, len(items))
		for _, kv := range items {
			k, err := b.build(t.Key(), kv[0])
			if err != nil {
				return err
			}
			e, err := b.build(t.Elem(), kv[1])
			if err != nil {
				return err
			}
			m.SetMapIndex(k, e)
		}
		v.Set(m)
	case reflect.Ptr:
		if isNull(raw) {
			return nil
		}
		var d struct {
			ID  *int            `json:"id"`
			Ref *int            `json:"ref"`
			V   json.RawMessage `json:"v"`
		}
		if err := json.Unmarshal(raw, &d); err != nil {
			return err
		}
		if d.Ref != nil {
			p, ok := b.ptrs[*d.Ref]
			if !ok || p.Type() != t {
				return fmt.Errorf("bad pointer ref %d", *d.Ref)
			}
			v.Set(p)
			return nil
		}
		p := reflect.New(t.Elem())
		if d.ID != nil {
			b.ptrs[*d.ID] = p
		}
		v.Set(p)
		return b.fill(p.Elem(), d.V)
	case reflect.Interface:
		if isNull(raw) {
			return nil
		}
		var d struct {
			T *TD             `json:"t"`
			V json.RawMessage `json:"v"`
		}
		if err := json.Unmarshal(raw, &d); err != nil {
			return err
		}
		dt, err := typeOf(d.T)
		if err != nil {
			return err
		}
		if dt == errorType {
			var s string
			if err := json.Unmarshal(d.V, &s); err != nil {
				return err
			}
			bs, _ := unhex(s)
			v.Set(reflect.ValueOf(errors.New(string(bs))))
			return nil
		}
		e, err := b.build(dt, d.V)
		if err != nil {
			return err
		}
		v.Set(e)
	case reflect.Struct:
		if isNull(raw) {
			return nil
		}
		var d map[string]json.RawMessage
		if err := json.Unmarshal(raw, &d); err != nil {
			return err
		}
		// fields in declaration order (the generator defines pointer ids in that order)
		for i := 0; i < t.NumField(); i++ {
			name := t.Field(i).Name
			fr, ok := d[name]
			if !ok {
				continue
			}
			f := v.Field(i)
			if !f.CanSet() {
				return fmt.Errorf("field %s of %s is not settable", name, t)
			}
			if err := b.fill(f, fr); err != nil {
				return err
			}
			delete(d, name)
		}
		for name := range d {
			return fmt.Errorf("no field %s in %s", name, t)
		}
	default:
		return fmt.Errorf("cannot build %s", t)
	}
	return nil
}

func floatOfBits(s string, is32 bool) (float64, error) {
	u, err := strconv.ParseUint(strings.TrimPrefix(s, "0x"), 16, 64)
	if err != nil {
		return 0, err
	}
	if is32 {
		return float64(math.Float32frombits(uint32(u))), nil
	}
	return math.Float64frombits(u), nil
}
