// helpers shared by the C07 and C08 executors (the file is copied, not imported: every executor is its own main package)
package main

import (
	"encoding/hex"
	"encoding/json"
	"fmt"
	"reflect"
	"sort"

	hio "github.com/hprose/hprose-golang/v3/io"
	"github.com/hprose/hprose-golang/v3/rpc/codec/jsonrpc"
	"github.com/hprose/hprose-golang/v3/rpc/core"
)

type optsJ struct {
	Simple bool `json:"simple"`
	Debug  bool `json:"debug"`
	Long   int  `json:"long"`
	Real   int  `json:"real"`
	Map    int  `json:"map"`
	Struct int  `json:"struct"`
	List   int  `json:"list"`
}

type valJ struct {
	T *TD             `json:"t"`
	V json.RawMessage `json:"v"`
}

type hdrJ struct {
	K string `json:"k"` // hex
	V valJ   `json:"v"`
}

type tv struct {
	Ty  string `json:"ty"`
	V   string `json:"v,omitempty"`   // unfolded walker text
	Err string `json:"err,omitempty"` // decode error of the oracle round trip
	Sig string `json:"sig,omitempty"` // deep dynamic type of the value: every interface{} inside is resolved to what it holds
	Eq  string `json:"eq,omitempty"`  // oracle entries: the property's equality between the original and the plain round trip
	// the round trip of this value ALONE into the type (Ty/V/Eq are for the value as an element of its list)
	Solo    string `json:"solo,omitempty"`
	SoloErr string `json:"solo_err,omitempty"`
	SoloEq  string `json:"solo_eq,omitempty"`
}

type kv struct {
	K string `json:"k"`
	V string `json:"v"`
}

func safely(f func()) (p string) {
	defer func() {
		if e := recover(); e != nil {
			p = fmt.Sprint(e)
			if p == "" {
				p = "panic"
			}
		}
	}()
	f()
	return ""
}

func unhexs(s string) string {
	b, _ := hex.DecodeString(s)
	return string(b)
}

func hexs(s string) string { return hex.EncodeToString([]byte(s)) }

func codecOptions(o optsJ, service bool) []core.CodecOption {
	opts := []core.CodecOption{
		core.WithSimple(o.Simple),
		core.WithLongType(hio.LongType(o.Long)),
		core.WithRealType(hio.RealType(o.Real)),
		core.WithMapType(hio.MapType(o.Map)),
		core.WithStructType(hio.StructType(o.Struct)),
		core.WithListType(hio.ListType(o.List)),
	}
	if service {
		opts = append(opts, core.WithDebug(o.Debug))
	}
	return opts
}

func newDecoder(data []byte, o optsJ, simple bool) *hio.Decoder {
	d := hio.NewDecoder(data)
	d.LongType = hio.LongType(o.Long)
	d.RealType = hio.RealType(o.Real)
	d.MapType = hio.MapType(o.Map)
	d.StructType = hio.StructType(o.Struct)
	d.ListType = hio.ListType(o.List)
	d.Simple(simple)
	return d
}

// ioRoundTrip: the plain io round trip of one value into type t (nil = interface{}): what C01 is about.
func ioRoundTrip(v interface{}, t reflect.Type, writerSimple bool, readerOpts optsJ) (out interface{}, err string) {
	p := safely(func() {
		enc := hio.NewEncoder(nil).Simple(writerSimple)
		if e := enc.Encode(v); e != nil {
			err = "encode: " + e.Error()
			return
		}
		data := append([]byte{}, enc.Bytes()...)
		dec := newDecoder(data, readerOpts, writerSimple)
		out = dec.Read(t)
		if dec.Error != nil {
			err = dec.Error.Error()
		}
	})
	if p != "" {
		err = "panic: " + p
	}
	return
}

// ioTupleRoundTrip: the values written as ONE list by the io encoder and read back element by element, element i
// into types[i] (nil = interface{}), with nothing but the public io API: what "a list read into a tuple of types" means.
func ioTupleRoundTrip(vals []interface{}, types []reflect.Type, writerSimple bool, readerOpts optsJ) (out []interface{}, errs []string) {
	out = make([]interface{}, len(vals))
	errs = make([]string, len(vals))
	p := safely(func() {
		enc := hio.NewEncoder(nil).Simple(writerSimple)
		if e := enc.Write(vals); e != nil {
			for i := range errs {
				errs[i] = "encode: " + e.Error()
			}
			return
		}
		data := append([]byte{}, enc.Bytes()...)
		dec := newDecoder(data, readerOpts, writerSimple)
		if tag := dec.NextByte(); tag != hio.TagList {
			for i := range errs {
				errs[i] = "not a list"
			}
			return
		}
		count := dec.ReadInt()
		dec.AddReference(nil)
		for i := 0; i < count && i < len(vals); i++ {
			var t reflect.Type
			if i < len(types) {
				t = types[i]
			}
			out[i] = dec.Read(t)
			if dec.Error != nil {
				// the decoder's error is sticky: everything from here on is unreliable
				for j := i; j < len(vals); j++ {
					errs[j] = dec.Error.Error()
				}
				return
			}
		}
	})
	if p != "" {
		for i := range errs {
			if errs[i] == "" {
				errs[i] = "panic: " + p
			}
		}
	}
	return
}

// ioHeadersRoundTrip: the header dictionary written as one map and read back into map[string]interface{}
func ioHeadersRoundTrip(m map[string]interface{}, writerSimple bool, readerOpts optsJ) (out map[string]interface{}, err string) {
	p := safely(func() {
		enc := hio.NewEncoder(nil).Simple(writerSimple)
		if e := enc.Write(m); e != nil {
			err = "encode: " + e.Error()
			return
		}
		data := append([]byte{}, enc.Bytes()...)
		dec := newDecoder(data, readerOpts, false)
		dec.Decode(&out)
		if dec.Error != nil {
			err = dec.Error.Error()
		}
	})
	if p != "" {
		err = "panic: " + p
	}
	return
}

// The oracle for JSON-RPC values is the STANDARD LIBRARY's encoding/json, not the JSON implementation the
// codec under test is configured with: a codec configuration that loses information (digits of a float,
// say) must not be mirrored by the oracle.
type stdJSON struct{}

func (stdJSON) Marshal(v interface{}) ([]byte, error)      { return json.Marshal(v) }
func (stdJSON) Unmarshal(d []byte, v interface{}) error { return json.Unmarshal(d, v) }

var jsonCodec stdJSON
var _ = jsonrpc.NewClientCodec

// jsonRoundTrip: Marshal, Unmarshal into interface{}, Marshal again, Unmarshal into t (what both JSON-RPC codecs do).
func jsonRoundTrip(v interface{}, t reflect.Type) (out interface{}, err string) {
	p := safely(func() {
		d1, e := jsonCodec.Marshal(v)
		if e != nil {
			err = "marshal: " + e.Error()
			return
		}
		var g interface{}
		if e := jsonCodec.Unmarshal(d1, &g); e != nil {
			err = "unmarshal: " + e.Error()
			return
		}
		if t == nil {
			out = g
			return
		}
		d2, _ := jsonCodec.Marshal(g)
		pv := reflect.New(t)
		if e := jsonCodec.Unmarshal(d2, pv.Interface()); e != nil {
			err = e.Error()
			return
		}
		out = pv.Elem().Interface()
	})
	if p != "" {
		err = "panic: " + p
	}
	return
}

// typeSig: the deep dynamic type of a value.  What the decoder builds inside an interface{} depends on the codec's
// options (LongType, RealType, MapType, StructType, ListType); the walker text does not show a map's or a float's Go
// type, this does.
func typeSig(x interface{}) string {
	if x == nil {
		return "nil"
	}
	return sigOf(reflect.ValueOf(x), 0)
}

func sigOf(v reflect.Value, depth int) string {
	if !v.IsValid() {
		return "nil"
	}
	if depth > 12 {
		return "..."
	}
	t := v.Type()
	switch v.Kind() {
	case reflect.Interface:
		if v.IsNil() {
			return "nil"
		}
		return sigOf(v.Elem(), depth)
	case reflect.Ptr:
		if v.IsNil() {
			return t.String()
		}
		if t.Elem().Kind() == reflect.Struct && t.Elem().NumField() > 0 && t.Elem().PkgPath() != "main" {
			return t.String() // library types (big.Int, time.Time, list.List...) are not looked into
		}
		return "*" + sigOf(v.Elem(), depth+1)
	case reflect.Slice, reflect.Array:
		if t.Elem().Kind() != reflect.Interface || v.Len() == 0 {
			return t.String()
		}
		s := t.String() + "{"
		for i := 0; i < v.Len(); i++ {
			if i > 0 {
				s += ","
			}
			s += sigOf(v.Index(i), depth+1)
		}
		return s + "}"
	case reflect.Map:
		if t.Elem().Kind() != reflect.Interface && t.Key().Kind() != reflect.Interface {
			return t.String()
		}
		var es []string
		it := v.MapRange()
		for it.Next() {
			es = append(es, sigOf(it.Key(), depth+1)+":"+sigOf(it.Value(), depth+1))
		}
		sort.Strings(es)
		s := t.String() + "{"
		for i, e := range es {
			if i > 0 {
				s += ","
			}
			s += e
		}
		return s + "}"
	case reflect.Struct:
		if t.PkgPath() != "main" {
			return t.String()
		}
		s := t.String() + "{"
		for i := 0; i < v.NumField(); i++ {
			if t.Field(i).PkgPath != "" {
				continue
			}
			if k := t.Field(i).Type.Kind(); k == reflect.Interface || k == reflect.Slice || k == reflect.Map || k == reflect.Ptr {
				s += sigOf(v.Field(i), depth+1) + ";"
			}
		}
		return s + "}"
	}
	return t.String()
}

func typeName(x interface{}) string {
	if x == nil {
		return "<nil>"
	}
	return reflect.TypeOf(x).String()
}

// property oracle: is the decoded value equal in value to the one passed (normalising equality of C01)
func equalTo(orig reflect.Value, got interface{}) string {
	var r string
	p := safely(func() {
		ctx := &eqctx{visited: map[[2]uintptr]bool{}}
		gv := reflect.New(ifaceType).Elem()
		if got != nil {
			gv.Set(reflect.ValueOf(got))
		}
		if got != nil && orig.Kind() != reflect.Interface && reflect.TypeOf(got) == orig.Type() {
			a := reflect.New(orig.Type()).Elem()
			a.Set(orig)
			b := reflect.New(orig.Type()).Elem()
			b.Set(reflect.ValueOf(got))
			r = ctx.eq(a, b, "$")
			return
		}
		a := reflect.New(ifaceType).Elem()
		if orig.IsValid() && !(orig.Kind() == reflect.Interface && orig.IsNil()) {
			a.Set(orig)
		}
		r = ctx.loose(a, gv, "$")
	})
	if p != "" {
		return "comparison panicked: " + p
	}
	return r
}

func sortedKV(m map[string]interface{}, f func(v interface{}) string) []kv {
	keys := make([]string, 0, len(m))
	for k := range m {
		keys = append(keys, k)
	}
	sort.Strings(keys)
	out := make([]kv, 0, len(m))
	for _, k := range keys {
		out = append(out, kv{hexs(k), f(m[k])})
	}
	return out
}

func ifaceOf(v reflect.Value) interface{} {
	if !v.IsValid() {
		return nil
	}
	if v.Kind() == reflect.Interface && v.IsNil() {
		return nil
	}
	return v.Interface()
}
