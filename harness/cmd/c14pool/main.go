package main

// C14 structural tie for the USERS of the coder pools (go/ast walk over the tree under test).
//
// Obligation: every io.GetEncoder()/io.GetDecoder() is matched by exactly one io.FreeEncoder/
// io.FreeDecoder on every path of the function that obtained it.  The only shape accepted is
//
//     v := <Get*()>.<chain of receiver-returning methods>      (or  v = ...  to a declared variable)
//     defer Free*(v)                                            <- the very next statement of the same block
//
// and nothing else in the function frees anything: a deferred free plus an explicit free on some
// path is a double free (the object sits in the sync.Pool twice and is handed to two users), a Get
// without the immediate defer can leak or be freed on some paths only.  The pooled object must not
// leave the function (returned, stored, sent, captured by a closure or started goroutine).
// Anything the walker does not recognise is reported (fails closed).  io/pool.go itself must put
// exactly once per Free* and get exactly once per Get*.
//
// input line: {"id":1,"repo":"/repo"}   output: {"id":1,"sites":[...],"problems":[...]}

import (
	"encoding/json"
	"fmt"
	"go/ast"
	"go/parser"
	"go/token"
	"os"
	"path/filepath"
	"strings"

	"hv/hvlib"
)

type site struct {
	File string `json:"file"`
	Func string `json:"func"`
	Kind string `json:"kind"`
	Var  string `json:"var"`
	Line int    `json:"line"`
}

type result struct {
	ID       int      `json:"id"`
	Files    int      `json:"files"`
	Sites    []site   `json:"sites"`
	Problems []string `json:"problems"`
}

var chainOK = map[string]bool{"Simple": true, "ResetBytes": true, "ResetReader": true, "ResetBuffer": true, "Reset": true}

func calleeName(e ast.Expr) string {
	switch f := e.(type) {
	case *ast.Ident:
		return f.Name
	case *ast.SelectorExpr:
		if _, ok := f.X.(*ast.Ident); ok { // pkg.Name
			return f.Sel.Name
		}
	}
	return ""
}

func kindOfGet(name string) string {
	switch name {
	case "GetEncoder":
		return "Encoder"
	case "GetDecoder":
		return "Decoder"
	}
	return ""
}

func kindOfFree(name string) string {
	switch name {
	case "FreeEncoder":
		return "Encoder"
	case "FreeDecoder":
		return "Decoder"
	}
	return ""
}

// root of a receiver chain  Get().A(..).B(..)  -> (kind, ok)
func getChain(e ast.Expr) (string, bool) {
	for {
		call, ok := e.(*ast.CallExpr)
		if !ok {
			return "", false
		}
		if k := kindOfGet(calleeName(call.Fun)); k != "" && len(call.Args) == 0 {
			return k, true
		}
		sel, ok := call.Fun.(*ast.SelectorExpr)
		if !ok || !chainOK[sel.Sel.Name] {
			return "", false
		}
		e = sel.X
	}
}

type funcScan struct {
	fset     *token.FileSet
	file     string
	name     string
	res      *result
	paired   map[*ast.CallExpr]bool // Get / Free calls accounted for by the accepted shape
	vars     map[string]string      // pooled variable -> kind
	declLine map[string]int
}

func (s *funcScan) problem(pos token.Pos, format string, a ...interface{}) {
	p := s.fset.Position(pos)
	s.res.Problems = append(s.res.Problems, fmt.Sprintf("%s:%d %s: %s", s.file, p.Line, s.name, fmt.Sprintf(format, a...)))
}

// accepted shape inside one statement list
func (s *funcScan) block(list []ast.Stmt) {
	for i, st := range list {
		as, ok := st.(*ast.AssignStmt)
		if !ok || len(as.Lhs) != 1 || len(as.Rhs) != 1 {
			continue
		}
		kind, ok := getChain(as.Rhs[0])
		if !ok {
			continue
		}
		id, ok := as.Lhs[0].(*ast.Ident)
		if !ok {
			s.problem(as.Pos(), "pooled %s assigned to something that is not a plain variable (unknown shape)", kind)
			continue
		}
		// mark the Get call
		ast.Inspect(as.Rhs[0], func(n ast.Node) bool {
			if c, ok := n.(*ast.CallExpr); ok && kindOfGet(calleeName(c.Fun)) != "" {
				s.paired[c] = true
			}
			return true
		})
		if i+1 >= len(list) {
			s.problem(as.Pos(), "Get%s is the last statement of its block: no 'defer Free%s(%s)' follows", kind, kind, id.Name)
			continue
		}
		d, ok := list[i+1].(*ast.DeferStmt)
		if !ok || kindOfFree(calleeName(d.Call.Fun)) != kind || len(d.Call.Args) != 1 {
			s.problem(as.Pos(), "Get%s is not followed at once by 'defer Free%s(%s)': a path may leak it or free it twice", kind, kind, id.Name)
			continue
		}
		if a, ok := d.Call.Args[0].(*ast.Ident); !ok || a.Name != id.Name {
			s.problem(d.Pos(), "the deferred Free%s does not free the variable just obtained (%s)", kind, id.Name)
			continue
		}
		s.paired[d.Call] = true
		s.vars[id.Name] = kind
		s.res.Sites = append(s.res.Sites, site{s.file, s.name, kind, id.Name, s.fset.Position(as.Pos()).Line})
	}
}

func (s *funcScan) scan(body *ast.BlockStmt) {
	// 1. accepted pairs, in every statement list of this function (closures are separate functions)
	ast.Inspect(body, func(n ast.Node) bool {
		switch b := n.(type) {
		case *ast.FuncLit:
			return false
		case *ast.BlockStmt:
			s.block(b.List)
		case *ast.CaseClause:
			s.block(b.Body)
		case *ast.CommClause:
			s.block(b.Body)
		}
		return true
	})
	// 2. every other Get / Free in the function is a violation; pooled variables must not escape
	ast.Inspect(body, func(n ast.Node) bool {
		switch x := n.(type) {
		case *ast.FuncLit:
			ast.Inspect(x.Body, func(m ast.Node) bool {
				if id, ok := m.(*ast.Ident); ok && s.vars[id.Name] != "" {
					s.problem(id.Pos(), "pooled %s %s is captured by a closure (it may be used after the deferred free)", s.vars[id.Name], id.Name)
				}
				return true
			})
			return false
		case *ast.CallExpr:
			name := calleeName(x.Fun)
			if k := kindOfGet(name); k != "" && !s.paired[x] {
				s.problem(x.Pos(), "Get%s outside the accepted shape 'v := Get%s()...; defer Free%s(v)' (unknown shape)", k, k, k)
			}
			if k := kindOfFree(name); k != "" && !s.paired[x] {
				arg := "?"
				if len(x.Args) == 1 {
					if id, ok := x.Args[0].(*ast.Ident); ok {
						arg = id.Name
					}
				}
				if s.vars[arg] != "" {
					s.problem(x.Pos(), "explicit Free%s(%s) in addition to the deferred one: on this path the %s is put into the pool twice and handed to two users", k, arg, strings.ToLower(k))
				} else {
					s.problem(x.Pos(), "Free%s(%s) of something this function did not obtain with Get%s in the accepted shape", k, arg, k)
				}
			}
		case *ast.ReturnStmt:
			for _, r := range x.Results {
				if id, ok := r.(*ast.Ident); ok && s.vars[id.Name] != "" {
					s.problem(id.Pos(), "pooled %s %s is returned although it is freed on return", s.vars[id.Name], id.Name)
				}
			}
		case *ast.GoStmt:
			ast.Inspect(x.Call, func(m ast.Node) bool {
				if id, ok := m.(*ast.Ident); ok && s.vars[id.Name] != "" {
					s.problem(id.Pos(), "pooled %s %s is passed to a goroutine", s.vars[id.Name], id.Name)
				}
				return true
			})
		case *ast.SendStmt:
			if id, ok := x.Value.(*ast.Ident); ok && s.vars[id.Name] != "" {
				s.problem(id.Pos(), "pooled %s %s is sent on a channel", s.vars[id.Name], id.Name)
			}
		case *ast.AssignStmt:
			for _, r := range x.Rhs {
				if id, ok := r.(*ast.Ident); ok && s.vars[id.Name] != "" {
					s.problem(id.Pos(), "pooled %s %s is copied into another variable or field", s.vars[id.Name], id.Name)
				}
			}
		case *ast.CompositeLit:
			for _, e := range x.Elts {
				v := e
				if kv, ok := e.(*ast.KeyValueExpr); ok {
					v = kv.Value
				}
				if id, ok := v.(*ast.Ident); ok && s.vars[id.Name] != "" {
					s.problem(id.Pos(), "pooled %s %s is stored in a composite value", s.vars[id.Name], id.Name)
				}
			}
		}
		return true
	})
}

// io/pool.go: one Put per Free*, one Get per Get*
func checkPoolFile(fset *token.FileSet, f *ast.File, rel string, res *result) {
	want := map[string]string{"GetEncoder": "Get", "GetDecoder": "Get", "FreeEncoder": "Put", "FreeDecoder": "Put"}
	seen := map[string]bool{}
	for _, d := range f.Decls {
		fd, ok := d.(*ast.FuncDecl)
		if !ok || fd.Recv != nil || want[fd.Name.Name] == "" || fd.Body == nil {
			continue
		}
		seen[fd.Name.Name] = true
		n, loops := 0, 0
		ast.Inspect(fd.Body, func(m ast.Node) bool {
			switch c := m.(type) {
			case *ast.CallExpr:
				if sel, ok := c.Fun.(*ast.SelectorExpr); ok && (sel.Sel.Name == "Put" || sel.Sel.Name == "Get") {
					if sel.Sel.Name == want[fd.Name.Name] {
						n++
					} else {
						loops += 100
					}
				}
			case *ast.ForStmt, *ast.RangeStmt, *ast.GoStmt, *ast.DeferStmt, *ast.FuncLit:
				loops++
			}
			return true
		})
		if n != 1 || loops != 0 {
			res.Problems = append(res.Problems, fmt.Sprintf("%s %s: expected exactly one straight-line sync.Pool.%s (found %d, other constructs %d)", rel, fd.Name.Name, want[fd.Name.Name], n, loops))
		}
	}
	for k := range want {
		if !seen[k] {
			res.Problems = append(res.Problems, rel+": func "+k+" not found")
		}
	}
}

func run(line []byte, out *json.Encoder) error {
	var c struct {
		ID   int    `json:"id"`
		Repo string `json:"repo"`
	}
	if err := json.Unmarshal(line, &c); err != nil {
		return err
	}
	res := result{ID: c.ID, Sites: []site{}, Problems: []string{}}
	fset := token.NewFileSet()
	err := filepath.Walk(c.Repo, func(path string, info os.FileInfo, err error) error {
		if err != nil {
			return err
		}
		if info.IsDir() {
			if strings.HasPrefix(info.Name(), ".") && path != c.Repo {
				return filepath.SkipDir
			}
			return nil
		}
		if !strings.HasSuffix(path, ".go") || strings.HasSuffix(path, "_test.go") {
			return nil
		}
		rel, _ := filepath.Rel(c.Repo, path)
		f, perr := parser.ParseFile(fset, path, nil, 0)
		if perr != nil {
			res.Problems = append(res.Problems, rel+": does not parse: "+perr.Error())
			return nil
		}
		res.Files++
		if rel == filepath.Join("io", "pool.go") {
			checkPoolFile(fset, f, rel, &res)
			return nil
		}
		var funcs []struct {
			name string
			body *ast.BlockStmt
		}
		for _, d := range f.Decls {
			if fd, ok := d.(*ast.FuncDecl); ok && fd.Body != nil {
				name := fd.Name.Name
				if fd.Recv != nil && len(fd.Recv.List) == 1 {
					t := fd.Recv.List[0].Type
					if st, ok := t.(*ast.StarExpr); ok {
						t = st.X
					}
					if id, ok := t.(*ast.Ident); ok {
						name = id.Name + "." + name
					}
				}
				funcs = append(funcs, struct {
					name string
					body *ast.BlockStmt
				}{name, fd.Body})
			}
		}
		// closures are functions of their own (a defer inside one runs when IT returns)
		ast.Inspect(f, func(n ast.Node) bool {
			if fl, ok := n.(*ast.FuncLit); ok {
				funcs = append(funcs, struct {
					name string
					body *ast.BlockStmt
				}{fmt.Sprintf("func literal at line %d", fset.Position(fl.Pos()).Line), fl.Body})
			}
			return true
		})
		for _, fn := range funcs {
			s := &funcScan{fset: fset, file: rel, name: fn.name, res: &res, paired: map[*ast.CallExpr]bool{}, vars: map[string]string{}}
			s.scan(fn.body)
		}
		return nil
	})
	if err != nil {
		res.Problems = append(res.Problems, "walk: "+err.Error())
	}
	return out.Encode(&res)
}

func main() { hvlib.Main(run) }
