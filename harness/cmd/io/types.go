package main

import (
	"container/list"
	"math/big"
	"reflect"
	"time"

	"github.com/google/uuid"
	hio "github.com/hprose/hprose-golang/v3/io"
)

// Named types of the harness.  The registry is exported to the case generator with
// `hv-io -types`, so the Python side never has to know Go syntax.

type MyInt int
type MyI8 int8
type MyU16 uint16
type MyStr string
type MyF64 float64
type MyBool bool
type MyBytes []byte
type MyInts []int
type MyU32 uint32
type MyU64 uint64
type MyU8 uint8
type MyI64 int64
type MyF32 float32

// single-field structs that Go stores directly in an interface word (pointer-shaped field)
type OneM struct{ M map[string]int }
type OneMM struct{ In OneM }
type OneA1 struct{ A [1]*Inner }
type OnePS struct{ P *string }

// class and field names with characters outside the BMP (UTF-16 length differs from the rune count)
type Gadget struct {
	ID    int    `hprose:"𠀀id"`
	Name  string `json:"名😀"`
	Plain string
}

type Scalars struct {
	B   bool
	I   int
	I8  int8
	I16 int16
	I32 int32
	I64 int64
	U   uint
	U8  uint8
	U16 uint16
	U32 uint32
	U64 uint64
	UP  uintptr
	F32 float32
	F64 float64
	S   string
}

type PScalars struct {
	B   *bool
	I   *int
	I8  *int8
	I16 *int16
	I32 *int32
	I64 *int64
	U   *uint
	U8  *uint8
	U16 *uint16
	U64 *uint64
	UP  *uintptr
	F32 *float32
	F64 *float64
	S   *string
}

type PU32 struct {
	A int
	P *uint32
	Z int
}

type Named struct {
	A MyInt
	B MyI8
	C MyU16
	D MyStr
	E MyF64
	F MyBool
	G MyBytes
	H MyInts
}

type Bigs struct {
	BI *big.Int
	BF *big.Float
	BR *big.Rat
}

type Times struct {
	T  time.Time
	PT *time.Time
	U  uuid.UUID
	PU *uuid.UUID
}

type Conts struct {
	IS  []int
	I8S []int8
	SS  []string
	BS  []byte
	BB  [][]byte
	II  [][]int
	M   map[string]int
	MI  map[int]string
	A   [3]int
	AB  [4]byte
	IF  interface{}
	IFS []interface{}
	MSI map[string]interface{}
	MII map[interface{}]interface{}
}

type Node struct {
	Next *Node
	V    int
}

type Node2 struct {
	V    int
	Next *Node2
}

type Tree struct {
	L    *Tree
	R    *Tree
	Name string
}

type Graph struct {
	Nodes []*Node2
	Root  *Node2
	Index map[string]*Node2
}

type Tagged struct {
	A int `hprose:"x"`
	B int `json:"y,omitempty"`
	C int `hprose:"-"`
	d int
	E int
	F int `hprose:"longer_name" json:"ignored"`
}

type Inner struct {
	X int
	Y string
}

type Outer struct {
	Inner
	Z int
	P *Inner
	L []Inner
	M map[string]*Inner
	V Inner
}

type Shared struct {
	A  *Inner
	B  *Inner
	S1 string
	S2 string
	T1 *time.Time
	T2 *time.Time
	L1 *[]int
	L2 *[]int
	M1 *map[string]int
	M2 *map[string]int
}

type One struct {
	V int
}

type OneS struct {
	S string
}

type OneP struct {
	P *One
	Q *One
}

type Cx struct {
	C64  complex64
	C128 complex128
	PC   *complex128
	S1   string
	S2   string
}

type Deep struct {
	PP  **int
	PS  **Inner
	PSl *[]int
	PM  *map[string]int
	PA  *[2]int
	PI  *interface{}
	PPS ***string
}

type Lst struct {
	L  *list.List
	S1 string
	S2 string
}

type Strs struct {
	A string
	B string
	C string
	D []string
	E map[string]string
}

type BBTail struct {
	A  [][]byte
	S1 string
	S2 string
}

type Empty struct{}

// Member: cycles that run through a shared pointer to a slice, a slice and a map
type Member struct {
	Name   string
	Family *[]*Member
	Peers  []*Member
	ByName map[string]*Member
}

type Nested struct {
	O  Outer
	PO *Outer
	T  Tagged
	S  []Scalars
	M  map[string][]map[int]string
}

// embedded structs away from offset 0 (after other fields, nested, between fields) and fields of
// the interface type error (nil and not nil)
type EmbMid struct {
	A string
	Inner
	B int
}
type EmbBase struct {
	U uint8
	W []int
	S string
}
type EmbIn struct {
	Q int64
	EmbBase
	R *Inner
}
type EmbDeep struct {
	N int
	EmbIn
	T float64
}
type ErrF struct {
	A error
	B int
	C error
	D []error
}

var registry = map[string]reflect.Type{}

// aliases: types registered with hprose under a class name that differs from the Go type name
var aliases = map[reflect.Type]string{}

func reg(v interface{}) { t := reflect.TypeOf(v); registry[t.Name()] = t }

func init() {
	for _, v := range []interface{}{
		MyInt(0), MyI8(0), MyU16(0), MyStr(""), MyF64(0), MyBool(false), MyBytes(nil), MyInts(nil),
		Scalars{}, PScalars{}, PU32{}, Named{}, Bigs{}, Times{}, Conts{}, Node{}, Node2{}, Tree{}, Graph{},
		Tagged{}, Inner{}, Outer{}, Shared{}, One{}, OneS{}, OneP{}, Cx{}, Deep{}, Lst{}, Strs{}, BBTail{},
		Empty{}, Nested{}, Member{},
		MyU32(0), MyU64(0), MyU8(0), MyI64(0), MyF32(0), OneM{}, OneMM{}, OneA1{}, OnePS{}, Gadget{},
		EmbMid{}, EmbBase{}, EmbIn{}, EmbDeep{}, ErrF{},
	} {
		reg(v)
	}
	hio.RegisterName("Gadget😀", (*Gadget)(nil))
	aliases[reflect.TypeOf(Gadget{})] = "Gadget😀"
}

var (
	timeType     = reflect.TypeOf(time.Time{})
	uuidType     = reflect.TypeOf(uuid.UUID{})
	bigIntType   = reflect.TypeOf(big.Int{})
	bigFloatType = reflect.TypeOf(big.Float{})
	bigRatType   = reflect.TypeOf(big.Rat{})
	listType     = reflect.TypeOf(list.List{})
	ifaceType    = reflect.TypeOf((*interface{})(nil)).Elem()
	bytesType    = reflect.TypeOf([]byte(nil))
	bytes2dType  = reflect.TypeOf([][]byte(nil))
	errorType    = reflect.TypeOf((*error)(nil)).Elem()
)
