package main

import (
	"container/list"
	"encoding/hex"
	"fmt"
	"math"
	"math/big"
	"reflect"
	"strconv"
	"strings"
	"time"

	"github.com/google/uuid"
)

// walker turns a Go value into the model's gval S-expression: what the value *is*
// (kinds, contents, pointer identities), obtained by plain reflection and the standard
// library's own formatting routines (the oracles of DESIGN section 7) - never through hprose.
type walker struct {
	ids       map[ptrKey]int
	heap      []string // index = id-1
	unordered bool     // a map with >= 2 entries occurs: byte-exact comparison impossible
	unsup     string
}

type ptrKey struct {
	t reflect.Type
	p uintptr
}

func hx(b []byte) string { return "x" + hex.EncodeToString(b) }

func floatSexp(f float64, bits int) string {
	switch {
	case f != f:
		return "(f nan)"
	case math.IsInf(f, 1):
		return "(f inf 0)"
	case math.IsInf(f, -1):
		return "(f inf 1)"
	}
	return "(f fin " + hx([]byte(strconv.FormatFloat(f, 'g', -1, bits))) + ")"
}

var kindNames = map[reflect.Kind]string{
	reflect.Int: "KInt", reflect.Int8: "KInt8", reflect.Int16: "KInt16", reflect.Int32: "KInt32", reflect.Int64: "KInt64",
	reflect.Uint: "KUint", reflect.Uint8: "KUint8", reflect.Uint16: "KUint16", reflect.Uint32: "KUint32",
	reflect.Uint64: "KUint64", reflect.Uintptr: "KUintptr",
}

// the element types with a two-dimensional fast path in slice_encoder.go (exact, unnamed types)
var fast2d = map[reflect.Type]bool{}

func init() {
	for _, e := range []interface{}{uint16(0), uint32(0), uint64(0), uint(0), int8(0), int16(0), int32(0), int64(0), int(0),
		false, float32(0), float64(0), complex64(0), complex128(0), ""} {
		fast2d[reflect.SliceOf(reflect.SliceOf(reflect.TypeOf(e)))] = true
	}
	fast2d[reflect.SliceOf(reflect.SliceOf(ifaceType))] = true
}

// hprose field rule, re-implemented from the documentation: exported fields, alias from the
// hprose tag, then the json tag, else the name with a lower-cased first letter; "-" skips;
// embedded structs are flattened.
type fieldInfo struct {
	alias string
	index []int
}

func stripOpt(s string) string {
	if i := strings.Index(s, ","); i >= 0 {
		s = s[:i]
	}
	return strings.Trim(s, " ")
}

func encodable(t reflect.Type) bool {
	for t.Kind() == reflect.Ptr {
		t = t.Elem()
	}
	switch t.Kind() {
	case reflect.Func, reflect.Chan, reflect.UnsafePointer:
		return false
	}
	return true
}

func hproseFields(t reflect.Type, prefix []int, out []fieldInfo) []fieldInfo {
	for i := 0; i < t.NumField(); i++ {
		f := t.Field(i)
		idx := append(append([]int{}, prefix...), i)
		switch f.Type.Kind() {
		case reflect.Func, reflect.Chan, reflect.UnsafePointer:
			continue
		case reflect.Struct:
			if f.Anonymous {
				out = hproseFields(f.Type, idx, out)
				continue
			}
		}
		if f.PkgPath != "" {
			continue
		}
		alias := stripOpt(f.Tag.Get("hprose"))
		if alias == "" {
			alias = stripOpt(f.Tag.Get("json"))
		}
		if alias == "" {
			alias = f.Name
			if alias[0] >= 'A' && alias[0] <= 'Z' {
				alias = string(alias[0]-'A'+'a') + alias[1:]
			}
		}
		if alias == "-" || !encodable(f.Type) {
			continue
		}
		out = append(out, fieldInfo{alias, idx})
	}
	return out
}

func (w *walker) walk(v reflect.Value) string {
	t := v.Type()
	switch t {
	case timeType:
		tm := v.Interface().(time.Time)
		if loc := tm.Location(); loc != time.UTC && loc != time.Local {
			// the format expresses only UTC and local time: the encoder sees the instant in local time
			tm = tm.Local()
		}
		y, mo, d := tm.Date()
		h, mi, s := tm.Clock()
		utc := 0
		if tm.Location() == time.UTC {
			utc = 1
		}
		return fmt.Sprintf("(time %d %d %d %d %d %d %d %d)", y, int(mo), d, h, mi, s, tm.Nanosecond(), utc)
	case uuidType:
		u := v.Interface().(uuid.UUID)
		return "(uuid " + hx([]byte(u.String())) + ")"
	case bigIntType:
		x := v.Interface().(big.Int)
		return "(bigint " + x.String() + ")"
	case bigFloatType:
		x := v.Interface().(big.Float)
		return "(bigfloat " + hx([]byte(x.Text('g', -1))) + ")"
	case bigRatType:
		x := v.Interface().(big.Rat)
		if x.IsInt() {
			return "(bigrat int " + x.Num().String() + ")"
		}
		return "(bigrat frac " + hx([]byte(x.String())) + ")"
	case listType:
		l := v.Addr().Interface().(*list.List)
		var sb strings.Builder
		sb.WriteString("(list")
		for e := l.Front(); e != nil; e = e.Next() {
			sb.WriteString(" ")
			sb.WriteString(w.walk(reflect.ValueOf(&e.Value).Elem()))
		}
		sb.WriteString(")")
		return sb.String()
	}
	if t.Kind() != reflect.Interface && t.Kind() != reflect.Ptr && t.Implements(errorType) {
		return "(err " + hx([]byte(v.Interface().(error).Error())) + ")"
	}
	switch t.Kind() {
	case reflect.Bool:
		if v.Bool() {
			return "(bool 1)"
		}
		return "(bool 0)"
	case reflect.Int, reflect.Int8, reflect.Int16, reflect.Int32, reflect.Int64:
		return fmt.Sprintf("(int %s %d)", kindNames[t.Kind()], v.Int())
	case reflect.Uint, reflect.Uint8, reflect.Uint16, reflect.Uint32, reflect.Uint64, reflect.Uintptr:
		return fmt.Sprintf("(int %s %d)", kindNames[t.Kind()], v.Uint())
	case reflect.Float32:
		return floatSexp(v.Float(), 32)
	case reflect.Float64:
		return floatSexp(v.Float(), 64)
	case reflect.Complex64, reflect.Complex128:
		bits := 64
		if t.Kind() == reflect.Complex64 {
			bits = 32
		}
		c := v.Complex()
		z := 0
		if imag(c) == 0 && !math.Signbit(imag(c)) { // only +0 is left out of the wire form
			z = 1
		}
		return fmt.Sprintf("(cx %s %s %d)", floatSexp(real(c), bits), floatSexp(imag(c), bits), z)
	case reflect.String:
		return "(str " + hx([]byte(v.String())) + ")"
	case reflect.Interface:
		if v.IsNil() {
			return "(nil)"
		}
		e := v.Elem()
		if e.Type().Implements(errorType) && e.Kind() == reflect.Ptr {
			// errors.New values (pointer to an unexported struct): written with WriteError
			return "(err " + hx([]byte(e.Interface().(error).Error())) + ")"
		}
		return w.walk(e)
	case reflect.Ptr:
		if v.IsNil() {
			return "(nil)"
		}
		key := ptrKey{t, v.Pointer()}
		id, ok := w.ids[key]
		if !ok {
			id = len(w.heap) + 1
			w.ids[key] = id
			w.heap = append(w.heap, "")
			w.heap[id-1] = w.walk(v.Elem())
		}
		return fmt.Sprintf("(ptr %d)", id)
	case reflect.Slice:
		if v.IsNil() {
			return "(nil)"
		}
		if t == bytesType {
			return "(bytes " + hx(v.Bytes()) + ")"
		}
		if t == bytes2dType {
			var sb strings.Builder
			sb.WriteString("(b2d")
			for i := 0; i < v.Len(); i++ {
				if v.Index(i).IsNil() {
					sb.WriteString(" nil")
				} else {
					sb.WriteString(" " + hx(v.Index(i).Bytes()))
				}
			}
			sb.WriteString(")")
			return sb.String()
		}
		if fast2d[t] {
			// write2d<T>SliceBody writes every row with WriteListHead(len(row)): a nil row is "a{}"
			var sb strings.Builder
			sb.WriteString("(slice")
			for i := 0; i < v.Len(); i++ {
				if v.Index(i).IsNil() {
					sb.WriteString(" (slice)")
				} else {
					sb.WriteString(" " + w.walk(v.Index(i)))
				}
			}
			sb.WriteString(")")
			return sb.String()
		}
		return w.seq("slice", v)
	case reflect.Array:
		if t.Elem() == bytesType.Elem() && v.Len() > 0 {
			b := make([]byte, v.Len())
			reflect.Copy(reflect.ValueOf(b), v)
			return "(bytes " + hx(b) + ")"
		}
		if fast2d[reflect.SliceOf(t.Elem())] {
			// arrayEncoder writes toSlice(array) through writeSlice: the 2-D fast path applies, a nil row is "a{}"
			var sb strings.Builder
			sb.WriteString("(slice")
			for i := 0; i < v.Len(); i++ {
				if v.Index(i).IsNil() {
					sb.WriteString(" (slice)")
				} else {
					sb.WriteString(" " + w.walk(v.Index(i)))
				}
			}
			sb.WriteString(")")
			return sb.String()
		}
		return w.seq("slice", v)
	case reflect.Map:
		if v.IsNil() {
			return "(nil)"
		}
		if v.Len() >= 2 {
			w.unordered = true
		}
		var sb strings.Builder
		sb.WriteString("(map")
		it := v.MapRange()
		for it.Next() {
			sb.WriteString(" " + w.walk(it.Key()) + " " + w.walk(it.Value()))
		}
		sb.WriteString(")")
		return sb.String()
	case reflect.Struct:
		fs := hproseFields(t, nil, nil)
		var sb strings.Builder
		if t.Name() != "" {
			cname := t.Name()
			if al, ok := aliases[t]; ok {
				cname = al
			}
			sb.WriteString("(struct " + hx([]byte(cname)) + " (fields")
		} else {
			sb.WriteString("(anon (fields")
		}
		for _, f := range fs {
			sb.WriteString(" " + hx([]byte(f.alias)))
		}
		sb.WriteString(")")
		for _, f := range fs {
			sb.WriteString(" " + w.walk(v.FieldByIndex(f.index)))
		}
		sb.WriteString(")")
		return sb.String()
	}
	w.unsup = t.String()
	return "(nil)"
}

func (w *walker) seq(tag string, v reflect.Value) string {
	var sb strings.Builder
	sb.WriteString("(" + tag)
	for i := 0; i < v.Len(); i++ {
		sb.WriteString(" " + w.walk(v.Index(i)))
	}
	sb.WriteString(")")
	return sb.String()
}

// describe returns "(case (heap (1 v) ...) v)".
func describe(v reflect.Value) (sexp string, unordered bool, unsup string) {
	return describeWith(&walker{ids: map[ptrKey]int{}}, v)
}

// describeWith uses (and extends) the pointer identities already known to w, so that several
// values described one after another share one heap.
func describeWith(w *walker, v reflect.Value) (sexp string, unordered bool, unsup string) {
	root := w.walk(v)
	var sb strings.Builder
	sb.WriteString("(case (heap")
	for i, h := range w.heap {
		fmt.Fprintf(&sb, " (%d %s)", i+1, h)
	}
	sb.WriteString(") " + root + ")")
	return sb.String(), w.unordered, w.unsup
}
