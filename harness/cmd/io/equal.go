package main

import (
	"container/list"
	"fmt"
	"math"
	"math/big"
	"reflect"
	"time"

	"github.com/google/uuid"
)

// C01's own oracle: deep equality up to exactly the format's normalisations:
// nil and empty slices/maps are interchangeable, a pointer to a nil pointer (or other nil
// value) collapses to nil, a time keeps its instant and its UTC-versus-local distinction.
// Inside interface{} destinations the decoder chooses the default Go type for each wire
// form, so values there are compared by what they denote (loose), not by Go type.

type eqctx struct {
	visited map[[2]uintptr]bool
	depth   int
	// sharing (reference mode): pointers to structs, slices and maps that were one object must come back
	// as one object, and distinct ones as distinct objects
	sharing  bool
	a2b, b2a map[uintptr]uintptr
}

// try compares without leaving traces of a failed attempt (visited pairs, pointer correspondences): used where a
// candidate pairing is only being tried out, as for the keys of a map
func (c *eqctx) try(a, b reflect.Value, path string) bool {
	t := &eqctx{visited: map[[2]uintptr]bool{}, depth: c.depth, sharing: c.sharing}
	for k, v := range c.visited {
		t.visited[k] = v
	}
	if c.a2b != nil {
		t.a2b, t.b2a = map[uintptr]uintptr{}, map[uintptr]uintptr{}
		for k, v := range c.a2b {
			t.a2b[k] = v
		}
		for k, v := range c.b2a {
			t.b2a[k] = v
		}
	}
	if t.eq(a, b, path) != "" {
		return false
	}
	c.visited, c.a2b, c.b2a = t.visited, t.a2b, t.b2a
	return true
}

func isNilLike(v reflect.Value) bool {
	for {
		if !v.IsValid() {
			return true
		}
		switch v.Kind() {
		case reflect.Ptr, reflect.Interface:
			if v.IsNil() {
				return true
			}
			v = v.Elem()
		case reflect.Slice, reflect.Map:
			return v.IsNil() || v.Len() == 0 // nil and empty containers are interchangeable
		default:
			return false
		}
	}
}

// floatEq: the same value including the sign of zero (any NaN equals any NaN: the payload is not carried by the text form)
func floatEq(a, b float64) bool {
	if a != a || b != b {
		return a != a && b != b
	}
	return math.Float64bits(a) == math.Float64bits(b)
}

func (c *eqctx) eq(a, b reflect.Value, path string) string {
	t := a.Type()
	if t != b.Type() {
		return fmt.Sprintf("%s: type %s vs %s", path, t, b.Type())
	}
	switch t {
	case timeType:
		x, y := a.Interface().(time.Time), b.Interface().(time.Time)
		if !x.Equal(y) {
			return fmt.Sprintf("%s: instant %s vs %s", path, x.Format(time.RFC3339Nano), y.Format(time.RFC3339Nano))
		}
		if (x.Location() == time.UTC) != (y.Location() == time.UTC) {
			return fmt.Sprintf("%s: UTC-ness %v vs %v", path, x.Location(), y.Location())
		}
		return ""
	case uuidType:
		if a.Interface().(uuid.UUID) != b.Interface().(uuid.UUID) {
			return path + ": uuid differs"
		}
		return ""
	case bigIntType:
		x, y := a.Interface().(big.Int), b.Interface().(big.Int)
		if x.Cmp(&y) != 0 {
			return fmt.Sprintf("%s: big.Int %s vs %s", path, x.String(), y.String())
		}
		return ""
	case bigFloatType:
		x, y := a.Interface().(big.Float), b.Interface().(big.Float)
		if x.Cmp(&y) != 0 && x.Text('g', -1) != new(big.Float).SetPrec(x.Prec()).Set(&y).Text('g', -1) {
			return fmt.Sprintf("%s: big.Float %s vs %s", path, x.Text('g', -1), y.Text('g', -1))
		}
		return ""
	case bigRatType:
		x, y := a.Interface().(big.Rat), b.Interface().(big.Rat)
		if x.Cmp(&y) != 0 {
			return fmt.Sprintf("%s: big.Rat %s vs %s", path, x.String(), y.String())
		}
		return ""
	case listType:
		x, y := a.Addr().Interface().(*list.List), b.Addr().Interface().(*list.List)
		if x.Len() != y.Len() {
			return fmt.Sprintf("%s: list len %d vs %d", path, x.Len(), y.Len())
		}
		for e, f, i := x.Front(), y.Front(), 0; e != nil; e, f, i = e.Next(), f.Next(), i+1 {
			if r := c.loose(reflect.ValueOf(e.Value), reflect.ValueOf(f.Value), fmt.Sprintf("%s.list[%d]", path, i)); r != "" {
				return r
			}
		}
		return ""
	}
	switch t.Kind() {
	case reflect.Bool:
		if a.Bool() != b.Bool() {
			return fmt.Sprintf("%s: %v vs %v", path, a.Bool(), b.Bool())
		}
	case reflect.Int, reflect.Int8, reflect.Int16, reflect.Int32, reflect.Int64:
		if a.Int() != b.Int() {
			return fmt.Sprintf("%s: %d vs %d", path, a.Int(), b.Int())
		}
	case reflect.Uint, reflect.Uint8, reflect.Uint16, reflect.Uint32, reflect.Uint64, reflect.Uintptr:
		if a.Uint() != b.Uint() {
			return fmt.Sprintf("%s: %d vs %d", path, a.Uint(), b.Uint())
		}
	case reflect.Float32, reflect.Float64:
		if !floatEq(a.Float(), b.Float()) {
			return fmt.Sprintf("%s: %v vs %v", path, a.Float(), b.Float())
		}
	case reflect.Complex64, reflect.Complex128:
		x, y := a.Complex(), b.Complex()
		if !floatEq(real(x), real(y)) || !floatEq(imag(x), imag(y)) {
			return fmt.Sprintf("%s: %v vs %v", path, x, y)
		}
	case reflect.String:
		if a.String() != b.String() {
			return fmt.Sprintf("%s: %q vs %q", path, a.String(), b.String())
		}
	case reflect.Slice:
		if a.Len() != b.Len() {
			return fmt.Sprintf("%s: slice len %d vs %d", path, a.Len(), b.Len())
		}
		for i := 0; i < a.Len(); i++ {
			if r := c.eq(a.Index(i), b.Index(i), fmt.Sprintf("%s[%d]", path, i)); r != "" {
				return r
			}
		}
	case reflect.Array:
		for i := 0; i < a.Len(); i++ {
			if r := c.eq(a.Index(i), b.Index(i), fmt.Sprintf("%s[%d]", path, i)); r != "" {
				return r
			}
		}
	case reflect.Map:
		if a.Len() != b.Len() {
			return fmt.Sprintf("%s: map len %d vs %d", path, a.Len(), b.Len())
		}
		it := a.MapRange()
		for it.Next() {
			found := false
			jt := b.MapRange()
			for jt.Next() {
				if c.try(it.Key(), jt.Key(), path+".key") {
					if r := c.eq(it.Value(), jt.Value(), fmt.Sprintf("%s[%v]", path, it.Key())); r != "" {
						return r
					}
					found = true
					break
				}
			}
			if !found {
				return fmt.Sprintf("%s: key %v missing", path, it.Key())
			}
		}
	case reflect.Ptr:
		an, bn := isNilLike(a), isNilLike(b)
		if an || bn {
			if an != bn {
				return fmt.Sprintf("%s: nil-ness %v vs %v", path, an, bn)
			}
			return ""
		}
		if c.sharing {
			switch k := a.Elem().Kind(); {
			case (k == reflect.Struct && t.Elem() != timeType && t.Elem() != bigIntType && t.Elem() != bigFloatType && t.Elem() != bigRatType && a.Elem().NumField() > 0) ||
				k == reflect.Map || (k == reflect.Slice && a.Elem().Len() > 0):
				if c.a2b == nil {
					c.a2b, c.b2a = map[uintptr]uintptr{}, map[uintptr]uintptr{}
				}
				pa, pb := a.Pointer(), b.Pointer()
				if prev, ok := c.a2b[pa]; ok && prev != pb {
					return fmt.Sprintf("%s: sharing lost: a pointer that occurred before came back as a different object", path)
				}
				if prev, ok := c.b2a[pb]; ok && prev != pa {
					return fmt.Sprintf("%s: sharing invented: two distinct pointers came back as one object", path)
				}
				c.a2b[pa], c.b2a[pb] = pb, pa
			}
		}
		key := [2]uintptr{a.Pointer(), b.Pointer()}
		if c.visited[key] {
			return ""
		}
		c.visited[key] = true
		return c.eq(a.Elem(), b.Elem(), path+".*")
	case reflect.Interface:
		return c.loose(a, b, path)
	case reflect.Struct:
		for i := 0; i < t.NumField(); i++ {
			f := t.Field(i)
			if f.PkgPath != "" && !f.Anonymous {
				continue // unexported: not serialized
			}
			if tag := f.Tag.Get("hprose"); tag == "-" {
				continue
			}
			if f.PkgPath != "" {
				continue
			}
			if r := c.eq(a.Field(i), b.Field(i), path+"."+f.Name); r != "" {
				return r
			}
		}
	default:
		return path + ": unsupported kind " + t.Kind().String()
	}
	return ""
}

func strip(v reflect.Value) reflect.Value {
	for v.IsValid() && (v.Kind() == reflect.Ptr || v.Kind() == reflect.Interface) {
		if v.IsNil() {
			return reflect.Value{}
		}
		v = v.Elem()
	}
	return v
}

func numOf(v reflect.Value) (*big.Float, bool) {
	switch v.Kind() {
	case reflect.Int, reflect.Int8, reflect.Int16, reflect.Int32, reflect.Int64:
		return new(big.Float).SetInt64(v.Int()), true
	case reflect.Uint, reflect.Uint8, reflect.Uint16, reflect.Uint32, reflect.Uint64, reflect.Uintptr:
		return new(big.Float).SetUint64(v.Uint()), true
	}
	switch v.Type() {
	case bigIntType:
		x := v.Interface().(big.Int)
		return new(big.Float).SetPrec(4096).SetInt(&x), true
	case bigRatType:
		// an integral rational is an integer on the wire
		if x := v.Interface().(big.Rat); x.IsInt() {
			return new(big.Float).SetPrec(4096).SetInt(x.Num()), true
		}
	}
	return nil, false
}

// loose: a is what was encoded (any Go type), b what came back in an interface{} destination.
func (c *eqctx) loose(a, b reflect.Value, path string) string {
	an, bn := isNilLike(a), isNilLike(b)
	if an || bn {
		if !an && bn {
			// a struct without serialisable fields is an empty object: it may come back as an empty map
			if sa := strip(a); sa.IsValid() && sa.Kind() == reflect.Struct && sa.Type() != timeType &&
				sa.Type() != bigIntType && sa.Type() != bigFloatType && sa.Type() != bigRatType && sa.Type() != listType &&
				len(hproseFields(sa.Type(), nil, nil)) == 0 {
				return ""
			}
		}
		if an != bn {
			return fmt.Sprintf("%s: nil-ness %v vs %v (iface)", path, an, bn)
		}
		return ""
	}
	// cycle guard: the identity of the pointer being unwrapped on the original side, paired with the
	// identity (pointer, slice or map) of what came back
	for a.IsValid() && (a.Kind() == reflect.Ptr || a.Kind() == reflect.Interface) {
		if a.Kind() == reflect.Ptr {
			bb := b
			for bb.IsValid() && bb.Kind() == reflect.Interface && !bb.IsNil() {
				bb = bb.Elem()
			}
			var bp uintptr
			switch bb.Kind() {
			case reflect.Ptr, reflect.Slice, reflect.Map:
				bp = bb.Pointer()
			}
			key := [2]uintptr{a.Pointer(), bp}
			if c.visited[key] {
				return ""
			}
			c.visited[key] = true
		}
		a = a.Elem()
	}
	c.depth++
	defer func() { c.depth-- }()
	if c.depth > 2000 {
		return path[:40] + "…: comparison too deep (cyclic value decoded by copying?)"
	}
	a, b = strip(a), strip(b)
	if x, ok := numOf(a); ok {
		y, ok2 := numOf(b)
		if !ok2 {
			return fmt.Sprintf("%s: integer %v came back as %s", path, a.Interface(), b.Type())
		}
		if x.Cmp(y) != 0 {
			return fmt.Sprintf("%s: integer %s vs %s", path, x.Text('f', 0), y.Text('f', 0))
		}
		return ""
	}
	switch a.Kind() {
	case reflect.Bool:
		if b.Kind() != reflect.Bool || a.Bool() != b.Bool() {
			return fmt.Sprintf("%s: bool %v vs %v", path, a.Interface(), b.Interface())
		}
		return ""
	case reflect.Float32:
		if b.Kind() != reflect.Float64 && b.Kind() != reflect.Float32 {
			return fmt.Sprintf("%s: float came back as %s", path, b.Type())
		}
		if !floatEq(float64(float32(b.Float())), a.Float()) {
			return fmt.Sprintf("%s: float32 %v vs %v", path, a.Float(), b.Float())
		}
		return ""
	case reflect.Float64:
		if b.Kind() != reflect.Float64 {
			return fmt.Sprintf("%s: float came back as %s", path, b.Type())
		}
		if !floatEq(a.Float(), b.Float()) {
			return fmt.Sprintf("%s: float64 %v vs %v", path, a.Float(), b.Float())
		}
		return ""
	case reflect.Complex64, reflect.Complex128:
		x := a.Complex()
		if imag(x) == 0 && !math.Signbit(imag(x)) { // +0 imaginary part: written as the real part alone
			if b.Kind() == reflect.Float64 && (floatEq(b.Float(), real(x)) ||
				(a.Kind() == reflect.Complex64 && floatEq(float64(float32(b.Float())), real(x)))) {
				return ""
			}
			return fmt.Sprintf("%s: complex %v vs %v", path, x, b.Interface())
		}
		if b.Kind() == reflect.Slice && b.Len() == 2 {
			re, im := strip(b.Index(0)), strip(b.Index(1))
			if re.IsValid() && im.IsValid() && re.Kind() == reflect.Float64 && im.Kind() == reflect.Float64 {
				conv := func(f float64) float64 {
					if a.Kind() == reflect.Complex64 {
						return float64(float32(f))
					}
					return f
				}
				if floatEq(conv(re.Float()), real(x)) && floatEq(conv(im.Float()), imag(x)) {
					return ""
				}
			}
		}
		return fmt.Sprintf("%s: complex %v vs %v", path, x, b.Interface())
	case reflect.String:
		if b.Kind() == reflect.String && a.String() == b.String() {
			return ""
		}
		return fmt.Sprintf("%s: string %q came back as %s %v", path, a.String(), b.Type(), b.Interface())
	}
	if a.Type() == bigFloatType && b.Kind() == reflect.Float64 {
		// a big float is a double on the wire; an interface{} destination gets a float64
		x := a.Interface().(big.Float)
		if f, _ := x.Float64(); floatEq(f, b.Float()) {
			return ""
		}
		return fmt.Sprintf("%s: big.Float %s vs %v", path, x.Text('g', -1), b.Float())
	}
	if a.Type() == bigRatType && b.Kind() == reflect.String {
		// a non-integer rational is a string "a/b" on the wire; an interface{} destination keeps the text
		x := a.Interface().(big.Rat)
		if x.String() == b.String() {
			return ""
		}
		return fmt.Sprintf("%s: big.Rat %s vs %q", path, x.String(), b.String())
	}
	switch a.Type() {
	case timeType, uuidType, bigFloatType, bigRatType:
		if b.Type() != a.Type() {
			return fmt.Sprintf("%s: %s came back as %s", path, a.Type(), b.Type())
		}
		return c.eq(a, b, path)
	case listType:
		// a list comes back as a slice
		l := a.Addr().Interface().(*list.List)
		if b.Kind() != reflect.Slice || b.Len() != l.Len() {
			return fmt.Sprintf("%s: list came back as %s", path, b.Type())
		}
		i := 0
		for e := l.Front(); e != nil; e = e.Next() {
			if r := c.loose(reflect.ValueOf(e.Value), b.Index(i), fmt.Sprintf("%s[%d]", path, i)); r != "" {
				return r
			}
			i++
		}
		return ""
	}
	switch a.Kind() {
	case reflect.Slice, reflect.Array:
		if a.Kind() == reflect.Slice && a.Type().Elem().Kind() == reflect.Uint8 && b.Kind() == reflect.Slice && b.Type().Elem().Kind() == reflect.Uint8 {
			if string(a.Bytes()) == string(b.Bytes()) {
				return ""
			}
			return path + ": bytes differ"
		}
		if b.Kind() != reflect.Slice && b.Kind() != reflect.Array {
			return fmt.Sprintf("%s: %s came back as %s", path, a.Type(), b.Type())
		}
		if a.Len() != b.Len() {
			return fmt.Sprintf("%s: len %d vs %d", path, a.Len(), b.Len())
		}
		for i := 0; i < a.Len(); i++ {
			if r := c.loose(a.Index(i), b.Index(i), fmt.Sprintf("%s[%d]", path, i)); r != "" {
				return r
			}
		}
		return ""
	case reflect.Map:
		if b.Kind() != reflect.Map || a.Len() != b.Len() {
			return fmt.Sprintf("%s: map %s(len %d) came back as %s", path, a.Type(), a.Len(), b.Type())
		}
		it := a.MapRange()
		for it.Next() {
			found := false
			jt := b.MapRange()
			for jt.Next() {
				if c.loose(it.Key(), jt.Key(), path+".key") == "" {
					if r := c.loose(it.Value(), jt.Value(), fmt.Sprintf("%s[%v]", path, it.Key())); r != "" {
						return r
					}
					found = true
					break
				}
			}
			if !found {
				return fmt.Sprintf("%s: key %v missing (iface)", path, it.Key())
			}
		}
		return ""
	case reflect.Struct:
		if b.Type() == a.Type() {
			return c.eq(a, b, path)
		}
		if b.Kind() == reflect.Map {
			// an anonymous or unregistered struct comes back as a map alias -> value
			fs := hproseFields(a.Type(), nil, nil)
			if b.Len() != len(fs) {
				return fmt.Sprintf("%s: struct with %d fields came back as map of %d", path, len(fs), b.Len())
			}
			for _, f := range fs {
				var got reflect.Value
				jt := b.MapRange()
				for jt.Next() {
					k := strip(jt.Key())
					if k.IsValid() && k.Kind() == reflect.String && k.String() == f.alias {
						got = jt.Value()
					}
				}
				if !got.IsValid() {
					return fmt.Sprintf("%s: field %s missing in map", path, f.alias)
				}
				if r := c.loose(a.FieldByIndex(f.index), got, path+"."+f.alias); r != "" {
					return r
				}
			}
			return ""
		}
		return fmt.Sprintf("%s: struct %s came back as %s", path, a.Type(), b.Type())
	}
	_ = math.Pi
	return fmt.Sprintf("%s: cannot compare %s with %s", path, a.Type(), b.Type())
}
