// hv-io: implementation side of the io checks (C01, C02, C03).
// One JSON case per line: build a Go value of a described type, describe it for the model,
// Marshal it with the real library in simple and reference mode, Unmarshal it back into the
// same type and compare with the normalising equality of the property.
package main

import (
	"encoding/hex"
	"encoding/json"
	"fmt"
	"os"
	"reflect"

	hio "github.com/hprose/hprose-golang/v3/io"
	"hv/hvlib"
)

type ioCase struct {
	ID    int             `json:"id"`
	T     *TD             `json:"t"`
	V     json.RawMessage `json:"v"`
	Top   string          `json:"top"`   // "value" (default) or "ptr": Marshal(v) or Marshal(&v)
	Modes []string        `json:"modes"` // subset of simple, ref
	Dump  bool            `json:"dump,omitempty"`
}

type modeObs struct {
	Hex      string `json:"hex,omitempty"`
	EncErr   string `json:"enc_err,omitempty"`
	EncPanic string `json:"enc_panic,omitempty"`
	RT       string `json:"rt"` // "" = equal; otherwise the first difference
	RTErr    string `json:"rt_err,omitempty"`
	RTPanic  string `json:"rt_panic,omitempty"`
	DecSexp  string `json:"dec_sexp,omitempty"` // the decoded value described like the input (only with "dump")
}

type ioObs struct {
	ID        int                `json:"id"`
	BuildErr  string             `json:"build_err,omitempty"`
	Sexp      string             `json:"sexp,omitempty"`
	Unordered bool               `json:"unordered,omitempty"`
	Unsup     string             `json:"unsup,omitempty"`
	Modes     map[string]modeObs `json:"modes,omitempty"`
}

func safely(f func()) (p string) {
	defer func() {
		if e := recover(); e != nil {
			p = fmt.Sprint(e)
			if p == "" {
				p = "panic"
			}
		}
	}()
	f()
	return ""
}

func runCase(line []byte, out *json.Encoder) error {
	var c ioCase
	if err := json.Unmarshal(line, &c); err != nil {
		return err
	}
	hvlib.Begin(c.ID)
	obs := ioObs{ID: c.ID, Modes: map[string]modeObs{}}
	t, err := typeOf(c.T)
	if err != nil {
		obs.BuildErr = err.Error()
		return out.Encode(&obs)
	}
	b := &builder{ptrs: map[int]reflect.Value{}}
	holder := reflect.New(t) // *T, addressable
	if err := b.fill(holder.Elem(), c.V); err != nil {
		obs.BuildErr = err.Error()
		return out.Encode(&obs)
	}
	var top reflect.Value // the value handed to Marshal
	if c.Top == "ptr" {
		top = holder
	} else {
		top = holder.Elem()
	}
	// describe what is being encoded (the interface{} handed to Marshal)
	iv := reflect.New(ifaceType).Elem()
	iv.Set(top)
	obs.Sexp, obs.Unordered, obs.Unsup = describe(iv)
	modes := c.Modes
	if len(modes) == 0 {
		modes = []string{"simple", "ref"}
	}
	for _, m := range modes {
		var mo modeObs
		f := hio.Formatter{Simple: m == "simple"}
		var data []byte
		mo.EncPanic = safely(func() {
			d, e := f.Marshal(top.Interface())
			if e != nil {
				mo.EncErr = e.Error()
			}
			data = d
		})
		if mo.EncPanic == "" && mo.EncErr == "" {
			mo.Hex = hex.EncodeToString(data)
			dst := reflect.New(top.Type())
			mo.RTPanic = safely(func() {
				if e := f.Unmarshal(data, dst.Interface()); e != nil {
					mo.RTErr = e.Error()
				}
			})
			if mo.RTPanic == "" && c.Dump {
				safely(func() {
					dv := reflect.New(ifaceType).Elem()
					dv.Set(dst.Elem())
					mo.DecSexp, _, _ = describe(dv)
				})
			}
			if mo.RTPanic == "" {
				p := safely(func() {
					ctx := &eqctx{visited: map[[2]uintptr]bool{}}
					mo.RT = ctx.eq(top, dst.Elem(), "$")
				})
				if p != "" {
					mo.RT = "comparison panicked: " + p
				}
			} else {
				mo.RT = "decode panicked"
			}
		}
		obs.Modes[m] = mo
	}
	return out.Encode(&obs)
}

func main() {
	if len(os.Args) > 1 && os.Args[1] == "-types" {
		reg := map[string]*TD{}
		for name, t := range registry {
			reg[name] = descOf(t, true)
		}
		json.NewEncoder(os.Stdout).Encode(reg)
		return
	}
	hvlib.Main(runCase)
}
