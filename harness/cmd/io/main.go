// hv-io: implementation side of the io checks (C01, C02, C03).
// One JSON case per line: build a Go value of a described type, describe it for the model,
// Marshal it with the real library in simple and reference mode, Unmarshal it back into the
// same type and compare with the normalising equality of the property.
package main

import (
	"bytes"
	"encoding/hex"
	"encoding/json"
	"fmt"
	"math"
	"os"
	"reflect"
	"runtime"
	"strconv"
	"sync"
	"time"

	hio "github.com/hprose/hprose-golang/v3/io"
	"hv/hvlib"
)

type ioCase struct {
	ID    int             `json:"id"`
	T     *TD             `json:"t"`
	V     json.RawMessage `json:"v"`
	Top   string          `json:"top"`   // "value" (default) or "ptr": Marshal(v) or Marshal(&v)
	Modes []string        `json:"modes"` // subset of simple, ref
	Dump  bool            `json:"dump,omitempty"`
	// Sweep: exhaustive/strided sweep over float32 bit patterns through Marshal/Unmarshal
	// {"from":a,"to":b,"stride":k,"hazards":bool}; hazards=true only computes (from strconv alone) the
	// values whose shortest 32-bit text does not survive parsing as float64 and rounding to float32
	Sweep *sweepSpec `json:"sweep,omitempty"`
	// Seq: several values through ONE encoder: steps {"op":"encode","t":..,"v":..} or {"op":"reset"}
	Seq []seqStep `json:"seq,omitempty"`
	// Writer: the sequence goes through NewEncoder(w); steps may then also be {"op":"resetbuffer"},
	// which must not change what reaches w
	Writer bool `json:"writer,omitempty"`
	// Reuse: the sequence is decoded back into ONE destination per Go type (the second value of a type is
	// decoded over what the first left there), as a caller reusing a variable does
	Reuse bool `json:"reuse,omitempty"`
	// TZ: offset in seconds of the zone installed as time.Local while this case runs (0 = leave it)
	TZ int `json:"tz,omitempty"`
}

type sweepSpec struct {
	From    uint64 `json:"from"`
	To      uint64 `json:"to"`
	Stride  uint64 `json:"stride"`
	Hazards bool   `json:"hazards"`
}

type sweepObs struct {
	Count     uint64   `json:"count"`
	Bad       []string `json:"bad"` // first mismatching bit patterns (hex) with what came back
	Hazards   []string `json:"hazards,omitempty"`
	NBad      uint64   `json:"nbad"`
	Positions int      `json:"positions"`
}

func runSweep(sp *sweepSpec) sweepObs {
	var res sweepObs
	var mu sync.Mutex
	workers := runtime.NumCPU()
	stride := sp.Stride
	if stride == 0 {
		stride = 1
	}
	var wg sync.WaitGroup
	type holder struct {
		A int
		F float32
		P *float32
	}
	res.Positions = 3
	for w := 0; w < workers; w++ {
		wg.Add(1)
		go func(w int) {
			defer wg.Done()
			var cnt, nbad uint64
			var bad, haz []string
			for bits := sp.From + uint64(w)*stride; bits < sp.To; bits += stride * uint64(workers) {
				f := math.Float32frombits(uint32(bits))
				cnt++
				if sp.Hazards {
					if f != f || math.IsInf(float64(f), 0) {
						continue
					}
					d, _ := strconv.ParseFloat(strconv.FormatFloat(float64(f), 'g', -1, 32), 64)
					if float32(d) != f {
						haz = append(haz, fmt.Sprintf("0x%08x", uint32(bits)))
					}
					continue
				}
				// top level, struct field and pointer field in one value
				in := holder{A: 1, F: f, P: &f}
				data, err := hio.Marshal(in)
				var out holder
				if err == nil {
					err = hio.Unmarshal(data, &out)
				}
				ok := err == nil && out.P != nil && math.Float32bits(out.F) == uint32(bits) && math.Float32bits(*out.P) == uint32(bits)
				if f != f { // NaN: any NaN is fine
					ok = err == nil && out.F != out.F && out.P != nil && *out.P != *out.P
				}
				if !ok {
					nbad++
					if len(bad) < 5 {
						bad = append(bad, fmt.Sprintf("0x%08x -> %08x err=%v", uint32(bits), math.Float32bits(out.F), err))
					}
				}
			}
			mu.Lock()
			res.Count += cnt
			res.NBad += nbad
			res.Bad = append(res.Bad, bad...)
			res.Hazards = append(res.Hazards, haz...)
			mu.Unlock()
		}(w)
	}
	wg.Wait()
	return res
}

type seqStep struct {
	Op string          `json:"op"`
	T  *TD             `json:"t,omitempty"`
	V  json.RawMessage `json:"v,omitempty"`
}

type seqObs struct {
	Hex      string   `json:"hex,omitempty"`
	Steps    []string `json:"steps"` // per step: "reset" or the sexp of the value encoded
	EncErr   string   `json:"enc_err,omitempty"`
	EncPanic string   `json:"enc_panic,omitempty"`
	DecErr   string   `json:"dec_err,omitempty"` // decoding the whole stream back with one decoder (Reset at the same places)
	DecPanic string   `json:"dec_panic,omitempty"`
	RT       string   `json:"rt"`
}

type modeObs struct {
	Hex      string `json:"hex,omitempty"`
	EncErr   string `json:"enc_err,omitempty"`
	EncPanic string `json:"enc_panic,omitempty"`
	RT       string `json:"rt"` // "" = equal; otherwise the first difference
	RTErr    string `json:"rt_err,omitempty"`
	RTPanic  string `json:"rt_panic,omitempty"`
	DecSexp  string `json:"dec_sexp,omitempty"` // the decoded value described like the input (only with "dump")
}

type ioObs struct {
	ID        int                `json:"id"`
	BuildErr  string             `json:"build_err,omitempty"`
	Sexp      string             `json:"sexp,omitempty"`
	Unordered bool               `json:"unordered,omitempty"`
	Unsup     string             `json:"unsup,omitempty"`
	Modes     map[string]modeObs `json:"modes,omitempty"`
	SeqModes  map[string]seqObs  `json:"seq_modes,omitempty"`
	Sweep     *sweepObs          `json:"sweep,omitempty"`
}

func safely(f func()) (p string) {
	defer func() {
		if e := recover(); e != nil {
			p = fmt.Sprint(e)
			if p == "" {
				p = "panic"
			}
		}
	}()
	f()
	return ""
}

func runCase(line []byte, out *json.Encoder) error {
	var c ioCase
	if err := json.Unmarshal(line, &c); err != nil {
		return err
	}
	hvlib.Begin(c.ID)
	if c.TZ != 0 {
		old := time.Local
		time.Local = time.FixedZone("HVZ", c.TZ)
		defer func() { time.Local = old }()
	}
	obs := ioObs{ID: c.ID, Modes: map[string]modeObs{}}
	if c.Sweep != nil {
		hvlib.CaseTimeout = 3 * time.Hour
		r := runSweep(c.Sweep)
		obs.Sweep = &r
		return out.Encode(&obs)
	}
	if len(c.Seq) > 0 {
		runSeq(&c, &obs)
		return out.Encode(&obs)
	}
	t, err := typeOf(c.T)
	if err != nil {
		obs.BuildErr = err.Error()
		return out.Encode(&obs)
	}
	b := &builder{ptrs: map[int]reflect.Value{}}
	holder := reflect.New(t) // *T, addressable
	if err := b.fill(holder.Elem(), c.V); err != nil {
		obs.BuildErr = err.Error()
		return out.Encode(&obs)
	}
	var top reflect.Value // the value handed to Marshal
	if c.Top == "ptr" {
		top = holder
	} else {
		top = holder.Elem()
	}
	// describe what is being encoded (the interface{} handed to Marshal)
	iv := reflect.New(ifaceType).Elem()
	iv.Set(top)
	obs.Sexp, obs.Unordered, obs.Unsup = describe(iv)
	modes := c.Modes
	if len(modes) == 0 {
		modes = []string{"simple", "ref"}
	}
	for _, m := range modes {
		var mo modeObs
		f := hio.Formatter{Simple: m == "simple"}
		var data []byte
		mo.EncPanic = safely(func() {
			d, e := f.Marshal(top.Interface())
			if e != nil {
				mo.EncErr = e.Error()
			}
			data = d
		})
		if mo.EncPanic == "" && mo.EncErr == "" {
			mo.Hex = hex.EncodeToString(data)
			dst := reflect.New(top.Type())
			mo.RTPanic = safely(func() {
				if e := f.Unmarshal(data, dst.Interface()); e != nil {
					mo.RTErr = e.Error()
				}
			})
			if mo.RTPanic == "" && c.Dump {
				safely(func() {
					dv := reflect.New(ifaceType).Elem()
					dv.Set(dst.Elem())
					mo.DecSexp, _, _ = describe(dv)
				})
			}
			if mo.RTPanic == "" {
				p := safely(func() {
					ctx := &eqctx{visited: map[[2]uintptr]bool{}, sharing: m == "ref"}
					mo.RT = ctx.eq(top, dst.Elem(), "$")
				})
				if p != "" {
					mo.RT = "comparison panicked: " + p
				}
			} else {
				mo.RT = "decode panicked"
			}
		}
		obs.Modes[m] = mo
	}
	return out.Encode(&obs)
}

// runSeq: values written one after another to one Encoder (Reset where the script says), then read
// back with one Decoder that resets at the same places.
func runSeq(c *ioCase, obs *ioObs) {
	obs.SeqModes = map[string]seqObs{}
	b := &builder{ptrs: map[int]reflect.Value{}}
	type item struct {
		reset    bool
		resetbuf bool
		write    bool // Encoder.Write instead of Encoder.Encode
		v        reflect.Value
	}
	var items []item
	var steps []string
	wk := &walker{ids: map[ptrKey]int{}}
	for _, st := range c.Seq {
		if st.Op == "reset" {
			items = append(items, item{reset: true})
			steps = append(steps, "reset")
			continue
		}
		if st.Op == "resetbuffer" {
			// only with a Writer: everything encoded so far has been flushed, nothing may be lost or repeated
			items = append(items, item{resetbuf: true})
			continue
		}
		t, err := typeOf(st.T)
		if err != nil {
			obs.BuildErr = err.Error()
			return
		}
		h := reflect.New(t)
		if err := b.fill(h.Elem(), st.V); err != nil {
			obs.BuildErr = err.Error()
			return
		}
		iv := reflect.New(ifaceType).Elem()
		iv.Set(h.Elem())
		sx, _, _ := describeWith(wk, iv)
		items = append(items, item{v: h.Elem(), write: st.Op == "write"})
		if st.Op == "write" {
			sx = "write:" + sx
		}
		steps = append(steps, sx)
	}
	modes := c.Modes
	if len(modes) == 0 {
		modes = []string{"simple", "ref"}
	}
	for _, m := range modes {
		so := seqObs{Steps: steps}
		var wbuf bytes.Buffer
		enc := new(hio.Encoder).Simple(m == "simple")
		if c.Writer {
			enc = hio.NewEncoder(&wbuf).Simple(m == "simple")
		}
		so.EncPanic = safely(func() {
			for _, it := range items {
				if it.reset {
					enc.Reset()
				} else if it.resetbuf {
					if c.Writer {
						enc.ResetBuffer()
					}
				} else if it.write {
					if e := enc.Write(it.v.Interface()); e != nil {
						so.EncErr = e.Error()
					}
				} else if e := enc.Encode(it.v.Interface()); e != nil {
					so.EncErr = e.Error()
				}
			}
		})
		if so.EncPanic == "" && so.EncErr == "" {
			data := enc.Bytes()
			if c.Writer {
				data = wbuf.Bytes()
			}
			so.Hex = hex.EncodeToString(data)
			dec := hio.NewDecoder(data).Simple(m == "simple")
			reused := map[reflect.Type]reflect.Value{}
			so.DecPanic = safely(func() {
				for i, it := range items {
					if it.reset {
						dec.Reset()
						continue
					}
					if it.resetbuf {
						continue
					}
					dst := reflect.New(it.v.Type())
					if c.Reuse {
						if old, ok := reused[it.v.Type()]; ok {
							dst = old
						} else {
							reused[it.v.Type()] = dst
						}
					}
					dec.Decode(dst.Interface())
					if dec.Error != nil {
						so.DecErr = fmt.Sprintf("step %d: %v", i, dec.Error)
						return
					}
					ctx := &eqctx{visited: map[[2]uintptr]bool{}, sharing: m == "ref"}
					if r := ctx.eq(it.v, dst.Elem(), fmt.Sprintf("$%d", i)); r != "" && so.RT == "" {
						so.RT = r
					}
				}
			})
		}
		obs.SeqModes[m] = so
	}
}

func main() {
	if len(os.Args) > 1 && os.Args[1] == "-types" {
		reg := map[string]*TD{}
		for name, t := range registry {
			reg[name] = descOf(t, true)
		}
		json.NewEncoder(os.Stdout).Encode(reg)
		return
	}
	hvlib.Main(runCase)
}
