// hv-golite: the compiled Go functions that tools/gotables (golite.go) translates into Gallina, called
// through their verif accessors on the inputs of lib/golite_tie.py.  One JSON case per line.
package main

import (
	"bufio"
	"encoding/hex"
	"encoding/json"
	"fmt"
	"os"

	hio "github.com/hprose/hprose-golang/v3/io"
	"github.com/hprose/hprose-golang/v3/rpc/plugins/cluster"
	"github.com/hprose/hprose-golang/v3/rpc/plugins/loadbalance"
	"github.com/hprose/hprose-golang/v3/rpc/socket"
	"github.com/hprose/hprose-golang/v3/rpc/udp"
	"github.com/hprose/hprose-golang/v3/rpc/websocket"
)

type gcase struct {
	ID int    `json:"id"`
	F  string `json:"f"`
	L  int    `json:"l"`
	I  int    `json:"i"`
	H  string `json:"h"` // hex
	X  int64  `json:"x"`
	Y  int64  `json:"y"`
}

type gobs struct {
	ID    int     `json:"id"`
	Out   []int64 `json:"out"`
	Panic string  `json:"panic,omitempty"`
}

func bytesOut(b []byte) []int64 {
	o := make([]int64, len(b))
	for i, x := range b {
		o[i] = int64(x)
	}
	return o
}

func b2i(b bool) int64 {
	if b {
		return 1
	}
	return 0
}

func run(c *gcase) (o gobs) {
	o.ID = c.ID
	defer func() {
		if r := recover(); r != nil {
			o.Panic = fmt.Sprint(r)
			o.Out = nil
		}
	}()
	h, _ := hex.DecodeString(c.H)
	switch c.F {
	case "socket_makeHeader":
		x := socket.VerifMakeHeader(c.L, c.I)
		o.Out = bytesOut(x[:])
	case "socket_parseHeader":
		var a [12]byte
		copy(a[:], h)
		l, i, ok := socket.VerifParseHeader(a)
		o.Out = []int64{int64(l), int64(i), b2i(ok)}
	case "udp_makeHeader":
		x := udp.VerifMakeHeader(c.L, c.I)
		o.Out = bytesOut(x[:])
	case "udp_parseHeader":
		l, i, ok := udp.VerifParseHeader(h)
		o.Out = []int64{int64(l), int64(i), b2i(ok)}
	case "ws_makeHeader":
		x := websocket.VerifMakeHeader(c.I)
		o.Out = bytesOut(x[:])
	case "ws_parseHeader":
		i, ok := websocket.VerifParseHeader(h)
		o.Out = []int64{int64(i), b2i(ok)}
	case "io_utf16Length":
		o.Out = []int64{int64(hio.VerifUTF16Length(string(h)))}
	case "cluster_getIndex":
		r, cell := cluster.VerifGetIndex(c.X, c.Y)
		o.Out = []int64{r, cell}
	case "rr_getIndex":
		r, cell := loadbalance.VerifRRGetIndex(c.X, c.Y)
		o.Out = []int64{r, cell}
	case "lb_gcd":
		o.Out = []int64{loadbalance.VerifGCD(c.X, c.Y)}
	default:
		o.Panic = "unknown function " + c.F
	}
	return
}

func main() {
	in := bufio.NewScanner(os.Stdin)
	in.Buffer(make([]byte, 1<<20), 1<<26)
	out := json.NewEncoder(os.Stdout)
	for in.Scan() {
		var c gcase
		if err := json.Unmarshal(in.Bytes(), &c); err != nil {
			continue
		}
		o := run(&c)
		out.Encode(&o)
	}
}
