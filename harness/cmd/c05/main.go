package main

import (
	"encoding/hex"
	"encoding/json"
	"errors"
	"fmt"
	"github.com/google/uuid"
	stdio "io"
	"math"
	"math/big"
	"os"
	"reflect"
	"sort"
	"strconv"
	"strings"
	"time"

	"github.com/hprose/hprose-golang/v3/io"
	"hv/hvlib"
)

// C05: drive the real Decoder over a scripted io.Reader (or over a contiguous slice) and
// report what it returned.  Never compares anything itself.
type c05Case struct {
	ID      int      `json:"id"`
	Kind    string   `json:"kind"`     // prim | decode | samples
	Mode    string   `json:"mode"`     // B: io.NewDecoder(bytes)   R: from the scripted reader
	Ctor    string   `json:"ctor"`     // R only: "new" NewDecoderFromReader(r, cap) | "reset" io.VerifNewDecoderFromReader(r, cap) (verif hook: a read buffer of cap bytes, below the public minimum of 256) | "fmt" Formatter.UnmarshalFromReader
	Cap     int      `json:"cap"`      // buffer size asked for
	Chunks  []string `json:"chunks"`   // hex; "" is a Read returning (0, nil)
	Data    string   `json:"data"`     // alternative to chunks: the whole stream in hex ...
	Lens    []int    `json:"lens"`     // ... and the lengths of the successive reads (0 allowed); a rest becomes one last chunk
	EOFLast bool     `json:"eof_last"` // the last chunk is returned together with io.EOF
	Cmds    []string `json:"cmds"`     // prim
	Type    string   `json:"type"`     // decode: destination type
	Simple  bool     `json:"simple"`   // decode: decoder.Simple(simple)
	// decoder options (io.LongType / RealType / MapType values); the Formatter entry takes them as its fields
	LongT int `json:"lt,omitempty"`
	RealT int `json:"rt,omitempty"`
	MapT  int `json:"mt,omitempty"`
	// UseFormatter: the contiguous decode goes through Formatter.Unmarshal (the counterpart of ctor "fmt")
	UseFormatter bool `json:"usefmt,omitempty"`
}

type c05Obs struct {
	ID    int         `json:"id"`
	Toks  []string    `json:"toks,omitempty"`
	Val   string      `json:"val,omitempty"`
	Err   string      `json:"err,omitempty"`
	Rest  string      `json:"rest,omitempty"`
	Panic string      `json:"panic,omitempty"`
	Reads int         `json:"reads,omitempty"`
	Items []c05Sample `json:"items,omitempty"`
}

type c05Sample struct {
	Name   string `json:"name"`
	Type   string `json:"type"`
	Simple bool   `json:"simple"`
	Hex    string `json:"hex"`
}

// scriptedReader hands out the chunks one Read at a time (never more than len(p)), then (0, EOF).
type scriptedReader struct {
	chunks  [][]byte
	i       int
	eofLast bool
	reads   int
}

func (r *scriptedReader) Read(p []byte) (int, error) {
	r.reads++
	if r.i >= len(r.chunks) {
		return 0, stdio.EOF
	}
	c := r.chunks[r.i]
	n := copy(p, c)
	if n < len(c) {
		r.chunks[r.i] = c[n:]
		return n, nil
	}
	r.i++
	if r.eofLast && r.i == len(r.chunks) && n > 0 {
		return n, stdio.EOF
	}
	return n, nil
}

func errClass(err error) string {
	switch {
	case err == nil:
		return "-"
	case err == stdio.EOF:
		return "EOF"
	case err == io.ErrInvalidUTF8:
		return "UTF8"
	case errors.Is(err, stdio.ErrUnexpectedEOF):
		return "UEOF"
	}
	s := err.Error()
	if len(s) > 60 {
		s = s[:60]
	}
	return "other:" + strings.ReplaceAll(s, " ", "_")
}

func exact(b []byte) []byte {
	r := make([]byte, len(b))
	copy(r, b)
	return r[:len(b):len(b)]
}

func chunksOf(c *c05Case) ([][]byte, error) {
	var chunks [][]byte
	for _, h := range c.Chunks {
		b, err := hex.DecodeString(h)
		if err != nil {
			return nil, err
		}
		chunks = append(chunks, exact(b))
	}
	if c.Data != "" {
		all, err := hex.DecodeString(c.Data)
		if err != nil {
			return nil, err
		}
		pos := 0
		for _, n := range c.Lens {
			if n < 0 || pos+n > len(all) {
				return nil, fmt.Errorf("case %d: lens do not fit the data", c.ID)
			}
			chunks = append(chunks, exact(all[pos:pos+n]))
			pos += n
		}
		if pos < len(all) {
			chunks = append(chunks, exact(all[pos:]))
		}
	}
	return chunks, nil
}

func newDecoder(c *c05Case) (*io.Decoder, *scriptedReader, error) {
	chunks, err := chunksOf(c)
	if err != nil {
		return nil, nil, err
	}
	if c.Mode == "B" {
		var all []byte
		for _, b := range chunks {
			all = append(all, b...)
		}
		return io.NewDecoder(exact(all)), nil, nil
	}
	r := &scriptedReader{chunks: chunks, eofLast: c.EOFLast}
	switch c.Ctor {
	case "reset":
		return io.VerifNewDecoderFromReader(r, c.Cap), r, nil
	default:
		return io.NewDecoderFromReader(r, c.Cap), r, nil
	}
}

func hexOrNil(b []byte) string {
	if b == nil {
		return "x:nil"
	}
	return "x:" + hex.EncodeToString(b)
}

func timeTok(t time.Time) string {
	z := "L"
	if t.Location() == time.UTC {
		z = "Z"
	}
	return fmt.Sprintf("T:%d,%d,%s", t.Unix(), t.Nanosecond(), z)
}

// runPrims executes the calls; values that are slices are kept and only printed after the
// whole sequence has run, so a result that aliases the refill buffer shows as corrupted.
func runPrims(c *c05Case, obs *c05Obs) (err error) {
	dec, rd, err := newDecoder(c)
	if err != nil {
		return err
	}
	type pending struct {
		fixed string
		bytes []byte
		isB   bool
		str   *string
		err   string
	}
	var res []pending
	defer func() {
		if e := recover(); e != nil {
			obs.Panic = fmt.Sprint(e)
		}
		for _, p := range res {
			v := p.fixed
			if p.isB {
				v = hexOrNil(p.bytes)
			} else if p.str != nil {
				v = "x:" + hex.EncodeToString([]byte(*p.str))
			}
			obs.Toks = append(obs.Toks, v+"/"+p.err)
		}
		if rd != nil {
			obs.Reads = rd.reads
		}
	}()
	for _, cmd := range c.Cmds {
		parts := strings.SplitN(cmd, ":", 2)
		var p pending
		switch parts[0] {
		case "nb":
			p.fixed = fmt.Sprintf("b:%02x", dec.NextByte())
		case "sk":
			dec.Skip()
			p.fixed = "u"
		case "nx":
			n, _ := strconv.Atoi(parts[1])
			p.bytes, p.isB = dec.Next(n), true
		case "nxu":
			n, _ := strconv.Atoi(parts[1])
			b := dec.UnsafeNext(n)
			p.fixed = hexOrNil(b) // only valid until the next read: taken now
		case "un":
			d, _ := hex.DecodeString(parts[1])
			p.bytes, p.isB = dec.Until(d[0]), true
		case "unu":
			d, _ := hex.DecodeString(parts[1])
			p.fixed = hexOrNil(dec.UnsafeUntil(d[0]))
		case "rm":
			p.bytes, p.isB = dec.Remains(), true
		case "ri":
			p.fixed = "n:" + strconv.FormatInt(dec.ReadInt64(), 10)
		case "rI":
			p.fixed = "n:" + strconv.Itoa(dec.ReadInt())
		case "ru":
			p.fixed = "n:" + strconv.FormatUint(dec.ReadUint64(), 10)
		case "rt":
			p.fixed = timeTok(dec.ReadTime())
		case "rd":
			p.fixed = timeTok(dec.ReadDateTime())
		case "rb":
			p.bytes, p.isB = dec.ReadBytes(), true
		case "st":
			if parts[1] != "1" {
				return fmt.Errorf("st:%s not reachable through the public API", parts[1])
			}
			var b []byte
			dec.Decode(&b, io.TagUTF8Char)
			p.bytes, p.isB = b, true
		case "sts":
			var s string
			dec.Decode(&s, io.TagUTF8Char)
			p.str = &s
		case "rs":
			p.bytes, p.isB = dec.ReadStringAsBytes(), true
		case "rS":
			s := dec.ReadString()
			p.str = &s
		case "rSS":
			s := dec.ReadSafeString()
			p.str = &s
		default:
			return fmt.Errorf("unknown command %q", cmd)
		}
		p.err = errClass(dec.Error)
		res = append(res, p)
	}
	return nil
}

// ---------------------------------------------------------------- full decodes

type sampleStruct struct {
	Name  string
	Age   int
	Tags  []string
	Inner *sampleStruct
}

type sampleRefs struct {
	A  []byte
	S1 string
	S2 string
	M  map[string]string
}

func init() {
	io.RegisterName("SampleStruct", (*sampleStruct)(nil))
	io.RegisterName("SampleRefs", (*sampleRefs)(nil))
}

func newDest(typ string) (interface{}, error) {
	switch typ {
	case "iface":
		return new(interface{}), nil
	case "string":
		return new(string), nil
	case "bytes":
		return new([]byte), nil
	case "int":
		return new(int), nil
	case "int64":
		return new(int64), nil
	case "uint64":
		return new(uint64), nil
	case "float64":
		return new(float64), nil
	case "bool":
		return new(bool), nil
	case "time":
		return new(time.Time), nil
	case "bigint":
		return new(*big.Int), nil
	case "[]int":
		return new([]int), nil
	case "[]string":
		return new([]string), nil
	case "[]iface":
		return new([]interface{}), nil
	case "[][]byte":
		return new([][]byte), nil
	case "[]float64":
		return new([]float64), nil
	case "map[string]int":
		return new(map[string]int), nil
	case "map[string]string":
		return new(map[string]string), nil
	case "map[string]iface":
		return new(map[string]interface{}), nil
	case "struct":
		return new(sampleStruct), nil
	case "*struct":
		return new(*sampleStruct), nil
	case "refs":
		return new(sampleRefs), nil
	case "uuid":
		return new(uuid.UUID), nil
	case "[]uuid":
		return new([]uuid.UUID), nil
	case "[16]byte":
		return new([16]byte), nil
	case "[][16]byte":
		return new([][16]byte), nil
	case "[4]byte":
		return new([4]byte), nil
	case "bigfloat":
		return new(*big.Float), nil
	case "bigrat":
		return new(*big.Rat), nil
	}
	return nil, fmt.Errorf("unknown type %q", typ)
}

func canon(v reflect.Value, depth int, sb *strings.Builder) {
	if depth > 40 {
		sb.WriteString("<deep>")
		return
	}
	if !v.IsValid() {
		sb.WriteString("nil")
		return
	}
	switch x := v.Interface().(type) {
	case time.Time:
		sb.WriteString(timeTok(x))
		return
	case big.Int:
		sb.WriteString("big:" + x.String())
		return
	case *big.Int:
		if x == nil {
			sb.WriteString("big:nil")
		} else {
			sb.WriteString("big:" + x.String())
		}
		return
	case []byte:
		sb.WriteString(hexOrNil(x))
		return
	}
	switch v.Kind() {
	case reflect.Ptr, reflect.Interface:
		if v.IsNil() {
			sb.WriteString("nil")
			return
		}
		if v.Kind() == reflect.Ptr {
			sb.WriteString("&")
		}
		canon(v.Elem(), depth+1, sb)
	case reflect.String:
		sb.WriteString("s:" + hex.EncodeToString([]byte(v.String())))
	case reflect.Bool:
		sb.WriteString(strconv.FormatBool(v.Bool()))
	case reflect.Int, reflect.Int8, reflect.Int16, reflect.Int32, reflect.Int64:
		sb.WriteString(v.Type().String() + ":" + strconv.FormatInt(v.Int(), 10))
	case reflect.Uint, reflect.Uint8, reflect.Uint16, reflect.Uint32, reflect.Uint64, reflect.Uintptr:
		sb.WriteString(v.Type().String() + ":" + strconv.FormatUint(v.Uint(), 10))
	case reflect.Float32, reflect.Float64:
		sb.WriteString("f:" + strconv.FormatUint(math.Float64bits(v.Float()), 16))
	case reflect.Slice, reflect.Array:
		if v.Kind() == reflect.Slice && v.IsNil() {
			sb.WriteString("nilslice")
			return
		}
		sb.WriteString("[")
		for i := 0; i < v.Len(); i++ {
			if i > 0 {
				sb.WriteString(" ")
			}
			canon(v.Index(i), depth+1, sb)
		}
		sb.WriteString("]")
	case reflect.Map:
		if v.IsNil() {
			sb.WriteString("nilmap")
			return
		}
		var items []string
		for _, k := range v.MapKeys() {
			var kb strings.Builder
			canon(k, depth+1, &kb)
			kb.WriteString("=>")
			canon(v.MapIndex(k), depth+1, &kb)
			items = append(items, kb.String())
		}
		sort.Strings(items)
		sb.WriteString("{" + strings.Join(items, " ") + "}")
	case reflect.Struct:
		sb.WriteString(v.Type().Name() + "{")
		for i := 0; i < v.NumField(); i++ {
			if i > 0 {
				sb.WriteString(" ")
			}
			sb.WriteString(v.Type().Field(i).Name + ":")
			canon(v.Field(i), depth+1, sb)
		}
		sb.WriteString("}")
	default:
		sb.WriteString(fmt.Sprintf("%v", v.Interface()))
	}
}

func runDecode(c *c05Case, obs *c05Obs) error {
	dest, err := newDest(c.Type)
	if err != nil {
		return err
	}
	defer func() {
		if e := recover(); e != nil {
			obs.Panic = fmt.Sprint(e)
		}
	}()
	if c.Mode == "R" && c.Ctor == "fmt" {
		chunks, cerr := chunksOf(c)
		if cerr != nil {
			return cerr
		}
		r := &scriptedReader{chunks: chunks, eofLast: c.EOFLast}
		e := io.Formatter{Simple: c.Simple, LongType: io.LongType(c.LongT), RealType: io.RealType(c.RealT), MapType: io.MapType(c.MapT)}.UnmarshalFromReader(r, dest)
		obs.Err = errClass(e)
		obs.Rest = "n/a"
		var sb strings.Builder
		canon(reflect.ValueOf(dest).Elem(), 0, &sb)
		obs.Val = sb.String()
		return nil
	}
	if c.Mode == "B" && c.UseFormatter {
		chunks, cerr := chunksOf(c)
		if cerr != nil {
			return cerr
		}
		var all []byte
		for _, b := range chunks {
			all = append(all, b...)
		}
		e := io.Formatter{Simple: c.Simple, LongType: io.LongType(c.LongT), RealType: io.RealType(c.RealT), MapType: io.MapType(c.MapT)}.Unmarshal(exact(all), dest)
		obs.Err = errClass(e)
		obs.Rest = "n/a"
		var sb strings.Builder
		canon(reflect.ValueOf(dest).Elem(), 0, &sb)
		obs.Val = sb.String()
		return nil
	}
	dec, rd, err := newDecoder(c)
	if err != nil {
		return err
	}
	dec.Simple(c.Simple)
	dec.LongType, dec.RealType, dec.MapType = io.LongType(c.LongT), io.RealType(c.RealT), io.MapType(c.MapT)
	dec.Decode(dest)
	obs.Err = errClass(dec.Error)
	rest := dec.Remains() // refills the buffer: a value aliasing it would change below
	obs.Rest = hexOrNil(rest)
	var sb strings.Builder
	canon(reflect.ValueOf(dest).Elem(), 0, &sb)
	obs.Val = sb.String()
	if rd != nil {
		obs.Reads = rd.reads
	}
	return nil
}

// samples: streams produced by the real encoder for a fixed set of Go values
func samples() []c05Sample {
	var out []c05Sample
	add := func(name, typ string, simple bool, v interface{}) {
		b, err := io.Formatter{Simple: simple}.Marshal(v)
		if err != nil {
			return
		}
		out = append(out, c05Sample{Name: name, Type: typ, Simple: simple, Hex: hex.EncodeToString(b)})
	}
	long := strings.Repeat("héllo wörld €uro 😀 ", 30)
	inner := &sampleStruct{Name: "in€", Age: 7, Tags: []string{"x", "yß"}}
	utc := time.Date(2021, 3, 4, 5, 6, 7, 123456789, time.UTC)
	for _, simple := range []bool{true, false} {
		add("int", "int", simple, 1234567)
		add("negint", "int64", simple, int64(-9007199254740993))
		add("uint64", "uint64", simple, uint64(math.MaxUint64))
		add("float", "float64", simple, 3.141592653589793)
		add("str-ascii", "string", simple, "hello world")
		add("str-2byte", "string", simple, "ßüé")
		add("str-3byte", "string", simple, "€你好")
		add("str-4byte", "string", simple, "😀a😀")
		add("str-mixed", "string", simple, "aß€😀z")
		add("str-long", "string", simple, long)
		add("char1", "string", simple, "a")
		add("char2", "string", simple, "ß")
		add("char3", "string", simple, "€")
		add("bytes", "bytes", simple, []byte("\x00\x01binary\xff\"quoted\""))
		add("time", "time", simple, utc)
		add("date", "time", simple, time.Date(2021, 3, 4, 0, 0, 0, 0, time.UTC))
		add("bigint", "bigint", simple, big.NewInt(0).Exp(big.NewInt(10), big.NewInt(30), nil))
		add("ints", "[]int", simple, []int{0, 9, 10, -1, 123456789, math.MinInt64})
		add("strs", "[]string", simple, []string{"", "a", "ß", "€", "😀", "dup", "dup", long[:40]})
		add("floats", "[]float64", simple, []float64{0, 1.5, -2.25e300, math.Inf(1)})
		add("bytess", "[][]byte", simple, [][]byte{[]byte("ab"), {}, []byte("€")})
		add("ifaces", "[]iface", simple, []interface{}{1, "two€", 3.5, true, nil, []interface{}{"nested", []byte("b")}, map[string]interface{}{"k": "v€"}, utc})
		add("map-int", "map[string]int", simple, map[string]int{"a": 1, "ß": 2, "€uro": 300})
		add("map-str", "map[string]string", simple, map[string]string{"k1": "v1", "k€": "v😀", "same": "same"})
		add("map-iface", "map[string]iface", simple, map[string]interface{}{"list": []int{1, 2}, "s": "x€", "t": utc})
		add("struct", "struct", simple, sampleStruct{Name: "N€me", Age: 42, Tags: []string{"t1", "t1", "tß"}, Inner: inner})
		add("struct-iface", "iface", simple, &sampleStruct{Name: "ptr", Age: -1, Inner: inner})
		add("refs", "refs", simple, sampleRefs{A: []byte("bytes"), S1: "hello€", S2: "hello€", M: map[string]string{"hello€": "hello€"}})
		add("iface-str", "iface", simple, "aß€😀z")
		add("iface-list", "iface", simple, []interface{}{"€", "€", 1e10, int64(1) << 40})
	}
	return out
}

func c05Run(line []byte, out *json.Encoder) error {
	var c c05Case
	if err := json.Unmarshal(line, &c); err != nil {
		return err
	}
	obs := c05Obs{ID: c.ID}
	var err error
	switch c.Kind {
	case "prim":
		err = runPrims(&c, &obs)
	case "decode":
		err = runDecode(&c, &obs)
	case "samples":
		obs.Items = samples()
	default:
		err = fmt.Errorf("unknown kind %q", c.Kind)
	}
	if err != nil {
		return err
	}
	return out.Encode(&obs)
}

func main() {
	os.Setenv("TZ", "UTC")
	hvlib.Main(c05Run)
}
