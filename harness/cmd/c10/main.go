// C10 executor: see harness/muxlib (scenario executor shared with C09) and checks/C10.py.
package main

import (
	"context"
	"encoding/json"
	"fmt"
	"net"
	"strings"
	"sync"
	"time"

	"github.com/hprose/hprose-golang/v3/rpc"
	"github.com/hprose/hprose-golang/v3/rpc/core"
	"github.com/hprose/hprose-golang/v3/rpc/plugins/cluster"

	"hv/hvlib"
	"hv/muxlib"
)

// fanCase: a call that a plugin hands to several servers on copies of its context (cluster.Forking,
// cluster.Broadcast).  Every server accepts the connection, reads, and never answers.  The call must come
// back with an error no later than (about) the client's timeout, whichever plugin made the copies.
type fanCase struct {
	ID        int    `json:"id"`
	Kind      string `json:"kind"` // "fan"
	Plugin    string `json:"plugin"` // forking | broadcast | none
	Servers   int    `json:"servers"`
	Silent    []int  `json:"silent"` // which servers never answer (the others echo a valid empty result)
	TimeoutMs int    `json:"timeout_ms"`
	PerCall   bool   `json:"per_call"` // the timeout is set on the call's ClientContext instead of the client
}

type fanObs struct {
	ID        int    `json:"id"`
	Kind      string `json:"kind"`
	Returned  bool   `json:"returned"`
	ElapsedMs int64  `json:"elapsed_ms"`
	Err       string `json:"err"`
	Env       string `json:"env,omitempty"`
}

func silentServer(answer bool) (string, func(), error) {
	ln, err := net.Listen("tcp", "127.0.0.1:0")
	if err != nil {
		return "", nil, err
	}
	var mu sync.Mutex
	var conns []net.Conn
	go func() {
		for {
			c, err := ln.Accept()
			if err != nil {
				return
			}
			mu.Lock()
			conns = append(conns, c)
			mu.Unlock()
			go func(c net.Conn) {
				buf := make([]byte, 4096)
				for {
					n, err := c.Read(buf)
					if err != nil {
						return
					}
					if answer && n >= 12 {
						// echo the 12-byte header with the body "Rnz" (a nil result): lengths recomputed by the client library's
						// own framing are not needed here - a healthy peer is an rpc.Service below, this branch is unused
						_ = n
					}
				}
			}(c)
		}
	}()
	stop := func() {
		ln.Close()
		mu.Lock()
		for _, c := range conns {
			c.Close()
		}
		mu.Unlock()
	}
	return "tcp://" + ln.Addr().String(), stop, nil
}

func healthyServer() (string, func(), error) {
	ln, err := net.Listen("tcp", "127.0.0.1:0")
	if err != nil {
		return "", nil, err
	}
	s := rpc.NewService()
	s.AddFunction(func() string { return "ok" }, "f")
	go s.Bind(ln)
	return "tcp://" + ln.Addr().String(), func() { ln.Close() }, nil
}

func runFan(line []byte, out *json.Encoder) error {
	var c fanCase
	if err := json.Unmarshal(line, &c); err != nil {
		return err
	}
	hvlib.Begin(c.ID)
	obs := fanObs{ID: c.ID, Kind: "fan"}
	var urls []string
	var stops []func()
	defer func() {
		for _, s := range stops {
			s()
		}
	}()
	isSilent := map[int]bool{}
	for _, i := range c.Silent {
		isSilent[i] = true
	}
	for i := 0; i < c.Servers; i++ {
		var u string
		var stop func()
		var err error
		if isSilent[i] {
			u, stop, err = silentServer(false)
		} else {
			u, stop, err = healthyServer()
		}
		if err != nil {
			obs.Env = err.Error()
			return out.Encode(&obs)
		}
		urls = append(urls, u)
		stops = append(stops, stop)
	}
	client := rpc.NewClient(urls...)
	defer client.Abort()
	switch c.Plugin {
	case "forking":
		client.Use(cluster.Forking)
	case "broadcast":
		client.Use(cluster.Broadcast)
	}
	ctx := context.Background()
	if c.PerCall {
		client.Timeout = 30 * time.Second
		cc := core.NewClientContext()
		cc.Timeout = time.Duration(c.TimeoutMs) * time.Millisecond
		ctx = core.WithContext(ctx, cc)
	} else {
		client.Timeout = time.Duration(c.TimeoutMs) * time.Millisecond
	}
	done := make(chan error, 1)
	t0 := time.Now()
	go func() {
		defer func() {
			if r := recover(); r != nil {
				done <- fmt.Errorf("panic: %v", r)
			}
		}()
		_, err := client.InvokeContext(ctx, "f", nil)
		done <- err
	}()
	select {
	case err := <-done:
		obs.Returned = true
		obs.ElapsedMs = time.Since(t0).Milliseconds()
		if err != nil {
			obs.Err = err.Error()
		}
	case <-time.After(time.Duration(c.TimeoutMs)*time.Millisecond + 4*time.Second):
		obs.ElapsedMs = time.Since(t0).Milliseconds()
	}
	return out.Encode(&obs)
}

func mainLoop(line []byte, out *json.Encoder) error {
	if strings.Contains(string(line[:min(len(line), 200)]), `"kind":"fan"`) {
		return runFan(line, out)
	}
	return muxlib.MainLoop(line, out)
}

func min(a, b int) int {
	if a < b {
		return a
	}
	return b
}

func main() {
	hvlib.CaseTimeout = 120 * time.Second
	hvlib.Main(mainLoop)
}
