// C10 executor: see harness/muxlib (scenario executor shared with C09) and checks/C10.py.
package main

import (
	"time"

	"hv/hvlib"
	"hv/muxlib"
)

func main() {
	hvlib.CaseTimeout = 120 * time.Second
	hvlib.Main(muxlib.MainLoop)
}
