// C12 executor: real hprose transports on loopback (tcp, unix, udp, websocket, net/http,
// fasthttp), a recording IO-level handler installed with Service.Use, real clients
// (Client.Request) and raw sockets/fake peers that speak whatever bytes the case dictates.
// The executor knows nothing about the frame formats: every header byte it sends is given
// by the case (built by the extracted Coq model) and everything it receives is reported raw.
// It only observes; comparing is the check's job.
package main

import (
	"bufio"
	"bytes"
	"context"
	"crypto/sha1"
	"encoding/hex"
	"encoding/json"
	"errors"
	"fmt"
	"hash/crc32"
	"io"
	"io/ioutil"
	"net"
	"net/http"
	"os"
	"path/filepath"
	"strings"
	"sync"
	"syscall"
	"time"

	"github.com/fasthttp/websocket"
	"github.com/hprose/hprose-golang/v3/rpc"
	"github.com/hprose/hprose-golang/v3/rpc/core"
	rpchttp "github.com/hprose/hprose-golang/v3/rpc/http"
	rpcfasthttp "github.com/hprose/hprose-golang/v3/rpc/http/fasthttp"
	"github.com/valyala/fasthttp"
	"hv/hvlib"
)

const maxRequestLength = 16 << 20

var healthPrefix = []byte("\x00hvHEALTH-")

// ---------------------------------------------------------------- case / observation

type item struct {
	Req  string `json:"req"`
	Resp string `json:"resp"`
}

type dgram struct {
	From   int    `json:"from"`
	Data   string `json:"data"`
	WaitMs int    `json:"wait_ms"` // wait up to this long for one reply on that socket before going on
}

type wsmsg struct {
	Type string `json:"type"` // bin | text
	Data string `json:"data"`
}

type c12Case struct {
	ID       int    `json:"id"`
	Op       string `json:"op"`
	T        string `json:"t"`
	Items    []item `json:"items"`
	Parallel bool   `json:"parallel"`
	Fresh    bool   `json:"fresh"`
	Pool     bool   `json:"pool"` // server with a (small, slow) worker pool: Handler.Pool != nil
	Max      int    `json:"max"`  // Service.MaxRequestLength of the server (0: the executor's default)
	N        int    `json:"n"`
	// abandoned calls
	Size      int      `json:"size"` // request size
	How       string   `json:"how"`  // cancel | timeout | abort
	Hold      string   `json:"hold"` // peer: the peer stops reading after a warm-up call; dial: the connect is held
	Wire      bool     `json:"wire"`
	TimeoutMs int      `json:"timeout_ms"`
	Data      []string `json:"data"`
	// raw peers
	Chunks      []string `json:"chunks"`
	GapUs       int      `json:"gap_us"`
	Close       string   `json:"close"` // "write": half-close after the last chunk
	ExpectRx    int      `json:"expect_rx"`
	WaitMs      int      `json:"wait_ms"`
	Dgrams      []dgram  `json:"dgrams"`
	Barrier     string   `json:"barrier"`
	BarrierResp string   `json:"barrier_resp"`
	Msgs        []wsmsg  `json:"msgs"`
	ExpectMsgs  int      `json:"expect_msgs"`
	// how many deliveries the model predicts: the executor waits (briefly) for that many
	// handler invocations before it reads the log, so that a slow goroutine is not
	// attributed to the next case
	ExpectDeliveries int `json:"expect_deliveries"`
	// fake servers facing a real client
	Req      string   `json:"req"`
	ReadN    int      `json:"read_n"`
	Reply    []string `json:"reply"`
	ReplyEnd string   `json:"reply_end"` // "close" | "keep"
}

type callObs struct {
	Resp string `json:"resp,omitempty"`
	Err  string `json:"err,omitempty"`
	Ms   int64  `json:"ms"`
}

type rxDgram struct {
	Sock int    `json:"sock"`
	Data string `json:"data"`
}

type c12Obs struct {
	ID        int       `json:"id"`
	Op        string    `json:"op"`
	Env       string    `json:"env,omitempty"` // environment trouble: the case says nothing
	Delivered []string  `json:"delivered"`
	Calls     []callObs `json:"calls,omitempty"`
	C2S       string    `json:"c2s,omitempty"`
	S2C       string    `json:"s2c,omitempty"`
	C2SD      []string  `json:"c2s_dgrams,omitempty"`
	S2CD      []string  `json:"s2c_dgrams,omitempty"`
	Rx        string    `json:"rx,omitempty"`
	RxD       []rxDgram `json:"rx_dgrams,omitempty"`
	RxMsgs    []string  `json:"rx_msgs,omitempty"`
	EOF       bool      `json:"eof"`
	Timeout   bool      `json:"timeout"`
	Healthy   *bool     `json:"healthy,omitempty"`
	BarrierOK *bool     `json:"barrier_ok,omitempty"`
	Status    int       `json:"status,omitempty"`
	Crcs      []uint32  `json:"crcs,omitempty"`
	Got       string    `json:"got,omitempty"`
	OKCount   int       `json:"ok_count,omitempty"`
	Done      int       `json:"done,omitempty"`
	Fails     []string  `json:"fails,omitempty"`
	C2SHdrs   string    `json:"c2s_hdrs,omitempty"`
	S2CHdrs   string    `json:"s2c_hdrs,omitempty"`
	DelivN    int       `json:"delivered_n,omitempty"`
	DelivSha  string    `json:"delivered_sha1,omitempty"`
	Submitted []string  `json:"submitted,omitempty"`
	Pending   *bool     `json:"pending_when_ended,omitempty"`
	Returned  *bool     `json:"returned_before_release,omitempty"`
	Note      string    `json:"note,omitempty"`
}

func unhex(s string) []byte {
	if s == "" || s == "-" {
		return []byte{}
	}
	b, err := hex.DecodeString(s)
	if err != nil {
		panic("bad hex in case: " + err.Error())
	}
	return b
}

// enc: short byte strings in hex, long ones as sha1 + length (the check applies the same
// function to what it expects)
func enc(b []byte) string {
	if len(b) == 0 {
		return "-"
	}
	if len(b) <= 4096 {
		return hex.EncodeToString(b)
	}
	h := sha1.Sum(b)
	return fmt.Sprintf("sha1:%s:%d", hex.EncodeToString(h[:]), len(b))
}

// ---------------------------------------------------------------- servers

type srv struct {
	name    string
	service *core.Service
	addr    string // host:port or unix path
	url     string
	mu      sync.Mutex
	log     [][]byte
	script  map[string][]byte
	client  *core.Client
	hcount  int
	hfails  int
}

func (s *srv) handle(ctx context.Context, request []byte, next core.NextIOHandler) ([]byte, error) {
	cp := append([]byte{}, request...)
	s.mu.Lock()
	s.log = append(s.log, cp)
	resp, ok := s.script[string(cp)]
	s.mu.Unlock()
	if !ok {
		// default answer, kept within what one UDP datagram can carry
		resp = append([]byte("r:"), cp...)
		if len(resp) > 65499 {
			resp = resp[:65499]
		}
	}
	return append([]byte{}, resp...), nil
}

func (s *srv) drain() []string {
	s.mu.Lock()
	defer s.mu.Unlock()
	out := []string{}
	for _, b := range s.log {
		if bytes.HasPrefix(b, healthPrefix) {
			continue
		}
		out = append(out, enc(b))
	}
	s.log = nil
	return out
}

func (s *srv) waitDeliveries(n int, max time.Duration) {
	deadline := time.Now().Add(max)
	for {
		s.mu.Lock()
		k := 0
		for _, b := range s.log {
			if !bytes.HasPrefix(b, healthPrefix) {
				k++
			}
		}
		s.mu.Unlock()
		if k >= n || time.Now().After(deadline) {
			return
		}
		time.Sleep(time.Millisecond)
	}
}

// waitStable: the number of handler invocations has not changed for d (or max has elapsed)
func (s *srv) waitStable(d, max time.Duration) {
	deadline := time.Now().Add(max)
	last, since := -1, time.Now()
	for time.Now().Before(deadline) {
		s.mu.Lock()
		k := len(s.log)
		s.mu.Unlock()
		if k != last {
			last, since = k, time.Now()
		} else if time.Since(since) >= d {
			return
		}
		time.Sleep(5 * time.Millisecond)
	}
}

func (s *srv) setScript(items []item) {
	s.mu.Lock()
	s.script = map[string][]byte{}
	for _, it := range items {
		s.script[string(unhex(it.Req))] = unhex(it.Resp)
	}
	s.mu.Unlock()
}

// slowPool: a real core.WorkerPool with a short bounded queue and two slow workers, so that a
// submitted task runs well after the receive loop has gone on to later frames
type slowPool struct{ q chan func() }

func newSlowPool() *slowPool {
	p := &slowPool{q: make(chan func(), 8)}
	for w := 0; w < 2; w++ {
		go func() {
			for f := range p.q {
				time.Sleep(300 * time.Microsecond)
				f()
			}
		}()
	}
	return p
}

func (p *slowPool) Submit(f func()) { p.q <- f }

var (
	servers = map[string]*srv{}
	tmpDir  string
	// consecutive raw UDP cases whose barrier datagram went unanswered
	udpBarrierFails int
)

func useNetHTTPClient()  { rpchttp.RegisterTransport() }
func useFastHTTPClient() { rpcfasthttp.RegisterTransport() }

func init() {
	// both factories must be known before any client is created; net/http stays the default
	rpcfasthttp.RegisterTransport()
	rpchttp.RegisterTransport()
}

func newClient(s *srv, timeout time.Duration) *core.Client {
	c := rpc.NewClient(s.url)
	c.Timeout = timeout
	return c
}

func getServer(name string, pool bool, max int) (*srv, error) {
	key := fmt.Sprintf("%s|%v|%d", name, pool, max)
	if s, ok := servers[key]; ok {
		return s, nil
	}
	s := &srv{name: name, script: map[string][]byte{}}
	s.service = rpc.NewService()
	s.service.MaxRequestLength = maxRequestLength
	if max > 0 {
		s.service.MaxRequestLength = max
	}
	s.service.Use(core.IOHandler(s.handle))
	if pool {
		switch name {
		case "tcp", "unix":
			rpc.SocketHandler(s.service).Pool = newSlowPool()
		case "udp":
			rpc.UDPHandler(s.service).Pool = newSlowPool()
		case "ws":
			rpc.WebSocketHandler(s.service).Pool = newSlowPool()
		}
	}
	switch name {
	case "tcp":
		ln, err := net.Listen("tcp", "127.0.0.1:0")
		if err != nil {
			return nil, err
		}
		if err := s.service.Bind(ln); err != nil {
			return nil, err
		}
		s.addr = ln.Addr().String()
		s.url = "tcp://" + s.addr + "/"
	case "unix":
		if tmpDir == "" {
			d, err := ioutil.TempDir("", "hv-c12-")
			if err != nil {
				return nil, err
			}
			tmpDir = d
		}
		path := filepath.Join(tmpDir, fmt.Sprintf("s%d.sock", len(servers)))
		ln, err := net.Listen("unix", path)
		if err != nil {
			return nil, err
		}
		if err := s.service.Bind(ln); err != nil {
			return nil, err
		}
		s.addr = path
		s.url = "unix://" + path
	case "udp":
		a, _ := net.ResolveUDPAddr("udp", "127.0.0.1:0")
		conn, err := net.ListenUDP("udp", a)
		if err != nil {
			return nil, err
		}
		_ = conn.SetReadBuffer(8 << 20)
		if err := s.service.Bind(conn); err != nil {
			return nil, err
		}
		s.addr = conn.LocalAddr().String()
		s.url = "udp://" + s.addr + "/"
	case "ws", "http":
		ln, err := net.Listen("tcp", "127.0.0.1:0")
		if err != nil {
			return nil, err
		}
		server := &http.Server{}
		if err := s.service.Bind(server); err != nil {
			return nil, err
		}
		go server.Serve(ln)
		s.addr = ln.Addr().String()
		if name == "ws" {
			s.url = "ws://" + s.addr + "/"
		} else {
			s.url = "http://" + s.addr + "/"
		}
	case "fasthttp":
		ln, err := net.Listen("tcp", "127.0.0.1:0")
		if err != nil {
			return nil, err
		}
		server := &fasthttp.Server{MaxRequestBodySize: 64 << 20}
		if err := s.service.Bind(server); err != nil {
			return nil, err
		}
		go server.Serve(ln)
		s.addr = ln.Addr().String()
		s.url = "http://" + s.addr + "/"
	default:
		return nil, fmt.Errorf("unknown transport %q", name)
	}
	time.Sleep(20 * time.Millisecond)
	s.client = newClient(s, 10*time.Second)
	servers[key] = s
	return s, nil
}

func request(s *srv, c *core.Client, req []byte) ([]byte, error) {
	if s.name == "fasthttp" {
		useFastHTTPClient()
		defer useNetHTTPClient()
	}
	cc := core.NewClientContext()
	cc.Init(c)
	ctx := core.WithContext(context.Background(), cc)
	return c.Request(ctx, req)
}

// health: a fresh marker call through the transport's own client; true iff the service got it
// and the right answer came back
func (s *srv) health() bool {
	if s.hfails >= 5 {
		// this transport has not managed a single healthy call five times in a row: stop
		// paying the timeouts, it stays reported as not healthy
		return false
	}
	attempts, timeout := 2, 4*time.Second
	if s.hfails > 0 {
		attempts, timeout = 1, time.Second
	}
	for attempt := 0; attempt < attempts; attempt++ {
		s.hcount++
		s.client.Timeout = timeout
		req := append(append([]byte{}, healthPrefix...), []byte(fmt.Sprintf("%d", s.hcount))...)
		resp, err := request(s, s.client, req)
		if err == nil && bytes.Equal(resp, append([]byte("r:"), req...)) {
			s.hfails = 0
			return true
		}
		// a persistent connection may have been a casualty of an earlier case: start over
		s.client.Abort()
		s.client = newClient(s, 10*time.Second)
		time.Sleep(20 * time.Millisecond)
	}
	s.hfails++
	return false
}

func isEnvErr(err error) bool {
	if err == nil {
		return false
	}
	m := err.Error()
	return strings.Contains(m, "connection refused") || strings.Contains(m, "too many open files") ||
		strings.Contains(m, "cannot assign requested address") || strings.Contains(m, "no buffer space")
}

// ---------------------------------------------------------------- recording relays

type tcpRelay struct {
	ln   net.Listener
	mu   sync.Mutex
	c2s  []byte
	s2c  []byte
	done sync.WaitGroup
}

func newTCPRelay(network, upstream, listenAddr string) (*tcpRelay, error) {
	ln, err := net.Listen(network, listenAddr)
	if err != nil {
		return nil, err
	}
	r := &tcpRelay{ln: ln}
	go func() {
		for {
			c, err := ln.Accept()
			if err != nil {
				return
			}
			u, err := net.Dial(network, upstream)
			if err != nil {
				c.Close()
				continue
			}
			r.done.Add(2)
			go r.pipe(c, u, &r.c2s)
			go r.pipe(u, c, &r.s2c)
		}
	}()
	return r, nil
}

func (r *tcpRelay) pipe(from, to net.Conn, rec *[]byte) {
	defer r.done.Done()
	buf := make([]byte, 64<<10)
	for {
		n, err := from.Read(buf)
		if n > 0 {
			r.mu.Lock()
			*rec = append(*rec, buf[:n]...)
			r.mu.Unlock()
			if _, werr := to.Write(buf[:n]); werr != nil {
				break
			}
		}
		if err != nil {
			break
		}
	}
	to.Close()
	from.Close()
}

type udpRelay struct {
	hdrOnly bool // keep only the first 8 bytes of every datagram
	front   *net.UDPConn
	back    *net.UDPConn
	mu      sync.Mutex
	c2s     [][]byte
	s2c     [][]byte
	peer    *net.UDPAddr
}

func newUDPRelay(upstream string) (*udpRelay, error) {
	a, _ := net.ResolveUDPAddr("udp", "127.0.0.1:0")
	front, err := net.ListenUDP("udp", a)
	if err != nil {
		return nil, err
	}
	ua, _ := net.ResolveUDPAddr("udp", upstream)
	back, err := net.DialUDP("udp", nil, ua)
	if err != nil {
		front.Close()
		return nil, err
	}
	r := &udpRelay{front: front, back: back}
	go func() {
		buf := make([]byte, 70000)
		for {
			n, addr, err := front.ReadFromUDP(buf)
			if err != nil {
				return
			}
			r.mu.Lock()
			r.peer = addr
			k := n
			if r.hdrOnly && k > 8 {
				k = 8
			}
			r.c2s = append(r.c2s, append([]byte{}, buf[:k]...))
			r.mu.Unlock()
			back.Write(buf[:n])
		}
	}()
	go func() {
		buf := make([]byte, 70000)
		for {
			n, err := back.Read(buf)
			if err != nil {
				return
			}
			r.mu.Lock()
			k := n
			if r.hdrOnly && k > 8 {
				k = 8
			}
			r.s2c = append(r.s2c, append([]byte{}, buf[:k]...))
			peer := r.peer
			r.mu.Unlock()
			if peer != nil {
				front.WriteToUDP(buf[:n], peer)
			}
		}
	}()
	return r, nil
}

// gatedRelay: a byte relay in front of a real server whose client->server direction can be
// stopped (the peer "stops reading": the client's writes fill the socket buffers and block) and
// released again.  The accepting socket gets a small receive buffer so that little is absorbed.
type gatedRelay struct {
	ln     net.Listener
	mu     sync.Mutex
	open   bool
	budget int64 // bytes still let through while closed (so that "writing has started" is visible)
	cond   *sync.Cond
	pumped int64
	last   time.Time
}

func newGatedRelay(network, upstream, listenAddr string) (*gatedRelay, error) {
	lc := net.ListenConfig{Control: func(nw, addr string, rc syscall.RawConn) error {
		return rc.Control(func(fd uintptr) {
			syscall.SetsockoptInt(int(fd), syscall.SOL_SOCKET, syscall.SO_RCVBUF, 4096)
		})
	}}
	ln, err := lc.Listen(context.Background(), network, listenAddr)
	if err != nil {
		return nil, err
	}
	r := &gatedRelay{ln: ln, open: true, last: time.Now()}
	r.cond = sync.NewCond(&r.mu)
	go func() {
		for {
			c, err := ln.Accept()
			if err != nil {
				return
			}
			u, err := net.Dial(network, upstream)
			if err != nil {
				c.Close()
				continue
			}
			go func() { // server -> client: never held
				io.Copy(c, u)
				c.Close()
				u.Close()
			}()
			go func() { // client -> server: through the gate
				buf := make([]byte, 32<<10)
				for {
					r.mu.Lock()
					for !r.open && r.budget <= 0 {
						r.cond.Wait()
					}
					r.mu.Unlock()
					n, err := c.Read(buf)
					if n > 0 {
						r.mu.Lock()
						if !r.open {
							r.budget -= int64(n)
						}
						r.pumped += int64(n)
						r.last = time.Now()
						r.mu.Unlock()
						if _, werr := u.Write(buf[:n]); werr != nil {
							break
						}
					}
					if err != nil {
						break
					}
				}
				if tc, ok := u.(*net.TCPConn); ok {
					tc.CloseWrite()
				} else if uc, ok := u.(*net.UnixConn); ok {
					uc.CloseWrite()
				}
			}()
		}
	}()
	return r, nil
}

func (r *gatedRelay) relayed() int64 {
	r.mu.Lock()
	defer r.mu.Unlock()
	return r.pumped
}

func (r *gatedRelay) setOpen(v bool) {
	r.mu.Lock()
	r.open = v
	if !v {
		r.budget = 64 << 10
	}
	r.last = time.Now()
	r.mu.Unlock()
	r.cond.Broadcast()
}

// quiet: nothing has passed for d (or max has elapsed)
func (r *gatedRelay) waitQuiet(d, max time.Duration) {
	deadline := time.Now().Add(max)
	for time.Now().Before(deadline) {
		r.mu.Lock()
		idle := time.Since(r.last)
		r.mu.Unlock()
		if idle >= d {
			return
		}
		time.Sleep(5 * time.Millisecond)
	}
}

// An abandoned call: the call's context ends (cancel / timeout / Abort) while its request is
// still queued or being written; the caller - a client IO plugin that sends every request from
// one scratch buffer - then reuses that buffer; then the peer is released.  Reported: what was
// submitted, how the call ended, and everything the service was handed.
func opAbandoned(c *c12Case, o *c12Obs) {
	s, err := getServer(c.T, c.Pool, c.Max)
	if err != nil {
		o.Env = err.Error()
		return
	}
	s.drain()
	network, laddr, scheme := "tcp", "127.0.0.1:0", c.T
	switch c.T {
	case "unix":
		network, laddr = "unix", filepath.Join(tmpDir, fmt.Sprintf("gate-%d.sock", c.ID))
	case "fasthttp":
		scheme = "http"
	}
	relay, err := newGatedRelay(network, s.addr, laddr)
	if err != nil {
		o.Env = err.Error()
		return
	}
	defer relay.ln.Close()
	url := scheme + "://" + relay.ln.Addr().String() + "/"
	if c.T == "unix" {
		url = "unix://" + laddr
	}
	if c.T == "fasthttp" {
		useFastHTTPClient()
		defer useNetHTTPClient()
	}
	client := rpc.NewClient(url)
	defer client.Abort()
	client.Timeout = 0
	if c.How == "timeout" {
		client.Timeout = 300 * time.Millisecond
	}
	var pmu sync.Mutex
	scratch := make([]byte, 0, c.Size+64)
	client.Use(core.IOHandler(func(ctx context.Context, request []byte, next core.NextIOHandler) ([]byte, error) {
		buf := append(scratch[:0], request...)
		pmu.Lock()
		o.Submitted = append(o.Submitted, enc(buf))
		pmu.Unlock()
		response, err := next(ctx, buf)
		// the call is over: the buffer is the plugin's again
		for i := range buf {
			buf[i] = 'X'
		}
		return response, err
	}))
	call := func(ctx context.Context, req []byte) ([]byte, error) {
		cc := core.NewClientContext()
		cc.Init(client)
		return client.Request(core.WithContext(ctx, cc), req)
	}
	dialing := make(chan bool, 8)
	dialGate := make(chan bool)
	if c.Hold == "dial" {
		switch c.T {
		case "fasthttp":
			rpc.FastHTTPTransport(client).FastHTTPClient.Dial = func(addr string) (net.Conn, error) {
				dialing <- true
				<-dialGate
				return net.Dial("tcp", addr)
			}
		case "http":
			rpc.HTTPTransport(client).HTTPClient.Transport.(*http.Transport).DialContext =
				func(ctx context.Context, nw, addr string) (net.Conn, error) {
					dialing <- true
					select {
					case <-dialGate:
					case <-ctx.Done():
						return nil, ctx.Err()
					}
					return net.Dial(nw, addr)
				}
		default:
			o.Env = "hold=dial is for http and fasthttp"
			return
		}
	} else {
		// the connection comes up (handshakes included) with a small call, then the peer stops reading
		warm := []byte("warm-up")
		client.Timeout = 5 * time.Second
		resp, err := call(context.Background(), warm)
		if err != nil || !bytes.Equal(resp, append([]byte("r:"), warm...)) {
			o.Env = fmt.Sprintf("warm-up call failed: %v", err)
			return
		}
		client.Timeout = 0
		if c.How == "timeout" {
			client.Timeout = 300 * time.Millisecond
		}
		relay.setOpen(false)
	}
	req := make([]byte, c.Size)
	for i := range req {
		req[i] = byte('a' + i%23)
	}
	copy(req, []byte(fmt.Sprintf("abandoned-%d/", c.ID)))
	ctx, cancel := context.WithCancel(context.Background())
	defer cancel()
	done := make(chan callObs, 1)
	go func() {
		t0 := time.Now()
		resp, err := call(ctx, req)
		co := callObs{Ms: time.Since(t0).Milliseconds()}
		if err != nil {
			co.Err = err.Error()
		} else {
			co.Resp = enc(resp)
		}
		done <- co
	}()
	if c.Hold == "dial" {
		select {
		case <-dialing:
		case <-time.After(3 * time.Second):
			o.Note = "the client never started to connect"
		}
	} else {
		// wait until the request is visibly being written (the relay lets 64 KiB through), then
		// a little longer so that the writer sits in a blocked Write
		base := relay.relayed()
		for t0 := time.Now(); relay.relayed() < base+(64<<10) && time.Since(t0) < 3*time.Second; {
			time.Sleep(2 * time.Millisecond)
		}
		if relay.relayed() < base+(64<<10) {
			o.Note = "the request never started to flow"
		}
		time.Sleep(40 * time.Millisecond)
	}
	pending, returned := true, false
	var co callObs
	select {
	case co = <-done:
		pending = false // the whole request went into the buffers: nothing was abandoned
		returned = true
	default:
	}
	if pending {
		switch c.How {
		case "cancel":
			cancel()
		case "abort":
			client.Abort()
		}
		select {
		case co = <-done:
			returned = true
		case <-time.After(3 * time.Second):
		}
	}
	o.Pending, o.Returned = &pending, &returned
	// (the plugin has overwritten its buffer by now if the call returned)
	relay.setOpen(true)
	if c.Hold == "dial" {
		close(dialGate)
	}
	if !returned {
		select {
		case co = <-done:
		case <-time.After(5 * time.Second):
			co = callObs{Err: "the call never returned"}
		}
	}
	o.Calls = []callObs{co}
	time.Sleep(50 * time.Millisecond)
	relay.waitQuiet(150*time.Millisecond, 6*time.Second)
	s.waitStable(250*time.Millisecond, 4*time.Second)
	h := s.health()
	o.Healthy = &h
	time.Sleep(30 * time.Millisecond)
	o.Delivered = s.drain()
	relay.mu.Lock()
	o.Note += fmt.Sprintf(" relayed=%d", relay.pumped)
	relay.mu.Unlock()
}

// ---------------------------------------------------------------- ops

func opCrc(c *c12Case, o *c12Obs) {
	for _, d := range c.Data {
		o.Crcs = append(o.Crcs, crc32.ChecksumIEEE(unhex(d)))
	}
}

// real client -> real server, one or many requests
func opCalls(c *c12Case, o *c12Obs) {
	s, err := getServer(c.T, c.Pool, c.Max)
	if err != nil {
		o.Env = err.Error()
		return
	}
	s.drain()
	s.setScript(c.Items)
	defer s.setScript(nil)
	timeout := time.Duration(c.TimeoutMs) * time.Millisecond
	if timeout == 0 {
		timeout = 8 * time.Second
	}
	client := s.client
	var relay *tcpRelay
	var urelay *udpRelay
	url := s.url
	if c.Wire {
		switch c.T {
		case "tcp":
			relay, err = newTCPRelay("tcp", s.addr, "127.0.0.1:0")
			if err == nil {
				url = "tcp://" + relay.ln.Addr().String() + "/"
			}
		case "unix":
			p := filepath.Join(tmpDir, fmt.Sprintf("relay-%d.sock", c.ID))
			relay, err = newTCPRelay("unix", s.addr, p)
			if err == nil {
				url = "unix://" + p
			}
		case "udp":
			urelay, err = newUDPRelay(s.addr)
			if err == nil {
				url = "udp://" + urelay.front.LocalAddr().String() + "/"
			}
		default:
			err = errors.New("wire capture is for tcp/unix/udp")
		}
		if err != nil {
			o.Env = err.Error()
			return
		}
	}
	if c.Fresh || c.Wire {
		client = rpc.NewClient(url)
		defer client.Abort()
	}
	client.Timeout = timeout
	o.Calls = make([]callObs, len(c.Items))
	one := func(k int) {
		t0 := time.Now()
		resp, err := request(s, client, unhex(c.Items[k].Req))
		co := callObs{Ms: time.Since(t0).Milliseconds()}
		if err != nil {
			co.Err = err.Error()
			if isEnvErr(err) {
				co.Err = "ENV:" + co.Err
			}
		} else {
			co.Resp = enc(resp)
		}
		o.Calls[k] = co
	}
	if c.Parallel {
		var wg sync.WaitGroup
		for k := range c.Items {
			wg.Add(1)
			go func(k int) { defer wg.Done(); one(k) }(k)
		}
		wg.Wait()
	} else {
		failed := 0
		for k := range c.Items {
			if failed >= 3 {
				// a transport that fails call after call: do not sit through every timeout
				o.Calls[k] = callObs{Err: "SKIPPED: three calls of this batch already failed"}
				continue
			}
			one(k)
			if o.Calls[k].Err != "" {
				failed++
			}
		}
	}
	time.Sleep(5 * time.Millisecond)
	o.Delivered = s.drain()
	if relay != nil {
		client.Abort()
		relay.ln.Close()
		time.Sleep(10 * time.Millisecond)
		relay.mu.Lock()
		o.C2S, o.S2C = enc(relay.c2s), enc(relay.s2c)
		if len(relay.c2s) <= 1<<20 {
			o.C2S = hexOrDash(relay.c2s)
		}
		if len(relay.s2c) <= 1<<20 {
			o.S2C = hexOrDash(relay.s2c)
		}
		relay.mu.Unlock()
	}
	if urelay != nil {
		urelay.mu.Lock()
		for _, d := range urelay.c2s {
			o.C2SD = append(o.C2SD, hexOrDash(d))
		}
		for _, d := range urelay.s2c {
			o.S2CD = append(o.S2CD, hexOrDash(d))
		}
		urelay.mu.Unlock()
		urelay.front.Close()
		urelay.back.Close()
	}
}

// many cheap sequential calls on ONE connection of a fresh client, through a relay that keeps
// the 8 header bytes of every datagram: the index the client frames for call k, for k up to N
func opIndexRun(c *c12Case, o *c12Obs) {
	s, err := getServer("udp", c.Pool, c.Max)
	if err != nil {
		o.Env = err.Error()
		return
	}
	s.drain()
	relay, err := newUDPRelay(s.addr)
	if err != nil {
		o.Env = err.Error()
		return
	}
	relay.mu.Lock()
	relay.hdrOnly = true
	relay.mu.Unlock()
	defer relay.front.Close()
	defer relay.back.Close()
	client := rpc.NewClient("udp://" + relay.front.LocalAddr().String() + "/")
	defer client.Abort()
	client.Timeout = 1500 * time.Millisecond
	failed := 0
	for k := 1; k <= c.N && failed < 3; k++ {
		req := []byte{byte(k >> 24), byte(k >> 16), byte(k >> 8), byte(k)}
		resp, err := request(s, client, req)
		o.Done = k
		switch {
		case err != nil && isEnvErr(err):
			o.Env = err.Error()
			return
		case err != nil:
			failed++
			o.Fails = append(o.Fails, fmt.Sprintf("call %d: %s", k, err.Error()))
		case !bytes.Equal(resp, append([]byte("r:"), req...)):
			failed++
			o.Fails = append(o.Fails, fmt.Sprintf("call %d: answer %s", k, enc(resp)))
		default:
			o.OKCount++
		}
	}
	time.Sleep(10 * time.Millisecond)
	s.mu.Lock()
	h := sha1.New()
	for _, b := range s.log {
		if !bytes.HasPrefix(b, healthPrefix) {
			o.DelivN++
			h.Write(b)
		}
	}
	s.log = nil
	s.mu.Unlock()
	o.DelivSha = hex.EncodeToString(h.Sum(nil))
	relay.mu.Lock()
	var a, b []byte
	for _, d := range relay.c2s {
		a = append(a, d...)
	}
	for _, d := range relay.s2c {
		b = append(b, d...)
	}
	relay.mu.Unlock()
	o.C2SHdrs, o.S2CHdrs = hexOrDash(a), hexOrDash(b)
}

func hexOrDash(b []byte) string {
	if len(b) == 0 {
		return "-"
	}
	return hex.EncodeToString(b)
}

func dialRetry(network, addr string) (net.Conn, error) {
	var err error
	for i := 0; i < 5; i++ {
		var c net.Conn
		c, err = net.DialTimeout(network, addr, 2*time.Second)
		if err == nil {
			return c, nil
		}
		time.Sleep(20 * time.Millisecond)
	}
	return nil, err
}

// a raw stream client facing the real socket server
func opRawStream(c *c12Case, o *c12Obs) {
	s, err := getServer(c.T, c.Pool, c.Max)
	if err != nil {
		o.Env = err.Error()
		return
	}
	s.drain()
	network := "tcp"
	if c.T == "unix" {
		network = "unix"
	}
	conn, err := dialRetry(network, s.addr)
	if err != nil {
		o.Env = err.Error()
		return
	}
	defer conn.Close()
	var rx []byte
	var rmu sync.Mutex
	eof := make(chan bool, 1)
	go func() {
		buf := make([]byte, 64<<10)
		for {
			n, err := conn.Read(buf)
			if n > 0 {
				rmu.Lock()
				rx = append(rx, buf[:n]...)
				rmu.Unlock()
			}
			if err != nil {
				eof <- (err == io.EOF || strings.Contains(err.Error(), "reset"))
				return
			}
		}
	}()
	for k, ch := range c.Chunks {
		if k > 0 && c.GapUs > 0 {
			time.Sleep(time.Duration(c.GapUs) * time.Microsecond)
		}
		if _, err := conn.Write(unhex(ch)); err != nil {
			// the server may legitimately have hung up already
			o.Note = "write: " + err.Error()
			break
		}
	}
	wait := time.Duration(c.WaitMs) * time.Millisecond
	if wait == 0 {
		wait = 3 * time.Second
	}
	gotEOF := false
	// phase 1: the replies the case expects (a server that hangs up first ends it as well)
	if c.ExpectRx > 0 {
		deadline := time.After(wait)
		tick := time.NewTicker(time.Millisecond)
	phase1:
		for {
			select {
			case <-eof:
				gotEOF = true
				break phase1
			case <-deadline:
				o.Timeout = true
				break phase1
			case <-tick.C:
				rmu.Lock()
				n := len(rx)
				rmu.Unlock()
				if n >= c.ExpectRx {
					break phase1
				}
			}
		}
		tick.Stop()
	}
	// phase 2: half-close (if asked) and wait for the server to hang up
	if c.Close == "write" && !gotEOF {
		switch cc := conn.(type) {
		case *net.TCPConn:
			cc.CloseWrite()
		case *net.UnixConn:
			cc.CloseWrite()
		}
	}
	if !gotEOF && (c.Close == "write" || c.Close == "expect") {
		select {
		case <-eof:
			gotEOF = true
		case <-time.After(wait):
			o.Timeout = true
		}
	} else if !gotEOF {
		// nothing more is expected: leave a surplus a moment to show up
		time.Sleep(10 * time.Millisecond)
	}
	o.EOF = gotEOF
	h := s.health()
	o.Healthy = &h
	s.waitDeliveries(c.ExpectDeliveries, 400*time.Millisecond)
	time.Sleep(10 * time.Millisecond)
	o.Delivered = s.drain()
	rmu.Lock()
	o.Rx = hexOrDash(rx)
	rmu.Unlock()
}

// raw datagrams from two client sockets facing the real UDP server
func opRawUDP(c *c12Case, o *c12Obs) {
	s, err := getServer("udp", c.Pool, c.Max)
	if err != nil {
		o.Env = err.Error()
		return
	}
	s.drain()
	ua, _ := net.ResolveUDPAddr("udp", s.addr)
	var socks [2]*net.UDPConn
	for k := range socks {
		socks[k], err = net.DialUDP("udp", nil, ua)
		if err != nil {
			o.Env = err.Error()
			return
		}
		defer socks[k].Close()
	}
	var mu sync.Mutex
	barrierSeen := make(chan bool, 1)
	bresp := unhex(c.BarrierResp)
	got := make([]chan bool, 2)
	for k := range socks {
		got[k] = make(chan bool, 64)
		go func(k int) {
			buf := make([]byte, 70000)
			for {
				n, err := socks[k].Read(buf)
				if err != nil {
					return
				}
				d := append([]byte{}, buf[:n]...)
				if k == 0 && len(bresp) > 0 && bytes.Equal(d, bresp) {
					barrierSeen <- true
					continue
				}
				mu.Lock()
				o.RxD = append(o.RxD, rxDgram{Sock: k, Data: hexOrDash(d)})
				mu.Unlock()
				select {
				case got[k] <- true:
				default:
				}
			}
		}(k)
	}
	for _, d := range c.Dgrams {
		if _, err := socks[d.From%2].Write(unhex(d.Data)); err != nil {
			o.Note = "write: " + err.Error()
		}
		if d.WaitMs > 0 {
			w := time.Duration(d.WaitMs) * time.Millisecond
			if udpBarrierFails >= 3 {
				w = 20 * time.Millisecond
			}
			select {
			case <-got[d.From%2]:
			case <-time.After(w):
			}
		} else {
			time.Sleep(300 * time.Microsecond)
		}
	}
	ok := false
	if c.Barrier != "" {
		// a server that has stopped answering barriers altogether is not waited for at length
		attempts, wait := 3, 1500*time.Millisecond
		if udpBarrierFails >= 3 {
			attempts, wait = 1, 150*time.Millisecond
		}
		for attempt := 0; attempt < attempts && !ok; attempt++ {
			socks[0].Write(unhex(c.Barrier))
			select {
			case <-barrierSeen:
				ok = true
			case <-time.After(wait):
			}
		}
		if ok {
			udpBarrierFails = 0
		} else {
			udpBarrierFails++
		}
		o.BarrierOK = &ok
	}
	time.Sleep(5 * time.Millisecond)
	h := s.health()
	o.Healthy = &h
	s.waitDeliveries(c.ExpectDeliveries, 400*time.Millisecond)
	time.Sleep(10 * time.Millisecond)
	mu.Lock()
	o.Delivered = s.drain()
	if o.RxD == nil {
		o.RxD = []rxDgram{}
	}
	mu.Unlock()
}

// a raw websocket client facing the real websocket server
func opRawWS(c *c12Case, o *c12Obs) {
	s, err := getServer("ws", c.Pool, c.Max)
	if err != nil {
		o.Env = err.Error()
		return
	}
	s.drain()
	var d websocket.Dialer
	conn, resp, err := d.Dial(s.url, http.Header{"Sec-WebSocket-Protocol": []string{"hprose"}})
	if resp != nil && resp.Body != nil {
		resp.Body.Close()
	}
	if err != nil {
		o.Env = err.Error()
		return
	}
	defer conn.Close()
	for _, m := range c.Msgs {
		mt := websocket.BinaryMessage
		if m.Type == "text" {
			mt = websocket.TextMessage
		}
		if err := conn.WriteMessage(mt, unhex(m.Data)); err != nil {
			o.Note = "write: " + err.Error()
			break
		}
	}
	wait := time.Duration(c.WaitMs) * time.Millisecond
	if wait == 0 {
		wait = 3 * time.Second
	}
	conn.SetReadDeadline(time.Now().Add(wait))
	o.RxMsgs = []string{}
	for c.ExpectMsgs == 0 || len(o.RxMsgs) < c.ExpectMsgs {
		_, data, err := conn.ReadMessage()
		if err != nil {
			if ne, ok := err.(net.Error); ok && ne.Timeout() {
				o.Timeout = true
			} else {
				o.EOF = true
			}
			break
		}
		o.RxMsgs = append(o.RxMsgs, enc(data))
	}
	h := s.health()
	o.Healthy = &h
	s.waitDeliveries(c.ExpectDeliveries, 400*time.Millisecond)
	time.Sleep(10 * time.Millisecond)
	o.Delivered = s.drain()
}

// raw bytes to the real HTTP server (net/http or fasthttp); the reply is read as one response
func opRawHTTP(c *c12Case, o *c12Obs) {
	s, err := getServer(c.T, c.Pool, c.Max)
	if err != nil {
		o.Env = err.Error()
		return
	}
	s.drain()
	conn, err := dialRetry("tcp", s.addr)
	if err != nil {
		o.Env = err.Error()
		return
	}
	defer conn.Close()
	for k, ch := range c.Chunks {
		if k > 0 && c.GapUs > 0 {
			time.Sleep(time.Duration(c.GapUs) * time.Microsecond)
		}
		if _, err := conn.Write(unhex(ch)); err != nil {
			o.Note = "write: " + err.Error()
			break
		}
	}
	if c.Close == "write" {
		conn.(*net.TCPConn).CloseWrite()
	}
	wait := time.Duration(c.WaitMs) * time.Millisecond
	if wait == 0 {
		wait = 3 * time.Second
	}
	conn.SetReadDeadline(time.Now().Add(wait))
	resp, err := http.ReadResponse(bufio.NewReader(conn), nil)
	if err != nil {
		if ne, ok := err.(net.Error); ok && ne.Timeout() {
			o.Timeout = true
		} else {
			o.EOF = true
		}
		o.Note = "response: " + err.Error()
	} else {
		o.Status = resp.StatusCode
		body, _ := ioutil.ReadAll(resp.Body)
		resp.Body.Close()
		o.Got = enc(body)
	}
	h := s.health()
	o.Healthy = &h
	s.waitDeliveries(c.ExpectDeliveries, 400*time.Millisecond)
	time.Sleep(10 * time.Millisecond)
	o.Delivered = s.drain()
}

// a fake server speaking scripted bytes to a real client (stream transports)
func opFakeStream(c *c12Case, o *c12Obs) {
	network, addr := "tcp", "127.0.0.1:0"
	if c.T == "unix" {
		if tmpDir == "" {
			tmpDir, _ = ioutil.TempDir("", "hv-c12-")
		}
		network, addr = "unix", filepath.Join(tmpDir, fmt.Sprintf("fake-%d.sock", c.ID))
	}
	ln, err := net.Listen(network, addr)
	if err != nil {
		o.Env = err.Error()
		return
	}
	defer ln.Close()
	var mu sync.Mutex
	var c2s []byte
	done := make(chan bool, 1)
	go func() {
		conn, err := ln.Accept()
		if err != nil {
			done <- false
			return
		}
		defer conn.Close()
		buf := make([]byte, c.ReadN)
		conn.SetReadDeadline(time.Now().Add(3 * time.Second))
		n, _ := io.ReadFull(conn, buf)
		mu.Lock()
		c2s = append(c2s, buf[:n]...)
		mu.Unlock()
		for k, ch := range c.Reply {
			if k > 0 && c.GapUs > 0 {
				time.Sleep(time.Duration(c.GapUs) * time.Microsecond)
			}
			conn.Write(unhex(ch))
		}
		if c.ReplyEnd == "keep" {
			conn.SetReadDeadline(time.Now().Add(time.Duration(c.TimeoutMs+500) * time.Millisecond))
			io.Copy(ioutil.Discard, conn)
		}
		done <- true
	}()
	url := "tcp://" + ln.Addr().String() + "/"
	if c.T == "unix" {
		url = "unix://" + addr
	}
	fakeCall(c, o, url)
	select {
	case <-done:
	case <-time.After(4 * time.Second):
	}
	mu.Lock()
	o.C2S = hexOrDash(c2s)
	mu.Unlock()
}

func fakeCall(c *c12Case, o *c12Obs, url string) {
	client := rpc.NewClient(url)
	defer client.Abort()
	timeout := time.Duration(c.TimeoutMs) * time.Millisecond
	if timeout == 0 {
		timeout = 1500 * time.Millisecond
	}
	client.Timeout = timeout
	cc := core.NewClientContext()
	cc.Init(client)
	ctx := core.WithContext(context.Background(), cc)
	t0 := time.Now()
	resp, err := client.Request(ctx, unhex(c.Req))
	co := callObs{Ms: time.Since(t0).Milliseconds()}
	if err != nil {
		co.Err = err.Error()
		if core.IsTimeoutError(err) || strings.Contains(co.Err, "deadline exceeded") {
			o.Timeout = true
		}
	} else {
		co.Resp = enc(resp)
	}
	o.Calls = []callObs{co}
}

// a fake UDP server: reads one datagram, answers with the scripted datagrams
func opFakeUDP(c *c12Case, o *c12Obs) {
	a, _ := net.ResolveUDPAddr("udp", "127.0.0.1:0")
	conn, err := net.ListenUDP("udp", a)
	if err != nil {
		o.Env = err.Error()
		return
	}
	defer conn.Close()
	var mu sync.Mutex
	done := make(chan bool, 1)
	go func() {
		buf := make([]byte, 70000)
		conn.SetReadDeadline(time.Now().Add(3 * time.Second))
		n, addr, err := conn.ReadFromUDP(buf)
		if err != nil {
			done <- false
			return
		}
		mu.Lock()
		o.C2SD = append(o.C2SD, hexOrDash(buf[:n]))
		mu.Unlock()
		for k, ch := range c.Reply {
			if k > 0 && c.GapUs > 0 {
				time.Sleep(time.Duration(c.GapUs) * time.Microsecond)
			}
			conn.WriteToUDP(unhex(ch), addr)
		}
		done <- true
	}()
	fakeCall(c, o, "udp://"+conn.LocalAddr().String()+"/")
	select {
	case <-done:
	case <-time.After(4 * time.Second):
	}
}

// a fake websocket server: reads one message, answers with the scripted binary messages
func opFakeWS(c *c12Case, o *c12Obs) {
	ln, err := net.Listen("tcp", "127.0.0.1:0")
	if err != nil {
		o.Env = err.Error()
		return
	}
	var mu sync.Mutex
	done := make(chan bool, 1)
	up := websocket.Upgrader{Subprotocols: []string{"hprose"}}
	server := &http.Server{Handler: http.HandlerFunc(func(w http.ResponseWriter, r *http.Request) {
		conn, err := up.Upgrade(w, r, nil)
		if err != nil {
			done <- false
			return
		}
		defer conn.Close()
		conn.SetReadDeadline(time.Now().Add(3 * time.Second))
		_, data, err := conn.ReadMessage()
		if err == nil {
			mu.Lock()
			o.C2S = hexOrDash(data)
			mu.Unlock()
		}
		for _, ch := range c.Reply {
			conn.WriteMessage(websocket.BinaryMessage, unhex(ch))
		}
		if c.ReplyEnd == "keep" {
			conn.SetReadDeadline(time.Now().Add(time.Duration(c.TimeoutMs+500) * time.Millisecond))
			conn.ReadMessage()
		}
		done <- true
	})}
	go server.Serve(ln)
	defer server.Close()
	fakeCall(c, o, "ws://"+ln.Addr().String()+"/")
	select {
	case <-done:
	case <-time.After(4 * time.Second):
	}
}

// a fake HTTP server: reads one request, answers with scripted raw bytes, closes
func opFakeHTTP(c *c12Case, o *c12Obs) {
	ln, err := net.Listen("tcp", "127.0.0.1:0")
	if err != nil {
		o.Env = err.Error()
		return
	}
	defer ln.Close()
	var mu sync.Mutex
	done := make(chan bool, 1)
	go func() {
		conn, err := ln.Accept()
		if err != nil {
			done <- false
			return
		}
		defer conn.Close()
		conn.SetReadDeadline(time.Now().Add(3 * time.Second))
		req, err := http.ReadRequest(bufio.NewReader(conn))
		if err == nil {
			body, _ := ioutil.ReadAll(req.Body)
			mu.Lock()
			o.C2S = hexOrDash(body)
			o.Note = fmt.Sprintf("content-length=%d", req.ContentLength)
			mu.Unlock()
		}
		for k, ch := range c.Reply {
			if k > 0 && c.GapUs > 0 {
				time.Sleep(time.Duration(c.GapUs) * time.Microsecond)
			}
			conn.Write(unhex(ch))
		}
		done <- true
	}()
	if c.T == "fasthttp" {
		useFastHTTPClient()
		defer useNetHTTPClient()
	}
	fakeCall(c, o, "http://"+ln.Addr().String()+"/")
	select {
	case <-done:
	case <-time.After(4 * time.Second):
	}
}

func c12Run(line []byte, out *json.Encoder) error {
	var c c12Case
	if err := json.Unmarshal(line, &c); err != nil {
		return err
	}
	o := c12Obs{ID: c.ID, Op: c.Op, Delivered: []string{}}
	switch c.Op {
	case "crc":
		opCrc(&c, &o)
	case "calls":
		opCalls(&c, &o)
	case "raw_stream":
		opRawStream(&c, &o)
	case "raw_udp":
		opRawUDP(&c, &o)
	case "raw_ws":
		opRawWS(&c, &o)
	case "raw_http":
		opRawHTTP(&c, &o)
	case "udp_index_run":
		opIndexRun(&c, &o)
	case "abandoned":
		opAbandoned(&c, &o)
	case "fake_stream":
		opFakeStream(&c, &o)
	case "fake_udp":
		opFakeUDP(&c, &o)
	case "fake_ws":
		opFakeWS(&c, &o)
	case "fake_http":
		opFakeHTTP(&c, &o)
	default:
		return fmt.Errorf("unknown op %q", c.Op)
	}
	return out.Encode(&o)
}

func main() {
	hvlib.Main(c12Run)
	if tmpDir != "" {
		os.RemoveAll(tmpDir)
	}
}
