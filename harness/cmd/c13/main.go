// C13 executor: real hprose services with MaxRequestLength set, on every transport
// (mock, net/http, fasthttp, tcp, unix, websocket, udp), a COUNTING IO plugin installed with
// Service.Use and a COUNTING published function.  Requests are sent
//   - by the real clients (Client.Request / Client.Invoke): truthful length declarations;
//   - by raw peers (net.Dial + hand-written HTTP request, frame header bytes given by the
//     case): absent (chunked / fragmented), smaller-than-sent, larger-than-sent declarations,
//     bodies dribbled in several writes.
// The executor never decides anything: it reports the counters, the body lengths the plugin
// and the function saw, the client's error class, the HTTP status and the raw reply bytes.
// op "sites" is the T1 part: it parses the handler sources of the tree under test with go/ast
// and lists every comparison against MaxRequestLength (operand text, operator, whether it
// precedes the dispatch to Service.Handle).
package main

import (
	"hash/crc32"
	"bufio"
	"bytes"
	"context"
	"encoding/hex"
	"encoding/json"
	"errors"
	"fmt"
	"go/ast"
	"go/parser"
	"go/printer"
	"go/token"
	"io"
	"io/ioutil"
	"net"
	"net/http"
	"os"
	"path/filepath"
	"strconv"
	"strings"
	"sync"
	"time"

	"github.com/fasthttp/websocket"
	"github.com/hprose/hprose-golang/v3/rpc"
	"github.com/hprose/hprose-golang/v3/rpc/core"
	rpchttp "github.com/hprose/hprose-golang/v3/rpc/http"
	rpcfasthttp "github.com/hprose/hprose-golang/v3/rpc/http/fasthttp"
	"github.com/hprose/hprose-golang/v3/rpc/mock"
	"github.com/valyala/fasthttp"
	"hv/hvlib"
)

// ---------------------------------------------------------------- case / observation

type c13Case struct {
	ID       int    `json:"id"`
	Op       string `json:"op"`       // client | raw | sites
	T        string `json:"t"`        // mock http fasthttp tcp unix ws udp
	Limit    int    `json:"limit"`    // Service.MaxRequestLength
	Decl     string `json:"decl"`     // truthful absent smaller larger split
	Actual   int    `json:"actual"`   // body bytes put on the wire
	Declared int    `json:"declared"` // what the header / Content-Length says (raw)
	Hdr      string `json:"hdr"`      // hex frame header built by the extracted model (tcp unix udp ws)
	Via      string `json:"via"`      // client: request | invoke
	Extra    string `json:"extra"`    // http raw: "cl+chunked" sends both headers
	Repo     string `json:"repo"`     // sites
	Method   string `json:"method"`   // http raw: request method (default POST)
	Late     bool   `json:"late"`     // MaxRequestLength is set only after Bind (the server is bound with the default limit)
	// Trail (tcp/unix raw): in the same write the oversized frame is followed by one more frame whose BODY holds,
	// at every offset a reader that consumes the refused body in 512..8192-byte gulps could stop at, a complete small
	// valid request frame.  Nothing of what follows a refused frame may ever be executed as a request of its own.
	Trail bool `json:"trail"`
}

// sockHeader: the 12-byte stream frame header (independent of the library: hash/crc32)
func sockHeader(length int, index uint32) []byte {
	h := make([]byte, 12)
	h[4], h[5], h[6], h[7] = byte(length>>24)|0x80, byte(length>>16), byte(length>>8), byte(length)
	h[8], h[9], h[10], h[11] = byte(index>>24), byte(index>>16), byte(index>>8), byte(index)
	crc := crc32.ChecksumIEEE(h[4:])
	h[0], h[1], h[2], h[3] = byte(crc>>24), byte(crc>>16), byte(crc>>8), byte(crc)
	return h
}

// trailFor: a follower frame for an oversized body of length l
func trailFor(l int) []byte {
	inner, _, _, _ := makeBody(24)
	f2 := append(sockHeader(len(inner), 9), inner...)
	body := make([]byte, 3*8192)
	for i := range body {
		body[i] = '.'
	}
	for _, gulp := range []int{512, 1024, 2048, 4096, 8192} {
		d := (gulp - l%gulp) % gulp // bytes of the follower swallowed when the refused body is consumed in gulps
		for _, off := range []int{d, d + gulp} {
			if off >= 12 && off-12+len(f2) <= len(body) {
				copy(body[off-12:], f2)
			}
		}
	}
	return append(sockHeader(len(body), 8), body...)
}

type site struct {
	File     string `json:"file"`
	Func     string `json:"func"`
	Lhs      string `json:"lhs"`
	Op       string `json:"op"`
	Rhs      string `json:"rhs"`
	Before   bool   `json:"before_dispatch"` // the comparison precedes the first Handle/run/task call
	Dispatch bool   `json:"has_dispatch"`
	// path condition under which the comparison is evaluated: conditions of the enclosing if / else / case
	// arms (negated for else arms and for the earlier cases of a switch) and the other conjuncts of its own
	// condition, as source text
	Guards []string `json:"guards"`
}

type c13Obs struct {
	ID      int     `json:"id"`
	Env     string  `json:"env,omitempty"` // environment trouble: the case says nothing
	IO      int     `json:"io"`            // how often the IO plugin ran
	IOLens  []int   `json:"io_lens"`       // the body lengths it saw
	Fn      int     `json:"fn"`            // how often the published function ran
	FnLens  []int   `json:"fn_lens"`       // argument lengths it saw
	Valid   bool    `json:"valid"`         // the body sent is a well-formed call of the published function
	ArgLen  int     `json:"arg_len"`       // length of the string argument in that call
	Sent    int     `json:"sent"`          // body bytes actually written (client: as seen by a client-side IO plugin)
	Class   string  `json:"class"`         // client view: ok | too-large | error | timeout | closed | noreply
	Msg     string  `json:"msg,omitempty"`
	Result  string  `json:"result,omitempty"` // response body (short) as text
	Status  int     `json:"status,omitempty"` // HTTP status of the first response
	Rx      string  `json:"rx,omitempty"`     // raw reply bytes, hex (tcp unix udp: frame; ws: message)
	EOF     bool    `json:"eof"`              // the server hung up
	Tries   int     `json:"tries,omitempty"`
	Sites   []site  `json:"sites,omitempty"`
	Healthy *bool   `json:"healthy,omitempty"`
	Ms      float64 `json:"ms"`
}

// ---------------------------------------------------------------- servers

type srv struct {
	t       string
	limit   int
	service *core.Service
	addr    string
	url     string
	mu      sync.Mutex
	io      []int
	fn      []int
}

func (s *srv) ioPlugin(ctx context.Context, request []byte, next core.NextIOHandler) ([]byte, error) {
	s.mu.Lock()
	s.io = append(s.io, len(request))
	s.mu.Unlock()
	return next(ctx, request)
}

func (s *srv) echo(arg string) int {
	s.mu.Lock()
	s.fn = append(s.fn, len(arg))
	s.mu.Unlock()
	return len(arg)
}

func (s *srv) reset() {
	s.mu.Lock()
	s.io, s.fn = nil, nil
	s.mu.Unlock()
}

func (s *srv) snapshot(o *c13Obs) {
	s.mu.Lock()
	o.IO, o.Fn = len(s.io), len(s.fn)
	o.IOLens = append([]int{}, s.io...)
	o.FnLens = append([]int{}, s.fn...)
	s.mu.Unlock()
}

var (
	servers = map[string]*srv{}
	tmpDir  string
)

func init() {
	// both HTTP client factories are known to every client; the one registered last owns the scheme
	rpcfasthttp.RegisterTransport()
	rpchttp.RegisterTransport()
}

func getServer(t string, limit int, late bool) (*srv, error) {
	key := t + "/" + strconv.Itoa(limit)
	if late {
		key += "/late"
	}
	if s, ok := servers[key]; ok {
		return s, nil
	}
	s := &srv{t: t, limit: limit}
	s.service = rpc.NewService()
	if !late {
		s.service.MaxRequestLength = limit
	}
	defer func() {
		if late {
			// the limit is configured (lowered from the default) after the service has been bound and its
			// receive loops are running
			time.Sleep(30 * time.Millisecond)
			s.service.MaxRequestLength = limit
			time.Sleep(5 * time.Millisecond)
		}
	}()
	s.service.Use(core.IOHandler(s.ioPlugin))
	s.service.AddFunction(s.echo, "echo")
	s.service.AddFunction(s.echo, "echoo")
	switch t {
	case "mock":
		name := "hv-c13-" + strconv.Itoa(limit)
		if late {
			name += "-late"
		}
		if err := s.service.Bind(mock.Server{Address: name}); err != nil {
			return nil, err
		}
		s.addr = name
		s.url = "mock://" + name
	case "tcp":
		ln, err := net.Listen("tcp", "127.0.0.1:0")
		if err != nil {
			return nil, err
		}
		if err := s.service.Bind(ln); err != nil {
			return nil, err
		}
		s.addr = ln.Addr().String()
		s.url = "tcp://" + s.addr + "/"
	case "unix":
		if tmpDir == "" {
			d, err := ioutil.TempDir("", "hv-c13-")
			if err != nil {
				return nil, err
			}
			tmpDir = d
		}
		path := filepath.Join(tmpDir, fmt.Sprintf("s%d%v.sock", limit, late))
		ln, err := net.Listen("unix", path)
		if err != nil {
			return nil, err
		}
		if err := s.service.Bind(ln); err != nil {
			return nil, err
		}
		s.addr = path
		s.url = "unix://" + path
	case "udp":
		a, _ := net.ResolveUDPAddr("udp", "127.0.0.1:0")
		conn, err := net.ListenUDP("udp", a)
		if err != nil {
			return nil, err
		}
		_ = conn.SetReadBuffer(8 << 20)
		if err := s.service.Bind(conn); err != nil {
			return nil, err
		}
		s.addr = conn.LocalAddr().String()
		s.url = "udp://" + s.addr + "/"
	case "ws", "http":
		ln, err := net.Listen("tcp", "127.0.0.1:0")
		if err != nil {
			return nil, err
		}
		server := &http.Server{}
		if err := s.service.Bind(server); err != nil {
			return nil, err
		}
		go server.Serve(ln)
		s.addr = ln.Addr().String()
		if t == "ws" {
			s.url = "ws://" + s.addr + "/"
		} else {
			s.url = "http://" + s.addr + "/"
		}
	case "fasthttp":
		ln, err := net.Listen("tcp", "127.0.0.1:0")
		if err != nil {
			return nil, err
		}
		server := &fasthttp.Server{MaxRequestBodySize: 64 << 20, Logger: quietLogger{}}
		if err := s.service.Bind(server); err != nil {
			return nil, err
		}
		go server.Serve(ln)
		s.addr = ln.Addr().String()
		s.url = "http://" + s.addr + "/"
	default:
		return nil, fmt.Errorf("unknown transport %q", t)
	}
	time.Sleep(15 * time.Millisecond)
	servers[key] = s
	return s, nil
}

type quietLogger struct{}

func (quietLogger) Printf(format string, args ...interface{}) {}

// ---------------------------------------------------------------- bodies

func digits(k int) int { return len(strconv.Itoa(k)) }

// a well-formed call  C s<len>"name" a1{ s<k>"xxx" } z  of exactly n bytes, if one exists
func makeBody(n int) (body []byte, valid bool, name string, k int) {
	for _, name := range []string{"echo", "echoo"} {
		// C s 4 " echo " a 1 {  = 1+1+1+1+len+1+1+1+1 ; string: s <k> " ... " ; } z
		fixed := 8 + len(name) + 3 + 2
		for d := 1; d <= 8; d++ {
			k := n - fixed - d
			if k >= 2 && digits(k) == d {
				var b bytes.Buffer
				b.WriteString("Cs" + strconv.Itoa(len(name)) + "\"" + name + "\"a1{s" + strconv.Itoa(k) + "\"")
				b.Write(bytes.Repeat([]byte("x"), k))
				b.WriteString("\"}z")
				if b.Len() != n {
					panic(fmt.Sprintf("makeBody: built %d bytes for %d", b.Len(), n))
				}
				return b.Bytes(), true, name, k
			}
		}
	}
	return bytes.Repeat([]byte("x"), n), false, "", 0
}

func isEnvErr(err error) bool {
	if err == nil {
		return false
	}
	m := err.Error()
	return strings.Contains(m, "connection refused") || strings.Contains(m, "too many open files") ||
		strings.Contains(m, "cannot assign requested address") || strings.Contains(m, "no buffer space") ||
		strings.Contains(m, "address already in use")
}

func classify(err error, o *c13Obs) {
	switch {
	case err == nil:
		o.Class = "ok"
	case err == core.ErrRequestEntityTooLarge || errors.Is(err, core.ErrRequestEntityTooLarge):
		o.Class = "too-large"
		o.Msg = err.Error()
	case isEnvErr(err):
		o.Env = err.Error()
	case errors.Is(err, context.DeadlineExceeded) || strings.Contains(err.Error(), "timeout"):
		o.Class = "timeout"
		o.Msg = err.Error()
	default:
		o.Class = "error"
		o.Msg = err.Error()
		if len(o.Msg) > 200 {
			o.Msg = o.Msg[:200]
		}
	}
}

func short(b []byte) string {
	if len(b) > 120 {
		return string(b[:120]) + fmt.Sprintf("...(%d bytes)", len(b))
	}
	return string(b)
}

// ---------------------------------------------------------------- real clients (truthful declarations)

func opClient(c *c13Case, o *c13Obs) {
	s, err := getServer(c.T, c.Limit, c.Late)
	if err != nil {
		o.Env = err.Error()
		return
	}
	if c.T == "fasthttp" {
		rpcfasthttp.RegisterTransport()
		defer rpchttp.RegisterTransport()
	}
	body, valid, name, k := makeBody(c.Actual)
	o.Valid, o.ArgLen = valid, k
	client := rpc.NewClient(s.url)
	client.Timeout = 8 * time.Second
	defer client.Abort()
	sent := -1
	client.Use(core.IOHandler(func(ctx context.Context, request []byte, next core.NextIOHandler) ([]byte, error) {
		sent = len(request)
		return next(ctx, request)
	}))
	s.reset()
	if c.Via == "invoke" && valid {
		res, err := client.Invoke(name, []interface{}{string(bytes.Repeat([]byte("x"), k))})
		classify(err, o)
		if err == nil {
			o.Result = fmt.Sprint(res...)
		}
	} else {
		cc := core.NewClientContext()
		cc.Init(client)
		resp, err := client.Request(core.WithContext(context.Background(), cc), body)
		classify(err, o)
		if err == nil {
			o.Result = short(resp)
		}
	}
	o.Sent = sent
	time.Sleep(2 * time.Millisecond)
	s.snapshot(o)
}

// ---------------------------------------------------------------- raw peers

func dialRetry(network, addr string) (net.Conn, error) {
	var err error
	for i := 0; i < 5; i++ {
		var c net.Conn
		c, err = net.DialTimeout(network, addr, 2*time.Second)
		if err == nil {
			return c, nil
		}
		time.Sleep(20 * time.Millisecond)
	}
	return nil, err
}

func closeWrite(conn net.Conn) {
	switch cc := conn.(type) {
	case *net.TCPConn:
		cc.CloseWrite()
	case *net.UnixConn:
		cc.CloseWrite()
	}
}

func unhex(s string) []byte {
	b, err := hex.DecodeString(s)
	if err != nil {
		panic("bad hex in case: " + err.Error())
	}
	return b
}

func writeAll(conn net.Conn, data []byte, pieces int) error {
	if pieces <= 1 || len(data) < pieces {
		_, err := conn.Write(data)
		return err
	}
	step := (len(data) + pieces - 1) / pieces
	for off := 0; off < len(data); off += step {
		end := off + step
		if end > len(data) {
			end = len(data)
		}
		if _, err := conn.Write(data[off:end]); err != nil {
			return err
		}
		time.Sleep(500 * time.Microsecond)
	}
	return nil
}

// tcp / unix: the 12-byte header comes from the case, the body bytes from makeBody
func opRawStream(c *c13Case, o *c13Obs) {
	s, err := getServer(c.T, c.Limit, c.Late)
	if err != nil {
		o.Env = err.Error()
		return
	}
	network := "tcp"
	if c.T == "unix" {
		network = "unix"
	}
	conn, err := dialRetry(network, s.addr)
	if err != nil {
		o.Env = err.Error()
		return
	}
	defer conn.Close()
	body, valid, _, k := makeBody(c.Actual)
	o.Valid, o.ArgLen, o.Sent = valid, k, len(body)
	s.reset()
	pieces := 1
	if c.Decl == "split" {
		pieces = 4
	}
	out := append(unhex(c.Hdr), body...)
	if c.Trail {
		out = append(out, trailFor(len(body))...)
	}
	werr := writeAll(conn, out, pieces)
	if werr != nil {
		// the server may legitimately have hung up while a large surplus was still being written
		o.Msg = "write: " + werr.Error()
	}
	if c.Decl == "larger" {
		closeWrite(conn)
	}
	// read one reply frame (12-byte header + what it announces is not parsed here: read until the
	// server hangs up or falls silent)
	var rx []byte
	buf := make([]byte, 4096)
	deadline := time.Now().Add(2500 * time.Millisecond)
	for {
		conn.SetReadDeadline(time.Now().Add(40 * time.Millisecond))
		n, err := conn.Read(buf)
		if n > 0 {
			rx = append(rx, buf[:n]...)
		}
		if err != nil {
			if ne, ok := err.(net.Error); ok && ne.Timeout() {
				// one whole reply frame is in (only its length field is looked at, to know when to
				// stop waiting) and nothing followed for a moment / nothing at all for long
				whole := len(rx) >= 12 && len(rx) >= 12+(int(rx[4]&0x7f)<<24|int(rx[5])<<16|int(rx[6])<<8|int(rx[7]))
				if whole || time.Now().After(deadline) {
					break
				}
				continue
			}
			o.EOF = true
			break
		}
	}
	if len(rx) > 4096 {
		rx = rx[:4096]
	}
	o.Rx = hex.EncodeToString(rx)
	time.Sleep(2 * time.Millisecond)
	s.snapshot(o)
}

func opRawUDP(c *c13Case, o *c13Obs) {
	s, err := getServer(c.T, c.Limit, c.Late)
	if err != nil {
		o.Env = err.Error()
		return
	}
	body, valid, _, k := makeBody(c.Actual)
	o.Valid, o.ArgLen, o.Sent = valid, k, len(body)
	ua, _ := net.ResolveUDPAddr("udp", s.addr)
	dgram := append(unhex(c.Hdr), body...)
	buf := make([]byte, 70000)
	tries, wait := 3, 1500*time.Millisecond
	if c.Decl == "smaller" || c.Decl == "larger" {
		// no answer is the expected fate of a datagram whose header lies: do not sit through retries
		tries, wait = 1, 300*time.Millisecond
	}
	for try := 1; try <= tries; try++ {
		o.Tries = try
		conn, err := net.DialUDP("udp", nil, ua)
		if err != nil {
			o.Env = err.Error()
			return
		}
		s.reset()
		if _, err := conn.Write(dgram); err != nil {
			conn.Close()
			o.Env = "udp write: " + err.Error()
			return
		}
		conn.SetReadDeadline(time.Now().Add(wait))
		n, err := conn.Read(buf)
		conn.Close()
		time.Sleep(2 * time.Millisecond)
		s.snapshot(o)
		if err == nil {
			o.Rx = hex.EncodeToString(buf[:n])
			return
		}
		if o.IO != 0 {
			break // it was processed but no reply came: not a lost datagram
		}
	}
	o.Class = "noreply"
}

// websocket: handshake by the library, then hand-made frames on the underlying connection
func wsFrame(fin bool, opcode byte, declared int, payload []byte) []byte {
	var f []byte
	b0 := opcode
	if fin {
		b0 |= 0x80
	}
	f = append(f, b0)
	switch {
	case declared < 126:
		f = append(f, 0x80|byte(declared))
	case declared < 65536:
		f = append(f, 0x80|126, byte(declared>>8), byte(declared))
	default:
		f = append(f, 0x80|127, 0, 0, 0, 0, byte(declared>>24), byte(declared>>16), byte(declared>>8), byte(declared))
	}
	f = append(f, 0, 0, 0, 0) // masking key 0: the payload goes out as it is
	return append(f, payload...)
}

func opRawWS(c *c13Case, o *c13Obs) {
	s, err := getServer(c.T, c.Limit, c.Late)
	if err != nil {
		o.Env = err.Error()
		return
	}
	var d websocket.Dialer
	d.HandshakeTimeout = 3 * time.Second
	conn, _, err := d.Dial(s.url, http.Header{"Sec-WebSocket-Protocol": []string{"hprose"}})
	if err != nil {
		o.Env = "ws dial: " + err.Error()
		return
	}
	defer conn.Close()
	raw := conn.UnderlyingConn()
	body, valid, _, k := makeBody(c.Actual)
	o.Valid, o.ArgLen, o.Sent = valid, k, len(body)
	msg := append(unhex(c.Hdr), body...) // 4-byte index + body
	s.reset()
	var wire []byte
	switch c.Decl {
	case "truthful":
		wire = wsFrame(true, 2, len(msg), msg)
	case "absent":
		// fragmented message: no frame announces the total length
		a, b := len(msg)/3, 2*len(msg)/3
		wire = append(wire, wsFrame(false, 2, a, msg[:a])...)
		wire = append(wire, wsFrame(false, 0, b-a, msg[a:b])...)
		wire = append(wire, wsFrame(true, 0, len(msg)-b, msg[b:])...)
	case "smaller", "larger":
		wire = wsFrame(true, 2, 4+c.Declared, msg)
	default:
		o.Env = "ws: unknown declaration " + c.Decl
		return
	}
	if _, err := raw.Write(wire); err != nil {
		o.Msg = "write: " + err.Error()
	}
	if c.Decl == "larger" {
		closeWrite(raw)
	}
	conn.SetReadDeadline(time.Now().Add(3 * time.Second))
	mt, data, err := conn.ReadMessage()
	if err != nil {
		if ne, ok := err.(net.Error); ok && ne.Timeout() {
			o.Class = "noreply"
		} else {
			o.EOF = true
		}
		o.Msg += " read: " + err.Error()
	} else if mt == websocket.BinaryMessage {
		if len(data) > 4096 {
			data = data[:4096]
		}
		o.Rx = hex.EncodeToString(data)
	}
	time.Sleep(2 * time.Millisecond)
	s.snapshot(o)
}

// net/http and fasthttp servers: the request is written by hand
func opRawHTTP(c *c13Case, o *c13Obs) {
	s, err := getServer(c.T, c.Limit, c.Late)
	if err != nil {
		o.Env = err.Error()
		return
	}
	conn, err := dialRetry("tcp", s.addr)
	if err != nil {
		o.Env = err.Error()
		return
	}
	defer conn.Close()
	body, valid, _, k := makeBody(c.Actual)
	o.Valid, o.ArgLen, o.Sent = valid, k, len(body)
	var req bytes.Buffer
	method := c.Method
	if method == "" {
		method = "POST"
	}
	req.WriteString(method + " / HTTP/1.1\r\nHost: " + s.addr + "\r\nContent-Type: application/octet-stream\r\n")
	chunked := func() {
		// three chunks (fewer when the body is tiny), then the terminating one
		n := len(body)
		cuts := []int{0, n / 3, 2 * n / 3, n}
		for i := 0; i < 3; i++ {
			if cuts[i+1] > cuts[i] {
				fmt.Fprintf(&req, "%x\r\n", cuts[i+1]-cuts[i])
				req.Write(body[cuts[i]:cuts[i+1]])
				req.WriteString("\r\n")
			}
		}
		req.WriteString("0\r\n\r\n")
	}
	switch c.Decl {
	case "truthful", "split":
		fmt.Fprintf(&req, "Content-Length: %d\r\n\r\n", len(body))
		req.Write(body)
	case "absent":
		if c.Extra == "cl+chunked" {
			fmt.Fprintf(&req, "Content-Length: %d\r\n", c.Declared)
		}
		req.WriteString("Transfer-Encoding: chunked\r\n\r\n")
		chunked()
	case "smaller", "larger":
		fmt.Fprintf(&req, "Content-Length: %d\r\n\r\n", c.Declared)
		req.Write(body)
	default:
		o.Env = "http: unknown declaration " + c.Decl
		return
	}
	s.reset()
	pieces := 1
	if c.Decl == "split" {
		pieces = 4
	}
	if err := writeAll(conn, req.Bytes(), pieces); err != nil {
		o.Msg = "write: " + err.Error()
	}
	if c.Decl == "larger" {
		closeWrite(conn)
	}
	conn.SetReadDeadline(time.Now().Add(4 * time.Second))
	resp, err := http.ReadResponse(bufio.NewReader(conn), nil)
	if err != nil {
		if ne, ok := err.(net.Error); ok && ne.Timeout() {
			o.Class = "noreply"
		} else {
			o.EOF = true
		}
		o.Msg += " read: " + err.Error()
	} else {
		o.Status = resp.StatusCode
		b, _ := ioutil.ReadAll(io.LimitReader(resp.Body, 4096))
		resp.Body.Close()
		o.Result = short(b)
	}
	time.Sleep(2 * time.Millisecond)
	s.snapshot(o)
}

// ---------------------------------------------------------------- T1: comparison sites

func exprText(fset *token.FileSet, e ast.Expr) string {
	var b bytes.Buffer
	printer.Fprint(&b, fset, e)
	return strings.Join(strings.Fields(b.String()), "")
}

type siteWalker struct {
	fset     *token.FileSet
	file     string
	cmps     []site
	pos      []token.Pos
	dispatch token.Pos
}

func isLimitCmp(file, l, r string, op token.Token) bool {
	switch op {
	case token.GTR, token.GEQ, token.LSS, token.LEQ, token.EQL, token.NEQ:
	default:
		return false
	}
	if strings.Contains(l, "MaxRequestLength") || strings.Contains(r, "MaxRequestLength") {
		return true
	}
	// the datagram consistency test: declared length against received bytes
	return file == "rpc/udp/handler.go" && ((l == "length" && r == "n-8") || (l == "n-8" && r == "length"))
}

func splitOp(e ast.Expr, op token.Token) []ast.Expr {
	for {
		p, ok := e.(*ast.ParenExpr)
		if !ok {
			break
		}
		e = p.X
	}
	if b, ok := e.(*ast.BinaryExpr); ok && b.Op == op {
		return append(splitOp(b.X, op), splitOp(b.Y, op)...)
	}
	return []ast.Expr{e}
}

// cond: a boolean condition evaluated under guards.  Comparisons with the limit that are conjuncts of it
// are evaluated only when the conjuncts before them hold; those inside a disjunct carry no extra guard.
func (w *siteWalker) cond(e ast.Expr, guards []string) {
	if e == nil {
		return
	}
	conj := splitOp(e, token.LAND)
	for k, c := range conj {
		g := append([]string{}, guards...)
		for m, other := range conj {
			if m != k {
				g = append(g, exprText(w.fset, other))
			}
		}
		for _, d := range splitOp(c, token.LOR) {
			w.expr(d, g)
		}
	}
}

func (w *siteWalker) expr(e ast.Expr, guards []string) {
	ast.Inspect(e, func(n ast.Node) bool {
		switch x := n.(type) {
		case *ast.FuncLit:
			w.stmt(x.Body, guards)
			return false
		case *ast.BinaryExpr:
			l, r := exprText(w.fset, x.X), exprText(w.fset, x.Y)
			if isLimitCmp(w.file, l, r, x.Op) {
				w.cmps = append(w.cmps, site{File: w.file, Lhs: l, Op: x.Op.String(), Rhs: r, Guards: append([]string{}, guards...)})
				w.pos = append(w.pos, x.Pos())
				return false
			}
		case *ast.CallExpr:
			if sel, ok := x.Fun.(*ast.SelectorExpr); ok {
				switch sel.Sel.Name {
				case "Handle", "run", "task":
					if w.dispatch == token.NoPos || x.Pos() < w.dispatch {
						w.dispatch = x.Pos()
					}
				}
			}
		}
		return true
	})
}

func (w *siteWalker) stmt(st ast.Stmt, guards []string) {
	switch x := st.(type) {
	case nil:
	case *ast.BlockStmt:
		if x == nil {
			return
		}
		for _, s := range x.List {
			w.stmt(s, guards)
		}
	case *ast.IfStmt:
		w.stmt(x.Init, guards)
		w.cond(x.Cond, guards)
		c := exprText(w.fset, x.Cond)
		w.stmt(x.Body, append(append([]string{}, guards...), c))
		if x.Else != nil {
			w.stmt(x.Else, append(append([]string{}, guards...), "!("+c+")"))
		}
	case *ast.SwitchStmt:
		w.stmt(x.Init, guards)
		if x.Tag != nil {
			w.expr(x.Tag, guards)
		}
		g := append([]string{}, guards...)
		for _, cc := range x.Body.List {
			clause := cc.(*ast.CaseClause)
			var texts []string
			for _, e := range clause.List {
				if x.Tag == nil {
					w.cond(e, g)
				} else {
					w.expr(e, g)
				}
				texts = append(texts, exprText(w.fset, e))
			}
			inner := append([]string{}, g...)
			if x.Tag == nil && len(texts) > 0 {
				inner = append(inner, strings.Join(texts, "||"))
			}
			for _, s := range clause.Body {
				w.stmt(s, inner)
			}
			if x.Tag == nil && len(texts) > 0 {
				g = append(g, "!("+strings.Join(texts, "||")+")")
			}
		}
	case *ast.TypeSwitchStmt:
		for _, cc := range x.Body.List {
			for _, s := range cc.(*ast.CaseClause).Body {
				w.stmt(s, guards)
			}
		}
	case *ast.SelectStmt:
		for _, cc := range x.Body.List {
			for _, s := range cc.(*ast.CommClause).Body {
				w.stmt(s, guards)
			}
		}
	case *ast.ForStmt:
		w.stmt(x.Init, guards)
		if x.Cond != nil {
			w.expr(x.Cond, guards)
		}
		w.stmt(x.Body, guards)
	case *ast.RangeStmt:
		w.stmt(x.Body, guards)
	case *ast.LabeledStmt:
		w.stmt(x.Stmt, guards)
	default:
		// assignments, expression statements, returns, go, defer ...: look inside their expressions
		ast.Inspect(st, func(n ast.Node) bool {
			if e, ok := n.(ast.Expr); ok {
				w.expr(e, guards)
				return false
			}
			return true
		})
	}
}

func opSites(c *c13Case, o *c13Obs) {
	files := []string{"rpc/mock/handler.go", "rpc/http/handler.go", "rpc/socket/handler.go",
		"rpc/udp/handler.go", "rpc/websocket/handler.go"}
	for _, f := range files {
		fset := token.NewFileSet()
		af, err := parser.ParseFile(fset, filepath.Join(c.Repo, f), nil, 0)
		if err != nil {
			o.Env = "sites: " + err.Error()
			return
		}
		for _, d := range af.Decls {
			fd, ok := d.(*ast.FuncDecl)
			if !ok || fd.Body == nil {
				continue
			}
			w := &siteWalker{fset: fset, file: f}
			w.stmt(fd.Body, nil)
			for k, x := range w.cmps {
				x.Func = fd.Name.Name
				x.Before = w.dispatch == token.NoPos || w.pos[k] < w.dispatch
				x.Dispatch = w.dispatch != token.NoPos
				if x.Guards == nil {
					x.Guards = []string{}
				}
				o.Sites = append(o.Sites, x)
			}
		}
	}
}

// ---------------------------------------------------------------- main

func c13Run(line []byte, out *json.Encoder) error {
	var c c13Case
	if err := json.Unmarshal(line, &c); err != nil {
		return err
	}
	hvlib.Begin(c.ID)
	o := c13Obs{ID: c.ID, IOLens: []int{}, FnLens: []int{}}
	t0 := time.Now()
	func() {
		defer func() {
			if e := recover(); e != nil {
				o.Class = "harness-panic"
				o.Msg = fmt.Sprint(e)
			}
		}()
		switch c.Op {
		case "sites":
			opSites(&c, &o)
		case "client":
			opClient(&c, &o)
		case "raw":
			switch c.T {
			case "tcp", "unix":
				opRawStream(&c, &o)
			case "udp":
				opRawUDP(&c, &o)
			case "ws":
				opRawWS(&c, &o)
			case "http", "fasthttp":
				opRawHTTP(&c, &o)
			default:
				o.Env = "raw: no raw peer for transport " + c.T
			}
		default:
			o.Env = "unknown op " + c.Op
		}
	}()
	o.Ms = float64(time.Since(t0).Microseconds()) / 1000
	return out.Encode(&o)
}

func main() {
	defer func() {
		if tmpDir != "" {
			os.RemoveAll(tmpDir)
		}
	}()
	hvlib.Main(c13Run)
}
