package main

import (
	"context"
	"encoding/json"
	"errors"
	"fmt"
	"math/rand"
	"os"
	"reflect"
	"strconv"
	"strings"
	"sync"
	"sync/atomic"
	"time"

	"github.com/hprose/hprose-golang/v3/io"
	"github.com/hprose/hprose-golang/v3/rpc/core"
	"github.com/hprose/hprose-golang/v3/rpc/plugins/loadbalance"
	"hv/hvlib"
)

// C18: drive the REAL load balancers.  A real core.Client with n URLs, client.Use(balancer), then
// a scripted IO handler that never calls next: it records clientContext.URL and blocks until the
// harness releases the call with its scripted outcome (result bytes / error / panic).  Calls run
// on goroutines; the harness waits for each to enter the handler (or to return) before the next
// action, so scripts are deterministic without sleeping.  After every event the balancer's private
// fields are read (reflect, read-only) as an additional observable.
type c18Case struct {
	ID      int    `json:"id"`
	LB      string `json:"lb"` // rr rand la wrr nginx wrand wla
	N       int    `json:"n"`  // number of URLs (unweighted balancers)
	Weights []int  `json:"weights,omitempty"`
	Script  string `json:"script,omitempty"` // tokens: S | F<k><O|E|P> | C<id,id,..> (client.SetURI of these servers)
	Mode    string `json:"mode,omitempty"`   // "" (script) | "conc" | "burst" (G x M direct Handler calls at once, then the script) | "rand"
	G       int    `json:"g,omitempty"`
	M       int    `json:"m,omitempty"`
	Outs    string `json:"outs,omitempty"` // conc mode: outcome pattern, call c gets Outs[c%len]
	Seed    int64  `json:"seed,omitempty"` // script mode: math/rand is re-seeded with Seed*1000003+k before call k
	// mode "rand": what rand.Intn (kind 1) / rand.Int63n (kind 2) return first after rand.Seed(seed)
	Reqs [][3]int64 `json:"reqs,omitempty"` // [seed, kind, arg]
}

type c18Event struct {
	Ev    string  `json:"ev"`              // S | F
	K     int     `json:"k"`               // call number
	U     int     `json:"u"`               // S: picked index (position in the balancer's URL list); -1 none, -2 not a configured URL
	R     string  `json:"r,omitempty"`     // F (or early return): O E P ?
	Early string  `json:"early,omitempty"` // S: the call returned before reaching the downstream handler
	St    []int64 `json:"st"`              // balancer fields after the event
	Msg   string  `json:"msg,omitempty"`
}

type c18Obs struct {
	ID      int        `json:"id"`
	Ctor    string     `json:"ctor"` // ok | panic
	CtorMsg string     `json:"ctor_msg,omitempty"`
	Order   []int64    `json:"order,omitempty"` // weights in the balancer's own order (lb.Weights)
	Events  []c18Event `json:"events,omitempty"`
	Fatal   string     `json:"fatal,omitempty"`
	// conc mode
	Calls   int            `json:"calls,omitempty"`
	Invalid int            `json:"invalid,omitempty"`
	Crashes []string       `json:"crashes,omitempty"`
	PerSrv  []int          `json:"per_server,omitempty"`
	Results map[string]int `json:"results,omitempty"`
	FinalSt []int64        `json:"final_st,omitempty"`
	RestSt  []int64        `json:"rest_st"` // burst mode: the balancer's fields once the burst has finished
	// rand mode
	Vals   []int64 `json:"vals,omitempty"`
	SeedOK *bool   `json:"seed_ok,omitempty"` // rand.Seed really controls the global generator
}

func seedFor(c *c18Case, k int) int64 { return c.Seed*1000003 + int64(k) + 1 }

// the first value the package-level functions return after rand.Seed(seed), computed on a
// private generator with the same source
func randVal(seed, kind, arg int64) int64 {
	if arg <= 0 {
		return -1
	}
	r := rand.New(rand.NewSource(seed))
	if kind == 1 {
		return int64(r.Intn(int(arg)))
	}
	return r.Int63n(arg)
}

func seedControlsGlobal() bool {
	for _, sd := range []int64{1, 42, 987654321} {
		rand.Seed(sd)
		a, b := rand.Intn(1000), rand.Int63n(1<<40)
		r := rand.New(rand.NewSource(sd))
		if a != r.Intn(1000) || b != r.Int63n(1<<40) {
			return false
		}
	}
	return true
}

func host(i int) string { return "s" + strconv.Itoa(i) + ":1" }
func uri(i int) string  { return "mock://" + host(i) + "/" }

func fieldInts(v reflect.Value, name string) []int64 {
	f := v.FieldByName(name)
	if !f.IsValid() {
		return []int64{-999999}
	}
	switch f.Kind() {
	case reflect.Int, reflect.Int64:
		return []int64{f.Int()}
	case reflect.Slice:
		out := make([]int64, f.Len())
		for i := range out {
			out[i] = f.Index(i).Int()
		}
		return out
	}
	return []int64{-999998}
}

// snapshot of the balancer's private fields, in the order of the model's m_obs
func snap(kind string, lb interface{}) []int64 {
	v := reflect.ValueOf(lb).Elem()
	out := []int64{}
	switch kind {
	case "rr":
		out = append(out, fieldInts(v, "index")...)
	case "rand":
	case "la":
		out = append(out, fieldInts(v, "actives")...)
	case "wrr":
		out = append(out, fieldInts(v, "index")...)
		out = append(out, fieldInts(v, "currentWeight")...)
	case "nginx":
		out = append(out, fieldInts(v, "effectiveWeights")...)
		out = append(out, fieldInts(v, "currentWeights")...)
	case "wrand":
		out = append(out, fieldInts(v, "effectiveWeights")...)
	case "wla":
		out = append(out, fieldInts(v, "actives")...)
		out = append(out, fieldInts(v, "effectiveWeights")...)
	}
	return out
}

type built struct {
	lb    interface{}
	hosts []string // position in the balancer's URL list -> host
	order []int64
}

func construct(c *c18Case) (b built, perr interface{}) {
	defer func() {
		if e := recover(); e != nil {
			perr = e
		}
	}()
	switch c.LB {
	case "rr":
		b.lb = loadbalance.NewRoundRobinLoadBalance()
	case "rand":
		b.lb = loadbalance.NewRandomLoadBalance()
	case "la":
		b.lb = loadbalance.NewLeastActiveLoadBalance()
	}
	if b.lb != nil {
		for i := 0; i < c.N; i++ {
			b.hosts = append(b.hosts, host(i))
		}
		return
	}
	// Weighted: Go's map iteration order decides the balancer's server order.  Retry a few
	// times to get the requested order (any order is legitimate; the observation reports the
	// one actually obtained and the model follows it).
	for try := 0; try < 64; try++ {
		m := make(map[string]int, len(c.Weights))
		for i, w := range c.Weights {
			m[uri(i)] = w
		}
		var base *loadbalance.WeightedLoadBalance
		switch c.LB {
		case "wrr":
			x := loadbalance.NewWeightedRoundRobinLoadBalance(m)
			b.lb, base = x, &x.WeightedLoadBalance
		case "nginx":
			x := loadbalance.NewNginxRoundRobinLoadBalance(m)
			b.lb, base = x, &x.WeightedLoadBalance
		case "wrand":
			x := loadbalance.NewWeightedRandomLoadBalance(m)
			b.lb, base = x, &x.WeightedLoadBalance
		case "wla":
			x := loadbalance.NewWeightedLeastActiveLoadBalance(m)
			b.lb, base = x, &x.WeightedLoadBalance
		default:
			panic("unknown balancer " + c.LB)
		}
		b.hosts = b.hosts[:0]
		b.order = b.order[:0]
		same := true
		for j, u := range base.URLs {
			b.hosts = append(b.hosts, u.Host)
			b.order = append(b.order, []int64(base.Weights)[j])
			if u.Host != host(j) {
				same = false
			}
		}
		if same {
			break
		}
	}
	return
}

type entered struct {
	k int
	u int
}

type callDone struct {
	k   int
	r   string
	msg string
}

func okBytes(k int) []byte {
	enc := new(io.Encoder).Simple(true)
	enc.WriteTag(io.TagResult)
	enc.Encode(fmt.Sprintf("ok-%d", k))
	enc.WriteTag(io.TagEnd)
	return enc.Bytes()
}

func classify(k int, res []interface{}, err error, pv interface{}) (string, string) {
	switch {
	case pv != nil:
		if strings.Contains(fmt.Sprint(pv), fmt.Sprintf("boom-%d", k)) {
			return "P", "propagated"
		}
		return "?", fmt.Sprintf("panic: %v", pv)
	case err != nil:
		if _, ok := err.(*core.PanicError); ok {
			if strings.Contains(err.Error(), fmt.Sprintf("boom-%d", k)) {
				return "P", ""
			}
			return "?", "panic error: " + err.Error()
		}
		if err.Error() == fmt.Sprintf("down-%d", k) {
			return "E", ""
		}
		return "?", "error: " + err.Error()
	case len(res) == 1 && res[0] == fmt.Sprintf("ok-%d", k):
		return "O", ""
	}
	return "?", fmt.Sprintf("res=%v", res)
}

const waitLimit = 20 * time.Second

func runScript(c *c18Case, obs *c18Obs, b built) {
	uris := make([]string, c.N)
	for i := range uris {
		uris[i] = uri(i)
	}
	if len(c.Weights) > 0 {
		uris = uris[:0]
		for i := range c.Weights {
			uris = append(uris, uri(i))
		}
	}
	client := core.NewClient(uris...)
	pos := map[string]int{}
	for j, h := range b.hosts {
		pos[h] = j
	}
	enteredCh := make(chan entered, 1)
	doneCh := make(chan callDone, 64)
	var mu sync.Mutex
	release := map[int]chan byte{}
	var starting int32 = -1
	scripted := func(ctx context.Context, request []byte, next core.NextIOHandler) ([]byte, error) {
		k := int(atomic.LoadInt32(&starting))
		u := -1
		mu.Lock()
		if cc := core.GetClientContext(ctx); cc != nil && cc.URL != nil {
			if j, ok := pos[cc.URL.Host]; ok {
				u = j
			} else {
				u = -2
			}
		}
		ch := release[k]
		mu.Unlock()
		enteredCh <- entered{k, u}
		switch <-ch {
		case 'O':
			return okBytes(k), nil
		case 'E':
			return nil, errors.New(fmt.Sprintf("down-%d", k))
		default:
			panic(fmt.Sprintf("boom-%d", k))
		}
	}
	client.Use(b.lb)
	client.Use(core.IOHandler(scripted))
	if c.Mode == "burst" {
		burst(c, obs, b, client, pos)
		if obs.Fatal != "" {
			return
		}
		obs.RestSt = snap(c.LB, b.lb)
	}
	weighted := len(b.order) > 0 || len(c.Weights) > 0
	inFlight := map[int]bool{}
	next := 0
	for _, tok := range strings.Fields(c.Script) {
		switch tok[0] {
		case 'C':
			// the client's URL list changes (between calls; calls in flight keep what they read)
			var us []string
			var hs []string
			for _, f := range strings.Split(tok[1:], ",") {
				if id, err := strconv.Atoi(f); err == nil {
					us = append(us, uri(id))
					hs = append(hs, host(id))
				}
			}
			client.SetURI(us...)
			if !weighted {
				mu.Lock()
				for h := range pos {
					delete(pos, h)
				}
				for j, h := range hs {
					pos[h] = j
				}
				mu.Unlock()
			}
			obs.Events = append(obs.Events, c18Event{Ev: "C", K: len(us), U: -1, St: snap(c.LB, b.lb)})
		case 'S':
			k := next
			next++
			ch := make(chan byte, 1)
			mu.Lock()
			release[k] = ch
			mu.Unlock()
			atomic.StoreInt32(&starting, int32(k))
			if c.Seed != 0 {
				rand.Seed(seedFor(c, k))
			}
			go func() {
				var res []interface{}
				var err error
				var pv interface{}
				func() {
					defer func() { pv = recover() }()
					res, err = client.Invoke("f", nil)
				}()
				r, msg := classify(k, res, err, pv)
				doneCh <- callDone{k, r, msg}
			}()
			ev := c18Event{Ev: "S", K: k, U: -1}
			select {
			case e := <-enteredCh:
				ev.U = e.u
				inFlight[k] = true
			case d := <-doneCh:
				ev.Early = d.r
				ev.Msg = d.msg
			case <-time.After(waitLimit):
				obs.Fatal = fmt.Sprintf("call %d neither reached the downstream handler nor returned", k)
				return
			}
			ev.St = snap(c.LB, b.lb)
			obs.Events = append(obs.Events, ev)
		case 'F':
			k, _ := strconv.Atoi(tok[1 : len(tok)-1])
			if !inFlight[k] {
				// the call already returned (it never reached the handler): nothing to release
				obs.Events = append(obs.Events, c18Event{Ev: "F", K: k, U: -1, R: "-", St: snap(c.LB, b.lb)})
				continue
			}
			delete(inFlight, k)
			mu.Lock()
			ch := release[k]
			mu.Unlock()
			ch <- tok[len(tok)-1]
			ev := c18Event{Ev: "F", K: k, U: -1}
			select {
			case d := <-doneCh:
				ev.R = d.r
				ev.Msg = d.msg
				if d.k != k {
					ev.R = "?"
					ev.Msg = fmt.Sprintf("call %d returned while releasing %d", d.k, k)
				}
			case <-time.After(waitLimit):
				obs.Fatal = fmt.Sprintf("released call %d never returned", k)
				return
			}
			ev.St = snap(c.LB, b.lb)
			obs.Events = append(obs.Events, ev)
		}
	}
	// release whatever the script left in flight so the goroutines end
	for k := range inFlight {
		mu.Lock()
		ch := release[k]
		mu.Unlock()
		ch <- 'O'
		select {
		case <-doneCh:
		case <-time.After(waitLimit):
		}
	}
}

type ioPlugin interface {
	Handler(ctx context.Context, request []byte, next core.NextIOHandler) ([]byte, error)
}

// burst: G goroutines call the balancer's Handler M times each, all at once, through its public
// Handler method with a ClientContext of the client (no codec, so the callers really overlap
// inside the balancer); the downstream outcome of call number c is Outs[c%len].
func burst(c *c18Case, obs *c18Obs, b built, client *core.Client, pos map[string]int) {
	h, ok := b.lb.(ioPlugin)
	if !ok {
		obs.Fatal = "balancer has no Handler method"
		return
	}
	n := len(b.hosts)
	per := make([]int64, n)
	var invalid, seq int64
	outs := c.Outs
	if outs == "" {
		outs = "O"
	}
	next := func(ctx context.Context, request []byte) ([]byte, error) {
		k := int(atomic.AddInt64(&seq, 1))
		good := false
		if cc := core.GetClientContext(ctx); cc != nil && cc.URL != nil {
			if j, found := pos[cc.URL.Host]; found {
				atomic.AddInt64(&per[j], 1)
				good = true
			}
		}
		if !good {
			atomic.AddInt64(&invalid, 1)
		}
		switch outs[k%len(outs)] {
		case 'O':
			return nil, nil
		case 'E':
			return nil, errors.New("down")
		default:
			panic("boom")
		}
	}
	var wg sync.WaitGroup
	var mu sync.Mutex
	results := map[string]int{}
	crashes := []string{}
	start := make(chan struct{})
	for g := 0; g < c.G; g++ {
		wg.Add(1)
		go func() {
			defer wg.Done()
			local := map[string]int{}
			<-start
			for m := 0; m < c.M; m++ {
				var err error
				var pv interface{}
				func() {
					defer func() { pv = recover() }()
					cc := core.NewClientContext()
					cc.Init(client)
					_, err = h.Handler(core.WithContext(context.Background(), cc), nil, next)
				}()
				r := "O"
				msg := ""
				switch {
				case pv != nil:
					if fmt.Sprint(pv) == "boom" {
						r = "P"
					} else {
						r, msg = "X", fmt.Sprint(pv)
					}
				case err != nil:
					if _, isp := err.(*core.PanicError); isp && strings.Contains(err.Error(), "boom") {
						r = "P"
					} else if err.Error() == "down" {
						r = "E"
					} else {
						r, msg = "X", err.Error()
					}
				}
				local[r]++
				if msg != "" {
					mu.Lock()
					if len(crashes) < 5 {
						crashes = append(crashes, msg)
					}
					mu.Unlock()
				}
			}
			mu.Lock()
			for k, v := range local {
				results[k] += v
			}
			mu.Unlock()
		}()
	}
	close(start)
	fin := make(chan struct{})
	go func() { wg.Wait(); close(fin) }()
	select {
	case <-fin:
	case <-time.After(5 * time.Minute):
		obs.Fatal = "concurrent callers did not finish"
		return
	}
	obs.Calls = c.G * c.M
	obs.Invalid = int(invalid)
	obs.Crashes = crashes
	obs.Results = results
	for _, x := range per {
		obs.PerSrv = append(obs.PerSrv, int(x))
	}
}

func runConc(c *c18Case, obs *c18Obs, b built) {
	n := len(b.hosts)
	uris := make([]string, n)
	for i := range uris {
		uris[i] = uri(i)
	}
	client := core.NewClient(uris...)
	pos := map[string]int{}
	for j, h := range b.hosts {
		pos[h] = j
	}
	per := make([]int64, n)
	var invalid, seq int64
	outs := c.Outs
	if outs == "" {
		outs = "O"
	}
	scripted := func(ctx context.Context, request []byte, next core.NextIOHandler) ([]byte, error) {
		k := int(atomic.AddInt64(&seq, 1))
		ok := false
		if cc := core.GetClientContext(ctx); cc != nil && cc.URL != nil {
			if j, found := pos[cc.URL.Host]; found {
				atomic.AddInt64(&per[j], 1)
				ok = true
			}
		}
		if !ok {
			atomic.AddInt64(&invalid, 1)
		}
		switch outs[k%len(outs)] {
		case 'O':
			return okBytes(0), nil
		case 'E':
			return nil, errors.New("down")
		default:
			panic("boom")
		}
	}
	client.Use(b.lb)
	client.Use(core.IOHandler(scripted))
	var wg sync.WaitGroup
	var mu sync.Mutex
	results := map[string]int{}
	crashes := []string{}
	start := make(chan struct{})
	for g := 0; g < c.G; g++ {
		wg.Add(1)
		go func() {
			defer wg.Done()
			<-start
			for m := 0; m < c.M; m++ {
				var err error
				var pv interface{}
				func() {
					defer func() { pv = recover() }()
					_, err = client.Invoke("f", nil)
				}()
				r := "O"
				switch {
				case pv != nil:
					if fmt.Sprint(pv) == "boom" {
						r = "P"
					} else {
						r = "X"
						mu.Lock()
						if len(crashes) < 5 {
							crashes = append(crashes, fmt.Sprint(pv))
						}
						mu.Unlock()
					}
				case err != nil:
					if _, isp := err.(*core.PanicError); isp {
						if strings.Contains(err.Error(), "boom") {
							r = "P"
						} else {
							r = "X"
							mu.Lock()
							if len(crashes) < 5 {
								crashes = append(crashes, err.Error())
							}
							mu.Unlock()
						}
					} else if err.Error() == "down" {
						r = "E"
					} else {
						r = "X"
						mu.Lock()
						if len(crashes) < 5 {
							crashes = append(crashes, err.Error())
						}
						mu.Unlock()
					}
				}
				mu.Lock()
				results[r]++
				mu.Unlock()
			}
		}()
	}
	close(start)
	fin := make(chan struct{})
	go func() { wg.Wait(); close(fin) }()
	select {
	case <-fin:
	case <-time.After(5 * time.Minute):
		obs.Fatal = "concurrent callers did not finish"
		return
	}
	obs.Calls = c.G * c.M
	obs.Invalid = int(invalid)
	obs.Crashes = crashes
	obs.Results = results
	for _, x := range per {
		obs.PerSrv = append(obs.PerSrv, int(x))
	}
	obs.FinalSt = snap(c.LB, b.lb)
}

var quiet sync.Once

func c18Run(line []byte, out *json.Encoder) error {
	// WeightedLeastActive prints every URL with fmt.Println; keep that off the result stream
	// (hvlib has already captured the real stdout).
	quiet.Do(func() {
		if f, err := os.OpenFile(os.DevNull, os.O_WRONLY, 0); err == nil {
			os.Stdout = f
		}
	})
	var c c18Case
	if err := json.Unmarshal(line, &c); err != nil {
		return err
	}
	obs := c18Obs{ID: c.ID, Ctor: "ok"}
	if c.Mode == "rand" {
		ok := seedControlsGlobal()
		obs.SeedOK = &ok
		for _, q := range c.Reqs {
			obs.Vals = append(obs.Vals, randVal(q[0], q[1], q[2]))
		}
		return out.Encode(&obs)
	}
	b, perr := construct(&c)
	if perr != nil {
		obs.Ctor = "panic"
		obs.CtorMsg = fmt.Sprint(perr)
		return out.Encode(&obs)
	}
	obs.Order = b.order
	if c.Mode == "conc" {
		runConc(&c, &obs, b)
	} else {
		runScript(&c, &obs, b)
	}
	if err := out.Encode(&obs); err != nil {
		return err
	}
	if obs.Fatal != "" {
		// a balancer goroutine is stuck (possibly spinning with a lock held): report and stop
		return errors.New("c18: " + obs.Fatal)
	}
	return nil
}

func main() { hvlib.Main(c18Run) }
