package main

// C14 executor: drives the real io package (pooled coders, Formatter, registries) and the rpc
// codecs.  One JSON case in, one JSON observation out; it never judges.
//
//   eseq      sessions of operations on pooled / user-held ENCODERS, with a shadow run of the same
//             operations on a brand-new encoder (new(io.Encoder)) for the property oracle
//   dseq      the same for DECODERS
//   scribble  decode into a destination, overwrite the input (and churn the pooled decoders),
//             render the destination before and after
//   viewapi   one buffer-level entry point (safe or documented-unsafe), same scribble
//   race      N goroutines x types that are fresh in THIS process (run one case per process)
//   forced    (hook_verif.go, build tag c14hook) forced schedule through io.VerifYieldHook

import (
	"bytes"
	"encoding/hex"
	"encoding/json"
	"errors"
	"fmt"
	stdio "io"
	"math/big"
	"reflect"
	"runtime/debug"
	"sort"
	"strconv"
	"strings"
	"sync"
	"time"

	"github.com/hprose/hprose-golang/v3/io"
	"github.com/hprose/hprose-golang/v3/rpc/core"
	"hv/hvlib"
)

type session struct {
	Get  string   `json:"get"` // pool | new:<wid or -> (NewEncoder) | newdec:<hex> | newreader:<hex>
	Ops  []string `json:"ops"`
	Free bool     `json:"free"`
}

type raceOp struct {
	Op     string `json:"op"` // marshal unmarshal cenc senc cdec
	Slot   int    `json:"slot"`
	Simple bool   `json:"simple"`
	Data   string `json:"data,omitempty"`
}

type c14Case struct {
	ID       int       `json:"id"`
	Kind     string    `json:"kind"`
	Sessions []session `json:"sessions,omitempty"`
	// scribble / viewapi
	Dest   string `json:"dest,omitempty"`
	Wire   string `json:"wire,omitempty"`
	Simple bool   `json:"simple,omitempty"`
	Via    string `json:"via,omitempty"`
	API    string `json:"api,omitempty"`
	// race / forced
	Group int      `json:"group,omitempty"`
	Seed  int      `json:"seed,omitempty"`
	Conc  bool     `json:"conc,omitempty"`
	Ops   []raceOp `json:"ops,omitempty"`
	Shape string   `json:"shape,omitempty"`
	// decrace / forceddec: wide type families, wire data from the single-goroutine process
	Families []int      `json:"families,omitempty"`
	Datas    [][]string `json:"datas,omitempty"` // per family: [hex of WT value, hex of WO value, hex of []WT value]
	DelaysUs []int      `json:"delays_us,omitempty"`
	BDest    string     `json:"bdest,omitempty"` // PT | O | S
	// poolusers: names of catalogue steps
	Steps []string `json:"steps,omitempty"`
}

type sessObs struct {
	Got         int      `json:"got"` // index in the model-ordered pool, -1 new, -2 not from the pool
	WriterAtGet bool     `json:"writer_at_get"`
	EverWriter  bool     `json:"ever_writer"` // this encoder object ever flushed to a writer before
	Obs         []string `json:"obs"`
	Shadow      []string `json:"shadow,omitempty"`
	Fresh       []string `json:"fresh,omitempty"`
	Grown       []string `json:"grown,omitempty"`
}

type c14Obs struct {
	ID       int        `json:"id"`
	Kind     string     `json:"kind"`
	Sessions []sessObs  `json:"sessions,omitempty"`
	Before   string     `json:"before,omitempty"`
	After    string     `json:"after,omitempty"`
	ErrB     string     `json:"err_before,omitempty"`
	ErrA     string     `json:"err_after,omitempty"`
	Outs     []string   `json:"outs,omitempty"`
	Rounds   [][]string `json:"rounds,omitempty"`
	Excl     []string   `json:"excl,omitempty"` // after each step: "ok" or what the pools handed out twice
	Errs     []string   `json:"errs,omitempty"`
	Hook     bool       `json:"hook"`
	Note     string     `json:"note,omitempty"`
	Blocked  bool       `json:"blocked,omitempty"`
	Panic    string     `json:"panic,omitempty"`
}

// ---------------------------------------------------------------------------------- values
type CA struct{ A interface{} }
type CB struct{ X, Y interface{} }
type CC struct{}

type valParser struct {
	toks []string
	pos  int
	objs map[string]interface{}
}

func (p *valParser) next() string {
	t := p.toks[p.pos]
	p.pos++
	return t
}

func (p *valParser) value() interface{} {
	t := p.next()
	switch t[0] {
	case 'N':
		return nil
	case 'I':
		z, _ := strconv.Atoi(t[1:])
		return z
	case 'S':
		b, _ := hex.DecodeString(t[1:])
		return string(b)
	case 'L':
		n, _ := strconv.Atoi(t[1:])
		l := make([]interface{}, n)
		for i := 0; i < n; i++ {
			l[i] = p.value()
		}
		return l
	case 'O':
		parts := strings.Split(t[1:], ".")
		n, _ := strconv.Atoi(parts[2])
		fs := make([]interface{}, n)
		for i := 0; i < n; i++ {
			fs[i] = p.value()
		}
		key := parts[0] + "." + parts[1]
		if o, ok := p.objs[key]; ok {
			return o
		}
		var o interface{}
		switch parts[0] {
		case "0":
			o = &CA{A: fs[0]}
		case "1":
			o = &CB{X: fs[0], Y: fs[1]}
		default:
			o = &CC{}
		}
		p.objs[key] = o
		return o
	case 'X':
		return make(chan int)
	}
	panic("c14: bad value token " + t)
}

// ---------------------------------------------------------------------------------- encoders
type wrEvent struct {
	id   int
	data []byte
}

type recWriter struct {
	id  int
	log *[]wrEvent
}

func (w *recWriter) Write(p []byte) (int, error) {
	*w.log = append(*w.log, wrEvent{w.id, append([]byte(nil), p...)})
	return len(p), nil
}

func encErrClass(err error) string {
	if err == nil {
		return "-"
	}
	var u io.UnsupportedTypeError
	if errors.As(err, &u) {
		return "unsupported"
	}
	return "other"
}

type encRunner struct {
	log  []wrEvent
	objs map[string]interface{}
}

func (r *encRunner) writer(tok string) stdio.Writer {
	if tok == "-" {
		return nil
	}
	id, _ := strconv.Atoi(tok)
	return &recWriter{id, &r.log}
}

// one operation; returns the observation and the bytes the operation appended to the buffer
func (r *encRunner) op(enc *io.Encoder, op string) (obs string, grown string) {
	toks := strings.Fields(op)
	before := append([]byte(nil), enc.Buffer()...)
	mark := len(r.log)
	flushed := func(err error) string {
		s := "fl:" + encErrClass(err)
		if len(r.log) > mark {
			var all []byte
			for _, e := range r.log[mark:] {
				all = append(all, e.data...)
			}
			return s + ":" + strconv.Itoa(r.log[mark].id) + ":" + hex.EncodeToString(all)
		}
		return s + ":-:"
	}
	defer func() {
		after := enc.Buffer()
		if len(after) >= len(before) && bytes.Equal(after[:len(before)], before) {
			grown = hex.EncodeToString(after[len(before):])
		} else {
			grown = "reset"
		}
	}()
	switch toks[0] {
	case "E":
		p := &valParser{toks: toks[1:], objs: r.objs}
		return flushed(enc.Encode(p.value())), ""
	case "W":
		p := &valParser{toks: toks[1:], objs: r.objs}
		return flushed(enc.Write(p.value())), ""
	case "T":
		b, _ := strconv.Atoi(toks[1])
		enc.WriteTag(byte(b))
		return "u", ""
	case "F":
		return flushed(enc.Flush()), ""
	case "R":
		enc.Reset()
		return "u", ""
	case "B":
		enc.ResetBuffer()
		return "u", ""
	case "S0":
		enc.Simple(false)
		return "u", ""
	case "S1":
		enc.Simple(true)
		return "u", ""
	case "SW":
		w := r.writer(toks[1])
		if w == nil {
			enc.Writer = nil
		} else {
			enc.Writer = w
		}
		return "u", ""
	case "Y":
		return "by:" + hex.EncodeToString(enc.Bytes()), ""
	case "Q":
		if enc.IsSimple() {
			return "bo:1", ""
		}
		return "bo:0", ""
	case "G":
		return "er:" + encErrClass(enc.Error), ""
	}
	panic("c14: bad encoder op " + op)
}

// coders this executor released to the real pools and has not seen again.  The pools outlive a
// case, so every case first drains them: Get until nothing tracked is left (Get makes a new
// coder only when it can steal nothing), so that "not in this case's list" really means
// "never used by a previous case".
var (
	trackedEnc = map[*io.Encoder]bool{}
	trackedDec = map[*io.Decoder]bool{}
)

func drainPools() {
	for n := 0; len(trackedEnc) > 0 && n < 4*len(trackedEnc)+256; n++ {
		delete(trackedEnc, io.GetEncoder())
	}
	for n := 0; len(trackedDec) > 0 && n < 4*len(trackedDec)+256; n++ {
		delete(trackedDec, io.GetDecoder())
	}
	for k := range trackedEnc { // dropped by the GC
		delete(trackedEnc, k)
	}
	for k := range trackedDec {
		delete(trackedDec, k)
	}
}

func runEseq(c *c14Case, obs *c14Obs) {
	debug.SetGCPercent(-1) // the pool is cleared by the GC; keep released coders around
	defer debug.SetGCPercent(100)
	drainPools()
	var pool []*io.Encoder // model order: newest first
	ever := map[*io.Encoder]bool{}
	objs := map[string]interface{}{}
	r := &encRunner{objs: objs} // one writer log for the whole case: a stale writer still reports here
	for _, s := range c.Sessions {
		so := sessObs{Got: -2}
		logMark := len(r.log)
		var enc *io.Encoder
		pooled := s.Get == "pool"
		if pooled {
			enc = io.GetEncoder()
			so.Got = -1
			for k, e := range pool {
				if e == enc {
					so.Got = k
					pool = append(pool[:k:k], pool[k+1:]...)
					break
				}
			}
			delete(trackedEnc, enc)
			so.WriterAtGet = enc.Writer != nil
			so.EverWriter = ever[enc]
		} else {
			enc = io.NewEncoder(r.writer(strings.TrimPrefix(s.Get, "new:")))
		}
		for _, op := range s.Ops {
			o, g := r.op(enc, op)
			so.Obs = append(so.Obs, o)
			so.Grown = append(so.Grown, g)
		}
		if len(r.log) > logMark {
			ever[enc] = true
		}
		if pooled {
			// the same operations on a brand-new pooled encoder
			sr := &encRunner{objs: objs}
			sh := new(io.Encoder)
			for _, op := range s.Ops {
				o, _ := sr.op(sh, op)
				so.Shadow = append(so.Shadow, o)
			}
		}
		if s.Free {
			io.FreeEncoder(enc)
			trackedEnc[enc] = true
			pool = append([]*io.Encoder{enc}, pool...)
		}
		obs.Sessions = append(obs.Sessions, so)
	}
}

// ---------------------------------------------------------------------------------- decoders
func decErrClass(err error) string {
	if err == nil {
		return "-"
	}
	if err == stdio.EOF {
		return "EOF"
	}
	if strings.HasPrefix(err.Error(), "hprose/io: invalid tag") {
		return "tag"
	}
	return "other"
}

func renderIface(v interface{}) string { return renderIfaceD(v, 0) }

func renderIfaceD(v interface{}, depth int) string {
	if depth > 16 {
		return "..."
	}
	switch x := v.(type) {
	case nil:
		return "nil"
	case int:
		return "i" + strconv.Itoa(x)
	case uint:
		return "l1:" + strconv.FormatUint(uint64(x), 10)
	case int64:
		return "l2:" + strconv.FormatInt(x, 10)
	case uint64:
		return "l3:" + strconv.FormatUint(x, 10)
	case *big.Int:
		return "l4:" + x.String()
	case float64:
		return "r0:" + strconv.FormatFloat(x, 'g', -1, 64)
	case float32:
		return "r1:" + strconv.FormatFloat(float64(x), 'g', -1, 32)
	case *big.Float:
		return "r2:" + x.Text('g', -1)
	case bool:
		if x {
			return "b1"
		}
		return "b0"
	case string:
		return "s" + hex.EncodeToString([]byte(x))
	case []interface{}:
		parts := make([]string, len(x))
		for i, e := range x {
			parts[i] = renderIfaceD(e, depth+1)
		}
		return "[" + strings.Join(parts, ",") + "]"
	case *[]interface{}:
		if x == nil {
			return "&nil"
		}
		return "&" + renderIfaceD(*x, depth+1)
	}
	return "?" + reflect.TypeOf(v).String()
}

type chunkReader struct {
	data  []byte
	n     int
	zeros int
}

// a decoder that keeps calling Read with a zero-length buffer while data is left never makes
// progress; the reader gives up on its behalf so that the executor can report the livelock
type hangSentinel struct{}

func (r *chunkReader) Read(p []byte) (int, error) {
	if len(r.data) == 0 {
		return 0, stdio.EOF
	}
	if len(p) == 0 {
		r.zeros++
		if r.zeros > 100000 {
			panic(hangSentinel{})
		}
		return 0, nil
	}
	r.zeros = 0
	k := r.n
	if k > len(r.data) {
		k = len(r.data)
	}
	if k > len(p) {
		k = len(p)
	}
	copy(p, r.data[:k])
	r.data = r.data[k:]
	return k, nil
}

func decodeIface(dec *io.Decoder) (res string) {
	defer func() {
		if e := recover(); e != nil {
			if _, ok := e.(hangSentinel); ok {
				res = "d:HANG"
				return
			}
			res = "d:PANIC:" + decErrClass(dec.Error)
		}
	}()
	var v interface{}
	dec.Decode(&v)
	return "d:" + renderIface(v) + ":" + decErrClass(dec.Error)
}

func optsString(dec *io.Decoder) string {
	return fmt.Sprintf("op:%d.%d.%d.%d.%d", dec.LongType, dec.RealType, dec.MapType, dec.StructType, dec.ListType)
}

type decRunner struct {
	lastInput  []byte // set by RB / RR when the next operation is the first read of that input
	justReset  bool
	resetSince bool     // Reset()/Simple() was called since the last Decode (or the decoder is new)
	slices     [][]byte // every slice handed to NewDecoder / ResetBytes, and what it contained
	origs      [][]byte
}

func (r *decRunner) give(b []byte) []byte {
	r.slices = append(r.slices, b)
	r.origs = append(r.origs, append([]byte(nil), b...))
	return b
}

// did the decoder write into a slice a caller gave it?
func (r *decRunner) clobbered() string {
	c := "c0"
	for i, b := range r.slices {
		if !bytes.Equal(b, r.origs[i]) {
			c = "c1"
			r.origs[i] = append([]byte(nil), b...)
		}
	}
	return c
}

func (r *decRunner) op(dec *io.Decoder, op string, wantFresh bool) (obs string, fresh string) {
	switch {
	case op == "D":
		if wantFresh && r.justReset && r.resetSince && dec.Error == nil {
			// what a brand-new decoder in the same mode with the same options gives on this input
			f := io.NewDecoder(append([]byte(nil), r.lastInput...)).Simple(dec.IsSimple())
			f.LongType, f.RealType, f.MapType, f.StructType, f.ListType =
				dec.LongType, dec.RealType, dec.MapType, dec.StructType, dec.ListType
			fresh = decodeIface(f)
		}
		r.justReset, r.resetSince = false, false
		res := decodeIface(dec)
		if res != "d:HANG" {
			res += ":" + r.clobbered()
		}
		if fresh != "" && fresh != "d:HANG" {
			fresh += ":c0"
		}
		return res, fresh
	case op == "R":
		dec.Reset()
		r.resetSince = true
	case op == "S0":
		dec.Simple(false)
		r.resetSince = true
	case op == "S1":
		dec.Simple(true)
		r.resetSince = true
	case strings.HasPrefix(op, "RB"):
		b, _ := hex.DecodeString(op[2:])
		dec.ResetBytes(r.give(b))
		r.lastInput, r.justReset = append([]byte(nil), b...), true
		return "u", ""
	case strings.HasPrefix(op, "RR"):
		b, _ := hex.DecodeString(op[2:])
		dec.ResetReader(&chunkReader{data: append([]byte(nil), b...), n: 3})
		r.lastInput, r.justReset = b, true
		return "u", ""
	case op == "BF":
		dec.ResetBuffer()
		r.justReset = false
	case strings.HasPrefix(op, "O"):
		p := strings.Split(op[1:], ".")
		n := func(i int) int8 { v, _ := strconv.Atoi(p[i]); return int8(v) }
		dec.LongType, dec.RealType, dec.MapType = io.LongType(n(0)), io.RealType(n(1)), io.MapType(n(2))
		dec.StructType, dec.ListType = io.StructType(n(3)), io.ListType(n(4))
	case op == "G":
		return "er:" + decErrClass(dec.Error), ""
	case op == "Q":
		if dec.IsSimple() {
			return "bo:1", ""
		}
		return "bo:0", ""
	case op == "P":
		return optsString(dec), ""
	default:
		panic("c14: bad decoder op " + op)
	}
	return "u", ""
}

func runDseq(c *c14Case, obs *c14Obs) {
	debug.SetGCPercent(-1)
	defer debug.SetGCPercent(100)
	drainPools()
	var pool []*io.Decoder
	r := &decRunner{} // one for the whole case: a slice kept by a pooled decoder belongs to an earlier use
	for _, s := range c.Sessions {
		so := sessObs{Got: -2}
		var dec *io.Decoder
		pooled := s.Get == "pool"
		r.justReset, r.resetSince = false, false
		switch {
		case pooled:
			dec = io.GetDecoder()
			delete(trackedDec, dec)
			so.Got = -1
			for k, e := range pool {
				if e == dec {
					so.Got = k
					pool = append(pool[:k:k], pool[k+1:]...)
					break
				}
			}
		case strings.HasPrefix(s.Get, "newdec:"):
			b, _ := hex.DecodeString(s.Get[7:])
			dec = io.NewDecoder(r.give(b))
			r.lastInput, r.justReset, r.resetSince = append([]byte(nil), b...), true, true
		case strings.HasPrefix(s.Get, "newreader:"):
			b, _ := hex.DecodeString(s.Get[10:])
			dec = io.NewDecoderFromReader(&chunkReader{data: append([]byte(nil), b...), n: 3})
			r.lastInput, r.justReset, r.resetSince = b, true, true
		}
		for _, op := range s.Ops {
			o, f := r.op(dec, op, !pooled)
			so.Obs = append(so.Obs, o)
			so.Fresh = append(so.Fresh, f)
		}
		if pooled {
			sr := &decRunner{}
			sh := new(io.Decoder)
			for _, op := range s.Ops {
				o, _ := sr.op(sh, op, false)
				so.Shadow = append(so.Shadow, o)
			}
		}
		if s.Free {
			io.FreeDecoder(dec)
			trackedDec[dec] = true
			pool = append([]*io.Decoder{dec}, pool...)
		}
		obs.Sessions = append(obs.Sessions, so)
	}
}

// ---------------------------------------------------------------------------------- scribble
type SC struct {
	S string
	B []byte
	I interface{}
	M map[string]string
	L []string
	A [4]byte
	P *string
}

func init() { io.Register((*SC)(nil)) }

func newDest(name string) interface{} {
	switch name {
	case "string":
		return new(string)
	case "bytes":
		return new([]byte)
	case "pstring":
		return new(*string)
	case "pbytes":
		return new(*[]byte)
	case "iface":
		return new(interface{})
	case "islice":
		return new([]interface{})
	case "strslice":
		return new([]string)
	case "bytesslice":
		return new([][]byte)
	case "mapss":
		return new(map[string]string)
	case "mapsi":
		return new(map[string]interface{})
	case "mapsb":
		return new(map[string][]byte)
	case "mapii":
		return new(map[interface{}]interface{})
	case "struct":
		return new(SC)
	case "pstruct":
		return new(*SC)
	case "arr4":
		return new([4]byte)
	case "int":
		return new(int)
	case "float":
		return new(float64)
	case "bigint":
		return new(*big.Int)
	case "time":
		return new(time.Time)
	case "bool":
		return new(bool)
	}
	panic("c14: bad dest " + name)
}

// deep rendering that spells out every string and []byte it can reach
func render(v reflect.Value, depth int) string {
	if depth > 12 {
		return "..."
	}
	switch v.Kind() {
	case reflect.Invalid:
		return "nil"
	case reflect.Ptr, reflect.Interface:
		if v.IsNil() {
			return "nil"
		}
		if v.Kind() == reflect.Ptr {
			switch x := v.Interface().(type) {
			case *big.Int:
				return "big:" + x.String()
			case *big.Float:
				return "bigf:" + x.Text('g', -1)
			}
		}
		return "&" + render(v.Elem(), depth+1)
	case reflect.String:
		return "s" + hex.EncodeToString([]byte(v.String()))
	case reflect.Slice:
		if v.IsNil() {
			return "nilslice"
		}
		if v.Type().Elem().Kind() == reflect.Uint8 {
			return "b" + hex.EncodeToString(v.Bytes())
		}
		fallthrough
	case reflect.Array:
		parts := make([]string, v.Len())
		for i := range parts {
			parts[i] = render(v.Index(i), depth+1)
		}
		return "[" + strings.Join(parts, ",") + "]"
	case reflect.Map:
		if v.IsNil() {
			return "nilmap"
		}
		var parts []string
		it := v.MapRange()
		for it.Next() {
			parts = append(parts, render(it.Key(), depth+1)+"="+render(it.Value(), depth+1))
		}
		sort.Strings(parts)
		return "{" + strings.Join(parts, ",") + "}"
	case reflect.Struct:
		if t, ok := v.Interface().(time.Time); ok {
			return "time:" + t.UTC().Format(time.RFC3339Nano)
		}
		var parts []string
		for i := 0; i < v.NumField(); i++ {
			if v.Type().Field(i).PkgPath != "" {
				continue
			}
			parts = append(parts, v.Type().Field(i).Name+":"+render(v.Field(i), depth+1))
		}
		return "{" + strings.Join(parts, ",") + "}"
	}
	return fmt.Sprint(v.Interface())
}

func errText(err error) string {
	if err == nil {
		return "-"
	}
	return err.Error()
}

// overwrite the input and make the pooled decoders (and their read buffers) carry other data
func scribble(buf []byte) {
	for i := range buf {
		buf[i] = 0xAA
	}
	junk := []byte("a3{s40\"" + strings.Repeat("Zq", 20) + "\"b300\"" + strings.Repeat("#", 300) + "\"s5\"QQQQQ\"}")
	for i := 0; i < 3; i++ {
		var v interface{}
		_ = io.Formatter{Simple: false}.Unmarshal(append([]byte(nil), junk...), &v)
		_ = io.Formatter{Simple: i%2 == 0}.UnmarshalFromReader(&chunkReader{data: append([]byte(nil), junk...), n: 64}, &v)
		_ = io.Formatter{Simple: i%2 == 1}.UnmarshalFromReader(bytes.NewReader(junk), &v)
		_, _ = io.Formatter{Simple: false}.Marshal(v)
	}
}

func runScribble(c *c14Case, obs *c14Obs) {
	wire, _ := hex.DecodeString(c.Wire)
	buf := append([]byte(nil), wire...)
	dest := newDest(c.Dest)
	var err error
	func() {
		defer func() {
			if e := recover(); e != nil {
				obs.Panic = fmt.Sprint(e)
			}
		}()
		switch c.Via {
		case "slice":
			d := io.NewDecoder(buf).Simple(c.Simple)
			d.Decode(dest)
			err = d.Error
		case "fmt":
			err = io.Formatter{Simple: c.Simple}.Unmarshal(buf, dest)
		case "reader":
			err = io.Formatter{Simple: c.Simple}.UnmarshalFromReader(bytes.NewReader(buf), dest)
		case "reader1":
			err = io.Formatter{Simple: c.Simple}.UnmarshalFromReader(&chunkReader{data: buf, n: 1}, dest)
		case "reader7":
			err = io.Formatter{Simple: c.Simple}.UnmarshalFromReader(&chunkReader{data: buf, n: 7}, dest)
		default:
			panic("c14: bad via " + c.Via)
		}
	}()
	obs.Before = render(reflect.ValueOf(dest).Elem(), 0)
	obs.ErrB = errText(err)
	scribble(buf)
	obs.After = render(reflect.ValueOf(dest).Elem(), 0)
	obs.ErrA = errText(err)
}

// one buffer-level entry point: item followed by filler, so that reading on overwrites the
// decoder's own buffer when the input comes from a reader
func runViewAPI(c *c14Case, obs *c14Obs) {
	item := []byte("5\"hello\"")
	filler := bytes.Repeat([]byte("Z"), 700)
	var got func() string
	if strings.HasPrefix(c.API, "Codec:") {
		// what a codec / Formatter hands back must be the caller's own bytes: keep the slice as returned, then
		// let the pooled encoders be reused for other messages (same and other goroutines), and look again
		var bs []byte
		plain := core.NewService()
		switch c.API {
		case "Codec:senc-value":
			bs, _ = core.NewServiceCodec(core.WithSimple(c.Simple)).Encode([]interface{}{"hello-world", 12345}, core.NewServiceContext(plain))
		case "Codec:senc-error":
			bs, _ = core.NewServiceCodec(core.WithSimple(c.Simple)).Encode(errors.New("hello-world-error"), core.NewServiceContext(plain))
		case "Codec:senc-panic":
			bs, _ = core.NewServiceCodec(core.WithSimple(c.Simple), core.WithDebug(true)).Encode(core.NewPanicError("hello-world-panic"), core.NewServiceContext(plain))
		case "Codec:senc-unencodable":
			bs, _ = core.NewServiceCodec(core.WithSimple(c.Simple)).Encode(make(chan int), core.NewServiceContext(plain))
		case "Codec:cenc":
			bs, _ = core.NewClientCodec(core.WithSimple(c.Simple)).Encode("hello", []interface{}{"hello-world", 12345}, core.NewClientContext())
		case "Codec:marshal":
			bs, _ = io.Formatter{Simple: c.Simple}.Marshal([]interface{}{"hello-world", 12345})
		default:
			panic("c14: bad codec api " + c.API)
		}
		got = func() string { return hex.EncodeToString(bs) }
		obs.Before = got()
		churn := func() {
			for i := 0; i < 40; i++ {
				_, _ = io.Marshal(strings.Repeat("X", 64+i))
				_, _ = core.NewServiceCodec().Encode(strings.Repeat("Y", 80), core.NewServiceContext(plain))
				_, _ = core.NewServiceCodec().Encode(errors.New(strings.Repeat("Z", 90)), core.NewServiceContext(plain))
				_, _ = core.NewClientCodec().Encode("f", []interface{}{strings.Repeat("W", 70)}, core.NewClientContext())
			}
		}
		churn()
		var wg sync.WaitGroup
		for g := 0; g < 4; g++ {
			wg.Add(1)
			go func() { defer wg.Done(); churn() }()
		}
		wg.Wait()
		obs.After = got()
		return
	}
	switch c.API {
	case "EncoderBuffer", "EncoderUnsafeString", "EncoderBytes", "EncoderString":
		enc := io.NewEncoder(nil)
		_ = enc.Encode("hello-world")
		var bs []byte
		var s string
		switch c.API {
		case "EncoderBuffer":
			bs = enc.Buffer()
		case "EncoderUnsafeString":
			s = enc.UnsafeString()
		case "EncoderBytes":
			bs = enc.Bytes()
		case "EncoderString":
			s = enc.String()
		}
		got = func() string { return hex.EncodeToString(bs) + "|" + hex.EncodeToString([]byte(s)) }
		obs.Before = got()
		enc.ResetBuffer()
		_ = enc.Encode("XXXXXXXXXXX")
		obs.After = got()
		return
	}
	input := append(append([]byte(nil), item...), filler...)
	if c.API == "Until" || c.API == "UnsafeUntil" {
		input = append([]byte("hello;"), filler...)
	}
	if c.API == "Next" || c.API == "UnsafeNext" {
		input = append([]byte("hello"), filler...)
	}
	var dec *io.Decoder
	src := append([]byte(nil), input...)
	if c.Via == "slice" {
		dec = io.NewDecoder(src)
	} else {
		dec = io.NewDecoderFromReader(&chunkReader{data: src, n: 256})
	}
	dec.Simple(c.Simple)
	var bs []byte
	var s string
	switch c.API {
	case "UnsafeNext":
		bs = dec.UnsafeNext(5)
	case "Next":
		bs = dec.Next(5)
	case "UnsafeUntil":
		bs = dec.UnsafeUntil(';')
	case "Until":
		bs = dec.Until(';')
	case "ReadUnsafeString":
		s = dec.ReadUnsafeString()
	case "ReadSafeString":
		s = dec.ReadSafeString()
	case "ReadString":
		s = dec.ReadString()
	case "ReadBytes":
		bs = dec.ReadBytes()
	case "ReadStringAsBytes":
		bs = dec.ReadStringAsBytes()
	default:
		panic("c14: bad api " + c.API)
	}
	got = func() string { return hex.EncodeToString(bs) + "|" + hex.EncodeToString([]byte(s)) }
	obs.Before = got()
	for i := range src {
		src[i] = 0xAA
	}
	_ = dec.Next(600) // reads on: a reader-fed decoder refills its buffer
	obs.After = got()
}

// ---------------------------------------------------------------------------------- race
func jsonRender(v interface{}) string {
	b, err := json.Marshal(v)
	if err != nil {
		return "json-error:" + err.Error()
	}
	return string(b)
}

func doRaceOp(g typeGroup, seed int, op raceOp) (out string, errs string) {
	defer func() {
		if e := recover(); e != nil {
			out, errs = "", "PANIC:"+fmt.Sprint(e)
		}
	}()
	switch op.Op {
	case "marshal":
		v := g.values(seed)[op.Slot]
		b, err := io.Formatter{Simple: op.Simple}.Marshal(v)
		return hex.EncodeToString(b), errText(err)
	case "unmarshal":
		data, _ := hex.DecodeString(op.Data)
		d := g.dests()[op.Slot]
		err := io.Formatter{Simple: op.Simple}.Unmarshal(data, d)
		return jsonRender(d), errText(err)
	case "unmarshalr":
		data, _ := hex.DecodeString(op.Data)
		d := g.dests()[op.Slot]
		err := io.Formatter{Simple: op.Simple}.UnmarshalFromReader(&chunkReader{data: data, n: 5}, d)
		return jsonRender(d), errText(err)
	case "cenc":
		v := g.values(seed)[op.Slot]
		codec := core.NewClientCodec(core.WithSimple(op.Simple))
		b, err := codec.Encode("fn", []interface{}{v, "tail"}, core.NewClientContext())
		return hex.EncodeToString(b), errText(err)
	case "senc":
		v := g.values(seed)[op.Slot]
		codec := core.NewServiceCodec(core.WithSimple(op.Simple))
		b, err := codec.Encode(v, core.NewServiceContext(nil))
		return hex.EncodeToString(b), errText(err)
	case "cdec":
		data, _ := hex.DecodeString(op.Data)
		ctx := core.NewClientContext()
		ctx.ReturnType = []reflect.Type{reflect.TypeOf(g.dests()[op.Slot]).Elem()}
		codec := core.NewClientCodec()
		res, err := codec.Decode(data, ctx)
		return jsonRender(res), errText(err)
	}
	panic("c14: bad race op " + op.Op)
}

func runRace(c *c14Case, obs *c14Obs) {
	g := typeGroups[c.Group]
	n := len(c.Ops)
	obs.Outs = make([]string, n)
	obs.Errs = make([]string, n)
	if !c.Conc {
		for i, op := range c.Ops {
			obs.Outs[i], obs.Errs[i] = doRaceOp(g, c.Seed, op)
		}
		return
	}
	start := make(chan struct{})
	var ready, done sync.WaitGroup
	for i := range c.Ops {
		ready.Add(1)
		done.Add(1)
		go func(i int) {
			defer done.Done()
			ready.Done()
			<-start
			obs.Outs[i], obs.Errs[i] = doRaceOp(g, c.Seed, c.Ops[i])
		}(i)
	}
	ready.Wait()
	close(start)
	done.Wait()
}

// ---------------------------------------------------------------------------------- decoder-side first use
// values of the wide families, built by reflection (does not touch hprose)
func fillWide(p interface{}, seed int) {
	v := reflect.ValueOf(p).Elem()
	fillWideValue(v, seed)
}

func fillWideValue(v reflect.Value, seed int) {
	for i := 0; i < v.NumField(); i++ {
		f := v.Field(i)
		switch f.Kind() {
		case reflect.Int:
			f.SetInt(int64(seed + i))
		case reflect.String:
			f.SetString(fmt.Sprintf("s%d", seed))
		case reflect.Struct:
			fillWideValue(f, seed+1000)
		case reflect.Ptr:
			n := reflect.New(f.Type().Elem())
			fillWideValue(n.Elem(), seed+2000)
			f.Set(n)
		}
	}
}

func decodeInto(simple bool, data []byte, dest interface{}) (out string, errs string) {
	defer func() {
		if e := recover(); e != nil {
			out, errs = "", "PANIC:"+fmt.Sprint(e)
		}
	}()
	err := io.Formatter{Simple: simple}.Unmarshal(data, dest)
	return jsonRender(dest), errText(err)
}

// solo (conc=false): per family [hex WT, hex WO, hex []WT, decoded WT, decoded *WT, decoded WO, decoded []WT],
// all in one goroutine.
// conc: per family one round: goroutine A decodes into WT (its first use in this process) while the
// goroutines B_k, released at the same instant and each spinning DelaysUs[k] first, decode into *WT,
// WO{In WT; P *WT} or []WT (k mod 3); outputs "T:..", "PT:..", "O:..", "S:.." (A first).
// (the first struct of a stream is preceded by its class definition and is re-dispatched through
// getValueDecoder; the SECOND one goes straight through the handler captured when the coder was built)
func runDecRace(c *c14Case, obs *c14Obs) {
	for idx, j := range c.Families {
		fam := wideFamilies[j]
		if !c.Conc {
			vt, vo := fam.newT(), fam.newO()
			fillWide(vt, c.Seed)
			fillWide(vo, c.Seed+7)
			bt, e1 := io.Formatter{Simple: c.Simple}.Marshal(reflect.ValueOf(vt).Elem().Interface())
			bo, e2 := io.Formatter{Simple: c.Simple}.Marshal(reflect.ValueOf(vo).Elem().Interface())
			vs := reflect.ValueOf(fam.newS()).Elem()
			vs.Set(reflect.MakeSlice(vs.Type(), 2, 2))
			fillWideValue(vs.Index(0), c.Seed+11)
			fillWideValue(vs.Index(1), c.Seed+12)
			bs, _ := io.Formatter{Simple: c.Simple}.Marshal(vs.Interface())
			round := []string{hex.EncodeToString(bt), hex.EncodeToString(bo), hex.EncodeToString(bs)}
			for _, d := range []struct {
				dest interface{}
				data []byte
			}{{fam.newT(), bt}, {fam.newPT(), bt}, {fam.newO(), bo}, {fam.newS(), bs}} {
				o, e := decodeInto(c.Simple, d.data, d.dest)
				round = append(round, o+"|"+e)
			}
			round = append(round, errText(e1)+"|"+errText(e2))
			obs.Rounds = append(obs.Rounds, round)
			continue
		}
		dt, _ := hex.DecodeString(c.Datas[idx][0])
		do, _ := hex.DecodeString(c.Datas[idx][1])
		ds, _ := hex.DecodeString(c.Datas[idx][2])
		n := len(c.DelaysUs)
		round := make([]string, n+1)
		dests := make([]interface{}, n+1)
		dests[0] = fam.newT()
		for k := 0; k < n; k++ {
			switch k % 3 {
			case 0:
				dests[k+1] = fam.newPT()
			case 1:
				dests[k+1] = fam.newO()
			default:
				dests[k+1] = fam.newS()
			}
		}
		start := make(chan struct{})
		var t0 time.Time
		var ready, done sync.WaitGroup
		for g := 0; g <= n; g++ {
			ready.Add(1)
			done.Add(1)
			go func(g int) {
				defer done.Done()
				ready.Done()
				<-start
				tag, data := "T", dt
				if g > 0 {
					for time.Since(t0) < time.Duration(c.DelaysUs[g-1])*time.Microsecond {
					}
					switch (g - 1) % 3 {
					case 0:
						tag = "PT"
					case 1:
						tag, data = "O", do
					default:
						tag, data = "S", ds
					}
				}
				o, e := decodeInto(c.Simple, data, dests[g])
				round[g] = tag + ":" + o + "|" + e
			}(g)
		}
		ready.Wait()
		t0 = time.Now()
		close(start)
		done.Wait()
		obs.Rounds = append(obs.Rounds, round)
	}
}

// ---------------------------------------------------------------------------------- users of the pools
// Every entry point that takes a coder from a pool is driven through its exits; after each step the
// pools must still be exclusive: consecutive Get*() calls return pairwise distinct objects and none of
// the objects the harness is holding (sentinels) is handed out again.
type heldCoders struct {
	dec []*io.Decoder
	enc []*io.Encoder
}

func (h *heldCoders) exclusive() string {
	const n = 6
	res := "ok"
	var ds []*io.Decoder
	var es []*io.Encoder
	for i := 0; i < n; i++ {
		d := io.GetDecoder()
		for _, x := range h.dec {
			if x == d && res == "ok" {
				res = "a decoder the harness is holding was handed out again by GetDecoder"
			}
		}
		dup := false
		for j, x := range ds {
			if x == d {
				dup = true
				if res == "ok" {
					res = fmt.Sprintf("GetDecoder call %d and call %d returned the same *Decoder", j+1, i+1)
				}
			}
		}
		if !dup {
			ds = append(ds, d)
		}
		e := io.GetEncoder()
		for _, x := range h.enc {
			if x == e && res == "ok" {
				res = "an encoder the harness is holding was handed out again by GetEncoder"
			}
		}
		dup = false
		for j, x := range es {
			if x == e {
				dup = true
				if res == "ok" {
					res = fmt.Sprintf("GetEncoder call %d and call %d returned the same *Encoder", j+1, i+1)
				}
			}
		}
		if !dup {
			es = append(es, e)
		}
	}
	// keep one of each as a sentinel (up to 4), give the others back once
	if len(h.dec) < 4 && len(ds) > 0 {
		h.dec = append(h.dec, ds[0])
		ds = ds[1:]
	}
	if len(h.enc) < 4 && len(es) > 0 {
		h.enc = append(h.enc, es[0])
		es = es[1:]
	}
	for _, d := range ds {
		io.FreeDecoder(d)
	}
	for _, e := range es {
		io.FreeEncoder(e)
	}
	return res
}

func poolStep(step string, plain, missing *core.Service) (out string) {
	defer func() {
		if e := recover(); e != nil {
			out = "panic"
		}
	}()
	class := func(err error) string {
		if err == nil {
			return "ok"
		}
		return "err"
	}
	sdec := func(svc *core.Service, req string, nilctx bool) string {
		var ctx *core.ServiceContext
		if !nilctx {
			ctx = core.NewServiceContext(svc)
		}
		name, args, err := core.NewServiceCodec().Decode([]byte(req), ctx)
		return fmt.Sprintf("%s:%s:%d", class(err), name, len(args))
	}
	cdec := func(resp string, nilctx bool, rt ...reflect.Type) string {
		var ctx *core.ClientContext
		if !nilctx {
			ctx = core.NewClientContext()
			ctx.ReturnType = rt
		}
		res, err := core.NewClientCodec().Decode([]byte(resp), ctx)
		return fmt.Sprintf("%s:%d", class(err), len(res))
	}
	intT, strT := reflect.TypeOf(0), reflect.TypeOf("")
	switch step {
	case "sdec.ok":
		return sdec(plain, `Cs3"add"a2{12}z`, false)
	case "sdec.simplehdr":
		return sdec(plain, `Hm1{s6"simple"t}Cs3"add"a2{12}z`, false)
	case "sdec.unknown":
		return sdec(plain, `Cs4"nope"a1{1}z`, false)
	case "sdec.unknown-missing-handler":
		return sdec(missing, `Cs4"nope"a2{1s2"ab"}z`, false)
	case "sdec.argerr":
		return sdec(plain, `Cs3"add"a2{s1"x"Z}z`, false)
	case "sdec.badtag":
		return sdec(plain, `Xyz`, false)
	case "sdec.empty":
		return sdec(plain, ``, false)
	case "sdec.end":
		return sdec(plain, `z`, false)
	case "sdec.hdrerr":
		return sdec(plain, `Hm1{Z`, false)
	case "sdec.trunc":
		return sdec(plain, `Cs3"ad`, false)
	case "sdec.noargs":
		return sdec(plain, `Cs3"add"z`, false)
	case "sdec.panic":
		return sdec(plain, `Cs3"add"a2{12}z`, true)
	case "senc.ok":
		_, err := core.NewServiceCodec().Encode("result", core.NewServiceContext(plain))
		return class(err)
	case "senc.simple":
		_, err := core.NewServiceCodec(core.WithSimple(true)).Encode([]interface{}{1, "a"}, core.NewServiceContext(plain))
		return class(err)
	case "senc.err":
		_, err := core.NewServiceCodec().Encode(errors.New("boom"), core.NewServiceContext(plain))
		return class(err)
	case "senc.panicerr":
		_, err := core.NewServiceCodec(core.WithDebug(true)).Encode(core.NewPanicError("p"), core.NewServiceContext(plain))
		return class(err)
	case "senc.unsupported":
		_, err := core.NewServiceCodec().Encode(make(chan int), core.NewServiceContext(plain))
		return class(err)
	case "senc.panic":
		_, err := core.NewServiceCodec(core.WithSimple(true)).Encode(1, nil)
		return class(err)
	case "cenc.ok":
		_, err := core.NewClientCodec().Encode("add", []interface{}{1, 2}, core.NewClientContext())
		return class(err)
	case "cenc.simple":
		_, err := core.NewClientCodec(core.WithSimple(true)).Encode("add", []interface{}{"a", "a"}, core.NewClientContext())
		return class(err)
	case "cenc.unsupported":
		_, err := core.NewClientCodec().Encode("add", []interface{}{make(chan int)}, core.NewClientContext())
		return class(err)
	case "cenc.panic":
		_, err := core.NewClientCodec(core.WithSimple(true)).Encode("add", nil, nil)
		return class(err)
	case "cdec.ok":
		return cdec(`Rs2"ok"z`, false, strT)
	case "cdec.error":
		return cdec(`Es3"err"z`, false, strT)
	case "cdec.end":
		return cdec(`z`, false)
	case "cdec.badtag":
		return cdec(`X`, false, strT)
	case "cdec.simplehdr":
		return cdec(`Hm1{s6"simple"t}R1z`, false, intT)
	case "cdec.trunc":
		return cdec(`Rs5"ab`, false, strT)
	case "cdec.multi":
		return cdec(`Ra2{12}z`, false, intT, intT)
	case "cdec.casterr":
		return cdec(`Rs2"ab"z`, false, intT)
	case "cdec.noresult":
		return cdec(`R1z`, false)
	case "cdec.panic":
		return cdec(`R1z`, true, intT)
	case "fmt.marshal":
		_, err := io.Marshal([]interface{}{1, "a"})
		return class(err)
	case "fmt.marshal-ref":
		_, err := io.Formatter{Simple: false}.Marshal([]interface{}{"ab", "ab"})
		return class(err)
	case "fmt.marshal-unsupported":
		_, err := io.Marshal(make(chan int))
		return class(err)
	case "fmt.unmarshal-ref":
		var v interface{}
		return class(io.Formatter{Simple: false}.Unmarshal([]byte(`a2{s2"ab"r1;}`), &v))
	case "fmt.unmarshal-ref-err":
		var v interface{}
		return class(io.Formatter{Simple: false}.Unmarshal([]byte(`a2{s2"ab"r9;}`), &v))
	case "fmt.unmarshal-ref-panic":
		return class(io.Formatter{Simple: false}.Unmarshal([]byte(`1`), nil))
	case "fmt.unmarshalr":
		var v interface{}
		return class(io.UnmarshalFromReader(&chunkReader{data: []byte(`a2{s2"ab"s2"cd"}`), n: 3}, &v))
	case "fmt.unmarshalr-err":
		var v interface{}
		return class(io.UnmarshalFromReader(&chunkReader{data: []byte(`a2{s2"ab"`), n: 3}, &v))
	case "fmt.unmarshalr-panic":
		return class(io.UnmarshalFromReader(&chunkReader{data: []byte(`1`), n: 3}, nil))
	}
	return "unknown-step"
}

// overlapping uses after the steps: every goroutine must get its own arguments / results back
func poolConcurrent(plain *core.Service) string {
	const g, rounds = 8, 60
	var wrong int64
	var mu sync.Mutex
	var wg sync.WaitGroup
	for k := 0; k < g; k++ {
		wg.Add(1)
		go func(k int) {
			defer wg.Done()
			bad := 0
			for r := 0; r < rounds; r++ {
				a, b := 1000*k+r, 7*k+r+20
				req := fmt.Sprintf(`Cs3"add"a2{i%d;i%d;}z`, a, b)
				name, args, err := core.NewServiceCodec().Decode([]byte(req), core.NewServiceContext(plain))
				if err != nil || name != "add" || len(args) != 2 || args[0] != a || args[1] != b {
					bad++
				}
				ctx := core.NewClientContext()
				ctx.ReturnType = []reflect.Type{reflect.TypeOf("")}
				want := fmt.Sprintf("res-%d-%d", k, r)
				res, err := core.NewClientCodec().Decode([]byte(fmt.Sprintf(`Rs%d"%s"z`, len(want), want)), ctx)
				if err != nil || len(res) != 1 || res[0] != want {
					bad++
				}
				var v interface{}
				if err := (io.Formatter{Simple: false}).Unmarshal([]byte(fmt.Sprintf(`a2{s%d"%s"r1;}`, len(want), want)), &v); err != nil {
					bad++
				} else if l, ok := v.([]interface{}); !ok || len(l) != 2 || l[0] != want || l[1] != want {
					bad++
				}
			}
			mu.Lock()
			wrong += int64(bad)
			mu.Unlock()
		}(k)
	}
	wg.Wait()
	return fmt.Sprintf("wrong=%d of %d", wrong, g*rounds*3)
}

func runPoolUsers(c *c14Case, obs *c14Obs) {
	debug.SetGCPercent(-1) // the GC empties the pools: a duplicate would disappear with it
	defer debug.SetGCPercent(100)
	drainPools()
	plain := core.NewService()
	plain.AddFunction(func(a, b int) int { return a + b }, "add")
	missing := core.NewService()
	missing.AddFunction(func(a, b int) int { return a + b }, "add")
	missing.AddMissingMethod(func(name string, args []interface{}) ([]interface{}, error) { return args, nil })
	held := &heldCoders{}
	obs.Excl = append(obs.Excl, held.exclusive()) // before any step
	for _, st := range c.Steps {
		var o string
		if st == "conc" {
			o = poolConcurrent(plain)
		} else {
			o = poolStep(st, plain, missing)
		}
		obs.Outs = append(obs.Outs, o)
		obs.Excl = append(obs.Excl, held.exclusive())
	}
	for _, d := range held.dec {
		io.FreeDecoder(d)
	}
	for _, e := range held.enc {
		io.FreeEncoder(e)
	}
}

// set by hook_verif.go when built with the tag c14hook
var runForced func(c *c14Case, obs *c14Obs)
var runForcedDec func(c *c14Case, obs *c14Obs)

func c14Run(line []byte, out *json.Encoder) error {
	var c c14Case
	if err := json.Unmarshal(line, &c); err != nil {
		return err
	}
	hvlib.Begin(c.ID)
	obs := c14Obs{ID: c.ID, Kind: c.Kind, Hook: runForced != nil}
	switch c.Kind {
	case "eseq":
		runEseq(&c, &obs)
	case "dseq":
		runDseq(&c, &obs)
	case "scribble":
		runScribble(&c, &obs)
	case "viewapi":
		runViewAPI(&c, &obs)
	case "race":
		runRace(&c, &obs)
	case "forced":
		if runForced == nil {
			obs.Note = "no-hook"
		} else {
			runForced(&c, &obs)
		}
	case "decrace":
		runDecRace(&c, &obs)
	case "poolusers":
		runPoolUsers(&c, &obs)
	case "forceddec":
		if runForcedDec == nil {
			obs.Note = "no-hook"
		} else {
			runForcedDec(&c, &obs)
		}
	default:
		return fmt.Errorf("c14: unknown kind %q", c.Kind)
	}
	return out.Encode(&obs)
}

func main() { hvlib.Main(c14Run) }
