//go:build c14hook
// +build c14hook

package main

// Forced schedules on the real struct-encoder registry.  Compiled only with -tags "verif c14hook",
// which checks/C14.py passes when the tree under test contains the yield hook
// (io/verif_on.go defining io.VerifYieldHook; see hooks/c14-io.patch):
//
//     func newNamedStructEncoder(t reflect.Type, name string, tag ...string) *structEncoder {
//         encoder := &structEncoder{}
//         registerNamedStructEncoder(t, encoder)
//         verifYield("structenc.published", t)        <- goroutine 0 is held here for one type
//         fields := getFields(t, tag...)
//
// shape "enclosing": goroutine 0 = Marshal(TB value), held when TB's placeholder is published;
//                    goroutine 1 = Marshal(TA value, field In of type TB) runs to completion.
// shape "mutual":    goroutine 0 = Marshal(*TA), held when TF (the last field's type) is published:
//                    TC is complete in structEncoderMap (its Back handler is TA's placeholder),
//                    TA is still half built; goroutine 1 = Marshal(*TC with Back != nil).
// shape "same":      both goroutines = Marshal(*TD, Self != nil): goroutine 0 is held when it has published
//                    TD's placeholder until goroutine 1 has published ITS placeholder for TD (which
//                    replaces the first in namedStructEncoderMap); then goroutine 1 is held and
//                    goroutine 0 runs to completion: its handler for Self is goroutine 1's placeholder.
// The witness schedules are C14_registry_linearizable_refuted / _refuted_mutual / _refuted_same_type.
// If goroutine 1 does not finish within the watchdog while goroutine 0 is held (a lock on the
// encoder side makes it wait), goroutine 0 is released and "blocked" is reported.

import (
	"encoding/hex"
	"fmt"
	"reflect"
	"sync"
	"time"

	"github.com/hprose/hprose-golang/v3/io"
)

func init() { runForced, runForcedDec = runForcedHooked, runForcedDecHooked }

func runForcedHooked(c *c14Case, obs *c14Obs) {
	g := typeGroups[c.Group]
	vals := g.values(c.Seed)
	var v0, v1 interface{}
	var holdAt string
	switch c.Shape {
	case "enclosing":
		v0, v1 = vals[1], vals[0]
		holdAt = fmt.Sprintf("TB%03d", c.Group)
	case "mutual":
		v0, v1 = vals[4], vals[2]
		holdAt = fmt.Sprintf("TF%03d", c.Group)
	case "same":
		runForcedSame(c, obs, vals[5], g.values(c.Seed + 1)[5], fmt.Sprintf("TD%03d", c.Group))
		return
	default:
		obs.Note = "bad shape"
		return
	}
	held := make(chan struct{})
	release := make(chan struct{})
	var once sync.Once
	io.VerifYieldHook = func(point string, o interface{}) {
		if point != "structenc.published" {
			return
		}
		if t, ok := o.(reflect.Type); ok && t.Name() == holdAt {
			hit := false
			once.Do(func() { hit = true })
			if hit {
				close(held)
				<-release
			}
		}
	}
	defer func() { io.VerifYieldHook = nil }()
	obs.Outs = make([]string, 2)
	obs.Errs = make([]string, 2)
	run := func(i int, v interface{}, done chan struct{}) {
		defer close(done)
		defer func() {
			if e := recover(); e != nil {
				obs.Errs[i] = "PANIC:" + fmt.Sprint(e)
			}
		}()
		b, err := io.Formatter{Simple: c.Simple}.Marshal(v)
		obs.Outs[i], obs.Errs[i] = hex.EncodeToString(b), errText(err)
	}
	d0, d1 := make(chan struct{}), make(chan struct{})
	go run(0, v0, d0)
	select {
	case <-held:
	case <-d0:
		obs.Note = "goroutine 0 never reached the yield point for " + holdAt
		return
	case <-time.After(5 * time.Second):
		obs.Note = "timeout waiting for the yield point"
		return
	}
	go run(1, v1, d1)
	select {
	case <-d1:
	case <-time.After(400 * time.Millisecond):
		obs.Blocked = true
	}
	close(release)
	<-d0
	<-d1
}

func runForcedSame(c *c14Case, obs *c14Obs, v0, v1 interface{}, holdAt string) {
	var mu sync.Mutex
	arrivals := 0
	second := make(chan struct{})   // closed when the second placeholder is published
	release1 := make(chan struct{}) // closed when goroutine 0 is done
	io.VerifYieldHook = func(point string, o interface{}) {
		if point != "structenc.published" {
			return
		}
		t, ok := o.(reflect.Type)
		if !ok || t.Name() != holdAt {
			return
		}
		mu.Lock()
		arrivals++
		n := arrivals
		mu.Unlock()
		switch n {
		case 1:
			<-second
		case 2:
			close(second)
			<-release1
		}
	}
	defer func() { io.VerifYieldHook = nil }()
	obs.Outs = make([]string, 2)
	obs.Errs = make([]string, 2)
	run := func(i int, v interface{}, done chan struct{}) {
		defer close(done)
		defer func() {
			if e := recover(); e != nil {
				obs.Errs[i] = "PANIC:" + fmt.Sprint(e)
			}
		}()
		b, err := io.Formatter{Simple: c.Simple}.Marshal(v)
		obs.Outs[i], obs.Errs[i] = hex.EncodeToString(b), errText(err)
	}
	d0, d1 := make(chan struct{}), make(chan struct{})
	go run(0, v0, d0)
	// goroutine 1 starts only when goroutine 0 waits at the yield point (or has finished without reaching it)
	for waited := 0; waited < 5000; waited++ {
		mu.Lock()
		n := arrivals
		mu.Unlock()
		if n >= 1 {
			break
		}
		select {
		case <-d0:
			waited = 5000
		case <-time.After(time.Millisecond):
		}
	}
	go run(1, v1, d1)
	select {
	case <-d0:
	case <-time.After(400 * time.Millisecond):
		// goroutine 0 waits for a lock that goroutine 1 holds while it is held at the yield point
		obs.Blocked = true
	}
	mu.Lock()
	n := arrivals
	mu.Unlock()
	if n < 2 {
		obs.Note = fmt.Sprintf("only %d goroutines reached the yield point for %s", n, holdAt)
		select {
		case <-second:
		default:
			close(second)
		}
	}
	close(release1)
	<-d0
	<-d1
}

// Decoder side (hooks/c14-io-decoder.patch):
//
//	func newNamedStructDecoder(t reflect.Type, tag ...string) *structDecoder {
//	    decoder := &structDecoder{t: t2}
//	    decoder.Lock() ; defer decoder.Unlock()
//	    registerNamedStructDecoder(t, decoder)
//	    verifYield("structdec.published", t)        <- goroutine A is held here for the wide type WT
//	    decoder.fields = getFieldMap(t, tag...)
//
// goroutine A = Unmarshal into WT (first use), held when WT's decoder is published; goroutine B = Unmarshal
// into *WT (bdest PT), WO{In WT; P *WT} (bdest O) or []WT (bdest S).  With the lock spanning publication and assignment B
// waits in decodeField (blocked is reported, A is released, both finish); with a narrower lock B returns
// at once with every field of WT skipped.
func runForcedDecHooked(c *c14Case, obs *c14Obs) {
	j := c.Families[0]
	fam := wideFamilies[j]
	holdAt := fmt.Sprintf("WT%03d", j)
	dt, _ := hex.DecodeString(c.Datas[0][0])
	do, _ := hex.DecodeString(c.Datas[0][1])
	held := make(chan struct{})
	release := make(chan struct{})
	var once sync.Once
	io.VerifYieldHook = func(point string, o interface{}) {
		if point != "structdec.published" {
			return
		}
		if t, ok := o.(reflect.Type); ok && t.Name() == holdAt {
			hit := false
			once.Do(func() { hit = true })
			if hit {
				close(held)
				<-release
			}
		}
	}
	defer func() { io.VerifYieldHook = nil }()
	round := make([]string, 2)
	run := func(i int, tag string, data []byte, dest interface{}, done chan struct{}) {
		defer close(done)
		o, e := decodeInto(c.Simple, data, dest)
		round[i] = tag + ":" + o + "|" + e
	}
	d0, d1 := make(chan struct{}), make(chan struct{})
	go run(0, "T", dt, fam.newT(), d0)
	select {
	case <-held:
	case <-d0:
		obs.Note = "goroutine A never reached the yield point for " + holdAt
		return
	case <-time.After(5 * time.Second):
		obs.Note = "timeout waiting for the yield point"
		return
	}
	switch c.BDest {
	case "O":
		go run(1, "O", do, fam.newO(), d1)
	case "S":
		ds, _ := hex.DecodeString(c.Datas[0][2])
		go run(1, "S", ds, fam.newS(), d1)
	default:
		go run(1, "PT", dt, fam.newPT(), d1)
	}
	select {
	case <-d1:
	case <-time.After(400 * time.Millisecond):
		obs.Blocked = true
	}
	close(release)
	<-d0
	<-d1
	obs.Rounds = [][]string{round}
}
