// hv-c04: implementation side of C04 (untrusted bytes never crash, hang or over-allocate).
// One JSON case per line: hostile bytes + destination type descriptor + mode + entry point.
// The REAL decoder runs under recover(); the observation is the outcome class (value / error /
// panic with the innermost /repo frame), the wall time and the runtime.MemStats.TotalAlloc delta.
// A private watchdog turns hangs and memory blow-ups into a {"id":..,"fatal":..} record that
// carries the /repo frames of the running case, and exits; fatal runtime errors that recover()
// cannot catch kill the executor, and hv.run_harness_resilient reports the crashed case.
// The executor only observes; it never judges.
package main

import (
	"bytes"
	"context"
	"encoding/hex"
	"encoding/json"
	"errors"
	"fmt"
	"math/big"
	"os"
	"reflect"
	"runtime"
	"runtime/debug"
	"strconv"
	"strings"
	"sync/atomic"
	"time"

	"github.com/google/uuid"
	hio "github.com/hprose/hprose-golang/v3/io"
	"github.com/hprose/hprose-golang/v3/rpc/codec/jsonrpc"
	"github.com/hprose/hprose-golang/v3/rpc/core"
	"hv/hvlib"
)

type c04Case struct {
	ID    int    `json:"id"`
	Entry string `json:"entry"` // unmarshal | service | client | jservice | jclient (JSON-RPC codecs) | oracle | seeds
	Hex   string `json:"hex"`
	T     *TD    `json:"t,omitempty"`    // unmarshal: destination type
	Mode  string `json:"mode,omitempty"` // unmarshal: simple | ref
	Svc   string `json:"svc,omitempty"`  // service: "a" (no missing method) | "b" (with missing method)
	RT    []*TD  `json:"rt,omitempty"`   // client: return types
	Kind  string `json:"kind,omitempty"` // oracle: which library parser
	Dump  bool   `json:"dump,omitempty"` // unmarshal: also print the decoded value (calibration witnesses only)
	Opts  *opts  `json:"o,omitempty"`    // decoder options other than the defaults (unmarshal, service, client, jservice)
	Stack int    `json:"stack,omitempty"` // MB: a smaller goroutine stack limit for this case (value graphs: unbounded recursion is found at once)
}

// opts: the decoder's public knobs (io.Decoder fields / core.With*Type codec options), as their enum values
type opts struct {
	List   int `json:"list,omitempty"`   // io.ListType: 0 []interface{} | 1 []T
	Struct int `json:"struct,omitempty"` // io.StructType: 0 *T | 1 T
	Map    int `json:"map,omitempty"`    // io.MapType: 0 map[interface{}]interface{} | 1 map[string]interface{}
	Long   int `json:"long,omitempty"`   // io.LongType: 0 int | 1 uint | 2 int64 | 3 uint64 | 4 *big.Int
	Real   int `json:"real,omitempty"`   // io.RealType: 0 float64 | 1 float32 | 2 *big.Float
}

func (o *opts) codec() []core.CodecOption {
	if o == nil {
		return nil
	}
	return []core.CodecOption{core.WithListType(hio.ListType(o.List)), core.WithStructType(hio.StructType(o.Struct)),
		core.WithMapType(hio.MapType(o.Map)), core.WithLongType(hio.LongType(o.Long)), core.WithRealType(hio.RealType(o.Real))}
}

type c04Obs struct {
	ID       int      `json:"id"`
	Outcome  string   `json:"outcome"`         // value | error | panic | builderr
	Err      string   `json:"err,omitempty"`   // error text (truncated)
	ErrClass string   `json:"errclass,omitempty"`
	Panic    string   `json:"panic,omitempty"` // panic message
	Frame    string   `json:"frame,omitempty"` // innermost /repo frame at the panic
	Frames   []string `json:"frames,omitempty"`
	Ns       int64    `json:"ns"`
	Alloc    uint64   `json:"alloc"`
	Mallocs  uint64   `json:"mallocs"`
	Dump     string   `json:"dump,omitempty"`
	Corrupt  string   `json:"corrupt,omitempty"` // the decoded value breaks a Go invariant (slice length < 0 ...)
	AllocAt  string   `json:"alloc_at,omitempty"` // /repo frames (innermost first, ";"-separated) of the largest sampled allocation (only for big deltas)
	Name     string   `json:"name,omitempty"`     // service: decoded method name (hex)
	NArgs    int      `json:"nargs,omitempty"`
	NRes     int      `json:"nres,omitempty"`
	Ok       *bool    `json:"ok,omitempty"` // oracle answer
	Seeds    []seed   `json:"seeds,omitempty"`
}

const repoPath = "github.com/hprose/hprose-golang/v3/"

// shortFunc: "github.com/hprose/hprose-golang/v3/io.(*decoderRefer).Read" -> "io.decoderRefer.Read"
func shortFunc(fn string) string {
	s := strings.TrimPrefix(fn, repoPath)
	if i := strings.LastIndex(s, "/"); i >= 0 {
		s = s[i+1:]
	}
	s = strings.NewReplacer("(*", "", ")", "", "(", "").Replace(s)
	return s
}

// repoFrames: the /repo functions on the current stack, innermost first (closures keep their funcN suffix).
func repoFrames(skip int) []string {
	pcs := make([]uintptr, 256)
	n := runtime.Callers(skip, pcs)
	fr := runtime.CallersFrames(pcs[:n])
	var out []string
	for {
		f, more := fr.Next()
		if strings.HasPrefix(f.Function, repoPath) {
			out = append(out, shortFunc(f.Function))
		}
		if !more || len(out) >= 12 {
			break
		}
	}
	return out
}

func errClass(err error) string {
	if err == nil {
		return ""
	}
	switch err.(type) {
	case hio.CastError:
		return "cast"
	case hio.DecodeError:
		return "decode"
	case core.InvalidRequestError:
		return "invalid-request"
	case core.InvalidResponseError:
		return "invalid-response"
	}
	switch {
	case err.Error() == "EOF":
		return "eof"
	case errors.Is(err, hio.ErrInvalidUTF8):
		return "utf8"
	case strings.HasPrefix(err.Error(), "Can't find this method"):
		return "no-method"
	}
	return "other"
}

func safeErrText(err error) (s string) {
	defer func() {
		if e := recover(); e != nil {
			s = "<Error() panicked: " + fmt.Sprint(e) + ">"
		}
	}()
	s = err.Error()
	if len(s) > 160 {
		s = s[:160]
	}
	return s
}

// ---- the private watchdog -------------------------------------------------------------

var (
	wdID      int64
	wdStart   int64
	wdTimeout = 4 * time.Second
	wdHeap    = uint64(1) << 30
)

func stackOfMain() []string {
	// the goroutine may be on the system stack (a large allocation): its frames are then unavailable; retry
	for try := 0; try < 400; try++ {
		if out, ok := stackOfMainOnce(); ok {
			return out
		}
		time.Sleep(5 * time.Millisecond)
	}
	return nil
}

func stackOfMainOnce() ([]string, bool) {
	buf := make([]byte, 1<<20)
	n := runtime.Stack(buf, true)
	txt := string(buf[:n])
	// goroutine 1 runs the cases
	var out []string
	blocks := strings.Split(txt, "\n\n")
	for _, b := range blocks {
		if !strings.HasPrefix(b, "goroutine 1 [") {
			continue
		}
		if strings.Contains(b, "stack unavailable") {
			return nil, false
		}
		for _, ln := range strings.Split(b, "\n") {
			if strings.HasPrefix(ln, repoPath) {
				fn := ln
				if i := strings.LastIndex(fn, "("); i > 0 {
					fn = fn[:i]
				}
				out = append(out, shortFunc(fn))
				if len(out) >= 12 {
					break
				}
			}
		}
	}
	return out, true
}

func watchdog() {
	var ms runtime.MemStats
	for {
		time.Sleep(25 * time.Millisecond)
		st := atomic.LoadInt64(&wdStart)
		if st == 0 {
			continue
		}
		why := ""
		if time.Duration(time.Now().UnixNano()-st) > wdTimeout {
			why = "timeout"
		} else {
			runtime.ReadMemStats(&ms)
			if ms.HeapAlloc > wdHeap {
				why = "memory"
			}
		}
		if why != "" {
			if atomic.LoadInt64(&wdStart) != st {
				continue // the case ended meanwhile
			}
			fr := stackOfMain()
			b, _ := json.Marshal(map[string]interface{}{"id": atomic.LoadInt64(&wdID), "fatal": why, "frames": fr,
				"heap": ms.HeapAlloc})
			os.Stdout.Write(append(b, '\n'))
			os.Exit(5)
		}
	}
}

// ---- allocation site of big allocations (heap profile; big objects are always sampled) -----

var profSeen = map[[32]uintptr]int64{}

func allocSite() string {
	runtime.GC()
	runtime.GC()
	var recs []runtime.MemProfileRecord
	n, ok := runtime.MemProfile(nil, true)
	for tries := 0; tries < 5; tries++ {
		recs = make([]runtime.MemProfileRecord, n+1024)
		if n, ok = runtime.MemProfile(recs, true); ok {
			break
		}
	}
	if !ok {
		return ""
	}
	best := int64(0)
	site := ""
	for _, r := range recs[:n] {
		d := r.AllocBytes - profSeen[r.Stack0]
		profSeen[r.Stack0] = r.AllocBytes
		if d > best {
			fs := runtime.CallersFrames(r.Stack())
			s := ""
			for {
				f, more := fs.Next()
				if strings.HasPrefix(f.Function, repoPath) {
					if s != "" {
						s += ";"
					}
					s += shortFunc(f.Function)
				}
				if !more {
					break
				}
			}
			if s != "" {
				best, site = d, s
			}
		}
	}
	return site
}

// ---- entries -------------------------------------------------------------------------

func add(a, b int) int                               { return a + b }
func echo(x interface{}) interface{}                 { return x }
func sum(xs ...int) int                              { n := 0; for _, x := range xs { n += x }; return n }
func user(u User, tags []string, m map[string]int) string { return u.Name }
func missing(name string, args []interface{}) ([]interface{}, error) {
	return nil, nil
}

var svcA, svcB *core.Service

func newService(which string) *core.Service {
	s := core.NewService()
	if which == "b" {
		s.AddFunction(add, "add")
		s.AddMissingMethod(missing)
		return s
	}
	s.AddFunction(add, "add")
	s.AddFunction(echo, "echo")
	s.AddFunction(sum, "sum")
	s.AddFunction(user, "user")
	return s
}

func services() {
	svcA = newService("a")
	svcB = newService("b")
}

// a service whose codec is not the default one (decoder options, JSON-RPC), built once per configuration
var svcCache = map[string]*core.Service{}

func serviceFor(c *c04Case) *core.Service {
	which := "a"
	if c.Svc == "b" {
		which = "b"
	}
	if c.Opts == nil && c.Entry == "service" {
		if which == "b" {
			return svcB
		}
		return svcA
	}
	k, _ := json.Marshal(c.Opts)
	key := c.Entry + which + string(k)
	if s, ok := svcCache[key]; ok {
		return s
	}
	s := newService(which)
	if c.Entry == "jservice" {
		s.Codec = jsonrpc.NewServiceCodec(nil, c.Opts.codec()...)
	} else {
		s.Codec = core.NewServiceCodec(c.Opts.codec()...)
	}
	svcCache[key] = s
	return s
}

func unmarshalWith(o *opts, simple bool, data []byte, p interface{}) error {
	// what io.Formatter.Unmarshal does, with the two options Formatter does not carry
	var dec *hio.Decoder
	if simple {
		dec = hio.NewDecoder(data)
	} else {
		dec = hio.GetDecoder().Simple(false).ResetBytes(data)
		defer hio.FreeDecoder(dec)
	}
	dec.LongType = hio.LongType(o.Long)
	dec.RealType = hio.RealType(o.Real)
	dec.MapType = hio.MapType(o.Map)
	dec.StructType = hio.StructType(o.Struct)
	dec.ListType = hio.ListType(o.List)
	dec.Decode(p)
	return dec.Error
}

func exactCopy(b []byte) []byte {
	d := make([]byte, len(b)) // len == cap: slicing beyond the input is observable
	copy(d, b)
	return d
}

func runEntry(c *c04Case, data []byte, obs *c04Obs) error {
	switch c.Entry {
	case "unmarshal", "reader":
		t, err := typeOf(c.T)
		if err != nil {
			return err
		}
		p := reflect.New(t).Interface()
		var derr error
		if c.Entry == "reader" {
			// the same bytes handed over by an io.Reader (UnmarshalFromReader): the decoder refills its own
			// buffer; what it reserves must not depend on the lengths the input announces
			derr = hio.Formatter{Simple: c.Mode != "ref"}.UnmarshalFromReader(bytes.NewReader(data), p)
		} else if c.Opts == nil {
			derr = hio.Formatter{Simple: c.Mode != "ref"}.Unmarshal(data, p)
		} else {
			derr = unmarshalWith(c.Opts, c.Mode != "ref", data, p)
		}
		setErr(obs, derr)
		obs.Corrupt = sane(reflect.ValueOf(p), 0)
		if c.Dump && obs.Corrupt == "" {
			obs.Dump = fmt.Sprint(reflect.ValueOf(p).Elem().Interface())
			if len(obs.Dump) > 200 {
				obs.Dump = obs.Dump[:200]
			}
		}
	case "service", "jservice":
		s := serviceFor(c)
		ctx := core.NewServiceContext(s)
		name, args, derr := s.Codec.Decode(data, ctx)
		obs.Name = hex.EncodeToString([]byte(name))
		obs.NArgs = len(args)
		setErr(obs, derr)
		obs.Corrupt = sane(reflect.ValueOf(args), 0)
	case "client", "jclient":
		ctx := core.NewClientContext()
		for _, td := range c.RT {
			t, err := typeOf(td)
			if err != nil {
				return err
			}
			ctx.ReturnType = append(ctx.ReturnType, t)
		}
		var codec core.ClientCodec
		if c.Entry == "jclient" {
			codec = jsonrpc.NewClientCodec(nil)
		} else {
			codec = core.NewClientCodec(c.Opts.codec()...)
		}
		res, derr := codec.Decode(data, ctx)
		obs.NRes = len(res)
		setErr(obs, derr)
		obs.Corrupt = sane(reflect.ValueOf(res), 0)
	default:
		return fmt.Errorf("unknown entry %q", c.Entry)
	}
	return nil
}

// sane: a shallow walk of the decoded value looking for values Go itself could not have built
func sane(v reflect.Value, depth int) (bad string) {
	if depth == 0 {
		// a forged string or slice header points anywhere: reading through it is a panic here, not the end of the executor
		defer debug.SetPanicOnFault(debug.SetPanicOnFault(true))
	}
	defer func() {
		if e := recover(); e != nil {
			bad = "walk panicked: " + fmt.Sprint(e)
		}
	}()
	if depth > 6 || !v.IsValid() {
		return ""
	}
	switch v.Kind() {
	case reflect.String:
		if n := v.Len(); n < 0 {
			return fmt.Sprintf("string len=%d", n)
		} else if n > 0 {
			s := v.String()
			if s[0]+s[n-1]+s[n/2] == 0 && n > 1<<40 {
				return fmt.Sprintf("string len=%d", n)
			}
		}
	case reflect.Ptr, reflect.Interface:
		if v.IsNil() {
			return ""
		}
		return sane(v.Elem(), depth+1)
	case reflect.Slice:
		if v.Len() < 0 || v.Len() > v.Cap() {
			return fmt.Sprintf("slice len=%d cap=%d", v.Len(), v.Cap())
		}
		fallthrough
	case reflect.Array:
		n := v.Len()
		if n > 64 {
			n = 64
		}
		for i := 0; i < n; i++ {
			if b := sane(v.Index(i), depth+1); b != "" {
				return b
			}
		}
	case reflect.Struct:
		for i := 0; i < v.NumField(); i++ {
			if b := sane(v.Field(i), depth+1); b != "" {
				return b
			}
		}
	case reflect.Map:
		if v.Len() > 64 {
			return ""
		}
		it := v.MapRange()
		for it.Next() {
			if b := sane(it.Key(), depth+1); b != "" {
				return b
			}
			if b := sane(it.Value(), depth+1); b != "" {
				return b
			}
		}
	}
	return ""
}

// warm: build the value decoders of a destination type once, outside the measured region
var warmed = map[string]bool{}

func warm(c *c04Case) {
	tds := append([]*TD{}, c.RT...)
	if c.T != nil {
		tds = append(tds, c.T)
	}
	for _, td := range tds {
		k, _ := json.Marshal(td)
		if warmed[string(k)] {
			continue
		}
		warmed[string(k)] = true
		if t, err := typeOf(td); err == nil {
			func() {
				defer func() { _ = recover() }()
				_ = hio.Unmarshal([]byte("n"), reflect.New(t).Interface())
				_ = hio.Unmarshal([]byte("e"), reflect.New(t).Interface())
			}()
		}
	}
}

func setErr(obs *c04Obs, err error) {
	if err == nil {
		obs.Outcome = "value"
		return
	}
	obs.Outcome = "error"
	obs.ErrClass = errClass(err)
	obs.Err = safeErrText(err)
}

var timeFormat = []string{
	"2006-01-02 15:04:05", "2006-01-02 15:04:05.999999999", "2006-01-02 15:04:05Z07:00",
	"2006-01-02 15:04:05.999999999Z07:00", time.ANSIC, time.UnixDate, time.RubyDate, time.RFC822, time.RFC822Z,
	time.RFC850, time.RFC1123, time.RFC1123Z, time.RFC3339, time.RFC3339Nano, "2006-01-02", "02 Jan 06", "02-Jan-06",
	"02 Jan 2006", "15:04:05", "15:04:05.999999999", "15:04:05Z07:00", "15:04:05.999999999Z07:00",
}

// oracle: does the library parser that the decoder calls accept this text?  (the model takes these
// answers as a finite table, the way DESIGN 3 treats floats, big numbers, calendar and UUID text)
func oracle(kind string, s string) (ok bool, err error) {
	switch {
	case kind == "f64" || kind == "f32":
		_, e := strconv.ParseFloat(s, map[string]int{"f64": 64, "f32": 32}[kind])
		return e == nil, nil
	case kind == "f64z": // the value ParseFloat returns is zero (0 on a syntax error, +-Inf on a range error)
		f, _ := strconv.ParseFloat(s, 64)
		return f == 0, nil
	case kind == "intexp": // a float text that denotes more binary digits than a *big.Int destination accepts (io.maxBigIntBits)
		bf, k := new(big.Float).SetString(s)
		return k && !bf.IsInf() && bf.MantExp(nil) > 1<<16, nil
	case kind == "ratexp": // a text whose written exponent is beyond what a *big.Rat destination accepts (io.maxTextExponent)
		return exponentTooLarge(s), nil
	case strings.HasPrefix(kind, "i"):
		b, e0 := strconv.Atoi(kind[1:])
		if e0 != nil {
			return false, e0
		}
		_, e := strconv.ParseInt(s, 10, b)
		return e == nil, nil
	case strings.HasPrefix(kind, "u") && !strings.HasPrefix(kind, "uuid"):
		b, e0 := strconv.Atoi(kind[1:])
		if e0 != nil {
			return false, e0
		}
		_, e := strconv.ParseUint(s, 10, b)
		return e == nil, nil
	case kind == "bool":
		_, e := strconv.ParseBool(s)
		return e == nil, nil
	case kind == "boolt": // parses as true
		b, e := strconv.ParseBool(s)
		return e == nil && b, nil
	case kind == "bigint":
		_, k := new(big.Int).SetString(s, 10)
		return k, nil
	case kind == "bigfloat":
		_, k := new(big.Float).SetString(s)
		return k, nil
	case kind == "bigrat":
		_, k := new(big.Rat).SetString(s)
		return k, nil
	case kind == "uuid":
		_, e := uuid.Parse(s)
		return e == nil, nil
	case kind == "uuidp":
		_, e := uuid.ParseBytes([]byte(s))
		return e == nil, nil
	case kind == "uuidb":
		if len(s) == 16 {
			return true, nil
		}
		_, e := uuid.ParseBytes([]byte(s))
		return e == nil, nil
	case kind == "time":
		for _, layout := range timeFormat {
			if _, e := time.Parse(layout, s); e == nil {
				return true, nil
			}
		}
		return false, nil
	}
	return false, fmt.Errorf("unknown oracle kind %q", kind)
}

// exponentTooLarge: the predicate of io/big_decoder.go (repaired tree), restated
func exponentTooLarge(s string) bool {
	marks, m := "eEpP", s
	if len(m) > 0 && (m[0] == '+' || m[0] == '-') {
		m = m[1:]
	}
	if len(m) > 1 && m[0] == '0' && (m[1] == 'x' || m[1] == 'X') {
		marks = "pP"
	}
	i := strings.LastIndexAny(s, marks)
	if i < 0 {
		return false
	}
	n, err := strconv.ParseInt(s[i+1:], 10, 64)
	if err != nil {
		return false
	}
	return n > 1<<14 || n < -(1<<14)
}

func runCase(line []byte, out *json.Encoder) error {
	var c c04Case
	if err := json.Unmarshal(line, &c); err != nil {
		return err
	}
	hvlib.Begin(c.ID)
	obs := c04Obs{ID: c.ID}
	data, err := hex.DecodeString(c.Hex)
	if err != nil {
		return err
	}
	switch c.Entry {
	case "oracle":
		ok, err := oracle(c.Kind, string(data))
		if err != nil {
			return err
		}
		obs.Outcome = "oracle"
		obs.Ok = &ok
		return out.Encode(&obs)
	case "seeds":
		obs.Outcome = "seeds"
		obs.Seeds = seeds()
		return out.Encode(&obs)
	}
	data = exactCopy(data)
	warm(&c)
	if c.Stack > 0 {
		debug.SetMaxStack(c.Stack << 20)
		defer debug.SetMaxStack(1000000000)
	}
	var m0, m1 runtime.MemStats
	runtime.ReadMemStats(&m0)
	atomic.StoreInt64(&wdID, int64(c.ID))
	t0 := time.Now()
	atomic.StoreInt64(&wdStart, t0.UnixNano())
	var berr error
	func() {
		defer func() {
			if e := recover(); e != nil {
				obs.Outcome = "panic"
				obs.Frames = repoFrames(3)
				if len(obs.Frames) > 0 {
					obs.Frame = obs.Frames[0]
				}
				obs.Panic = fmt.Sprint(e)
				if len(obs.Panic) > 200 {
					obs.Panic = obs.Panic[:200]
				}
			}
		}()
		berr = runEntry(&c, data, &obs)
	}()
	obs.Ns = time.Since(t0).Nanoseconds()
	atomic.StoreInt64(&wdStart, 0)
	runtime.ReadMemStats(&m1)
	if berr != nil {
		obs.Outcome = "builderr"
		obs.Err = berr.Error()
	}
	obs.Alloc = m1.TotalAlloc - m0.TotalAlloc
	obs.Mallocs = m1.Mallocs - m0.Mallocs
	if obs.Alloc > 1<<16 && obs.Outcome != "panic" && berr == nil {
		// where was it allocated?  run the case once more between two heap-profile snapshots
		allocSite()
		atomic.StoreInt64(&wdStart, time.Now().UnixNano())
		func() {
			defer func() { _ = recover() }()
			var o2 c04Obs
			_ = runEntry(&c, exactCopy(data), &o2)
		}()
		atomic.StoreInt64(&wdStart, 0)
		obs.AllocAt = allocSite()
	}
	return out.Encode(&obs)
}

func main() {
	runtime.MemProfileRate = 16384
	services()
	go watchdog()
	_ = context.Background
	hvlib.Main(runCase)
}
