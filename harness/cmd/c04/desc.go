package main

// Destination type descriptors (the subset of harness/cmd/io/desc.go that C04 needs).

import (
	"fmt"
	"math/big"
	"reflect"
	"time"

	"github.com/google/uuid"
	hio "github.com/hprose/hprose-golang/v3/io"
)

// TD is a type descriptor exchanged with the case generator.
type TD struct {
	K      string `json:"k"`
	E      *TD    `json:"e,omitempty"`
	Key    *TD    `json:"key,omitempty"`
	N      int    `json:"n,omitempty"`
	Name   string `json:"name,omitempty"`
	Fields []FD   `json:"fields,omitempty"`
}

// FD is a field of an anonymous struct.
type FD struct {
	N string `json:"n"`
	T *TD    `json:"t"`
}

// Named struct types published to the decoder with io.RegisterName (class names on the wire).
type Pt struct {
	X int
	Y int
}

type User struct {
	Name  string
	Age   int
	Tags  []string
	Extra interface{}
	P     *Pt
}

// Types outside the Coq model's registry (cases that name them are judged by the property oracle alone).

// Key is not hashable: the slice is one struct level down.
type Key struct {
	ID     int
	Labels Labels
}

type Labels struct {
	Names []string
}

// HKey is hashable.
type HKey struct {
	ID   int
	Name string
}

// Node can point at itself, through a pointer, a slice, a map and an interface.
type Node struct {
	Name string
	Next *Node
	Kids []*Node
	Dict map[string]*Node
	Any  interface{}
}

var registry = map[string]reflect.Type{
	"Pt":     reflect.TypeOf(Pt{}),
	"User":   reflect.TypeOf(User{}),
	"Key":    reflect.TypeOf(Key{}),
	"Labels": reflect.TypeOf(Labels{}),
	"HKey":   reflect.TypeOf(HKey{}),
	"Node":   reflect.TypeOf(Node{}),
}

func init() {
	hio.RegisterName("Pt", Pt{})
	hio.RegisterName("User", User{})
	hio.RegisterName("Key", Key{})
	hio.RegisterName("Labels", Labels{})
	hio.RegisterName("HKey", HKey{})
	hio.RegisterName("Node", Node{})
}

var (
	ifaceType    = reflect.TypeOf((*interface{})(nil)).Elem()
	timeType     = reflect.TypeOf(time.Time{})
	uuidType     = reflect.TypeOf(uuid.UUID{})
	bigIntType   = reflect.TypeOf((*big.Int)(nil))
	bigFloatType = reflect.TypeOf((*big.Float)(nil))
	bigRatType   = reflect.TypeOf((*big.Rat)(nil))
)

var basicKinds = map[string]reflect.Type{
	"bool": reflect.TypeOf(false), "int": reflect.TypeOf(int(0)), "int8": reflect.TypeOf(int8(0)),
	"int16": reflect.TypeOf(int16(0)), "int32": reflect.TypeOf(int32(0)), "int64": reflect.TypeOf(int64(0)),
	"uint": reflect.TypeOf(uint(0)), "uint8": reflect.TypeOf(uint8(0)), "uint16": reflect.TypeOf(uint16(0)),
	"uint32": reflect.TypeOf(uint32(0)), "uint64": reflect.TypeOf(uint64(0)),
	"float32": reflect.TypeOf(float32(0)), "float64": reflect.TypeOf(float64(0)),
	"complex64": reflect.TypeOf(complex64(0)), "complex128": reflect.TypeOf(complex128(0)),
	"string": reflect.TypeOf(""),
}

func typeOf(td *TD) (reflect.Type, error) {
	if td == nil {
		return nil, fmt.Errorf("nil type descriptor")
	}
	if t, ok := basicKinds[td.K]; ok {
		return t, nil
	}
	switch td.K {
	case "slice", "array", "ptr":
		e, err := typeOf(td.E)
		if err != nil {
			return nil, err
		}
		switch td.K {
		case "slice":
			return reflect.SliceOf(e), nil
		case "array":
			return reflect.ArrayOf(td.N, e), nil
		default:
			return reflect.PtrTo(e), nil
		}
	case "map":
		k, err := typeOf(td.Key)
		if err != nil {
			return nil, err
		}
		e, err := typeOf(td.E)
		if err != nil {
			return nil, err
		}
		return reflect.MapOf(k, e), nil
	case "iface":
		return ifaceType, nil
	case "bytes":
		return reflect.TypeOf([]byte(nil)), nil
	case "reg":
		if t, ok := registry[td.Name]; ok {
			return t, nil
		}
		return nil, fmt.Errorf("unknown registered type %s", td.Name)
	case "anon":
		var fs []reflect.StructField
		for _, f := range td.Fields {
			ft, err := typeOf(f.T)
			if err != nil {
				return nil, err
			}
			fs = append(fs, reflect.StructField{Name: f.N, Type: ft})
		}
		return reflect.StructOf(fs), nil
	case "time":
		return timeType, nil
	case "uuid":
		return uuidType, nil
	case "bigint":
		return bigIntType, nil
	case "bigfloat":
		return bigFloatType, nil
	case "bigrat":
		return bigRatType, nil
	}
	return nil, fmt.Errorf("unknown type kind %q", td.K)
}
