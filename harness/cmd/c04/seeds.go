package main

// Valid streams produced by the REAL encoder of the tree under test: the seed corpus that the
// check mutates (truncation, substitution, insertion, deletion, grammar-aware field edits).

import (
	"encoding/hex"
	"math"
	"math/big"
	"reflect"
	"time"

	"github.com/google/uuid"
	hio "github.com/hprose/hprose-golang/v3/io"
	"github.com/hprose/hprose-golang/v3/rpc/core"
)

type seed struct {
	Entry string `json:"entry"`
	Hex   string `json:"hex"`
	Mode  string `json:"mode,omitempty"`
	T     *TD    `json:"t,omitempty"`
	RT    []*TD  `json:"rt,omitempty"`
	Svc   string `json:"svc,omitempty"`
	What  string `json:"what"`
}

func td(k string) *TD            { return &TD{K: k} }
func sl(e *TD) *TD               { return &TD{K: "slice", E: e} }
func ar(n int, e *TD) *TD        { return &TD{K: "array", N: n, E: e} }
func pt(e *TD) *TD               { return &TD{K: "ptr", E: e} }
func mp(k, e *TD) *TD            { return &TD{K: "map", Key: k, E: e} }
func reg(n string) *TD           { return &TD{K: "reg", Name: n} }
func anon(fs ...FD) *TD          { return &TD{K: "anon", Fields: fs} }
func fd(n string, t *TD) FD      { return FD{N: n, T: t} }

type valSeed struct {
	what string
	v    interface{}
	ts   []*TD // destination types to decode it into
}

func valueSeeds() []valSeed {
	bi, _ := new(big.Int).SetString("123456789012345678901234567890", 10)
	br := big.NewRat(3, 7)
	bf := big.NewFloat(1.5)
	u := uuid.MustParse("3f257da1-0b85-48d6-8f5c-6cd13d2d60c9")
	t1 := time.Date(2020, 1, 2, 3, 4, 5, 6000, time.UTC)
	t2 := time.Date(1970, 1, 1, 12, 30, 15, 0, time.UTC)
	t3 := time.Date(2021, 12, 31, 0, 0, 0, 0, time.UTC)
	usr := User{Name: "ann", Age: 33, Tags: []string{"a", "b"}, Extra: 1.5, P: &Pt{1, 2}}
	shared := &Pt{7, 8}
	I, S, B := td("iface"), td("string"), td("bytes")
	return []valSeed{
		{"nil", nil, []*TD{I, pt(td("int")), sl(td("int")), mp(S, I)}},
		{"true", true, []*TD{I, td("bool"), td("int"), S}},
		{"digit", 7, []*TD{I, td("int"), td("uint8"), td("float64"), S, td("bool"), td("bigint")}},
		{"int", 12345, []*TD{I, td("int"), td("int8"), td("uint16"), td("float32"), S, td("time")}},
		{"negint", -987654321, []*TD{I, td("int64"), td("uint"), td("float64"), td("complex128")}},
		{"long", int64(math.MaxInt64), []*TD{I, td("int64"), td("uint64"), td("int32"), td("bigint"), td("bigrat")}},
		{"uint64", uint64(math.MaxUint64), []*TD{I, td("uint64"), td("int"), td("bigint")}},
		{"double", 3.25, []*TD{I, td("float64"), td("float32"), td("int"), S, td("bigfloat"), td("bigrat")}},
		{"doublee", 1e300, []*TD{I, td("float64"), td("float32")}},
		{"nan", math.NaN(), []*TD{I, td("float64"), td("int"), td("bool")}},
		{"inf", math.Inf(-1), []*TD{I, td("float64"), td("float32"), S, td("bigfloat")}},
		{"empty", "", []*TD{I, S, B, td("int"), sl(I)}},
		{"char", "x", []*TD{I, S, B, td("int"), td("bool"), td("bigint"), ar(4, td("uint8"))}},
		{"char2", "ß", []*TD{I, S, B}},
		{"char3", "€", []*TD{I, S, B, td("float64")}},
		{"str", "hello world", []*TD{I, S, B, td("int"), td("uuid"), td("time"), ar(4, td("uint8"))}},
		{"strnum", "12345", []*TD{I, S, td("int"), td("float64"), td("bigint"), td("bigrat"), td("bool")}},
		{"strutf", "aßc€d\U0001F600e", []*TD{I, S, B}},
		{"bytes", []byte{0, 1, 2, 250, 251, 34, 59}, []*TD{I, B, S, sl(td("int")), ar(3, td("uint8")), td("uuid")}},
		{"bytes0", []byte{}, []*TD{I, B, S}},
		{"bigint", bi, []*TD{I, td("bigint"), td("int"), td("float64"), S, td("bigrat"), td("bigfloat")}},
		{"bigrat", br, []*TD{I, td("bigrat"), S, td("float64")}},
		{"bigfloat", bf, []*TD{I, td("bigfloat"), td("float64"), td("bigint")}},
		{"uuid", u, []*TD{I, td("uuid"), S, B}},
		{"datetime", t1, []*TD{I, td("time"), S, td("int")}},
		{"time", t2, []*TD{I, td("time"), S}},
		{"date", t3, []*TD{I, td("time"), S}},
		{"ints", []int{1, 22, 333, -4}, []*TD{I, sl(td("int")), sl(I), ar(2, td("int")), ar(6, td("int")), sl(td("uint8")), B, mp(td("int"), td("int")), sl(S), sl(pt(td("int")))}},
		{"ints0", []int{}, []*TD{I, sl(td("int")), ar(2, td("int")), mp(S, I)}},
		{"strs", []string{"aa", "bb", "aa", "bb"}, []*TD{I, sl(S), sl(I), ar(3, S), mp(td("int"), S), sl(B)}},
		{"ifaces", []interface{}{1, "two", 3.5, nil, true, []byte("x"), []interface{}{"two"}}, []*TD{I, sl(I), ar(3, I), mp(I, I)}},
		{"nested", [][]int{{1, 2}, {}, {3}}, []*TD{I, sl(sl(td("int"))), sl(I), sl(ar(2, td("int"))), ar(2, sl(td("int")))}},
		{"floats", []float64{1, 2.5, math.Inf(1)}, []*TD{I, sl(td("float64")), sl(td("float32")), sl(td("int"))}},
		{"bools", []bool{true, false}, []*TD{I, sl(td("bool")), sl(td("int"))}},
		{"bytess", [][]byte{[]byte("ab"), nil, []byte("ab")}, []*TD{I, sl(B), sl(S), sl(I)}},
		{"mapsi", map[string]interface{}{"a": 1, "b": "x"}, []*TD{I, mp(S, I), mp(I, I), mp(S, S), reg("User"), anon(fd("A", td("int")), fd("B", S))}},
		{"mapii", map[int]int{1: 2, 3: 4}, []*TD{I, mp(td("int"), td("int")), mp(I, I), mp(S, td("float64")), mp(td("float64"), S)}},
		{"mapss", map[string]string{"k": "v", "v": "k"}, []*TD{I, mp(S, S), mp(I, I), mp(S, I)}},
		{"mapnest", map[string][]int{"p": {1, 2}, "q": {}}, []*TD{I, mp(S, sl(td("int"))), mp(S, I), mp(I, I)}},
		{"map0", map[string]int{}, []*TD{I, mp(S, td("int")), reg("Pt")}},
		{"pt", Pt{3, 4}, []*TD{I, reg("Pt"), pt(reg("Pt")), mp(S, I), mp(I, I), mp(S, td("int")), anon(fd("X", td("int"))), reg("User")}},
		{"ptptr", &Pt{5, 6}, []*TD{I, reg("Pt"), pt(reg("Pt")), pt(pt(reg("Pt")))}},
		{"user", usr, []*TD{I, reg("User"), pt(reg("User")), mp(S, I), reg("Pt")}},
		{"users", []User{usr, usr}, []*TD{I, sl(reg("User")), sl(pt(reg("User"))), sl(I), sl(mp(S, I))}},
		{"pts", []*Pt{shared, shared, nil, {9, 9}}, []*TD{I, sl(pt(reg("Pt"))), sl(reg("Pt")), sl(I), ar(2, reg("Pt"))}},
		{"anon", struct {
			A int
			B string
			C []int
		}{1, "b", []int{1}}, []*TD{I, anon(fd("A", td("int")), fd("B", S), fd("C", sl(td("int")))), mp(S, I), mp(I, I)}},
		{"ptrint", func() interface{} { x := 42; return &x }(), []*TD{I, pt(td("int")), td("int"), pt(pt(td("int")))}},
		{"ptrstr", func() interface{} { x := "pp"; return &x }(), []*TD{I, pt(S), S}},
		{"array", [3]int{1, 2, 3}, []*TD{I, ar(3, td("int")), ar(1, td("int")), ar(5, td("int")), sl(td("int"))}},
		{"barray", [4]byte{1, 2, 3, 4}, []*TD{I, ar(4, td("uint8")), ar(2, td("uint8")), B}},
		{"mixed", map[string]interface{}{"l": []interface{}{1, map[string]interface{}{"z": []byte("zz")}}, "s": "l"}, []*TD{I, mp(S, I), mp(I, I)}},
		{"times", []time.Time{t1, t1, t2}, []*TD{I, sl(td("time")), sl(I), sl(S)}},
		{"uuids", []uuid.UUID{u, u}, []*TD{I, sl(td("uuid")), sl(I), sl(S)}},
		{"bigs", []*big.Int{bi, big.NewInt(5)}, []*TD{I, sl(td("bigint")), sl(I), sl(td("bigrat"))}},
		{"deep", [][][]interface{}{{{1, "x"}, {}}, {}}, []*TD{I, sl(sl(sl(I))), sl(I)}},
		// lists whose elements are lists of different element types (ListTypeSlice picks a slice type per list)
		{"listsmixed", []interface{}{[]string{"abc"}, []byte("0123456789abcdef")}, []*TD{I, sl(I)}},
		{"listsmixed3", []interface{}{[]int{1}, []string{"a"}, []float64{1.5}, []interface{}{nil}}, []*TD{I, sl(I)}},
		{"listssame", []interface{}{[]string{"a"}, []string{"b", "c"}}, []*TD{I, sl(I), sl(sl(S))}},
		{"listsobj", []interface{}{Pt{1, 2}, Pt{3, 4}}, []*TD{I, sl(I), sl(reg("Pt"))}},
		{"listsobjmixed", []interface{}{Pt{1, 2}, HKey{1, "a"}, &Pt{3, 4}}, []*TD{I, sl(I)}},
		// registered structs outside the model's registry: as values and as map keys (StructTypeValue makes them keys by value)
		{"hkey", HKey{1, "a"}, []*TD{I, reg("HKey"), pt(reg("HKey"))}},
		{"key", Key{1, Labels{[]string{"a"}}}, []*TD{I, reg("Key")}},
		{"hkeymap", map[HKey]int{{1, "a"}: 1}, []*TD{I, mp(reg("HKey"), td("int")), mp(I, I)}},
		{"ptmap", map[Pt]string{{1, 2}: "a"}, []*TD{I, mp(reg("Pt"), S), mp(I, I)}},
		{"node", &Node{Name: "n", Next: &Node{Name: "m"}, Kids: []*Node{{Name: "k"}}, Dict: map[string]*Node{"d": {Name: "d"}}, Any: 1}, []*TD{I, reg("Node"), pt(reg("Node"))}},
		// longer than what a container reserves up front (io/count.go minPrealloc): the growth paths
		{"ints17", seqInts(17), []*TD{I, sl(td("int")), sl(I), ar(20, td("int")), B, mp(td("int"), td("int"))}},
		{"ints40", seqInts(40), []*TD{I, sl(td("int")), sl(td("int8")), sl(pt(td("int")))}},
		{"ints300", seqInts(300), []*TD{I, sl(td("int")), sl(td("float64"))}},
		{"strs33", seqStrs(33), []*TD{I, sl(S), sl(I), sl(B)}},
		{"users20", seqUsers(20), []*TD{I, sl(reg("User")), sl(pt(reg("User"))), sl(mp(S, I))}},
		{"map40", seqMap(40), []*TD{I, mp(S, td("int")), mp(I, I), mp(S, I)}},
		{"nested20", seqNested(20), []*TD{I, sl(sl(td("int"))), sl(I)}},
	}
}

func seqInts(n int) []int {
	r := make([]int, n)
	for i := range r {
		r[i] = i*37 - 5
	}
	return r
}

func seqStrs(n int) []string {
	r := make([]string, n)
	for i := range r {
		r[i] = string(rune('a'+i%26)) + "x"
	}
	return r
}

func seqUsers(n int) []User {
	r := make([]User, n)
	for i := range r {
		r[i] = User{Name: "u", Age: i, Tags: []string{"t"}, P: &Pt{i, i}}
	}
	return r
}

func seqMap(n int) map[string]int {
	r := map[string]int{}
	for i := 0; i < n; i++ {
		r[string(rune('a'+i%26))+string(rune('A'+i/26))] = i
	}
	return r
}

func seqNested(n int) [][]int {
	r := make([][]int, n)
	for i := range r {
		r[i] = seqInts(i)
	}
	return r
}

func seeds() []seed {
	var out []seed
	for _, vs := range valueSeeds() {
		for _, mode := range []string{"simple", "ref"} {
			b, err := hio.Formatter{Simple: mode == "simple"}.Marshal(vs.v)
			if err != nil {
				continue
			}
			h := hex.EncodeToString(b)
			for _, t := range vs.ts {
				out = append(out, seed{Entry: "unmarshal", Hex: h, Mode: mode, T: t, What: vs.what})
			}
		}
	}
	// RPC requests, as a real client codec writes them
	reqs := []struct {
		what   string
		name   string
		args   []interface{}
		simple bool
	}{
		{"add", "add", []interface{}{1, 2}, false},
		{"add-simple", "add", []interface{}{10, -20}, true},
		{"echo", "echo", []interface{}{map[string]interface{}{"a": []int{1, 2}}}, false},
		{"echo-str", "echo", []interface{}{"hi"}, true},
		{"sum", "sum", []interface{}{1, 2, 3, 4}, false},
		{"sum0", "sum", nil, false},
		{"user", "user", []interface{}{User{Name: "bob", Tags: []string{"t", "t"}, P: &Pt{1, 1}}, []string{"t", "u"}, map[string]int{"t": 1}}, false},
		{"names", "~", nil, false},
		{"nomethod", "nosuch", []interface{}{1}, false},
	}
	for _, r := range reqs {
		ctx := core.NewClientContext()
		codec := core.NewClientCodec(core.WithSimple(r.simple))
		b, err := codec.Encode(r.name, r.args, ctx)
		if err != nil {
			continue
		}
		for _, svc := range []string{"a", "b"} {
			out = append(out, seed{Entry: "service", Hex: hex.EncodeToString(b), Svc: svc, What: "req-" + r.what})
		}
		if r.what == "add" {
			ctx.RequestHeaders().Set("trace", "abc")
			ctx.RequestHeaders().Set("n", 5)
			b, _ = codec.Encode(r.name, r.args, ctx)
			out = append(out, seed{Entry: "service", Hex: hex.EncodeToString(b), Svc: "a", What: "req-add-headers"})
		}
	}
	// RPC responses, as a real service codec writes them
	resps := []struct {
		what   string
		v      interface{}
		simple bool
		rts    [][]*TD
	}{
		{"int", 3, false, [][]*TD{{td("int")}, {td("iface")}, {}, {td("string")}, {td("int"), td("string")}}},
		{"str", "ok", true, [][]*TD{{td("string")}, {td("iface")}, {td("int")}}},
		{"list", []interface{}{1, "two"}, false, [][]*TD{{td("int"), td("string")}, {td("iface")}, {sl(td("iface"))}, {td("int"), td("string"), td("float64")}, {td("int")}}},
		{"user", User{Name: "u", Tags: []string{"x", "x"}}, false, [][]*TD{{reg("User")}, {td("iface")}, {mp(td("string"), td("iface"))}}},
		{"nil", nil, false, [][]*TD{{td("iface")}, {}, {pt(td("int"))}}},
		{"err", errorString("boom"), false, [][]*TD{{td("int")}, {}}},
	}
	for _, r := range resps {
		ctx := core.NewServiceContext(svcA)
		codec := core.NewServiceCodec(core.WithSimple(r.simple))
		b, err := codec.Encode(r.v, ctx)
		if err != nil {
			continue
		}
		for _, rt := range r.rts {
			out = append(out, seed{Entry: "client", Hex: hex.EncodeToString(b), RT: rt, What: "resp-" + r.what})
		}
	}
	_ = reflect.TypeOf
	return out
}

type errorString string

func (e errorString) Error() string { return string(e) }
