package main

// Concurrent calls: N goroutines call DIFFERENT published functions through ONE client (one connection on the
// connection-oriented transports) at the same time.  A service-side invoke plugin holds every call - after its
// request has been decoded, before its function is executed - until all calls of the group have arrived, so the
// calls really are in flight together.  Each call must still enter ITS function with ITS arguments and get ITS
// result.  Only observed here.

import (
	"context"
	"encoding/json"
	"fmt"
	"reflect"
	"sync"
	"sync/atomic"
	"time"

	"github.com/hprose/hprose-golang/v3/rpc"
	"github.com/hprose/hprose-golang/v3/rpc/core"
	"hv/hvlib"
)

func hvlibBegin(id int) { hvlib.Begin(id) }

type groupCall struct {
	F   int    `json:"f"`   // which function: 1..nfuncs
	X   int    `json:"x"`   // first argument (unique in the group)
	S   string `json:"s"`   // hex: second argument
	Via string `json:"via"` // proxy | invoke
}

type groupCase struct {
	ID        int         `json:"id"`
	Group     bool        `json:"group"`
	Transport string      `json:"transport"`
	Pool      bool        `json:"pool"`
	Copts     optsJ       `json:"copts"`
	Sopts     optsJ       `json:"sopts"`
	NFuncs    int         `json:"nfuncs"`
	Calls     []groupCall `json:"calls"`
	Seq       int         `json:"seq"` // > 0: instead, this many sequential calls of conc_f1(i, "") on the one client
	// SharedCtx: instead, the calls are made one after the other through proxy functions of DIFFERENT result
	// signatures that all take a context carrying ONE *core.ClientContext (a caller reusing its context);
	// call.F selects the signature: 1 = (string, int, error), 2 = (string, error), 3 = error, 4 = (string, int)
	SharedCtx bool `json:"shared_ctx"`
}

type groupCallObs struct {
	GotS   string `json:"got_s"` // hex
	GotN   int    `json:"got_n"`
	NRes   int    `json:"nres"`
	Failed bool   `json:"failed"`
	Err    string `json:"err,omitempty"`
	Panic  string `json:"panic,omitempty"`
}

type groupLog struct {
	F int    `json:"f"`
	X int    `json:"x"`
	S string `json:"s"` // hex
}

type groupObs struct {
	ID      int            `json:"id"`
	Group   bool           `json:"group"`
	Env     string         `json:"env,omitempty"`
	Calls   []groupCallObs `json:"calls"`
	Log     []groupLog     `json:"log"`
	Overlap int            `json:"overlap"`           // how many calls were held in the service at the same time
	SeqOK   int            `json:"seq_ok"`            // sequential family: calls that returned their own result
	SeqBad  string         `json:"seq_bad,omitempty"` // the first call that did not
	SeqRuns int            `json:"seq_runs"`          // entries into the function
}

func concName(k int) string { return fmt.Sprintf("conc_f%d", k) }

// what function k returns for (x, s): the check computes the same, independently
func concResult(k, x int, s string) (string, int) {
	return fmt.Sprintf("f%d(%d,%s)", k, x, s), x*100 + k
}

func runGroup(line []byte, out *json.Encoder) error {
	var c groupCase
	if err := json.Unmarshal(line, &c); err != nil {
		return err
	}
	obs := groupObs{ID: c.ID, Group: true, Calls: make([]groupCallObs, len(c.Calls))}
	service := rpc.NewService()
	service.Codec = core.NewServiceCodec(codecOptions(c.Sopts, true)...)
	var mu sync.Mutex
	for k := 1; k <= c.NFuncs; k++ {
		k := k
		service.AddFunction(func(x int, s string) (string, int, error) {
			mu.Lock()
			obs.Log = append(obs.Log, groupLog{F: k, X: x, S: hexs(s)})
			mu.Unlock()
			r, n := concResult(k, x, s)
			return r, n, nil
		}, concName(k))
	}
	if c.Seq > 0 {
		return runSequence(&c, service, &obs, &mu, out)
	}
	if c.SharedCtx {
		return runSharedCtx(&c, service, &obs, &mu, out)
	}
	// the barrier: every call waits, decoded but not yet executed, until all calls of the group are there
	var arrived int32
	all := make(chan struct{})
	var once sync.Once
	n := int32(len(c.Calls))
	service.Use(core.InvokeHandler(func(ctx context.Context, name string, args []interface{}, next core.NextInvokeHandler) ([]interface{}, error) {
		if atomic.AddInt32(&arrived, 1) >= n {
			once.Do(func() { close(all) })
		}
		select {
		case <-all:
		case <-time.After(3 * time.Second):
		}
		return next(ctx, name, args)
	}))
	cc := c08Case{Transport: c.Transport, Pool: c.Pool}
	var srv *server
	var err error
	for attempt := 0; attempt < 3; attempt++ {
		if srv, err = start(&cc, service); err == nil {
			break
		}
		time.Sleep(30 * time.Millisecond)
	}
	if err != nil {
		obs.Env = "server: " + err.Error()
		return out.Encode(&obs)
	}
	defer srv.close()
	if c.Transport != "mock" {
		time.Sleep(5 * time.Millisecond)
	}
	client := rpc.NewClient(srv.url)
	client.Codec = core.NewClientCodec(codecOptions(c.Copts, false)...)
	client.Timeout = 10 * time.Second
	defer client.Abort()
	// the proxy: one field per function
	ft := reflect.TypeOf(func(int, string) (string, int, error) { return "", 0, nil })
	var fields []reflect.StructField
	for k := 1; k <= c.NFuncs; k++ {
		fields = append(fields, reflect.StructField{Name: fmt.Sprintf("F%d", k), Type: ft,
			Tag: reflect.StructTag(`name:"` + concName(k) + `"`)})
	}
	pv := reflect.New(reflect.StructOf(fields))
	client.UseService(pv.Interface())
	strT, intT := reflect.TypeOf(""), reflect.TypeOf(0)
	var wg sync.WaitGroup
	for i := range c.Calls {
		wg.Add(1)
		go func(i int) {
			defer wg.Done()
			call := c.Calls[i]
			o := &obs.Calls[i]
			s := unhexs(call.S)
			o.Panic = safely(func() {
				if call.Via == "proxy" {
					outs := pv.Elem().Field(call.F - 1).Call([]reflect.Value{reflect.ValueOf(call.X), reflect.ValueOf(s)})
					o.GotS, o.GotN, o.NRes = hexs(outs[0].String()), int(outs[1].Int()), 2
					if !outs[2].IsNil() {
						o.Failed, o.Err = true, outs[2].Interface().(error).Error()
					}
					return
				}
				ctx := core.NewClientContext()
				ctx.ReturnType = []reflect.Type{strT, intT}
				r, e := client.InvokeContext(core.WithContext(context.Background(), ctx), concName(call.F), []interface{}{call.X, s})
				if e != nil {
					o.Failed, o.Err = true, e.Error()
				}
				o.NRes = len(r)
				if len(r) > 0 {
					if v, ok := r[0].(string); ok {
						o.GotS = hexs(v)
					}
				}
				if len(r) > 1 {
					if v, ok := r[1].(int); ok {
						o.GotN = v
					}
				}
			})
		}(i)
	}
	wg.Wait()
	obs.Overlap = int(atomic.LoadInt32(&arrived))
	select {
	case <-all:
	default:
		obs.Overlap = -obs.Overlap // the barrier timed out: the calls did not overlap
	}
	for _, o := range obs.Calls {
		if o.Failed && isEnv(o.Err) {
			obs.Env = "client: " + o.Err
		}
	}
	time.Sleep(2 * time.Millisecond)
	mu.Lock()
	defer mu.Unlock()
	return out.Encode(&obs)
}

// runSequence: many calls one after the other on ONE client connection (request indexes wrap on some transports)
func runSequence(c *groupCase, service *core.Service, obs *groupObs, mu *sync.Mutex, out *json.Encoder) error {
	cc := c08Case{Transport: c.Transport, Pool: c.Pool}
	srv, err := start(&cc, service)
	if err != nil {
		obs.Env = "server: " + err.Error()
		return out.Encode(obs)
	}
	defer srv.close()
	time.Sleep(5 * time.Millisecond)
	client := rpc.NewClient(srv.url)
	client.Codec = core.NewClientCodec(codecOptions(c.Copts, false)...)
	client.Timeout = 2 * time.Second
	defer client.Abort()
	strT, intT := reflect.TypeOf(""), reflect.TypeOf(0)
	for i := 1; i <= c.Seq; i++ {
		if i%1000 == 0 {
			hvlibBegin(c.ID) // a long case: keep the watchdog fed
		}
		ctx := core.NewClientContext()
		ctx.ReturnType = []reflect.Type{strT, intT}
		r, e := client.InvokeContext(core.WithContext(context.Background(), ctx), concName(1), []interface{}{i, ""})
		ws, wn := concResult(1, i, "")
		if e != nil || len(r) != 2 || r[0] != ws || r[1] != wn {
			obs.SeqBad = fmt.Sprintf("call #%d: got %v, %v; want [%s %d]", i, r, e, ws, wn)
			break
		}
		obs.SeqOK++
	}
	mu.Lock()
	obs.SeqRuns = len(obs.Log)
	obs.Log = nil
	mu.Unlock()
	return out.Encode(obs)
}


// runSharedCtx: proxy functions with different result signatures, all published as conc_f1, called one
// after the other with ONE *core.ClientContext carried by the context argument.
func runSharedCtx(c *groupCase, service *core.Service, obs *groupObs, mu *sync.Mutex, out *json.Encoder) error {
	cc := c08Case{Transport: c.Transport, Pool: c.Pool}
	srv, err := start(&cc, service)
	if err != nil {
		obs.Env = "server: " + err.Error()
		return out.Encode(obs)
	}
	defer srv.close()
	time.Sleep(5 * time.Millisecond)
	client := rpc.NewClient(srv.url)
	client.Codec = core.NewClientCodec(codecOptions(c.Copts, false)...)
	client.Timeout = 5 * time.Second
	defer client.Abort()
	var proxy struct {
		G1 func(context.Context, int, string) (string, int, error) `name:"conc_f1"`
		G2 func(context.Context, int, string) (string, error)      `name:"conc_f1"`
		G3 func(context.Context, int, string) error                `name:"conc_f1"`
		G4 func(context.Context, int, string) (string, int)        `name:"conc_f1"`
	}
	client.UseService(&proxy)
	cctx := core.NewClientContext()
	ctx := core.WithContext(context.Background(), cctx)
	for i := range c.Calls {
		call := c.Calls[i]
		o := &obs.Calls[i]
		s := unhexs(call.S)
		o.Panic = safely(func() {
			var e error
			switch call.F {
			case 1:
				var r string
				var n int
				r, n, e = proxy.G1(ctx, call.X, s)
				o.GotS, o.GotN, o.NRes = hexs(r), n, 2
			case 2:
				var r string
				r, e = proxy.G2(ctx, call.X, s)
				o.GotS, o.NRes = hexs(r), 1
			case 3:
				e = proxy.G3(ctx, call.X, s)
			default:
				r, n := proxy.G4(ctx, call.X, s)
				o.GotS, o.GotN, o.NRes = hexs(r), n, 2
			}
			if e != nil {
				o.Failed, o.Err = true, e.Error()
			}
		})
		if o.Failed && isEnv(o.Err) {
			obs.Env = "client: " + o.Err
		}
	}
	mu.Lock()
	defer mu.Unlock()
	return out.Encode(obs)
}
