// hv-c08: implementation side of C08 (a remote call returns what the service function returns).
// One JSON case per line.  A real Service publishes functions built with reflect.FuncOf/MakeFunc from the
// case's signature (every entry into a function is logged), is bound to a real server of the case's transport
// (mock, tcp, unix, net/http, fasthttp, websocket, udp; with or without a worker pool), and a real Client calls
// it through a proxy built by Client.UseService or through InvokeContext.  The same function is also called
// directly ("local").  Only observations are printed; the check compares.
package main

import (
	"context"
	"encoding/hex"
	"encoding/json"
	"errors"
	"fmt"
	"io/ioutil"
	"net"
	"net/http"
	"os"
	"path/filepath"
	"reflect"
	"sort"
	"strings"
	"sync"
	"time"

	hio "github.com/hprose/hprose-golang/v3/io"
	"github.com/hprose/hprose-golang/v3/rpc"
	"github.com/hprose/hprose-golang/v3/rpc/core"
	rpchttp "github.com/hprose/hprose-golang/v3/rpc/http"
	rpcfasthttp "github.com/hprose/hprose-golang/v3/rpc/http/fasthttp"
	"github.com/hprose/hprose-golang/v3/rpc/mock"
	"github.com/valyala/fasthttp"
	"hv/hvlib"
)

type methodJ struct {
	ID       int    `json:"id"`
	Name     string `json:"name"` // hex: the alias it is registered under
	Missing  bool   `json:"missing"`
	Ctx      bool   `json:"ctx"`
	Params   []int  `json:"params"`
	Variadic bool   `json:"variadic"`
	Results  []int  `json:"results"`
	Err      bool   `json:"err"`
	ErrType  string `json:"err_type"` // "" = the interface type error; ptrstruct | slice | string = a concrete type implementing error
	Behave   string `json:"behave"`   // script | echo
}

type resJ struct {
	Kind   string `json:"kind"` // values | error | panic
	Values []valJ `json:"values"`
	Msg    string `json:"msg"`
	PanicT string `json:"panic_type"` // string | error | int : what is handed to panic()
}

type proxyJ struct {
	Path     []string `json:"path"` // Go field names, outermost first (exported identifiers)
	Embed    []bool   `json:"embed"` // per path element: the field is embedded (anonymous): it adds no name segment
	PtrLevel []bool   `json:"ptr"`   // per path element (but the last): the nested struct is held by pointer
	Tag      string   `json:"tag"`  // hex: name:"..." tag, "" = none
	NS       string   `json:"ns"`   // hex: namespace given to UseService
	Ctx      bool     `json:"ctx"`  // the proxy function takes a leading context.Context
	Variadic bool     `json:"variadic"`
	Params   []int    `json:"params"`
	Outs     []int    `json:"outs"` // -1 = interface{}
	Err      bool     `json:"err"`
}

type c08Case struct {
	ID        int       `json:"id"`
	Transport string    `json:"transport"`
	Pool      bool      `json:"pool"`
	Copts     optsJ     `json:"copts"`
	Sopts     optsJ     `json:"sopts"`
	Types     []*TD     `json:"types"`
	Methods   []methodJ `json:"methods"`
	Via       string    `json:"via"`  // invoke | proxy
	Call      string    `json:"call"` // hex: the name handed to Invoke
	Proxy     *proxyJ   `json:"proxy"`
	Args      []valJ    `json:"args"`
	Want      []int     `json:"want"`
	Hdrs      []hdrJ    `json:"hdrs"`
	Rhdrs     []hdrJ    `json:"rhdrs"` // response headers, set by a service-side invoke plugin
	Res       resJ      `json:"res"`
	Rtypes    []int     `json:"rtypes"`
	RtDef     bool      `json:"rt_default"`
	Group     bool      `json:"group"` // a group of concurrent calls: see group.go
}

type sideObs struct {
	Failed  bool     `json:"failed"`
	Results []tv     `json:"results"`
	Err     string   `json:"err,omitempty"`
	ErrKind string   `json:"err_kind,omitempty"`
	Panic   string   `json:"panic,omitempty"`
	HasPan  bool     `json:"has_panic,omitempty"`
	Eq      []string `json:"eq,omitempty"` // remote only: result i equals the local result i
}

type logEntry struct {
	ID   int      `json:"id"`
	Name string   `json:"name,omitempty"` // hex: missing-method handler only
	Args []string `json:"args"`           // unfolded walker text
	Miss bool     `json:"missing,omitempty"`
	NilC bool     `json:"nil_ctx,omitempty"`
}

type c08Obs struct {
	ID        int        `json:"id"`
	BuildErr  string     `json:"build_err,omitempty"`
	Env       string     `json:"env,omitempty"` // environment trouble (port, socket): never a verdict
	Heap      string     `json:"heap"`
	ArgsSx    []string   `json:"args_sx"`
	HdrsSx    []kv       `json:"hdrs_sx"`
	ResSx     []string   `json:"res_sx"`
	Unordered bool       `json:"unordered,omitempty"`
	Unsup     string     `json:"unsup,omitempty"`
	TypeNames []string   `json:"type_names"`
	Lower     []kv       `json:"lower"`
	Name      string     `json:"name"` // hex: the name that goes on the wire (after mangling), as seen by a client IO plugin
	Sent      int        `json:"sent"` // requests that left the client
	Local     sideObs    `json:"local"`
	LocalLog  []logEntry `json:"local_log"`
	Remote    sideObs    `json:"remote"`
	Log       []logEntry `json:"log"` // entries into published functions during the remote call
	OrArgs    []tv       `json:"or_args"`
	OrHdrs    []kv       `json:"or_hdrs"`
	OrRes     []tv       `json:"or_res"`
	Zeros     []tv       `json:"zeros"`
}

var (
	ctxType = reflect.TypeOf((*context.Context)(nil)).Elem()
	logMu   sync.Mutex
)

type built struct {
	types  []reflect.Type
	args   []reflect.Value
	rhdrs  []reflect.Value
	hdrs   []reflect.Value
	res    []reflect.Value
	rtypes []reflect.Type
}

func build(c *c08Case) (*built, error) {
	b := &built{}
	for _, td := range c.Types {
		t, err := typeOf(td)
		if err != nil {
			return nil, err
		}
		b.types = append(b.types, t)
	}
	bl := &builder{ptrs: map[int]reflect.Value{}}
	mk := func(v valJ) (reflect.Value, error) {
		t, err := typeOf(v.T)
		if err != nil {
			return reflect.Value{}, err
		}
		holder := reflect.New(t)
		if err := bl.fill(holder.Elem(), v.V); err != nil {
			return reflect.Value{}, err
		}
		return holder.Elem(), nil
	}
	for _, a := range c.Args {
		v, err := mk(a)
		if err != nil {
			return nil, fmt.Errorf("arg: %v", err)
		}
		b.args = append(b.args, v)
	}
	// the same order as the generator's: a value may refer to a pointer defined by an earlier one
	for _, r := range c.Res.Values {
		v, err := mk(r)
		if err != nil {
			return nil, fmt.Errorf("res: %v", err)
		}
		b.res = append(b.res, v)
	}
	for _, h := range c.Hdrs {
		v, err := mk(h.V)
		if err != nil {
			return nil, fmt.Errorf("hdr: %v", err)
		}
		b.hdrs = append(b.hdrs, v)
	}
	for _, h := range c.Rhdrs {
		v, err := mk(h.V)
		if err != nil {
			return nil, fmt.Errorf("rhdr: %v", err)
		}
		b.rhdrs = append(b.rhdrs, v)
	}
	tix := func(i int) (reflect.Type, error) {
		if i < 0 {
			return ifaceType, nil
		}
		if i >= len(b.types) {
			return nil, fmt.Errorf("type index %d out of range", i)
		}
		return b.types[i], nil
	}
	if c.Rtypes != nil {
		b.rtypes = []reflect.Type{}
		for _, i := range c.Rtypes {
			t, err := tix(i)
			if err != nil {
				return nil, err
			}
			b.rtypes = append(b.rtypes, t)
		}
	}
	for _, m := range c.Methods {
		for _, i := range append(append([]int{}, m.Params...), m.Results...) {
			if _, err := tix(i); err != nil {
				return nil, err
			}
		}
	}
	if c.Proxy != nil {
		for _, i := range append(append([]int{}, c.Proxy.Params...), c.Proxy.Outs...) {
			if _, err := tix(i); err != nil {
				return nil, err
			}
		}
	}
	return b, nil
}

func describeAll(c *c08Case, b *built, obs *c08Obs) {
	w := &walker{ids: map[ptrKey]int{}}
	one := func(v reflect.Value) string {
		iv := reflect.New(ifaceType).Elem()
		if x := ifaceOf(v); x != nil {
			iv.Set(reflect.ValueOf(x))
		}
		return w.walk(iv)
	}
	for _, a := range b.args {
		obs.ArgsSx = append(obs.ArgsSx, one(a))
	}
	for i, h := range c.Hdrs {
		obs.HdrsSx = append(obs.HdrsSx, kv{h.K, one(b.hdrs[i])})
	}
	for _, r := range b.res {
		obs.ResSx = append(obs.ResSx, one(r))
	}
	var sb strings.Builder
	sb.WriteString("(heap")
	for i, h := range w.heap {
		fmt.Fprintf(&sb, " (%d %s)", i+1, h)
	}
	sb.WriteString(")")
	obs.Heap = sb.String()
	obs.Unordered = w.unordered
	obs.Unsup = w.unsup
}

// unfoldTop: like unfoldI, but a typed nil (a nil slice, map or pointer held in the interface) at top level is
// printed (tnil): reflect.ValueOf of it is a valid Value, unlike reflect.ValueOf of a nil interface
func unfoldTop(x interface{}) string {
	if x != nil {
		v := reflect.ValueOf(x)
		switch v.Kind() {
		case reflect.Ptr, reflect.Map, reflect.Slice:
			if v.IsNil() {
				return "(tnil)"
			}
		}
	}
	return unfoldI(x)
}

func panicValue(c *c08Case) interface{} {
	msg := unhexs(c.Res.Msg)
	switch c.Res.PanicT {
	case "error":
		return errors.New(msg)
	case "int":
		var n int
		fmt.Sscanf(msg, "%d", &n)
		return n
	}
	return msg
}

// the outcome of a missing-method handler
func scripted(c *c08Case, b *built) ([]interface{}, error) {
	switch c.Res.Kind {
	case "error":
		return nil, errors.New(unhexs(c.Res.Msg))
	case "panic":
		panic(panicValue(c))
	}
	out := make([]interface{}, len(b.res))
	for i, r := range b.res {
		out[i] = ifaceOf(r)
	}
	return out, nil
}

func funcType(b *built, m methodJ) (reflect.Type, []reflect.Type, error) {
	var in, outT []reflect.Type
	if m.Ctx {
		in = append(in, ctxType)
	}
	for _, i := range m.Params {
		in = append(in, b.types[i])
	}
	for _, i := range m.Results {
		if i < 0 {
			outT = append(outT, ifaceType)
		} else {
			outT = append(outT, b.types[i])
		}
	}
	if m.Err {
		if et, ok := errTypes[m.ErrType]; ok {
			outT = append(outT, et)
		} else {
			outT = append(outT, errorType)
		}
	}
	if m.Variadic && (len(in) == 0 || in[len(in)-1].Kind() != reflect.Slice) {
		return nil, nil, fmt.Errorf("variadic method needs a final slice parameter")
	}
	return reflect.FuncOf(in, outT, m.Variadic), outT, nil
}

// makeFunc: a function of the case's signature; logs every entry; returns the scripted results or echoes its arguments
func makeFunc(c *c08Case, b *built, m methodJ, log *[]logEntry) (reflect.Value, error) {
	ft, outT, err := funcType(b, m)
	if err != nil {
		return reflect.Value{}, err
	}
	id := m.ID
	return reflect.MakeFunc(ft, func(args []reflect.Value) []reflect.Value {
		le := logEntry{ID: id, Args: []string{}}
		var data []reflect.Value
		for i, a := range args {
			if m.Ctx && i == 0 {
				le.NilC = a.IsNil()
				continue
			}
			if m.Variadic && i == len(args)-1 {
				for j := 0; j < a.Len(); j++ {
					le.Args = append(le.Args, unfoldI(a.Index(j).Interface()))
					data = append(data, a.Index(j))
				}
				continue
			}
			le.Args = append(le.Args, unfoldI(a.Interface()))
			data = append(data, a)
		}
		logMu.Lock()
		*log = append(*log, le)
		logMu.Unlock()
		res := make([]reflect.Value, len(outT))
		for i := range outT {
			res[i] = reflect.Zero(outT[i])
		}
		switch c.Res.Kind {
		case "error":
			if m.Err {
				if _, ok := errTypes[m.ErrType]; ok {
					res[len(outT)-1] = errValue(m.ErrType, unhexs(c.Res.Msg))
				} else {
					res[len(outT)-1] = reflect.ValueOf(errors.New(unhexs(c.Res.Msg))).Convert(errorType)
				}
			}
			return res
		case "panic":
			panic(panicValue(c))
		}
		n := len(outT)
		if m.Err {
			n--
		}
		src := b.res
		if m.Behave == "echo" {
			src = data
		}
		for i := 0; i < n && i < len(src); i++ {
			v := src[i]
			if v.Type() == outT[i] {
				res[i] = v
			} else if x := ifaceOf(v); x != nil && reflect.TypeOf(x).AssignableTo(outT[i]) {
				nv := reflect.New(outT[i]).Elem()
				nv.Set(reflect.ValueOf(x))
				res[i] = nv
			}
		}
		return res
	}), nil
}

type goPool struct{}

func (goPool) Submit(f func()) { go f() }

type server struct {
	url   string
	close func()
}

var (
	tmpDir  string
	serial  int
	envErrs = []string{"connection refused", "too many open files", "cannot assign requested address",
		"no buffer space", "address already in use", "bind:", "i/o timeout", "context deadline exceeded", "use of closed network connection"}
)

func isEnv(msg string) bool {
	for _, e := range envErrs {
		if strings.Contains(msg, e) {
			return true
		}
	}
	return false
}

func start(c *c08Case, service *core.Service) (*server, error) {
	serial++
	var pool core.WorkerPool
	if c.Pool {
		pool = goPool{}
	}
	switch c.Transport {
	case "mock":
		name := fmt.Sprintf("hv-c08-%d-%d", os.Getpid(), serial)
		if err := service.Bind(mock.Server{Address: name}); err != nil {
			return nil, err
		}
		return &server{url: "mock://" + name, close: func() { mock.Server{Address: name}.Close() }}, nil
	case "tcp", "unix":
		network, addr := "tcp", "127.0.0.1:0"
		if c.Transport == "unix" {
			if tmpDir == "" {
				d, err := ioutil.TempDir("", "hv-c08-")
				if err != nil {
					return nil, err
				}
				tmpDir = d
			}
			network, addr = "unix", filepath.Join(tmpDir, fmt.Sprintf("s%d.sock", serial))
		}
		ln, err := net.Listen(network, addr)
		if err != nil {
			return nil, err
		}
		rpc.SocketHandler(service).Pool = pool
		if err := service.Bind(ln); err != nil {
			return nil, err
		}
		url := "tcp://" + ln.Addr().String() + "/"
		if c.Transport == "unix" {
			url = "unix://" + addr
		}
		return &server{url: url, close: func() { ln.Close(); os.Remove(addr) }}, nil
	case "udp":
		a, _ := net.ResolveUDPAddr("udp", "127.0.0.1:0")
		conn, err := net.ListenUDP("udp", a)
		if err != nil {
			return nil, err
		}
		rpc.UDPHandler(service).Pool = pool
		if err := service.Bind(conn); err != nil {
			return nil, err
		}
		return &server{url: "udp://" + conn.LocalAddr().String() + "/", close: func() { conn.Close() }}, nil
	case "http", "ws":
		ln, err := net.Listen("tcp", "127.0.0.1:0")
		if err != nil {
			return nil, err
		}
		rpc.WebSocketHandler(service).Pool = pool
		srv := &http.Server{}
		if err := service.Bind(srv); err != nil {
			return nil, err
		}
		go srv.Serve(ln)
		scheme := "http"
		if c.Transport == "ws" {
			scheme = "ws"
		}
		return &server{url: scheme + "://" + ln.Addr().String() + "/", close: func() { srv.Close() }}, nil
	case "fasthttp":
		ln, err := net.Listen("tcp", "127.0.0.1:0")
		if err != nil {
			return nil, err
		}
		srv := &fasthttp.Server{MaxRequestBodySize: 64 << 20}
		if err := service.Bind(srv); err != nil {
			return nil, err
		}
		go srv.Serve(ln)
		return &server{url: "http://" + ln.Addr().String() + "/", close: func() { ln.Close() }}, nil
	}
	return nil, fmt.Errorf("unknown transport %q", c.Transport)
}

func classify(e error, so *sideObs) {
	so.Failed = true
	so.Err = e.Error()
	switch e.(type) {
	case *core.PanicError:
		so.ErrKind = "panicerror"
	case hio.DecodeError:
		so.ErrKind = "decode"
	default:
		if e == core.ErrTimeout {
			so.ErrKind = "timeout"
		} else {
			so.ErrKind = "other"
		}
	}
}

// proxyStruct builds   struct{ P1 struct{ ... Pn func(...) ... `name:"tag"` } }   for the field path
func proxyStruct(ft reflect.Type, p *proxyJ) reflect.Type {
	tag := reflect.StructTag("")
	if p.Tag != "" {
		tag = reflect.StructTag(`name:"` + unhexs(p.Tag) + `"`)
	}
	t := reflect.StructOf([]reflect.StructField{{Name: p.Path[len(p.Path)-1], Type: ft, Tag: tag}})
	for i := len(p.Path) - 2; i >= 0; i-- {
		inner := t
		if i < len(p.PtrLevel) && p.PtrLevel[i] {
			inner = reflect.PtrTo(t)
		}
		t = reflect.StructOf([]reflect.StructField{{Name: p.Path[i], Type: inner, Anonymous: i < len(p.Embed) && p.Embed[i]}})
	}
	return t
}

func runCase(line []byte, out *json.Encoder) error {
	var c c08Case
	if err := json.Unmarshal(line, &c); err != nil {
		return err
	}
	hvlib.Begin(c.ID)
	if c.Group {
		return runGroup(line, out)
	}
	obs := c08Obs{ID: c.ID}
	b, err := build(&c)
	if err != nil {
		obs.BuildErr = err.Error()
		return out.Encode(&obs)
	}
	describeAll(&c, b, &obs)
	for _, t := range b.types {
		obs.TypeNames = append(obs.TypeNames, t.String())
	}

	// ---- the service
	service := rpc.NewService()
	service.Codec = core.NewServiceCodec(codecOptions(c.Sopts, true)...)
	var log []logEntry
	var target reflect.Value
	var targetM *methodJ
	for i := range c.Methods {
		m := c.Methods[i]
		if m.Missing {
			id := m.ID
			if m.Ctx {
				service.AddMissingMethod(func(ctx context.Context, name string, args []interface{}) ([]interface{}, error) {
					le := logEntry{ID: id, Name: hexs(name), Miss: true, Args: []string{}}
					for _, a := range args {
						le.Args = append(le.Args, unfoldI(a))
					}
					logMu.Lock()
					log = append(log, le)
					logMu.Unlock()
					return scripted(&c, b)
				})
			} else {
				service.AddMissingMethod(func(name string, args []interface{}) ([]interface{}, error) {
					le := logEntry{ID: id, Name: hexs(name), Miss: true, Args: []string{}}
					for _, a := range args {
						le.Args = append(le.Args, unfoldI(a))
					}
					logMu.Lock()
					log = append(log, le)
					logMu.Unlock()
					return scripted(&c, b)
				})
			}
			continue
		}
		f, e := makeFunc(&c, b, m, &log)
		if e != nil {
			obs.BuildErr = e.Error()
			return out.Encode(&obs)
		}
		service.AddFunction(f, unhexs(m.Name))
		if i == 0 {
			target, targetM = f, &c.Methods[0]
		}
	}

	if len(c.Rhdrs) > 0 {
		// response headers set while the call is handled (as a plugin or the function itself would)
		service.Use(core.InvokeHandler(func(ctx context.Context, name string, args []interface{}, next core.NextInvokeHandler) ([]interface{}, error) {
			sc := core.GetServiceContext(ctx)
			for i, h := range c.Rhdrs {
				sc.ResponseHeaders().Set(unhexs(h.K), ifaceOf(b.rhdrs[i]))
			}
			return next(ctx, name, args)
		}))
	}

	// ---- the local call: the same function value, called directly with the same arguments
	if targetM != nil && !targetM.Missing {
		func() {
			ft := target.Type()
			var in []reflect.Value
			if targetM.Ctx {
				in = append(in, reflect.ValueOf(context.Background()))
			}
			ok := true
			for i, a := range b.args {
				var pt reflect.Type
				k := i
				if targetM.Ctx {
					k++
				}
				switch {
				case ft.IsVariadic() && k >= ft.NumIn()-1:
					pt = ft.In(ft.NumIn() - 1).Elem()
				case k < ft.NumIn():
					pt = ft.In(k)
				default:
					ok = false
				}
				if !ok {
					break
				}
				v := reflect.New(pt).Elem()
				if x := ifaceOf(a); x != nil {
					if !reflect.TypeOf(x).AssignableTo(pt) {
						ok = false
						break
					}
					v.Set(reflect.ValueOf(x))
				}
				in = append(in, v)
			}
			nfixed := ft.NumIn()
			if ft.IsVariadic() {
				nfixed--
			}
			if !ok || len(in) < nfixed || (!ft.IsVariadic() && len(in) != nfixed) {
				obs.Local.Failed = true
				obs.Local.Err = "not callable locally: the call does not conform to the signature"
				obs.Local.ErrKind = "nonconforming"
				return
			}
			var outs []reflect.Value
			p := safely(func() { outs = target.Call(in) })
			if p != "" {
				obs.Local.Panic, obs.Local.HasPan = p, true
				return
			}
			n := len(outs)
			if targetM.Err {
				last := outs[n-1]
				isNil := false
				switch last.Kind() {
				case reflect.Ptr, reflect.Slice, reflect.Map, reflect.Interface, reflect.Func, reflect.Chan:
					isNil = last.IsNil()
				default:
					isNil = last.IsZero()
				}
				if !isNil {
					classify(last.Interface().(error), &obs.Local)
				}
				n--
			}
			for i := 0; i < n; i++ {
				obs.Local.Results = append(obs.Local.Results, tv{Ty: typeName(outs[i].Interface()), V: unfoldI(outs[i].Interface())})
			}
		}()
		obs.LocalLog = append([]logEntry{}, log...)
		log = nil
	}

	// ---- oracles: the plain io round trip of every argument into the type the property expects
	args := make([]interface{}, len(b.args))
	for i, a := range b.args {
		args[i] = ifaceOf(a)
	}
	var entered []interface{} // what the function is entitled to see
	wantT := make([]reflect.Type, len(args))
	wantN := make([]string, len(args))
	for i := range args {
		wantN[i] = "interface {}"
		if i < len(c.Want) && c.Want[i] >= 0 {
			wantT[i] = b.types[c.Want[i]]
			wantN[i] = wantT[i].String()
		}
	}
	var joint []interface{}
	var jerrs []string
	if len(args) > 0 {
		joint, jerrs = ioTupleRoundTrip(args, wantT, c.Copts.Simple, c.Sopts)
	}
	for i, a := range args {
		e := tv{Ty: wantN[i]}
		so, se := ioRoundTrip(a, wantT[i], c.Copts.Simple, c.Sopts)
		if se != "" {
			e.SoloErr = se
		} else {
			e.Solo, e.SoloEq = unfoldI(so), equalTo(b.args[i], so)
		}
		if jerrs[i] != "" {
			e.Err = jerrs[i]
		} else {
			e.V, e.Eq = unfoldTop(joint[i]), equalTo(b.args[i], joint[i])
		}
		obs.OrArgs = append(obs.OrArgs, e)
		entered = append(entered, joint[i])
	}
	if len(c.Hdrs) > 0 {
		hm := map[string]interface{}{}
		for i, h := range c.Hdrs {
			hm[unhexs(h.K)] = ifaceOf(b.hdrs[i])
		}
		om, e := ioHeadersRoundTrip(hm, c.Copts.Simple, c.Sopts)
		for _, h := range c.Hdrs {
			if e != "" {
				obs.OrHdrs = append(obs.OrHdrs, kv{h.K, "ERR " + e})
			} else {
				obs.OrHdrs = append(obs.OrHdrs, kv{h.K, unfoldI(om[unhexs(h.K)])})
			}
		}
	}
	var rts []reflect.Type
	hasErrSlot := true
	switch {
	case c.Via == "proxy":
		for _, i := range c.Proxy.Outs {
			if i < 0 {
				rts = append(rts, ifaceType)
			} else {
				rts = append(rts, b.types[i])
			}
		}
		hasErrSlot = c.Proxy.Err
	case c.RtDef:
		rts = []reflect.Type{ifaceType}
	default:
		rts = b.rtypes
	}
	// the results the function returns: scripted, or (echo) the arguments it was entered with
	var produced []interface{}
	if targetM != nil && targetM.Behave == "echo" && !targetM.Missing {
		n := len(targetM.Results)
		for i := 0; i < n && i < len(entered); i++ {
			produced = append(produced, entered[i])
		}
	} else {
		for _, r := range b.res {
			produced = append(produced, ifaceOf(r))
		}
	}
	if c.Res.Kind == "values" {
		switch {
		case len(rts) == 1:
			var shaped interface{}
			switch len(produced) {
			case 0:
			case 1:
				shaped = produced[0]
			default:
				shaped = produced
			}
			o, e := ioRoundTrip(shaped, rts[0], c.Sopts.Simple, c.Copts)
			if e != "" {
				obs.OrRes = append(obs.OrRes, tv{Ty: rts[0].String(), Err: e})
			} else {
				obs.OrRes = append(obs.OrRes, tv{Ty: rts[0].String(), V: unfoldTop(o)})
			}
		case len(rts) >= 2:
			var joint []interface{}
			var jerrs []string
			if len(produced) >= 2 {
				joint, jerrs = ioTupleRoundTrip(produced, rts, c.Sopts.Simple, c.Copts)
			}
			for i, r := range produced {
				if i >= len(rts) {
					break
				}
				if joint == nil {
					o, e := ioRoundTrip(r, rts[i], c.Sopts.Simple, c.Copts)
					if e != "" {
						obs.OrRes = append(obs.OrRes, tv{Ty: rts[i].String(), Err: e})
					} else {
						obs.OrRes = append(obs.OrRes, tv{Ty: rts[i].String(), V: unfoldTop(o)})
					}
				} else if jerrs[i] != "" {
					obs.OrRes = append(obs.OrRes, tv{Ty: rts[i].String(), Err: jerrs[i]})
				} else {
					obs.OrRes = append(obs.OrRes, tv{Ty: rts[i].String(), V: unfoldTop(joint[i])})
				}
			}
		}
	}
	for _, t := range rts {
		z := reflect.New(t).Elem()
		obs.Zeros = append(obs.Zeros, tv{Ty: t.String(), V: unfoldI(z.Interface())})
	}

	// ---- the server and the client
	if c.Transport == "fasthttp" {
		rpcfasthttp.RegisterTransport()
		defer rpchttp.RegisterTransport()
	}
	var srv *server
	for attempt := 0; attempt < 3; attempt++ {
		srv, err = start(&c, service)
		if err == nil {
			break
		}
		time.Sleep(30 * time.Millisecond)
	}
	if err != nil {
		obs.Env = "server: " + err.Error()
		return out.Encode(&obs)
	}
	defer srv.close()
	if c.Transport != "mock" {
		time.Sleep(5 * time.Millisecond)
	}
	client := rpc.NewClient(srv.url)
	client.Codec = core.NewClientCodec(codecOptions(c.Copts, false)...)
	client.Timeout = 10 * time.Second
	defer client.Abort()
	names := map[string]bool{"*": true, "~": true}
	client.Use(core.IOHandler(func(ctx context.Context, request []byte, next core.NextIOHandler) ([]byte, error) {
		obs.Sent++
		return next(ctx, request)
	}), core.InvokeHandler(func(ctx context.Context, name string, args []interface{}, next core.NextInvokeHandler) ([]interface{}, error) {
		obs.Name = hexs(name)
		names[name] = true
		return next(ctx, name, args)
	}))
	clientCtx := core.NewClientContext()
	for i, h := range c.Hdrs {
		if c.Via == "proxy" && !c.Proxy.Ctx {
			// a proxy function without a context parameter: the headers are the client's global request headers
			client.RequestHeaders().Set(unhexs(h.K), ifaceOf(b.hdrs[i]))
		} else {
			clientCtx.RequestHeaders().Set(unhexs(h.K), ifaceOf(b.hdrs[i]))
		}
	}
	ctx := core.WithContext(context.Background(), clientCtx)

	remote := func() {
		if c.Via == "proxy" {
			p := c.Proxy
			var in, outT []reflect.Type
			if p.Ctx {
				in = append(in, ctxType)
			}
			for _, i := range p.Params {
				in = append(in, b.types[i])
			}
			outT = append(outT, rts...)
			if p.Err {
				outT = append(outT, errorType)
			}
			ft := reflect.FuncOf(in, outT, p.Variadic)
			st := proxyStruct(ft, p)
			pv := reflect.New(st)
			if p.NS != "" {
				client.UseService(pv.Interface(), unhexs(p.NS))
			} else {
				client.UseService(pv.Interface())
			}
			fv := pv.Elem()
			for range p.Path {
				for fv.Kind() == reflect.Ptr {
					fv = fv.Elem()
				}
				fv = fv.Field(0)
			}
			var inv []reflect.Value
			if p.Ctx {
				inv = append(inv, reflect.ValueOf(ctx))
			}
			for i, a := range b.args {
				k := i
				if p.Ctx {
					k++
				}
				var pt reflect.Type
				if ft.IsVariadic() && k >= ft.NumIn()-1 {
					pt = ft.In(ft.NumIn() - 1).Elem()
				} else if k < ft.NumIn() {
					pt = ft.In(k)
				} else {
					obs.BuildErr = "proxy call with more arguments than the proxy function takes"
					return
				}
				v := reflect.New(pt).Elem()
				if x := ifaceOf(a); x != nil {
					if !reflect.TypeOf(x).AssignableTo(pt) {
						obs.BuildErr = fmt.Sprintf("argument %d (%s) is not assignable to the proxy parameter %s", i, reflect.TypeOf(x), pt)
						return
					}
					v.Set(reflect.ValueOf(x))
				}
				inv = append(inv, v)
			}
			var outs []reflect.Value
			pm := safely(func() { outs = fv.Call(inv) })
			if pm != "" {
				obs.Remote.Panic, obs.Remote.HasPan = pm, true
				return
			}
			n := len(outs)
			if p.Err {
				if !outs[n-1].IsNil() {
					classify(outs[n-1].Interface().(error), &obs.Remote)
				}
				n--
			}
			for i := 0; i < n; i++ {
				obs.Remote.Results = append(obs.Remote.Results, tv{Ty: typeName(outs[i].Interface()), V: unfoldI(outs[i].Interface())})
			}
			return
		}
		if !c.RtDef {
			clientCtx.ReturnType = rts
			if clientCtx.ReturnType == nil {
				clientCtx.ReturnType = []reflect.Type{}
			}
		}
		var results []interface{}
		pm := safely(func() {
			r, e := client.InvokeContext(ctx, unhexs(c.Call), args)
			results = r
			if e != nil {
				classify(e, &obs.Remote)
			}
		})
		if pm != "" {
			obs.Remote.Panic, obs.Remote.HasPan = pm, true
			return
		}
		for _, r := range results {
			obs.Remote.Results = append(obs.Remote.Results, tv{Ty: typeName(r), V: unfoldI(r)})
		}
	}
	_ = hasErrSlot
	for attempt := 0; attempt < 3; attempt++ {
		obs.Remote = sideObs{}
		logMu.Lock()
		log = nil
		logMu.Unlock()
		obs.Sent = 0
		remote()
		if obs.Remote.Failed && isEnv(obs.Remote.Err) && c.Res.Kind == "values" {
			time.Sleep(50 * time.Millisecond)
			continue // environment trouble: try again, never a verdict
		}
		break
	}
	if obs.Remote.Failed && isEnv(obs.Remote.Err) && !strings.Contains(unhexs(c.Res.Msg), obs.Remote.Err) {
		obs.Env = "client: " + obs.Remote.Err
	}
	// UDP and pooled handlers may still be inside the function when the caller already has its answer only if the
	// answer did not come from it; give stray goroutines a moment before reading the log
	time.Sleep(2 * time.Millisecond)
	logMu.Lock()
	obs.Log = append([]logEntry{}, log...)
	logMu.Unlock()
	for n := range names {
		obs.Lower = append(obs.Lower, kv{hexs(n), hexs(strings.ToLower(n))})
	}
	for _, m := range c.Methods {
		n := unhexs(m.Name)
		if !names[n] {
			obs.Lower = append(obs.Lower, kv{hexs(n), hexs(strings.ToLower(n))})
		}
	}
	sort.Slice(obs.Lower, func(i, j int) bool { return obs.Lower[i].K < obs.Lower[j].K })
	return out.Encode(&obs)
}

func main() {
	if len(os.Args) > 1 && os.Args[1] == "-types" {
		reg := map[string]*TD{}
		for name, t := range registry {
			reg[name] = descOf(t, true)
		}
		json.NewEncoder(os.Stdout).Encode(reg)
		return
	}
	_ = hex.EncodeToString
	hvlib.Main(runCase)
	if tmpDir != "" {
		os.RemoveAll(tmpDir)
	}
}
