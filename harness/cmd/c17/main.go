package main

import (
	"context"
	"encoding/json"
	"errors"
	"fmt"
	"reflect"
	"runtime"
	"sync"
	"sync/atomic"
	"time"
	"unsafe"

	"github.com/hprose/hprose-golang/v3/io"
	"github.com/hprose/hprose-golang/v3/rpc/core"
	"github.com/hprose/hprose-golang/v3/rpc/plugins/limiter"
	"hv/hvlib"
)

// C17: drive the real limiter plugins.
//
// kind "sem":  ConcurrentLimiter installed with Client.Use on a real core.Client, followed by
//   an instrumented scripted IO handler (never calls next) that counts the requests in
//   flight, appends every event to one log under one mutex, and holds each request until the
//   controller lets it end in a chosen way (response / error / panic).  The controller runs
//   the script of the case; every wait has a watchdog, so a limiter that wedges yields an
//   observation ("stuck") instead of a hang.
// kind "rate": RateLimiter.Acquire(ctx, tokens) called sequentially; wall clock read before
//   and after each call; l.next read (reflect, read-only) before and after each call.
// kind "plug": RateLimiter installed with Client.Use (both its InvokeHandler and IOHandler),
//   followed by a scripted IO handler; one Invoke = Acquire(1) then Acquire(len(request)).
// kind "conc": forced schedules at the verif yield hook between the load and the store of
//   l.next (needs the hook in the tree under test: see hook_verif.go).
//
// The executor only observes; all comparing is done by checks/C17.py.

type semOp struct {
	Op     string `json:"op"` // start | cancel | finish | await_starts | await_done | await_any | sleep | drain
	I      int    `json:"i"`
	K      int    `json:"k"`
	Out    string `json:"out"`    // O | E | P
	Expect string `json:"expect"` // run | block   (start)
	Us     int    `json:"us"`     // sleep; start with ctx "deadline": the deadline
	Ctx    string `json:"ctx"`    // start: "" background | cancelled (before the call) | cancel (by a later cancel op) | deadline
}

type rateCall struct {
	Tokens int `json:"tokens"`
	GapUs  int `json:"gap_us"`
}

type c17Case struct {
	ID   int    `json:"id"`
	Kind string `json:"kind"`
	// sem
	Max        int     `json:"max"`
	TimeoutUs  int     `json:"timeout_us"`
	Ops        []semOp `json:"ops"`
	WatchdogMs int     `json:"watchdog_ms"`
	// rate / plug / conc
	PPS       int64      `json:"pps"`
	Burst     int        `json:"burst"` // maxPermits; -1 = leave the default (+Inf)
	TimeoutNs int64      `json:"timeout_ns"`
	Cancelled bool       `json:"cancelled"` // call with an already cancelled context (Acquire then never sleeps)
	Calls     []rateCall `json:"calls"`
	ArgLen    int        `json:"arg_len"` // plug: size of the byte-slice argument (the IOHandler charges len(request))
	// conc
	Threads int    `json:"threads"`
	Rounds  int    `json:"rounds"`
	Tokens  int    `json:"tokens"`
	Pattern string `json:"pattern"` // interleave | atomic
	// free
	Mode string `json:"mode"` // t1ns | precancelled | concancel | wake
	Via  string `json:"via"`  // acquire | handler
	N    int    `json:"n"`
	Hold int    `json:"hold"`
}

type semEvent struct {
	E  string `json:"e"`           // E entered Handler (about to), S next started, F next about to finish, D caller got its result, C caller's context cancelled by the script
	I  int    `json:"i"`           // request
	O  string `json:"o,omitempty"` // F: O/E/P chosen; D: T timeout error, O/E/P, ? other
	CR int    `json:"cr"`          // ConcurrentRequests() when the event was logged
	FL int    `json:"fl"`          // requests inside next when the event was logged
}

type semObs struct {
	ID       int        `json:"id"`
	Kind     string     `json:"kind"`
	Log      []semEvent `json:"log"`
	Stuck    string     `json:"stuck,omitempty"`
	StuckOp  int        `json:"stuck_op"`
	StuckAt  int        `json:"stuck_at"`
	MaxFL    int32      `json:"max_fl"`
	CREnd    int        `json:"cr_end"`
	MaxProp  int        `json:"max_prop"`
	Launched int        `json:"launched"`
	Msg      string     `json:"msg,omitempty"`
	Skipped  bool       `json:"skipped,omitempty"`
}

var stuckCases int

func okResponse(tag string) []byte {
	enc := new(io.Encoder).Simple(true)
	enc.WriteTag(io.TagResult)
	enc.Encode(tag)
	enc.WriteTag(io.TagEnd)
	return enc.Bytes()
}

func isPanicValue(p interface{}, want string) bool {
	return fmt.Sprint(p) == want
}

func runSem(c *c17Case, out *json.Encoder) error {
	obs := semObs{ID: c.ID, Kind: "sem", StuckOp: -1}
	if stuckCases >= 3 {
		obs.Skipped = true
		return out.Encode(&obs)
	}
	watchdog := time.Duration(c.WatchdogMs) * time.Millisecond
	if watchdog <= 0 {
		watchdog = 1500 * time.Millisecond
	}
	var lim *limiter.ConcurrentLimiter
	if c.TimeoutUs > 0 {
		lim = limiter.NewConcurrentLimiter(c.Max, time.Duration(c.TimeoutUs)*time.Microsecond)
	} else {
		lim = limiter.NewConcurrentLimiter(c.Max)
	}
	obs.MaxProp = lim.MaxConcurrentRequests()
	client := core.NewClient("mock://c17")

	var mu sync.Mutex // the one lock of the event log
	var inflight int32
	var maxfl int32
	n := 0
	for _, op := range c.Ops {
		if op.Op == "start" && op.I+1 > n {
			n = op.I + 1
		}
	}
	rel := make([]chan string, n)
	for i := range rel {
		rel[i] = make(chan string, 1)
	}
	started := []int{}          // requests in the order of their S events
	signalled := map[int]bool{} // requests already told how to end
	done := map[int]string{}    // D events
	hasS := map[int]bool{}
	launched := map[int]bool{}
	logEv := func(e string, i int, o string) { // call with mu held
		obs.Log = append(obs.Log, semEvent{E: e, I: i, O: o, CR: lim.ConcurrentRequests(), FL: int(atomic.LoadInt32(&inflight))})
	}
	scripted := func(ctx context.Context, request []byte, next core.NextIOHandler) ([]byte, error) {
		id := core.GetClientContext(ctx).Items().GetInt("c17id", -1)
		mu.Lock()
		fl := atomic.AddInt32(&inflight, 1)
		if fl > maxfl {
			maxfl = fl
		}
		started = append(started, id)
		hasS[id] = true
		logEv("S", id, "")
		mu.Unlock()
		how := <-rel[id]
		mu.Lock()
		logEv("F", id, how)
		atomic.AddInt32(&inflight, -1)
		mu.Unlock()
		switch how {
		case "O":
			return okResponse(fmt.Sprintf("ok-%d", id)), nil
		case "E":
			return nil, errors.New(fmt.Sprintf("down-%d", id))
		default:
			panic(fmt.Sprintf("boom-%d", id))
		}
	}
	client.Use(lim)
	client.Use(core.IOHandler(scripted))

	cancels := map[int]context.CancelFunc{}
	caller := func(id int, base context.Context) {
		cls := "?"
		msg := ""
		func() {
			defer func() {
				if p := recover(); p != nil {
					if isPanicValue(p, fmt.Sprintf("boom-%d", id)) {
						cls = "P"
					} else {
						cls = "?"
						msg = fmt.Sprintf("panic %v", p)
					}
				}
			}()
			cc := core.NewClientContext()
			cc.Items().Set("c17id", id)
			ctx := core.WithContext(base, cc)
			res, err := client.InvokeContext(ctx, "f", nil)
			switch {
			case err == core.ErrTimeout:
				cls = "T"
			case err != nil && err.Error() == fmt.Sprintf("down-%d", id):
				cls = "E"
			case err == nil && len(res) == 1 && res[0] == fmt.Sprintf("ok-%d", id):
				cls = "O"
			default:
				msg = fmt.Sprintf("res=%v err=%v", res, err)
			}
		}()
		mu.Lock()
		done[id] = cls
		logEv("D", id, cls)
		if msg != "" {
			obs.Msg = msg
		}
		mu.Unlock()
	}

	waitFor := func(pred func() bool) bool { // pred is evaluated with mu held
		deadline := time.Now().Add(watchdog)
		for {
			mu.Lock()
			ok := pred()
			mu.Unlock()
			if ok {
				return true
			}
			if time.Now().After(deadline) {
				return false
			}
			time.Sleep(50 * time.Microsecond)
		}
	}
	finish := func(id int, how string) { // with mu held
		if !signalled[id] {
			signalled[id] = true
			rel[id] <- how
		}
	}
	stuck := func(k int, why string) {
		mu.Lock()
		obs.Stuck = why
		obs.StuckOp = k
		obs.StuckAt = len(obs.Log) // events after this index were logged during the clean-up
		mu.Unlock()
	}

script:
	for k, op := range c.Ops {
		switch op.Op {
		case "start":
			id := op.I
			base := context.Background()
			switch op.Ctx {
			case "cancelled":
				cctx, cancel := context.WithCancel(base)
				cancel()
				base = cctx
			case "cancel":
				cctx, cancel := context.WithCancel(base)
				cancels[id] = cancel
				base = cctx
			case "deadline":
				cctx, cancel := context.WithTimeout(base, time.Duration(op.Us)*time.Microsecond)
				cancels[id] = cancel
				base = cctx
			}
			mu.Lock()
			launched[id] = true
			if op.Ctx == "cancelled" {
				logEv("C", id, "")
			}
			logEv("E", id, "")
			mu.Unlock()
			go caller(id, base)
			if op.Expect == "run" {
				if !waitFor(func() bool { _, d := done[id]; return hasS[id] || d }) {
					stuck(k, fmt.Sprintf("request %d did not get through the limiter", id))
					break script
				}
				mu.Lock()
				through, how := hasS[id], done[id]
				mu.Unlock()
				if !through {
					stuck(k, fmt.Sprintf("request %d was not let through (its caller got %s)", id, how))
					break script
				}
			} else {
				time.Sleep(time.Duration(2) * time.Millisecond) // let it reach the channel operation
			}
		case "cancel":
			if cancel := cancels[op.I]; cancel != nil {
				mu.Lock()
				logEv("C", op.I, "")
				mu.Unlock()
				cancel()
			}
		case "finish":
			var id int
			mu.Lock()
			ok := op.K < len(started)
			if ok {
				id = started[op.K]
				finish(id, op.Out)
			}
			mu.Unlock()
			if !ok {
				stuck(k, fmt.Sprintf("no %d-th started request to finish", op.K))
				break script
			}
			if !waitFor(func() bool { _, d := done[id]; return d }) {
				stuck(k, fmt.Sprintf("request %d was told to end but its caller never returned", id))
				break script
			}
		case "await_starts":
			if !waitFor(func() bool { return len(started) >= op.K }) {
				mu.Lock()
				why := fmt.Sprintf("waiting for start number %d: %d in flight, ConcurrentRequests=%d, max=%d", op.K, atomic.LoadInt32(&inflight), lim.ConcurrentRequests(), c.Max)
				mu.Unlock()
				stuck(k, why)
				break script
			}
		case "await_done":
			id := op.I
			if !waitFor(func() bool { _, d := done[id]; return d }) {
				stuck(k, fmt.Sprintf("request %d neither timed out nor returned", id))
				break script
			}
		case "await_any":
			id := op.I
			if !waitFor(func() bool { _, d := done[id]; return hasS[id] || d }) {
				stuck(k, fmt.Sprintf("request %d neither got through nor returned", id))
				break script
			}
		case "sleep":
			time.Sleep(time.Duration(op.Us) * time.Microsecond)
		case "drain":
			ok := waitFor(func() bool {
				for _, id := range started {
					finish(id, "O")
				}
				for id := range launched {
					if _, d := done[id]; !d {
						return false
					}
				}
				return true
			})
			if !ok {
				mu.Lock()
				why := fmt.Sprintf("drain: %d of %d callers returned, %d in flight, ConcurrentRequests=%d", len(done), len(launched), atomic.LoadInt32(&inflight), lim.ConcurrentRequests())
				mu.Unlock()
				stuck(k, why)
				break script
			}
		default:
			return fmt.Errorf("c17: unknown op %q", op.Op)
		}
	}
	if obs.Stuck != "" {
		stuckCases++
		// let whatever can still end, end (the blocked goroutines of this case are abandoned)
		mu.Lock()
		for _, id := range started {
			finish(id, "O")
		}
		mu.Unlock()
		time.Sleep(5 * time.Millisecond)
	}
	mu.Lock()
	obs.CREnd = lim.ConcurrentRequests()
	obs.MaxFL = maxfl
	obs.Launched = len(launched)
	logCopy := make([]semEvent, len(obs.Log))
	copy(logCopy, obs.Log)
	mu.Unlock()
	o2 := obs
	o2.Log = logCopy
	return out.Encode(&o2)
}

// -------------------------------------------------- timeouts racing with a free or freed slot

// kind "free": the time-out / cancellation of a caller races with a send that can succeed.
//   t1ns         the limiter's timeout is 1ns and it has free capacity: the select sees both
//                branches ready
//   precancelled the caller's context is already cancelled (limiter timeout 50ms, free capacity)
//   concancel    the caller's context is cancelled by another goroutine while Acquire runs
//   wake         the limiter is full, a caller is blocked in Acquire; its context is cancelled
//                and a permit is released back to back (either order)
// Whichever way a race goes, the executor only records, at quiescent points (no call in
// progress), what each call returned and ConcurrentRequests().
type freeStep struct {
	Op    string `json:"op"` // acq | rel | inv
	I     int    `json:"i"`
	Err   string `json:"err,omitempty"` // acq/inv: nil | timeout | other
	CR    int    `json:"cr"`            // ConcurrentRequests() after the step; -1 = not a quiescent point
	Reach int    `json:"reach"`         // inv: how often the downstream handler ran
	Msg   string `json:"msg,omitempty"`
}

type freeObs struct {
	ID         int        `json:"id"`
	Kind       string     `json:"kind"`
	Steps      []freeStep `json:"steps"`
	CREnd      int        `json:"cr_end"`
	FreshOK    bool       `json:"fresh_ok"`
	FreshTries int        `json:"fresh_tries"`
	Stuck      string     `json:"stuck,omitempty"`
}

func runFree(c *c17Case, out *json.Encoder) error {
	obs := freeObs{ID: c.ID, Kind: "free"}
	lim := limiter.NewConcurrentLimiter(c.Max, time.Duration(c.TimeoutNs))
	bg := context.Background()
	next := 0
	newID := func() int { next++; return next - 1 }
	step := func(st freeStep) { obs.Steps = append(obs.Steps, st) }
	held := []int{} // requests whose permit is kept until the end
	cancelled, cancelNow := context.WithCancel(bg)
	cancelNow()

	// permits kept during the whole case (each attempt is itself an observed call)
	for h := 0; h < c.Hold; h++ {
		for try := 0; try < 64; try++ {
			id := newID()
			e, m := errClass(lim.Acquire(bg))
			step(freeStep{Op: "acq", I: id, Err: e, CR: lim.ConcurrentRequests(), Msg: m})
			if e == "nil" {
				held = append(held, id)
				break
			}
		}
	}

	var client *core.Client
	reach := 0
	if c.Via == "handler" {
		client = core.NewClient("mock://c17")
		client.Use(lim)
		client.Use(core.IOHandler(func(ctx context.Context, request []byte, next core.NextIOHandler) ([]byte, error) {
			reach++
			return okResponse("ok"), nil
		}))
	}
	one := func(ctx context.Context) {
		id := newID()
		if c.Via == "handler" {
			reach = 0
			cc := core.NewClientContext()
			res, err := client.InvokeContext(core.WithContext(ctx, cc), "f", nil)
			e, m := errClass(err)
			if err == nil && !(len(res) == 1 && res[0] == "ok") {
				e, m = "other", fmt.Sprintf("res=%v", res)
			}
			step(freeStep{Op: "inv", I: id, Err: e, CR: lim.ConcurrentRequests(), Reach: reach, Msg: m})
			return
		}
		e, m := errClass(lim.Acquire(ctx))
		step(freeStep{Op: "acq", I: id, Err: e, CR: lim.ConcurrentRequests(), Msg: m})
		if e == "nil" {
			lim.Release()
			step(freeStep{Op: "rel", I: id, CR: lim.ConcurrentRequests()})
		}
	}

	switch c.Mode {
	case "t1ns":
		for k := 0; k < c.N; k++ {
			one(bg)
		}
	case "precancelled":
		for k := 0; k < c.N; k++ {
			one(cancelled)
		}
	case "concancel":
		for k := 0; k < c.N; k++ {
			ctx, cancel := context.WithCancel(bg)
			go cancel()
			for x := 0; x < (k*7)%24; x++ { // vary who gets there first
				runtime.Gosched()
			}
			one(ctx)
			cancel()
		}
	case "wake":
		// fill up (limiter timeout is long, contexts are live: these sends cannot lose)
		for lim.ConcurrentRequests() < c.Max {
			id := newID()
			e, m := errClass(lim.Acquire(bg))
			step(freeStep{Op: "acq", I: id, Err: e, CR: lim.ConcurrentRequests(), Msg: m})
			if e != "nil" {
				obs.Stuck = "could not fill the limiter"
				break
			}
			held = append(held, id)
		}
		for k := 0; k < c.N && obs.Stuck == "" && len(held) > 0; k++ {
			ctx, cancel := context.WithCancel(bg)
			id := newID()
			res := make(chan error, 1)
			go func() { res <- lim.Acquire(ctx) }()
			time.Sleep(150 * time.Microsecond) // let it block on the full channel
			h := held[0]
			held = held[1:]
			if k%2 == 0 {
				lim.Release()
				cancel()
			} else {
				cancel()
				lim.Release()
			}
			var err error
			select {
			case err = <-res:
			case <-time.After(3 * time.Second):
				obs.Stuck = fmt.Sprintf("blocked caller %d returned neither after the release nor after the cancellation", id)
			}
			cancel()
			if obs.Stuck != "" {
				break
			}
			e, m := errClass(err)
			step(freeStep{Op: "rel", I: h, CR: -1})
			step(freeStep{Op: "acq", I: id, Err: e, CR: lim.ConcurrentRequests(), Msg: m})
			if e == "nil" {
				held = append(held, id)
			}
			// refill so that the next caller blocks again
			for try := 0; lim.ConcurrentRequests() < c.Max && try < 4; try++ {
				rid := newID()
				e2, m2 := errClass(lim.Acquire(bg))
				step(freeStep{Op: "acq", I: rid, Err: e2, CR: lim.ConcurrentRequests(), Msg: m2})
				if e2 == "nil" {
					held = append(held, rid)
				}
			}
		}
	case "ntcancel":
		// limiter WITHOUT timeout, full; a caller queues with a context that is already
		// cancelled / is cancelled while it is queued / expires while it is queued.  It must stay
		// queued until a permit is released; whatever it returns, and when, is recorded.
		for lim.ConcurrentRequests() < c.Max {
			id := newID()
			e, m := errClass(lim.Acquire(bg))
			step(freeStep{Op: "acq", I: id, Err: e, CR: lim.ConcurrentRequests(), Msg: m})
			if e != "nil" {
				obs.Stuck = "could not fill the limiter"
				break
			}
			held = append(held, id)
		}
		for k := 0; k < c.N && obs.Stuck == "" && len(held) > 0; k++ {
			var ctx context.Context
			var cancel context.CancelFunc
			switch k % 3 {
			case 0:
				ctx, cancel = cancelled, func() {}
			case 1:
				ctx, cancel = context.WithCancel(bg)
			default:
				ctx, cancel = context.WithTimeout(bg, 300*time.Microsecond)
			}
			id := newID()
			res := make(chan error, 1)
			go func() { res <- lim.Acquire(ctx) }()
			if k%3 == 1 {
				time.Sleep(100 * time.Microsecond)
				cancel()
			}
			early := false
			select {
			case err := <-res: // came back although every permit is taken
				early = true
				e, m := errClass(err)
				step(freeStep{Op: "acq", I: id, Err: e, CR: lim.ConcurrentRequests(), Msg: m})
				if e == "nil" {
					held = append(held, id)
				}
			case <-time.After(2 * time.Millisecond):
			}
			if !early {
				h := held[0]
				held = held[1:]
				lim.Release()
				var err error
				select {
				case err = <-res:
				case <-time.After(3 * time.Second):
					obs.Stuck = fmt.Sprintf("queued caller %d did not get the permit that was released", id)
				}
				if obs.Stuck == "" {
					e, m := errClass(err)
					step(freeStep{Op: "rel", I: h, CR: -1})
					step(freeStep{Op: "acq", I: id, Err: e, CR: lim.ConcurrentRequests(), Msg: m})
					if e == "nil" {
						held = append(held, id)
					}
				}
			}
			cancel()
		}
	default:
		return fmt.Errorf("c17: unknown free mode %q", c.Mode)
	}
	// give back what this case itself kept
	for _, id := range held {
		if lim.ConcurrentRequests() == 0 {
			break // nothing to receive: Release would block for ever
		}
		lim.Release()
		step(freeStep{Op: "rel", I: id, CR: lim.ConcurrentRequests()})
	}
	obs.CREnd = lim.ConcurrentRequests()
	// a fresh request must get in (with a 1ns timeout the select may legitimately pick the
	// timer, so try a number of times; with no free slot none of them can succeed)
	// (with a longer timeout a free slot wins at once; a full channel would make every try
	// last the whole timeout, so those get one try under a 100ms watchdog)
	maxTries := 400
	if c.TimeoutNs > 1000 || c.TimeoutNs <= 0 {
		maxTries = 1
	}
	for obs.FreshTries < maxTries && !obs.FreshOK {
		obs.FreshTries++
		got := make(chan error, 1)
		go func() { got <- lim.Acquire(bg) }()
		select {
		case err := <-got:
			if err == nil {
				obs.FreshOK = true
				lim.Release()
			}
		case <-time.After(100 * time.Millisecond):
			go func() { // abandoned: give the permit back should it ever get one
				if <-got == nil {
					lim.Release()
				}
			}()
		}
	}
	return out.Encode(&obs)
}

// ---------------------------------------------------------------------------- rate limiter

// readNext reads the unexported field RateLimiter.next (read-only, atomic).
func readNext(l *limiter.RateLimiter) (int64, bool) {
	f := reflect.ValueOf(l).Elem().FieldByName("next")
	if !f.IsValid() || f.Kind() != reflect.Int64 || !f.CanAddr() {
		return 0, false
	}
	return atomic.LoadInt64((*int64)(unsafe.Pointer(f.UnsafeAddr()))), true
}

func readInterval(l *limiter.RateLimiter) (float64, bool) {
	f := reflect.ValueOf(l).Elem().FieldByName("interval")
	if !f.IsValid() || f.Kind() != reflect.Float64 {
		return 0, false
	}
	return f.Float(), true
}

type rateCallObs struct {
	B     int64  `json:"b"`    // UnixNano just before the call
	A     int64  `json:"a"`    // UnixNano just after it returned
	Err   string `json:"err"`  // nil | timeout | other
	Last  int64  `json:"last"` // l.next before the call
	Next  int64  `json:"next"` // l.next after the call
	Reach int    `json:"reach"`
	Len   int    `json:"len"`
	Msg   string `json:"msg,omitempty"`
}

type rateObs struct {
	ID       int           `json:"id"`
	Kind     string        `json:"kind"`
	T0B      int64         `json:"t0b"`
	T0A      int64         `json:"t0a"`
	Next0    int64         `json:"next0"`
	NextOK   bool          `json:"next_ok"`
	Interval float64       `json:"interval"`
	MaxP     string        `json:"maxp"`
	Timeout  int64         `json:"timeout"`
	Calls    []rateCallObs `json:"calls"`
}

func newRate(c *c17Case) *limiter.RateLimiter {
	opts := []limiter.Option{}
	if c.Burst >= 0 {
		opts = append(opts, limiter.WithMaxPermits(float64(c.Burst)))
	}
	if c.TimeoutNs > 0 {
		opts = append(opts, limiter.WithTimeout(time.Duration(c.TimeoutNs)))
	}
	return limiter.NewRateLimiter(c.PPS, opts...)
}

func errClass(err error) (string, string) {
	switch {
	case err == nil:
		return "nil", ""
	case err == core.ErrTimeout:
		return "timeout", ""
	default:
		return "other", err.Error()
	}
}

func runRate(c *c17Case, out *json.Encoder) error {
	obs := rateObs{ID: c.ID, Kind: c.Kind}
	obs.T0B = time.Now().UnixNano()
	l := newRate(c)
	obs.T0A = time.Now().UnixNano()
	obs.Next0, obs.NextOK = readNext(l)
	obs.Interval, _ = readInterval(l)
	obs.MaxP = fmt.Sprint(l.MaxPermits())
	obs.Timeout = int64(l.Timeout())
	ctx := context.Background()
	if c.Cancelled {
		cctx, cancel := context.WithCancel(ctx)
		cancel()
		ctx = cctx
	}
	var client *core.Client
	var plugArgs []interface{}
	reach := 0
	reqLen := 0
	if c.Kind == "plug" && c.ArgLen > 0 {
		plugArgs = []interface{}{make([]byte, c.ArgLen)}
	}
	if c.Kind == "plug" {
		client = core.NewClient("mock://c17")
		client.Use(l)
		client.Use(core.IOHandler(func(ctx context.Context, request []byte, next core.NextIOHandler) ([]byte, error) {
			reach++
			reqLen = len(request)
			return okResponse("ok"), nil
		}))
	}
	for _, call := range c.Calls {
		if call.GapUs > 0 {
			time.Sleep(time.Duration(call.GapUs) * time.Microsecond)
		}
		co := rateCallObs{}
		co.Last, _ = readNext(l)
		var err error
		if c.Kind == "plug" {
			reach, reqLen = 0, 0
			cc := core.NewClientContext()
			ictx := core.WithContext(ctx, cc)
			var res []interface{}
			co.B = time.Now().UnixNano()
			res, err = client.InvokeContext(ictx, "f", plugArgs)
			co.A = time.Now().UnixNano()
			co.Reach, co.Len = reach, reqLen
			if err == nil && !(len(res) == 1 && res[0] == "ok") {
				co.Msg = fmt.Sprintf("res=%v", res)
			}
		} else {
			co.B = time.Now().UnixNano()
			err = l.Acquire(ctx, call.Tokens)
			co.A = time.Now().UnixNano()
		}
		co.Next, _ = readNext(l)
		var m string
		co.Err, m = errClass(err)
		if m != "" {
			co.Msg = m
		}
		obs.Calls = append(obs.Calls, co)
	}
	return out.Encode(&obs)
}

// runConc is set by hook_verif.go (build tag c17hook) when the tree under test has the
// yield hook between the load and the store of RateLimiter.next.
var runConc func(c *c17Case, out *json.Encoder) error

func c17Run(line []byte, out *json.Encoder) error {
	var c c17Case
	if err := json.Unmarshal(line, &c); err != nil {
		return err
	}
	switch c.Kind {
	case "sem":
		return runSem(&c, out)
	case "free":
		return runFree(&c, out)
	case "rate", "plug":
		return runRate(&c, out)
	case "conc":
		if runConc == nil {
			return out.Encode(map[string]interface{}{"id": c.ID, "kind": "conc", "unsupported": true})
		}
		return runConc(&c, out)
	}
	return fmt.Errorf("c17: unknown kind %q", c.Kind)
}

func main() { hvlib.Main(c17Run) }
