//go:build c17hook
// +build c17hook

package main

// Forced schedules on the real RateLimiter.Acquire.  Compiled only with -tags "verif c17hook",
// which checks/C17.py passes when the tree under test contains the yield hook
// (rpc/plugins/limiter/verif_on.go defining limiter.VerifYieldHook; see hooks/c17-limiter.patch):
//
//     last := atomic.LoadInt64(&l.next)
//     verifYield("rate.loaded")              <- a caller can be held here
//     ...
//     atomic.StoreInt64(&l.next, ...)
//     verifYield("rate.stored")              <- reported, never held
//
// pattern "interleave": in every round all callers are held after their load; only then are
// they let go one by one (each store is seen before the next caller is let go).
// pattern "atomic": one caller at a time; nobody else runs between its load and its store.

import (
	"bytes"
	"context"
	"encoding/json"
	"fmt"
	"runtime"
	"strconv"
	"sync"
	"time"

	"github.com/hprose/hprose-golang/v3/rpc/plugins/limiter"
)

func init() { runConc = runConcHooked }

func goid() int64 {
	var buf [64]byte
	n := runtime.Stack(buf[:], false)
	f := bytes.Fields(buf[:n])
	if len(f) < 2 {
		return -1
	}
	id, err := strconv.ParseInt(string(f[1]), 10, 64)
	if err != nil {
		return -1
	}
	return id
}

type concEv struct {
	E string `json:"e"` // L loaded (held), S stored
	T int    `json:"t"`
	Y int64  `json:"y"` // UnixNano when the event was logged (under the log mutex)
}

type concCall struct {
	T   int    `json:"t"`
	R   int    `json:"r"`
	B   int64  `json:"b"`
	A   int64  `json:"a"`
	Err string `json:"err"`
}

type concObs struct {
	ID      int        `json:"id"`
	Kind    string     `json:"kind"`
	T0B     int64      `json:"t0b"`
	T0A     int64      `json:"t0a"`
	Next0   int64      `json:"next0"`
	NextEnd int64      `json:"next_end"`
	NextOK  bool       `json:"next_ok"`
	Order   []concEv   `json:"order"`
	Calls   []concCall `json:"calls"`
	Stuck   string     `json:"stuck,omitempty"`
}

func runConcHooked(c *c17Case, out *json.Encoder) error {
	obs := concObs{ID: c.ID, Kind: "conc"}
	watchdog := 3 * time.Second
	var mu sync.Mutex
	threadOf := map[int64]int{}
	gates := make([]chan struct{}, c.Threads)
	arrived := make(chan int, 4*c.Threads)
	stored := make(chan int, 4*c.Threads)
	limiter.VerifYieldHook = func(point string) {
		g := goid()
		mu.Lock()
		t, ok := threadOf[g]
		if !ok {
			mu.Unlock()
			return
		}
		switch point {
		case "rate.loaded":
			obs.Order = append(obs.Order, concEv{E: "L", T: t, Y: time.Now().UnixNano()})
			gate := gates[t]
			mu.Unlock()
			arrived <- t
			<-gate
		case "rate.stored":
			obs.Order = append(obs.Order, concEv{E: "S", T: t, Y: time.Now().UnixNano()})
			mu.Unlock()
			stored <- t
		default:
			mu.Unlock()
		}
	}
	defer func() { limiter.VerifYieldHook = nil }()

	obs.T0B = time.Now().UnixNano()
	l := newRate(c)
	obs.T0A = time.Now().UnixNano()
	obs.Next0, obs.NextOK = readNext(l)

	doneCh := make(chan concCall, 4*c.Threads)
	launch := func(t, r int) {
		mu.Lock()
		gates[t] = make(chan struct{}, 1)
		mu.Unlock()
		go func() {
			mu.Lock()
			threadOf[goid()] = t
			mu.Unlock()
			cc := concCall{T: t, R: r}
			cc.B = time.Now().UnixNano()
			err := l.Acquire(context.Background(), c.Tokens)
			cc.A = time.Now().UnixNano()
			cc.Err, _ = errClass(err)
			mu.Lock()
			delete(threadOf, goid())
			mu.Unlock()
			doneCh <- cc
		}()
	}
	recv := func(ch chan int) (int, bool) {
		select {
		case t := <-ch:
			return t, true
		case <-time.After(watchdog):
			return -1, false
		}
	}
	recvDone := func() bool {
		select {
		case cc := <-doneCh:
			obs.Calls = append(obs.Calls, cc)
			return true
		case <-time.After(watchdog):
			return false
		}
	}

rounds:
	for r := 0; r < c.Rounds; r++ {
		if c.Pattern == "interleave" {
			for t := 0; t < c.Threads; t++ {
				launch(t, r)
			}
			order := []int{}
			for k := 0; k < c.Threads; k++ {
				t, ok := recv(arrived)
				if !ok {
					obs.Stuck = fmt.Sprintf("round %d: only %d callers reached the yield point", r, k)
					break rounds
				}
				order = append(order, t)
			}
			for _, t := range order {
				gates[t] <- struct{}{}
				if _, ok := recv(stored); !ok {
					obs.Stuck = fmt.Sprintf("round %d: caller %d never stored", r, t)
					break rounds
				}
			}
			for k := 0; k < c.Threads; k++ {
				if !recvDone() {
					obs.Stuck = fmt.Sprintf("round %d: a caller never returned", r)
					break rounds
				}
			}
		} else {
			for t := 0; t < c.Threads; t++ {
				launch(t, r)
				if _, ok := recv(arrived); !ok {
					obs.Stuck = fmt.Sprintf("round %d: caller %d never reached the yield point", r, t)
					break rounds
				}
				gates[t] <- struct{}{}
				if _, ok := recv(stored); !ok {
					obs.Stuck = fmt.Sprintf("round %d: caller %d never stored", r, t)
					break rounds
				}
				if !recvDone() {
					obs.Stuck = fmt.Sprintf("round %d: caller %d never returned", r, t)
					break rounds
				}
			}
		}
	}
	obs.NextEnd, _ = readNext(l)
	mu.Lock()
	defer mu.Unlock()
	return out.Encode(&obs)
}
