package main

import (
	"container/list"
	"encoding/hex"
	"fmt"
	"math"
	"math/big"
	"reflect"
	"sort"
	"strconv"
	"strings"
	"time"

	"github.com/google/uuid"
)

// xwalker prints a decoded Go value as the model's xval S-expression (extract/drv_c06.ml `show`):
// plain reflection plus the standard library's own formatting routines; pointers are unfolded,
// a pointer already on the path is printed as (cyc k), k = distance up the path.
type xwalker struct {
	stack []ptrKey
	unsup string
}

type ptrKey struct {
	t reflect.Type
	p uintptr
}

func hx(b []byte) string { return "x" + hex.EncodeToString(b) }

func fvalSexp(f float64, bits int) string {
	switch {
	case f != f:
		return "nan"
	case math.IsInf(f, 1):
		return "inf0"
	case math.IsInf(f, -1):
		return "inf1"
	}
	return hx([]byte(strconv.FormatFloat(f, 'g', -1, bits)))
}

var kindNames = map[reflect.Kind]string{
	reflect.Int: "KInt", reflect.Int8: "KInt8", reflect.Int16: "KInt16", reflect.Int32: "KInt32", reflect.Int64: "KInt64",
	reflect.Uint: "KUint", reflect.Uint8: "KUint8", reflect.Uint16: "KUint16", reflect.Uint32: "KUint32",
	reflect.Uint64: "KUint64", reflect.Uintptr: "KUintptr",
}

type fieldInfo struct {
	alias string
	index []int
}

func stripOpt(s string) string {
	if i := strings.Index(s, ","); i >= 0 {
		s = s[:i]
	}
	return strings.Trim(s, " ")
}

func encodable(t reflect.Type) bool {
	for t.Kind() == reflect.Ptr {
		t = t.Elem()
	}
	switch t.Kind() {
	case reflect.Func, reflect.Chan, reflect.UnsafePointer:
		return false
	}
	return true
}

// the documented hprose field rule, re-implemented independently of io/struct_manager.go
func hproseFields(t reflect.Type, prefix []int, out []fieldInfo) []fieldInfo {
	for i := 0; i < t.NumField(); i++ {
		f := t.Field(i)
		idx := append(append([]int{}, prefix...), i)
		switch f.Type.Kind() {
		case reflect.Func, reflect.Chan, reflect.UnsafePointer:
			continue
		case reflect.Struct:
			if f.Anonymous {
				out = hproseFields(f.Type, idx, out)
				continue
			}
		}
		if f.PkgPath != "" {
			continue
		}
		alias := stripOpt(f.Tag.Get("hprose"))
		if alias == "" {
			alias = stripOpt(f.Tag.Get("json"))
		}
		if alias == "" {
			alias = f.Name
			if alias[0] >= 'A' && alias[0] <= 'Z' {
				alias = string(alias[0]-'A'+'a') + alias[1:]
			}
		}
		if alias == "-" || !encodable(f.Type) {
			continue
		}
		out = append(out, fieldInfo{alias, idx})
	}
	return out
}

// typeSexp: the model's gtype for a Go type
func typeSexp(t reflect.Type) string {
	switch t {
	case timeType:
		return "(time)"
	case uuidType:
		return "(uuid)"
	case bigIntType:
		return "(bigint)"
	case bigFloatType:
		return "(bigfloat)"
	case bigRatType:
		return "(bigrat)"
	case listPtrType:
		return "(list)"
	case ifaceType:
		return "(iface)"
	}
	switch t.Kind() {
	case reflect.Bool:
		return "(bool)"
	case reflect.Int, reflect.Int8, reflect.Int16, reflect.Int32, reflect.Int64,
		reflect.Uint, reflect.Uint8, reflect.Uint16, reflect.Uint32, reflect.Uint64, reflect.Uintptr:
		return "(int " + kindNames[t.Kind()] + ")"
	case reflect.Float32:
		return "(f32)"
	case reflect.Float64:
		return "(f64)"
	case reflect.Complex64:
		return "(c64)"
	case reflect.Complex128:
		return "(c128)"
	case reflect.String:
		return "(string)"
	case reflect.Slice:
		if t.Elem().Kind() == reflect.Uint8 {
			return "(bytes)"
		}
		return "(slice " + typeSexp(t.Elem()) + ")"
	case reflect.Array:
		return fmt.Sprintf("(array %d %s)", t.Len(), typeSexp(t.Elem()))
	case reflect.Map:
		return "(map " + typeSexp(t.Key()) + " " + typeSexp(t.Elem()) + ")"
	case reflect.Ptr:
		return "(ptr " + typeSexp(t.Elem()) + ")"
	case reflect.Interface:
		return "(iface)"
	case reflect.Struct:
		return "(struct " + hx([]byte(structName(t))) + ")"
	}
	return "(unsupported " + t.String() + ")"
}

func structName(t reflect.Type) string {
	if t.Name() != "" {
		return t.Name()
	}
	return "anon:" + t.String()
}

func (w *xwalker) walk(v reflect.Value) string {
	t := v.Type()
	switch t {
	case timeType:
		tm := v.Interface().(time.Time)
		y, mo, d := tm.Date()
		h, mi, s := tm.Clock()
		utc := 0
		if tm.Location() == time.UTC {
			utc = 1
		}
		return fmt.Sprintf("(time %d %d %d %d %d %d %d %d)", y, int(mo), d, h, mi, s, tm.Nanosecond(), utc)
	case uuidType:
		u := v.Interface().(uuid.UUID)
		return "(uuid " + hx([]byte(u.String())) + ")"
	case bigIntType:
		x := v.Interface().(big.Int)
		return "(bigint " + x.String() + ")"
	case bigFloatType:
		x := v.Interface().(big.Float)
		return "(bigfloat " + hx([]byte(x.Text('g', -1))) + ")"
	case bigRatType:
		x := v.Interface().(big.Rat)
		return "(bigrat " + hx([]byte(x.String())) + ")"
	case listPtrType:
		if v.IsNil() {
			return "(nil)"
		}
		l := v.Interface().(*list.List)
		var sb strings.Builder
		sb.WriteString("(list")
		for e := l.Front(); e != nil; e = e.Next() {
			sb.WriteString(" ")
			sb.WriteString(w.walk(reflect.ValueOf(&e.Value).Elem()))
		}
		sb.WriteString(")")
		return sb.String()
	}
	switch t.Kind() {
	case reflect.Bool:
		if v.Bool() {
			return "(bool 1)"
		}
		return "(bool 0)"
	case reflect.Int, reflect.Int8, reflect.Int16, reflect.Int32, reflect.Int64:
		return fmt.Sprintf("(int %s %d)", kindNames[t.Kind()], v.Int())
	case reflect.Uint, reflect.Uint8, reflect.Uint16, reflect.Uint32, reflect.Uint64, reflect.Uintptr:
		return fmt.Sprintf("(int %s %d)", kindNames[t.Kind()], v.Uint())
	case reflect.Float32:
		return "(f32 " + fvalSexp(v.Float(), 32) + ")"
	case reflect.Float64:
		return "(f64 " + fvalSexp(v.Float(), 64) + ")"
	case reflect.Complex64:
		c := v.Complex()
		return "(c64 " + fvalSexp(real(c), 32) + " " + fvalSexp(imag(c), 32) + ")"
	case reflect.Complex128:
		c := v.Complex()
		return "(c128 " + fvalSexp(real(c), 64) + " " + fvalSexp(imag(c), 64) + ")"
	case reflect.String:
		return "(str " + hx([]byte(v.String())) + ")"
	case reflect.Interface:
		if v.IsNil() {
			return "(nil)"
		}
		e := v.Elem()
		return "(iface " + typeSexp(e.Type()) + " " + w.walk(e) + ")"
	case reflect.Ptr:
		if v.IsNil() {
			return "(nil)"
		}
		key := ptrKey{t, v.Pointer()}
		for i := len(w.stack) - 1; i >= 0; i-- {
			if w.stack[i] == key {
				return fmt.Sprintf("(cyc %d)", len(w.stack)-1-i)
			}
		}
		w.stack = append(w.stack, key)
		s := "(ptr " + w.walk(v.Elem()) + ")"
		w.stack = w.stack[:len(w.stack)-1]
		return s
	case reflect.Slice:
		if v.IsNil() {
			return "(nil)"
		}
		if t.Elem().Kind() == reflect.Uint8 {
			return "(bytes " + hx(v.Bytes()) + ")"
		}
		return w.seq("slice", v)
	case reflect.Array:
		return w.seq("arr", v)
	case reflect.Map:
		if v.IsNil() {
			return "(nil)"
		}
		var items []string
		it := v.MapRange()
		for it.Next() {
			items = append(items, "("+w.walk(it.Key())+" "+w.walk(it.Value())+")")
		}
		sort.Strings(items)
		if len(items) == 0 {
			return "(map)"
		}
		return "(map " + strings.Join(items, " ") + ")"
	case reflect.Struct:
		fs := hproseFields(t, nil, nil)
		var sb strings.Builder
		sb.WriteString("(struct " + hx([]byte(structName(t))))
		for _, f := range fs {
			sb.WriteString(" " + w.walk(v.FieldByIndex(f.index)))
		}
		sb.WriteString(")")
		return sb.String()
	}
	w.unsup = t.String()
	return "(nil)"
}

func (w *xwalker) seq(tag string, v reflect.Value) string {
	var sb strings.Builder
	sb.WriteString("(" + tag)
	for i := 0; i < v.Len(); i++ {
		sb.WriteString(" " + w.walk(v.Index(i)))
	}
	sb.WriteString(")")
	return sb.String()
}

var listPtrType = reflect.TypeOf((*list.List)(nil))
