// hv-c06: implementation side of C06 (and the decoder half of C01).
// Streams come from the independent writer (the extracted Wire.emit); they are decoded by the real
// io.Decoder into a zero-initialised destination of the described type; the decoded Go value is
// printed as the model's xval S-expression.  The executor only observes.
// A second operation answers oracle queries about the standard library (strconv, math/big, time,
// uuid) and the hardware float-to-integer conversions.
package main

import (
	"encoding/hex"
	"encoding/json"
	"fmt"
	"io"
	"math/big"
	"os"
	"reflect"
	"strconv"
	"strings"
	"time"

	"github.com/andot/complexconv"
	"github.com/google/uuid"
	hio "github.com/hprose/hprose-golang/v3/io"
	"hv/hvlib"
)

type c06Case struct {
	ID        int         `json:"id"`
	Op        string      `json:"op"` // "dec" | "orc"
	T         *TD         `json:"t"`
	Hex       string      `json:"hex"`
	Simple    bool        `json:"simple"`
	Long      string      `json:"long"`
	Real      string      `json:"real"`
	SIMap     bool        `json:"simap"`
	StructVal bool        `json:"structval"`
	ListSlice bool        `json:"listslice"`
	IO        string      `json:"io"`    // "" (NewDecoder on the bytes) | "reader" | "overwrite"
	Chunk     int         `json:"chunk"` // selects the chunk sizes of the reader
	TZ        int         `json:"tz"`    // time.Local for this case: a fixed zone that many seconds east of UTC
	Q         [][2]string `json:"q"`
}

type c06Obs struct {
	ID       int      `json:"id"`
	BuildErr string   `json:"build_err,omitempty"`
	Out      string   `json:"out,omitempty"` // ok | err | panic
	Msg      string   `json:"msg,omitempty"`
	Val      string   `json:"val,omitempty"`
	Unsup    string   `json:"unsup,omitempty"`
	R        []string `json:"r,omitempty"`
}

// the fixed set of registered classes (io.Register is global and permanent)
var registeredNames = []string{"Inner", "One", "Tagged", "Node2", "OneS"}

func setup() {
	// a fixed zero-offset zone distinct from time.UTC: the decoder's "local" times are deterministic
	time.Local = time.FixedZone("Local", 0)
	for _, n := range registeredNames {
		hio.Register(reflect.New(registry[n]).Interface())
	}
}

func timeFields(tm time.Time) string {
	y, mo, d := tm.Date()
	h, mi, s := tm.Clock()
	utc := 0
	if tm.Location() == time.UTC {
		utc = 1
	}
	return fmt.Sprintf("%d,%d,%d,%d,%d,%d,%d,%d", y, int(mo), d, h, mi, s, tm.Nanosecond(), utc)
}

var timeFormat = []string{
	"2006-01-02 15:04:05", "2006-01-02 15:04:05.999999999", "2006-01-02 15:04:05Z07:00",
	"2006-01-02 15:04:05.999999999Z07:00", time.ANSIC, time.UnixDate, time.RubyDate, time.RFC822, time.RFC822Z,
	time.RFC850, time.RFC1123, time.RFC1123Z, time.RFC3339, time.RFC3339Nano, "2006-01-02", "02 Jan 06",
	"02-Jan-06", "02 Jan 2006", "15:04:05", "15:04:05.999999999", "15:04:05Z07:00", "15:04:05.999999999Z07:00",
}

func fpayload(f float64, bits int) string {
	switch {
	case f != f:
		return "N"
	case f > 0 && f*0.5 == f:
		return "P"
	case f < 0 && f*0.5 == f:
		return "M"
	}
	return "F" + strconv.FormatFloat(f, 'g', -1, bits)
}

// oracle: "+"<payload> on success, "!" when the library function reports failure
func oracle(fn, arg string) (res string) {
	defer func() {
		if e := recover(); e != nil {
			res = "!"
		}
	}()
	switch {
	case fn == "pf64":
		f, err := strconv.ParseFloat(arg, 64)
		if err != nil {
			return "!"
		}
		return "+" + fpayload(f, 64)
	case fn == "pf32":
		f, err := strconv.ParseFloat(arg, 32)
		if err != nil {
			return "!"
		}
		return "+" + fpayload(float64(float32(f)), 32)
	case strings.HasPrefix(fn, "f2i:"):
		f, err := strconv.ParseFloat(arg, 64)
		if err != nil {
			return "!"
		}
		switch fn[4:] {
		case "int":
			return "+" + strconv.FormatInt(int64(int(f)), 10)
		case "int8":
			return "+" + strconv.FormatInt(int64(int8(f)), 10)
		case "int16":
			return "+" + strconv.FormatInt(int64(int16(f)), 10)
		case "int32":
			return "+" + strconv.FormatInt(int64(int32(f)), 10)
		case "int64":
			return "+" + strconv.FormatInt(int64(f), 10)
		case "uint":
			return "+" + strconv.FormatUint(uint64(uint(f)), 10)
		case "uint8":
			return "+" + strconv.FormatUint(uint64(uint8(f)), 10)
		case "uint16":
			return "+" + strconv.FormatUint(uint64(uint16(f)), 10)
		case "uint32":
			return "+" + strconv.FormatUint(uint64(uint32(f)), 10)
		case "uint64":
			return "+" + strconv.FormatUint(uint64(f), 10)
		case "uintptr":
			return "+" + strconv.FormatUint(uint64(uintptr(f)), 10)
		}
	case fn == "pc64" || fn == "pc128":
		bits, fb := 128, 64
		if fn == "pc64" {
			bits, fb = 64, 32
		}
		c, err := complexconv.ParseComplex(arg, bits)
		if err != nil {
			return "!"
		}
		re, im := real(c), imag(c)
		if fb == 32 {
			re, im = float64(float32(re)), float64(float32(im))
		}
		return "+" + fpayload(re, fb) + "," + fpayload(im, fb)
	case fn == "bf":
		x, ok := new(big.Float).SetString(arg)
		if !ok {
			return "!"
		}
		return "+" + x.Text('g', -1)
	case fn == "bfint":
		x, ok := new(big.Float).SetString(arg)
		if !ok {
			return "!"
		}
		i, _ := x.Int(nil)
		if i == nil {
			return "!"
		}
		return "+" + i.String()
	case fn == "bfexp":
		x, ok := new(big.Float).SetString(arg)
		if !ok {
			return "!"
		}
		return "+" + strconv.Itoa(x.MantExp(nil))
	case fn == "nf":
		i, err := strconv.ParseInt(arg, 10, 64)
		if err != nil {
			return "!"
		}
		return "+" + big.NewFloat(float64(i)).Text('g', -1)
	case fn == "rat":
		x, ok := new(big.Rat).SetString(arg)
		if !ok {
			return "!"
		}
		return "+" + x.String()
	case fn == "ratf":
		f, err := strconv.ParseFloat(arg, 64)
		if err != nil {
			return "!"
		}
		x := new(big.Rat).SetFloat64(f)
		if x == nil {
			return "!"
		}
		return "+" + x.String()
	case fn == "unix":
		ns, err := strconv.ParseInt(arg, 10, 64)
		if err != nil {
			return "!"
		}
		return "+" + timeFields(time.Unix(0, ns))
	case fn == "ptime":
		for _, layout := range timeFormat {
			if t, e := time.Parse(layout, arg); e == nil {
				return "+" + timeFields(t)
			}
		}
		return "!"
	case fn == "tstr":
		p := strings.Split(arg, ",")
		if len(p) != 8 {
			return "!"
		}
		var n [8]int
		for i := range p {
			v, err := strconv.Atoi(p[i])
			if err != nil {
				return "!"
			}
			n[i] = v
		}
		loc := time.Local
		if n[7] != 0 {
			loc = time.UTC
		}
		return "+" + time.Date(n[0], time.Month(n[1]), n[2], n[3], n[4], n[5], n[6], loc).String()
	case fn == "uuid":
		u, err := uuid.Parse(arg)
		if err != nil {
			return "!"
		}
		return "+" + u.String()
	}
	return "!"
}

var curTZ int

func runCase(line []byte, out *json.Encoder) error {
	var c c06Case
	if err := json.Unmarshal(line, &c); err != nil {
		return err
	}
	hvlib.Begin(c.ID)
	obs := c06Obs{ID: c.ID}
	if c.TZ != curTZ {
		curTZ = c.TZ
		time.Local = time.FixedZone("Local", c.TZ)
	}
	if c.Op == "orc" {
		for _, q := range c.Q {
			fn, _ := hex.DecodeString(q[0])
			arg, _ := hex.DecodeString(q[1])
			obs.R = append(obs.R, hex.EncodeToString([]byte(oracle(string(fn), string(arg)))))
		}
		return out.Encode(&obs)
	}
	t, err := typeOf(c.T)
	if err != nil {
		obs.BuildErr = err.Error()
		return out.Encode(&obs)
	}
	data, err := hex.DecodeString(c.Hex)
	if err != nil {
		obs.BuildErr = err.Error()
		return out.Encode(&obs)
	}
	dst := reflect.New(t) // zero-initialised destination
	var dec *hio.Decoder
	var owned []byte
	switch c.IO {
	case "reader":
		// a stream decoder: the value is followed by more values, so the read buffer is refilled afterwards
		all := append(append([]byte{}, data...), filler...)
		dec = hio.NewDecoderFromReader(&chunkReader{data: all, k: c.Chunk, head: len(data)}).Simple(c.Simple)
	case "overwrite":
		// the caller reuses its input slice after decoding
		owned = append(append([]byte{}, data...), filler...)
		dec = hio.NewDecoder(owned).Simple(c.Simple)
	default:
		dec = hio.NewDecoder(data).Simple(c.Simple)
	}
	switch c.Long {
	case "uint":
		dec.LongType = hio.LongTypeUint
	case "int64":
		dec.LongType = hio.LongTypeInt64
	case "uint64":
		dec.LongType = hio.LongTypeUint64
	case "bigint":
		dec.LongType = hio.LongTypeBigInt
	}
	switch c.Real {
	case "f32":
		dec.RealType = hio.RealTypeFloat32
	case "bigfloat":
		dec.RealType = hio.RealTypeBigFloat
	}
	if c.SIMap {
		dec.MapType = hio.MapTypeSIMap
	}
	if c.StructVal {
		dec.StructType = hio.StructTypeValue
	}
	if c.ListSlice {
		dec.ListType = hio.ListTypeSlice
	}
	func() {
		defer func() {
			if e := recover(); e != nil {
				obs.Out = "panic"
				obs.Msg = fmt.Sprint(e)
			}
		}()
		dec.Decode(dst.Interface())
		if dec.Error != nil {
			obs.Out = "err"
			obs.Msg = dec.Error.Error()
		} else {
			obs.Out = "ok"
			switch c.IO {
			case "reader":
				// keep reading: whatever the decoded value still shares with the read buffer is overwritten now
				for i := 0; i < 3; i++ {
					var s string
					dec.Decode(&s)
				}
				if dec.Error != nil {
					obs.Out = "err"
					obs.Msg = "after the value: " + dec.Error.Error()
				}
			case "overwrite":
				for i := range owned {
					owned[i] = 'x'
				}
			}
		}
	}()
	if obs.Out == "ok" {
		func() {
			defer func() {
				if e := recover(); e != nil {
					obs.Out = "walkpanic"
					obs.Msg = fmt.Sprint(e)
				}
			}()
			w := &xwalker{}
			obs.Val = w.walk(dst.Elem())
			obs.Unsup = w.unsup
		}()
	}
	if len(obs.Msg) > 300 {
		obs.Msg = obs.Msg[:300]
	}
	return out.Encode(&obs)
}

// chunkReader hands the stream out in small, irregular pieces: the decoder has to refill its buffer
type chunkReader struct {
	data []byte
	pos  int
	k    int // chunking pattern
	n    int
	head int // length of the value under test (the filler follows)
}

var chunkSizes = []int{1, 3, 7, 64, 2, 256, 5, 31, 300, 11}

func (r *chunkReader) Read(p []byte) (int, error) {
	if r.pos >= len(r.data) {
		return 0, io.EOF
	}
	n := 0
	switch r.k % 3 {
	case 0:
		// a chunk ends right before every double quote: a window of the buffer that ends with the content
		// of a string or byte string is followed by a refill when the closing quote is skipped
		n = len(r.data) - r.pos
		for j := r.pos + 1; j < len(r.data); j++ {
			if r.data[j] == '"' {
				n = j - r.pos
				break
			}
		}
	case 1:
		// byte by byte through the value, then whole buffers
		n = 1
		if r.pos >= r.head {
			n = 256
		}
	default:
		n = chunkSizes[(r.k/3+r.n)%len(chunkSizes)]
		r.n++
	}
	if n > len(p) {
		n = len(p)
	}
	if n > len(r.data)-r.pos {
		n = len(r.data) - r.pos
	}
	copy(p, r.data[r.pos:r.pos+n])
	r.pos += n
	return n, nil
}

// three further values of 300 characters each: longer than the decoder's 256-byte read buffer
var filler = []byte(strings.Repeat(`s300"`+strings.Repeat("x", 300)+`"`, 3))

type fieldOut struct {
	Alias string `json:"alias"`
	T     *TD    `json:"t"`
}

func main() {
	setup()
	if len(os.Args) > 1 && os.Args[1] == "-types" {
		// the registry with the hprose field list of every struct type (alias, type) in order
		outp := map[string]interface{}{}
		structs := map[string][]fieldOut{}
		for name, t := range registry {
			if t.Kind() != reflect.Struct {
				continue
			}
			var fs []fieldOut
			for _, f := range hproseFields(t, nil, nil) {
				fs = append(fs, fieldOut{f.alias, descOf(t.FieldByIndex(f.index).Type, false)})
			}
			structs[name] = fs
		}
		outp["structs"] = structs
		outp["registered"] = registeredNames
		json.NewEncoder(os.Stdout).Encode(outp)
		return
	}
	hvlib.Main(runCase)
}
