package main

import (
	"context"
	"encoding/json"
	"errors"
	"fmt"
	"reflect"
	"runtime"
	"strconv"
	"strings"
	"sync"
	"sync/atomic"
	"time"

	"github.com/hprose/hprose-golang/v3/io"
	"github.com/hprose/hprose-golang/v3/rpc/core"
	"github.com/hprose/hprose-golang/v3/rpc/mock"
	"hv/hvlib"
)

// C15: a real core.Client talking to a real core.Service over the in-process mock
// transport.  Trace-recording handlers of many Go shapes are installed and removed with
// Client.Use/Unuse and Service.Use/Unuse; calls are made with Client.InvokeContext.
// The executor only observes: per call the trace of enter/exit events and the result.

type c15Op struct {
	Op   string `json:"op"`   // U use, X unuse, C call
	Node string `json:"node"` // c client, s service
	Ix   []int  `json:"ix"`   // pool indices
	Toks []int  `json:"toks"` // request tokens of a call
	Ctx  string `json:"ctx"`  // call: "" live context, "cancel" already cancelled, "deadline" deadline passed
	Rep  int    `json:"rep"`  // Use/Unuse: the argument list repeated this many times (0 = once)
	M    string `json:"m"`    // call: published function: "" echo, "fail" returns an error, "boom" panics
	TF   int    `json:"tf"`   // call: scripted transport fault 7001..7007 (0 = none), see faultErr
	CC   int    `json:"cc"`   // call: 0 fresh context; k>0: reuse context slot k across calls
	CCM  string `json:"ccm"`  // "ctx": the same context.Context object; "cc": the same *ClientContext in a fresh context.Context
}

type c15Round struct {
	Setup    []c15Op   `json:"setup"`    // performed alone before the mutators start
	Mutators [][]c15Op `json:"mutators"` // one script per goroutine, all started together
}

type c15Entry struct {
	Kind string  `json:"kind"`
	K    int     `json:"k"`    // which of the distinct functions / types (kinds fi fo tk pik pok)
	// Z short-circuit with core.ErrClosed;
	Beh  string  `json:"beh"`  // P pass, S short-circuit ok, E short-circuit error, A alter, F error after next, K cancel ctx for next
	Mids []c15Op `json:"mids"` // Use/Unuse performed while a call is inside the handler
}

type c15Case struct {
	ID      int        `json:"id"`
	Mode    string     `json:"mode"` // seq | conc
	Pool    []c15Entry `json:"pool"`
	Ops     []c15Op    `json:"ops"`
	MutC    []c15Op    `json:"mut_c"` // conc: script of the goroutine mutating the client
	MutS    []c15Op    `json:"mut_s"` // conc: script of the goroutine mutating the service
	Callers int        `json:"callers"`
	GapUs   int        `json:"gap_us"`
	Rounds  []c15Round `json:"rounds"` // multi: several mutators at once on the same managers
}

type c15RoundObs struct {
	Chains  string    `json:"chains"`  // installed chains seen by a call made after all mutators returned
	Ballast int64     `json:"ballast"` // silent ballast handlers that call went through
	Res     string    `json:"res"`
	Trace   string    `json:"trace"`
	During  []c15Call `json:"during,omitempty"` // distinct (trace, result) of calls made while the mutators ran
}

type c15Call struct {
	Trace string `json:"trace"`
	Res   string `json:"res"`
}

type c15Obs struct {
	ID    int      `json:"id"`
	Outs  []string `json:"outs,omitempty"` // seq: one per op: status, or "call:<trace>=><res>"
	Final string   `json:"final,omitempty"`
	PtrI  []uint64 `json:"ptr_i"` // per pool entry: code pointer of its invoke handler (0 = none)
	PtrO  []uint64 `json:"ptr_o"`
	// conc
	Distinct []c15Call `json:"distinct,omitempty"` // distinct (trace, result) pairs seen
	Seqs     [][]int   `json:"seqs,omitempty"`     // per caller: indices into Distinct, in call order
	Last     []int     `json:"last,omitempty"`     // per caller: index of the call made after all mutators finished
	Panics   []string  `json:"panics,omitempty"`
	Rounds   []c15RoundObs `json:"rounds,omitempty"`
}

// ---------------------------------------------------------------- handlers

type slot struct {
	id   int
	beh  byte
	mids []c15Op
	env  *env
}

type env struct {
	client  *core.Client
	service *core.Service
	pool    []interface{}
	probe   int32
	slots   map[int]*ctxSlot
	seq      bool // one operation at a time: wait for abandoned service work after every call
}

type callTrace struct {
	mu      sync.Mutex
	ev      []string
	ballast int64
}

func (t *callTrace) add(s string) {
	t.mu.Lock()
	t.ev = append(t.ev, s)
	t.mu.Unlock()
}

type traceKeyT struct{}

// a context.Context reused for several calls carries a holder whose trace is swapped per call
type traceHolder struct {
	tr    atomic.Value
	fault int64
}

func traceOf(ctx context.Context) *callTrace {
	switch t := ctx.Value(traceKeyT{}).(type) {
	case *callTrace:
		return t
	case *traceHolder:
		if tr, ok := t.tr.Load().(*callTrace); ok {
			return tr
		}
	}
	return &callTrace{}
}

type ctxSlot struct {
	holder *traceHolder
	ctx    context.Context     // built once: WithContext(holder ctx, NewClientContext())
	cc     *core.ClientContext // built once
}

// which side of the wire the handler finds itself on
func nodeOf(ctx context.Context) string {
	if c, ok := core.FromContext(ctx); ok {
		switch c.(type) {
		case *core.ClientContext:
			return "C"
		case *core.ServiceContext:
			return "S"
		}
	}
	return "?"
}

type res struct {
	wire  bool // response bytes that encode an error, returned with a nil Go error
	ok    bool
	toks  []int
	e     int
	other string
}

// the request as an event shows it: the state of the context the handler was given (9001
// cancelled, 9002 deadline exceeded) in front of the request tokens
type faultKeyT struct{}

// the fault the transport is to answer this call with
func faultOf(ctx context.Context) int {
	if f, ok := ctx.Value(faultKeyT{}).(int); ok {
		return f
	}
	if h, ok := ctx.Value(traceKeyT{}).(*traceHolder); ok {
		return int(atomic.LoadInt64(&h.fault))
	}
	return 0
}

func faultErr(f int) error {
	switch f {
	case 7001:
		return core.ErrClosed
	case 7002:
		return core.ErrTimeout
	case 7003:
		return context.Canceled
	case 7004:
		return context.DeadlineExceeded
	case 7005:
		return core.InvalidResponseError{}
	case 7006:
		return errors.New("e55")
	}
	return nil
}

func fmtReq(ctx context.Context, name string, t []int) string {
	if f := faultOf(ctx); f != 0 {
		t = append([]int{f}, t...)
	}
	switch name {
	case "fail":
		t = append([]int{8001}, t...)
	case "boom":
		t = append([]int{8002}, t...)
	}
	switch ctx.Err() {
	case nil:
		return fmtToks(t)
	case context.Canceled:
		return fmtToks(append([]int{9001}, t...))
	case context.DeadlineExceeded:
		return fmtToks(append([]int{9002}, t...))
	}
	return "?ctx:" + ctx.Err().Error() + fmtToks(t)
}

func fmtToks(t []int) string {
	s := make([]string, len(t))
	for i, v := range t {
		s[i] = strconv.Itoa(v)
	}
	return "(" + strings.Join(s, ",") + ")"
}

func (r res) String() string {
	switch {
	case r.other != "":
		return "?" + r.other
	case r.ok:
		return "ok" + fmtToks(r.toks)
	case r.wire:
		return "werr(" + strconv.Itoa(r.e) + ")"
	default:
		return "err(" + strconv.Itoa(r.e) + ")"
	}
}

func errRes(err error) res {
	msg := err.Error()
	switch msg {
	case context.Canceled.Error():
		return res{e: 9001}
	case context.DeadlineExceeded.Error():
		return res{e: 9002}
	case core.ErrClosed.Error():
		return res{e: 9101}
	case core.ErrTimeout.Error():
		return res{e: 9102}
	case (core.InvalidResponseError{}).Error():
		return res{e: 9103}
	}
	if strings.HasPrefix(msg, "e") {
		if n, e := strconv.Atoi(msg[1:]); e == nil {
			return res{e: n}
		}
	}
	return res{other: "error:" + msg}
}

func toInts(v interface{}) ([]int, bool) {
	rv := reflect.ValueOf(v)
	if !rv.IsValid() || (rv.Kind() != reflect.Slice && rv.Kind() != reflect.Array) {
		return nil, false
	}
	out := make([]int, rv.Len())
	for i := range out {
		e := rv.Index(i)
		if e.Kind() == reflect.Interface {
			e = e.Elem()
		}
		switch e.Kind() {
		case reflect.Int, reflect.Int8, reflect.Int16, reflect.Int32, reflect.Int64:
			out[i] = int(e.Int())
		case reflect.Uint, reflect.Uint8, reflect.Uint16, reflect.Uint32, reflect.Uint64:
			out[i] = int(e.Uint())
		default:
			return nil, false
		}
	}
	return out, true
}

func projInvoke(result []interface{}, err error) res {
	if err != nil {
		return errRes(err)
	}
	if len(result) == 1 {
		if t, ok := toInts(result[0]); ok {
			return res{ok: true, toks: t}
		}
	}
	return res{other: fmt.Sprintf("result:%v", result)}
}

// request bytes: C <name> [<list of ints>] z ; response bytes: R <list of ints> z | E <string> z
func decReq(b []byte) (name string, toks []int, ok bool) {
	if len(b) == 0 || b[0] != io.TagCall {
		return "", nil, false
	}
	dec := io.NewDecoder(b[1:])
	dec.Decode(&name)
	tag := dec.NextByte()
	if tag == io.TagList {
		dec.Reset()
		dec.Decode(&toks, tag)
	}
	return name, toks, dec.Error == nil
}

func encReq(name string, toks []int) []byte {
	enc := new(io.Encoder).Simple(false)
	enc.WriteTag(io.TagCall)
	_ = enc.Write(name)
	if len(toks) > 0 {
		enc.Reset()
		args := make([]interface{}, len(toks))
		for i, t := range toks {
			args[i] = t
		}
		_ = enc.Write(args)
	}
	enc.WriteTag(io.TagEnd)
	return append([]byte(nil), enc.Bytes()...)
}

func encResp(toks []int) []byte {
	enc := new(io.Encoder).Simple(false)
	enc.WriteTag(io.TagResult)
	if toks == nil {
		toks = []int{}
	}
	_ = enc.Write(toks)
	enc.WriteTag(io.TagEnd)
	return append([]byte(nil), enc.Bytes()...)
}

func projIO(b []byte, err error) res {
	if err != nil {
		return errRes(err)
	}
	if len(b) == 0 {
		return res{other: "empty-response"}
	}
	dec := io.NewDecoder(b[1:])
	switch b[0] {
	case io.TagResult:
		var toks []int
		dec.Decode(&toks)
		if dec.Error != nil {
			return res{other: "undecodable:" + string(b)}
		}
		if toks == nil {
			toks = []int{}
		}
		return res{ok: true, toks: toks}
	case io.TagError:
		var msg string
		dec.Decode(&msg)
		x := errRes(errors.New(msg))
		if x.other == "" {
			x.wire = true
		}
		return x
	}
	return res{other: "response:" + string(b)}
}

func (sl *slot) current() (byte, []c15Op) {
	if atomic.LoadInt32(&sl.env.probe) != 0 {
		return 'P', nil
	}
	return sl.beh, sl.mids
}

func runInvoke(sl *slot, ctx context.Context, name string, args []interface{}, next core.NextInvokeHandler) ([]interface{}, error) {
	tr := traceOf(ctx)
	lab := nodeOf(ctx) + "I." + strconv.Itoa(sl.id)
	req, okReq := toInts(args)
	if !okReq {
		tr.add("+" + lab + "?" + fmt.Sprint(args))
	} else {
		tr.add("+" + lab + fmtReq(ctx, name, req))
	}
	beh, mids := sl.current()
	for _, m := range mids {
		sl.env.apply(m)
	}
	switch beh {
	case 'K':
		cctx, cancel := context.WithCancel(ctx)
		cancel()
		r, err := next(cctx, name, args)
		tr.add("-" + lab + "=" + projInvoke(r, err).String())
		return r, err
	case 'S':
		x := res{ok: true, toks: []int{sl.id + 200}}
		tr.add("-" + lab + "=" + x.String())
		return []interface{}{[]int{sl.id + 200}}, nil
	case 'E':
		tr.add("-" + lab + "=" + res{e: sl.id}.String())
		return nil, errors.New("e" + strconv.Itoa(sl.id))
	case 'Z':
		tr.add("-" + lab + "=" + res{e: 9101}.String())
		return nil, core.ErrClosed
	case 'A':
		args2 := make([]interface{}, 0, len(args)+1)
		args2 = append(args2, args...)
		args2 = append(args2, sl.id)
		r, err := next(ctx, name, args2)
		x := projInvoke(r, err)
		if x.ok && x.other == "" {
			y := append(append([]int(nil), x.toks...), sl.id+100)
			tr.add("-" + lab + "=" + res{ok: true, toks: y}.String())
			return []interface{}{y}, nil
		}
		tr.add("-" + lab + "=" + x.String())
		return r, err
	case 'F':
		_, _ = next(ctx, name, args)
		tr.add("-" + lab + "=" + res{e: sl.id}.String())
		return nil, errors.New("e" + strconv.Itoa(sl.id))
	default:
		r, err := next(ctx, name, args)
		tr.add("-" + lab + "=" + projInvoke(r, err).String())
		return r, err
	}
}

func runIO(sl *slot, ctx context.Context, request []byte, next core.NextIOHandler) ([]byte, error) {
	tr := traceOf(ctx)
	lab := nodeOf(ctx) + "O." + strconv.Itoa(sl.id)
	name, req, okReq := decReq(request)
	if !okReq {
		tr.add("+" + lab + "?" + string(request))
	} else {
		tr.add("+" + lab + fmtReq(ctx, name, req))
	}
	beh, mids := sl.current()
	for _, m := range mids {
		sl.env.apply(m)
	}
	switch beh {
	case 'K':
		cctx, cancel := context.WithCancel(ctx)
		cancel()
		r, err := next(cctx, request)
		tr.add("-" + lab + "=" + projIO(r, err).String())
		return r, err
	case 'S':
		x := res{ok: true, toks: []int{sl.id + 200}}
		tr.add("-" + lab + "=" + x.String())
		return encResp(x.toks), nil
	case 'E':
		tr.add("-" + lab + "=" + res{e: sl.id}.String())
		return nil, errors.New("e" + strconv.Itoa(sl.id))
	case 'Z':
		tr.add("-" + lab + "=" + res{e: 9101}.String())
		return nil, core.ErrClosed
	case 'A':
		r, err := next(ctx, encReq(name, append(append([]int(nil), req...), sl.id)))
		x := projIO(r, err)
		if x.ok && x.other == "" {
			y := append(append([]int(nil), x.toks...), sl.id+100)
			tr.add("-" + lab + "=" + res{ok: true, toks: y}.String())
			return encResp(y), nil
		}
		tr.add("-" + lab + "=" + x.String())
		return r, err
	case 'F':
		_, _ = next(ctx, request)
		tr.add("-" + lab + "=" + res{e: sl.id}.String())
		return nil, errors.New("e" + strconv.Itoa(sl.id))
	default:
		r, err := next(ctx, request)
		tr.add("-" + lab + "=" + projIO(r, err).String())
		return r, err
	}
}

// ---- the shapes a plugin value can have --------------------------------------------

// distinct top-level functions: distinct code pointers
var slotFI, slotFO [4]*slot

func fi0(ctx context.Context, name string, args []interface{}, next core.NextInvokeHandler) ([]interface{}, error) {
	return runInvoke(slotFI[0], ctx, name, args, next)
}
func fi1(ctx context.Context, name string, args []interface{}, next core.NextInvokeHandler) ([]interface{}, error) {
	return runInvoke(slotFI[1], ctx, name, args, next)
}
func fi2(ctx context.Context, name string, args []interface{}, next core.NextInvokeHandler) ([]interface{}, error) {
	return runInvoke(slotFI[2], ctx, name, args, next)
}
func fi3(ctx context.Context, name string, args []interface{}, next core.NextInvokeHandler) ([]interface{}, error) {
	return runInvoke(slotFI[3], ctx, name, args, next)
}
func fo0(ctx context.Context, request []byte, next core.NextIOHandler) ([]byte, error) {
	return runIO(slotFO[0], ctx, request, next)
}
func fo1(ctx context.Context, request []byte, next core.NextIOHandler) ([]byte, error) {
	return runIO(slotFO[1], ctx, request, next)
}
func fo2(ctx context.Context, request []byte, next core.NextIOHandler) ([]byte, error) {
	return runIO(slotFO[2], ctx, request, next)
}
func fo3(ctx context.Context, request []byte, next core.NextIOHandler) ([]byte, error) {
	return runIO(slotFO[3], ctx, request, next)
}

var fiFuncs = [4]core.InvokeHandler{fi0, fi1, fi2, fi3}
var foFuncs = [4]core.IOHandler{fo0, fo1, fo2, fo3}

// closures of one func literal: one code pointer (the factory must not be inlined, or
// the compiler would duplicate the literal per call site)
//
//go:noinline
func mkInvoke(sl *slot) core.InvokeHandler {
	return func(ctx context.Context, name string, args []interface{}, next core.NextInvokeHandler) ([]interface{}, error) {
		return runInvoke(sl, ctx, name, args, next)
	}
}

//go:noinline
func mkIO(sl *slot) core.IOHandler {
	return func(ctx context.Context, request []byte, next core.NextIOHandler) ([]byte, error) {
		return runIO(sl, ctx, request, next)
	}
}

// method values of several receivers of one type: one code pointer
type recv struct{ sl *slot }

func (r *recv) DoInvoke(ctx context.Context, name string, args []interface{}, next core.NextInvokeHandler) ([]interface{}, error) {
	return runInvoke(r.sl, ctx, name, args, next)
}
func (r *recv) DoIO(ctx context.Context, request []byte, next core.NextIOHandler) ([]byte, error) {
	return runIO(r.sl, ctx, request, next)
}

// two-sided plugins
type twoSided struct{ sl *slot }

func (p *twoSided) InvokeHandler(ctx context.Context, name string, args []interface{}, next core.NextInvokeHandler) ([]interface{}, error) {
	return runInvoke(p.sl, ctx, name, args, next)
}
func (p *twoSided) IOHandler(ctx context.Context, request []byte, next core.NextIOHandler) ([]byte, error) {
	return runIO(p.sl, ctx, request, next)
}

type two0 struct{ sl *slot }
type two1 struct{ sl *slot }
type two2 struct{ sl *slot }
type two3 struct{ sl *slot }

func (p *two0) InvokeHandler(ctx context.Context, name string, args []interface{}, next core.NextInvokeHandler) ([]interface{}, error) {
	return runInvoke(p.sl, ctx, name, args, next)
}
func (p *two0) IOHandler(ctx context.Context, request []byte, next core.NextIOHandler) ([]byte, error) {
	return runIO(p.sl, ctx, request, next)
}
func (p *two1) InvokeHandler(ctx context.Context, name string, args []interface{}, next core.NextInvokeHandler) ([]interface{}, error) {
	return runInvoke(p.sl, ctx, name, args, next)
}
func (p *two1) IOHandler(ctx context.Context, request []byte, next core.NextIOHandler) ([]byte, error) {
	return runIO(p.sl, ctx, request, next)
}
func (p *two2) InvokeHandler(ctx context.Context, name string, args []interface{}, next core.NextInvokeHandler) ([]interface{}, error) {
	return runInvoke(p.sl, ctx, name, args, next)
}
func (p *two2) IOHandler(ctx context.Context, request []byte, next core.NextIOHandler) ([]byte, error) {
	return runIO(p.sl, ctx, request, next)
}
func (p *two3) InvokeHandler(ctx context.Context, name string, args []interface{}, next core.NextInvokeHandler) ([]interface{}, error) {
	return runInvoke(p.sl, ctx, name, args, next)
}
func (p *two3) IOHandler(ctx context.Context, request []byte, next core.NextIOHandler) ([]byte, error) {
	return runIO(p.sl, ctx, request, next)
}

// both halves and a Handler method: the type switch reaches "plugin" first
type twoHI struct{ sl *slot }

func (p *twoHI) InvokeHandler(ctx context.Context, name string, args []interface{}, next core.NextInvokeHandler) ([]interface{}, error) {
	return runInvoke(p.sl, ctx, name, args, next)
}
func (p *twoHI) IOHandler(ctx context.Context, request []byte, next core.NextIOHandler) ([]byte, error) {
	return runIO(p.sl, ctx, request, next)
}
func (p *twoHI) Handler(ctx context.Context, name string, args []interface{}, next core.NextInvokeHandler) ([]interface{}, error) {
	traceOf(ctx).add("!Handler-method-of-two-sided-plugin-ran")
	return next(ctx, name, args)
}

type twoHO struct{ sl *slot }

func (p *twoHO) InvokeHandler(ctx context.Context, name string, args []interface{}, next core.NextInvokeHandler) ([]interface{}, error) {
	return runInvoke(p.sl, ctx, name, args, next)
}
func (p *twoHO) IOHandler(ctx context.Context, request []byte, next core.NextIOHandler) ([]byte, error) {
	return runIO(p.sl, ctx, request, next)
}
func (p *twoHO) Handler(ctx context.Context, request []byte, next core.NextIOHandler) ([]byte, error) {
	traceOf(ctx).add("!Handler-method-of-two-sided-plugin-ran")
	return next(ctx, request)
}

// invokePlugin / ioPlugin
type invPlug struct{ sl *slot }

func (p *invPlug) Handler(ctx context.Context, name string, args []interface{}, next core.NextInvokeHandler) ([]interface{}, error) {
	return runInvoke(p.sl, ctx, name, args, next)
}

type invPlug0 struct{ sl *slot }
type invPlug1 struct{ sl *slot }
type invPlug2 struct{ sl *slot }
type invPlug3 struct{ sl *slot }

func (p *invPlug0) Handler(ctx context.Context, name string, args []interface{}, next core.NextInvokeHandler) ([]interface{}, error) {
	return runInvoke(p.sl, ctx, name, args, next)
}
func (p *invPlug1) Handler(ctx context.Context, name string, args []interface{}, next core.NextInvokeHandler) ([]interface{}, error) {
	return runInvoke(p.sl, ctx, name, args, next)
}
func (p *invPlug2) Handler(ctx context.Context, name string, args []interface{}, next core.NextInvokeHandler) ([]interface{}, error) {
	return runInvoke(p.sl, ctx, name, args, next)
}
func (p *invPlug3) Handler(ctx context.Context, name string, args []interface{}, next core.NextInvokeHandler) ([]interface{}, error) {
	return runInvoke(p.sl, ctx, name, args, next)
}

type ioPlug struct{ sl *slot }

func (p *ioPlug) Handler(ctx context.Context, request []byte, next core.NextIOHandler) ([]byte, error) {
	return runIO(p.sl, ctx, request, next)
}

type ioPlug0 struct{ sl *slot }
type ioPlug1 struct{ sl *slot }
type ioPlug2 struct{ sl *slot }
type ioPlug3 struct{ sl *slot }

func (p *ioPlug0) Handler(ctx context.Context, request []byte, next core.NextIOHandler) ([]byte, error) {
	return runIO(p.sl, ctx, request, next)
}
func (p *ioPlug1) Handler(ctx context.Context, request []byte, next core.NextIOHandler) ([]byte, error) {
	return runIO(p.sl, ctx, request, next)
}
func (p *ioPlug2) Handler(ctx context.Context, request []byte, next core.NextIOHandler) ([]byte, error) {
	return runIO(p.sl, ctx, request, next)
}
func (p *ioPlug3) Handler(ctx context.Context, request []byte, next core.NextIOHandler) ([]byte, error) {
	return runIO(p.sl, ctx, request, next)
}

// ballast: cheap silent pass-through handlers (counted, not traced) that make chains long
func ballastInvoke(ctx context.Context, name string, args []interface{}, next core.NextInvokeHandler) ([]interface{}, error) {
	atomic.AddInt64(&traceOf(ctx).ballast, 1)
	return next(ctx, name, args)
}
func ballastIO(ctx context.Context, request []byte, next core.NextIOHandler) ([]byte, error) {
	atomic.AddInt64(&traceOf(ctx).ballast, 1)
	return next(ctx, request)
}

type notAPlugin struct{ x int }

func mkValue(e c15Entry, sl *slot) (interface{}, error) {
	k := e.K & 3
	switch e.Kind {
	case "fi":
		slotFI[k] = sl
		return fiFuncs[k], nil
	case "fo":
		slotFO[k] = sl
		return foFuncs[k], nil
	case "ci":
		return mkInvoke(sl), nil
	case "co":
		return mkIO(sl), nil
	case "mi":
		return core.InvokeHandler((&recv{sl}).DoInvoke), nil
	case "mo":
		return core.IOHandler((&recv{sl}).DoIO), nil
	case "t":
		return &twoSided{sl}, nil
	case "tk":
		return []interface{}{&two0{sl}, &two1{sl}, &two2{sl}, &two3{sl}}[k], nil
	case "ti":
		return &twoHI{sl}, nil
	case "to":
		return &twoHO{sl}, nil
	case "pi":
		return &invPlug{sl}, nil
	case "pik":
		return []interface{}{&invPlug0{sl}, &invPlug1{sl}, &invPlug2{sl}, &invPlug3{sl}}[k], nil
	case "po":
		return &ioPlug{sl}, nil
	case "pok":
		return []interface{}{&ioPlug0{sl}, &ioPlug1{sl}, &ioPlug2{sl}, &ioPlug3{sl}}[k], nil
	case "bi":
		return core.InvokeHandler(ballastInvoke), nil
	case "bo":
		return core.IOHandler(ballastIO), nil
	case "bad":
		return &notAPlugin{k}, nil
	}
	return nil, fmt.Errorf("unknown kind %q", e.Kind)
}

// ---------------------------------------------------------------- running a case

func echo(ctx context.Context, toks ...int) []int {
	traceOf(ctx).add("*" + fmtReq(ctx, "echo", toks))
	return append(append([]int{}, toks...), 99)
}

func fail(ctx context.Context, toks ...int) ([]int, error) {
	traceOf(ctx).add("*" + fmtReq(ctx, "fail", toks))
	return nil, errors.New("e77")
}

func boom(ctx context.Context, toks ...int) []int {
	traceOf(ctx).add("*" + fmtReq(ctx, "boom", toks))
	panic("e78")
}

// Use / Unuse through the public API; a panic is an observation
func (e *env) apply(op c15Op) (status string) {
	defer func() {
		if p := recover(); p != nil {
			if s, ok := p.(string); ok && s == "invalid plugin handler" {
				status = "panic-invalid"
			} else {
				status = fmt.Sprintf("panic:%v", p)
			}
		}
	}()
	n := op.Rep
	if n < 1 {
		n = 1
	}
	vals := make([]core.PluginHandler, 0, n*len(op.Ix))
	for ; n > 0; n-- {
		for _, ix := range op.Ix {
			vals = append(vals, e.pool[ix])
		}
	}
	switch {
	case op.Op == "U" && op.Node == "c":
		e.client.Use(vals...)
	case op.Op == "U":
		e.service.Use(vals...)
	case op.Node == "c":
		e.client.Unuse(vals...)
	default:
		e.service.Unuse(vals...)
	}
	return "ok"
}

func (e *env) call(toks []int, mode ...string) (c c15Call) {
	op := c15Op{Toks: toks}
	if len(mode) > 0 {
		op.Ctx = mode[0]
	}
	c, _ = e.callOp(op)
	return c
}

func (e *env) callB(toks []int) (c15Call, int64) { return e.callOp(c15Op{Toks: toks}) }

func (e *env) callOp(op c15Op) (c c15Call, ballast int64) {
	toks := op.Toks
	mode := []string{op.Ctx}
	tr := &callTrace{}
	// the service side of a call the transport gave up on keeps running: let it finish before
	// anything else happens, so that the next operation finds a quiet system
	defer e.quiesce()
	defer func() { ballast = atomic.LoadInt64(&tr.ballast) }()
	defer func() {
		if p := recover(); p != nil {
			tr.mu.Lock()
			msg := fmt.Sprintf("panic:%v", p)
			if msg == "panic:e79" {
				msg = "panic" // the scripted panic of the transport, unwinding to the caller
			}
			c = c15Call{Trace: strings.Join(tr.ev, ";"), Res: msg}
			tr.mu.Unlock()
		}
	}()
	ctx := context.WithValue(context.Background(), traceKeyT{}, tr)
	if op.TF != 0 {
		ctx = context.WithValue(ctx, faultKeyT{}, op.TF)
	}
	if op.CC > 0 {
		// the caller keeps one ClientContext / one context.Context for several calls
		if e.slots == nil {
			e.slots = map[int]*ctxSlot{}
		}
		sl := e.slots[op.CC]
		if sl == nil {
			sl = &ctxSlot{holder: &traceHolder{}, cc: core.NewClientContext()}
			sl.ctx = core.WithContext(context.WithValue(context.Background(), traceKeyT{}, sl.holder), core.NewClientContext())
			e.slots[op.CC] = sl
		}
		if op.CCM == "cc" {
			ctx = core.WithContext(ctx, sl.cc)
		} else {
			sl.holder.tr.Store(tr)
			atomic.StoreInt64(&sl.holder.fault, int64(op.TF))
			ctx = sl.ctx
		}
	}
	if len(mode) > 0 {
		switch mode[0] {
		case "cancel":
			cctx, cancel := context.WithCancel(ctx)
			cancel()
			ctx = cctx
		case "deadline":
			dctx, cancel := context.WithDeadline(ctx, time.Now().Add(-time.Second))
			defer cancel()
			ctx = dctx
		}
	}
	args := make([]interface{}, len(toks))
	for i, t := range toks {
		args[i] = t
	}
	name := "echo"
	if op.M != "" {
		name = op.M
	}
	r, err := e.client.InvokeContext(ctx, name, args)
	x := projInvoke(r, err)
	e.quiesce()
	tr.mu.Lock()
	defer tr.mu.Unlock()
	return c15Call{Trace: strings.Join(tr.ev, ";"), Res: x.String()}, 0
}

// Requests handed to the transport and requests the service side has finished.  The mock
// transport abandons (but does not stop) the service goroutine when the caller's context is
// done; in sequential cases the executor lets that work finish before the next operation.
var sent, served int64

// scheme "c15": the mock transport, counting the requests it is given
type countingTransport struct{ inner mock.Transport }

func (t *countingTransport) Transport(ctx context.Context, request []byte) ([]byte, error) {
	if f := faultOf(ctx); f != 0 {
		// the scripted fault of the innermost layer: the request is not sent
		if f == 7007 {
			panic("e79")
		}
		return nil, faultErr(f)
	}
	atomic.AddInt64(&sent, 1)
	return t.inner.Transport(ctx, request)
}
func (t *countingTransport) Abort() { t.inner.Abort() }

type countingFactory struct{}

func (countingFactory) Schemes() []string   { return []string{"c15"} }
func (countingFactory) New() core.Transport { return &countingTransport{} }

func (e *env) quiesce() {
	if !e.seq {
		return
	}
	for atomic.LoadInt64(&served) != atomic.LoadInt64(&sent) {
		runtime.Gosched()
	}
}

// the installed chains, read off a call in which every handler passes through
func (e *env) finalChains() string {
	atomic.StoreInt32(&e.probe, 1)
	defer atomic.StoreInt32(&e.probe, 0)
	c := e.call(nil)
	out := chainsOf(c.Trace)
	if c.Res != "ok(99)" {
		out += " probe-result=" + c.Res
	}
	return out
}

func chainsOf(trace string) string {
	chains := map[string][]string{}
	for _, ev := range strings.Split(trace, ";") {
		if strings.HasPrefix(ev, "+") {
			dot := strings.IndexByte(ev, '.')
			par := strings.IndexByte(ev, '(')
			if dot > 0 && par > dot {
				chains[ev[1:dot]] = append(chains[ev[1:dot]], ev[dot+1:par])
			}
		}
	}
	out := ""
	for i, l := range []string{"CI", "CO", "SO", "SI"} {
		if i > 0 {
			out += " "
		}
		out += l + "=" + strings.Join(chains[l], ",")
	}
	return out
}

func codePtrs(v interface{}) (pi, po uint64) {
	defer func() { _ = recover() }()
	invs, ios := core.SeparatePluginHandlers([]core.PluginHandler{v})
	if len(invs) > 0 {
		pi = uint64(reflect.ValueOf(invs[0]).Pointer())
	}
	if len(ios) > 0 {
		po = uint64(reflect.ValueOf(ios[0]).Pointer())
	}
	return
}

func c15Run(line []byte, out *json.Encoder) error {
	var c c15Case
	if err := json.Unmarshal(line, &c); err != nil {
		return err
	}
	obs := c15Obs{ID: c.ID}
	e := &env{}
	for i, pe := range c.Pool {
		sl := &slot{id: i + 1, mids: pe.Mids, beh: 'P', env: e}
		if pe.Beh != "" {
			sl.beh = pe.Beh[0]
		}
		v, err := mkValue(pe, sl)
		if err != nil {
			return err
		}
		e.pool = append(e.pool, v)
		pi, po := codePtrs(v)
		obs.PtrI = append(obs.PtrI, pi)
		obs.PtrO = append(obs.PtrO, po)
	}
	addr := "c15-" + strconv.Itoa(c.ID)
	e.service = core.NewService()
	e.service.AddFunction(echo, "echo")
	e.service.AddFunction(fail, "fail")
	e.service.AddFunction(boom, "boom")
	server := mock.Server{Address: addr}
	if err := e.service.Bind(server); err != nil {
		return err
	}
	defer server.Close()
	// same handler the service bound, with a count of the requests it is working on
	if mh, ok := e.service.GetHandler("mock").(*mock.Handler); ok {
		mock.Agent.Register(addr, func(ctx context.Context, address string, request []byte) ([]byte, error) {
			defer atomic.AddInt64(&served, 1)
			return mh.Handler(ctx, address, request)
		})
	} else {
		return errors.New("mock handler not found")
	}
	e.client = core.NewClient("c15://" + addr)
	e.seq = c.Mode != "conc" && c.Mode != "multi"
	if c.Mode == "conc" {
		c15Conc(&c, e, &obs)
	} else if c.Mode == "multi" {
		c15Multi(&c, e, &obs)
	} else {
		for _, op := range c.Ops {
			if op.Op == "C" {
				r, _ := e.callOp(op)
				obs.Outs = append(obs.Outs, "call:"+r.Trace+"=>"+r.Res)
			} else {
				obs.Outs = append(obs.Outs, e.apply(op))
			}
		}
	}
	obs.Final = e.finalChains()
	return out.Encode(&obs)
}

// Use/Unuse in two mutator goroutines while caller goroutines keep calling.
func c15Conc(c *c15Case, e *env, obs *c15Obs) {
	var mutDone int32
	var mwg, cwg sync.WaitGroup
	var mu sync.Mutex
	index := map[c15Call]int{}
	intern := func(r c15Call) int {
		mu.Lock()
		defer mu.Unlock()
		if i, ok := index[r]; ok {
			return i
		}
		index[r] = len(obs.Distinct)
		obs.Distinct = append(obs.Distinct, r)
		return len(obs.Distinct) - 1
	}
	obs.Seqs = make([][]int, c.Callers)
	obs.Last = make([]int, c.Callers)
	start := make(chan struct{})
	for _, script := range [][]c15Op{c.MutC, c.MutS} {
		mwg.Add(1)
		go func(script []c15Op) {
			defer mwg.Done()
			<-start
			for _, op := range script {
				if st := e.apply(op); st != "ok" {
					mu.Lock()
					obs.Panics = append(obs.Panics, st)
					mu.Unlock()
				}
				if c.GapUs > 0 {
					time.Sleep(time.Duration(c.GapUs) * time.Microsecond)
				} else {
					runtime.Gosched()
				}
			}
		}(script)
	}
	for k := 0; k < c.Callers; k++ {
		cwg.Add(1)
		go func(k int) {
			defer cwg.Done()
			<-start
			for n := 0; n < 100000; n++ {
				done := atomic.LoadInt32(&mutDone) != 0
				i := intern(e.call([]int{k}))
				obs.Seqs[k] = append(obs.Seqs[k], i)
				if done {
					// this call started after every mutator had finished
					obs.Last[k] = i
					return
				}
			}
			obs.Last[k] = -1
		}(k)
	}
	close(start)
	mwg.Wait()
	atomic.StoreInt32(&mutDone, 1)
	cwg.Wait()
}

// Several mutators at once on the same managers, round after round; after each round, when
// every mutator has returned, one call shows what is installed.
func c15Multi(c *c15Case, e *env, obs *c15Obs) {
	for _, rd := range c.Rounds {
		for _, op := range rd.Setup {
			if st := e.apply(op); st != "ok" {
				obs.Panics = append(obs.Panics, st)
			}
		}
		var wg sync.WaitGroup
		var mu sync.Mutex
		var stop int32
		start := make(chan struct{})
		for _, script := range rd.Mutators {
			wg.Add(1)
			go func(script []c15Op) {
				defer wg.Done()
				<-start
				for _, op := range script {
					if st := e.apply(op); st != "ok" {
						mu.Lock()
						obs.Panics = append(obs.Panics, st)
						mu.Unlock()
					}
				}
			}(script)
		}
		ro := c15RoundObs{}
		seen := map[c15Call]bool{}
		var cwg sync.WaitGroup
		cwg.Add(1)
		go func() {
			defer cwg.Done()
			<-start
			for n := 0; n < 1000 && atomic.LoadInt32(&stop) == 0; n++ {
				r := e.call([]int{7})
				if !seen[r] {
					seen[r] = true
					ro.During = append(ro.During, r)
				}
			}
		}()
		close(start)
		wg.Wait()
		atomic.StoreInt32(&stop, 1)
		cwg.Wait()
		r, ballast := e.callB([]int{7})
		ro.Trace, ro.Res, ro.Ballast = r.Trace, r.Res, ballast
		ro.Chains = chainsOf(r.Trace)
		obs.Rounds = append(obs.Rounds, ro)
	}
}

func main() {
	mock.RegisterHandler()
	mock.RegisterTransport()
	core.RegisterTransport("c15", countingFactory{})
	hvlib.Main(c15Run)
}
