//go:build c19hook
// +build c19hook

package main

// Forced schedules on the real Broker.  Compiled only with -tags "verif c19hook", which
// checks/C19.py passes when the tree under test contains the yield hook
// (rpc/plugins/push/verif_on.go defining push.VerifYieldHook; see hooks/c19-push.patch):
//
//   send:        verifYield("send.deliver", id)     before  responder <- result
//   doHeartBeat: verifYield("heartbeat.start", id)  before  b.signals.Upsert
//   response:    verifYield("response.popped", id)  after   b.responders.Pop succeeded
//   message:     verifYield("poll.register", id)    before  b.responders.Upsert
//                verifYield("poll.timeout", id)     in the <-ctx.Done() branch
//   subscribe:   verifYield("subscribe.checked", id) between topics.Load and topics.LoadOrStore
//                (proposed: hooks/c19-push-subscribe.patch; the scenario subscribe-race needs it)
//
// A goroutine that reaches an armed point reports its arrival and is held until released.

import (
	"sync"
	"time"

	"github.com/hprose/hprose-golang/v3/rpc/plugins/push"
)

type gate struct {
	arrived chan struct{}
	release chan struct{}
}

type controller struct {
	mu    sync.Mutex
	gates map[string]*gate // point -> one-shot gate
}

func (ct *controller) arm(point string) *gate {
	g := &gate{arrived: make(chan struct{}, 1), release: make(chan struct{})}
	ct.mu.Lock()
	ct.gates[point] = g
	ct.mu.Unlock()
	return g
}

func (ct *controller) hook(point string, id string) {
	ct.mu.Lock()
	g := ct.gates[point]
	if g != nil {
		delete(ct.gates, point)
	}
	ct.mu.Unlock()
	if g != nil {
		g.arrived <- struct{}{}
		<-g.release
	}
}

func waitCh(ch chan struct{}, d time.Duration) bool {
	select {
	case <-ch:
		return true
	case <-time.After(d):
		return false
	}
}

func init() { runForced = runForcedHooked }

type asyncPoll struct {
	done   chan struct{}
	res    string
	before uintptr
	keep   interface{}
}

func startPoll(e *env, c int) *asyncPoll {
	p := &asyncPoll{done: make(chan struct{})}
	b, keep := responderOf(e.broker, cid(c))
	p.before, p.keep = b, keep
	go func() {
		p.res, _ = e.poll(c)
		close(p.done)
	}()
	return p
}

// waitRegistered: the poll has returned (true, result) or is waiting with its own responder registered
func waitRegistered(e *env, c int, p *asyncPoll) (bool, bool) {
	for i := 0; i < 20000; i++ {
		select {
		case <-p.done:
			return true, true
		default:
		}
		if now, _ := responderOf(e.broker, cid(c)); now != 0 && now != p.before {
			return false, true
		}
		time.Sleep(50 * time.Microsecond)
	}
	return false, false
}

func runForcedHooked(c *c19Case, obs *c19Obs) {
	ct := &controller{gates: map[string]*gate{}}
	push.VerifYieldHook = ct.hook
	defer func() { push.VerifYieldHook = nil }()
	out := map[string]interface{}{}
	obs.Forced = out
	long := 3 * time.Second
	switch c.Scenario {
	case "timeout-while-popped":
		e := newEnv(c.TimeoutMs, c.HeartbeatMs)
		defer e.close()
		out["sub"], _ = e.subscribe(1, 7)
		p1 := startPoll(e, 1)
		if done, ok := waitRegistered(e, 1, p1); done || !ok {
			obs.Err = "poll 1 did not wait"
			return
		}
		g := ct.arm("response.popped")
		gt := ct.arm("poll.timeout")
		pub := make(chan string, 1)
		go func() { pub <- e.unicast("p1", "", 7, 42, 1) }()
		if !waitCh(g.arrived, long) {
			obs.Err = "the publisher never popped the responder"
			return
		}
		// the publisher holds the popped responder; the poll's timer fires
		if !waitCh(gt.arrived, long) {
			obs.Err = "the timer of poll 1 never fired"
			return
		}
		close(gt.release)
		// the pinned message() returns {} now; the repaired one waits for the publisher's answer
		early := waitCh(p1.done, 25*time.Millisecond)
		out["poll1_before_answer"] = early
		close(g.release)
		select {
		case r := <-pub:
			out["pub"] = r
		case <-time.After(long):
			obs.Err = "the publisher never returned"
			return
		}
		if !waitCh(p1.done, long) {
			obs.Err = "poll 1 never returned"
			return
		}
		out["poll1"] = p1.res
		p2 := startPoll(e, 1)
		if done, ok := waitRegistered(e, 1, p2); done {
			out["poll2"] = p2.res
		} else if ok {
			out["poll2"] = "W"
			waitCh(p2.done, long)
			out["poll2_end"] = p2.res
		} else {
			obs.Err = "poll 2 neither returned nor waited"
		}
	case "publish-before-register":
		e := newEnv(c.TimeoutMs, c.HeartbeatMs)
		defer e.close()
		out["sub"], _ = e.subscribe(1, 7)
		g := ct.arm("poll.register")
		p1 := startPoll(e, 1)
		if !waitCh(g.arrived, long) {
			obs.Err = "poll 1 never reached the registration"
			return
		}
		out["pub"] = e.unicast("p1", "", 7, 42, 1)
		close(g.release)
		if !waitCh(p1.done, long) {
			obs.Err = "poll 1 never returned"
			return
		}
		out["poll1"] = p1.res
		p2 := startPoll(e, 1)
		if done, ok := waitRegistered(e, 1, p2); done {
			out["poll2"] = p2.res
		} else if ok {
			out["poll2"] = "W"
			waitCh(p2.done, long)
		} else {
			obs.Err = "poll 2 neither returned nor waited"
		}
	case "heartbeat-after-repoll":
		e := newEnv(600, 80)
		defer e.close()
		out["sub"], _ = e.subscribe(1, 7)
		out["pub1"] = e.unicast("p1", "", 7, 42, 1)
		g := ct.arm("heartbeat.start")
		r, _ := e.poll(1)
		out["poll1"] = r
		if !waitCh(g.arrived, long) {
			obs.Err = "no heartbeat goroutine was started"
			return
		}
		// the client polls again at once, before the heartbeat goroutine has registered its signal
		p2 := startPoll(e, 1)
		if done, ok := waitRegistered(e, 1, p2); done || !ok {
			obs.Err = "poll 2 did not wait"
			return
		}
		close(g.release)
		if !waitCh(p2.done, long) {
			obs.Err = "poll 2 never returned"
			return
		}
		out["poll2"] = p2.res
		out["pub2"] = e.unicast("p1", "", 7, 43, 1)
	case "subscribe-race":
		// two subscribes of one client and topic: the second has passed the existence check and is held
		// before its insert; the first completes; a publish is accepted; the second inserts; the client polls
		e := newEnv(c.TimeoutMs, c.HeartbeatMs)
		defer e.close()
		g := ct.arm("subscribe.checked")
		s2 := make(chan string, 1)
		go func() { r, _ := e.subscribe(1, 7); s2 <- r }()
		if !waitCh(g.arrived, long) {
			obs.Err = "the second subscribe never reached the point between check and insert"
			return
		}
		out["sub1"], _ = e.subscribe(1, 7)
		out["pub"] = e.unicast("p1", "", 7, 42, 1)
		close(g.release)
		select {
		case r := <-s2:
			out["sub2"] = r
		case <-time.After(long):
			obs.Err = "the second subscribe never returned"
			return
		}
		p1 := startPoll(e, 1)
		if done, ok := waitRegistered(e, 1, p1); done {
			out["poll1"] = p1.res
		} else if ok {
			out["poll1"] = "W"
			waitCh(p1.done, long)
		} else {
			obs.Err = "the poll neither returned nor waited"
		}
	default:
		obs.Err = "unknown scenario " + c.Scenario
	}
}
