package main

import (
	"context"
	"encoding/json"
	"errors"
	"fmt"
	"math/rand"
	"reflect"
	"runtime"
	"sort"
	"strconv"
	"strings"
	"sync"
	"sync/atomic"
	"time"
	"unsafe"

	"github.com/hprose/hprose-golang/v3/rpc/core"
	"github.com/hprose/hprose-golang/v3/rpc/plugins/push"
	"hv/hvlib"
)

// C19: drive the real push Broker.
//
// A real core.Service with push.NewBroker installed is reached by real core.Clients (one per
// client id, the id in the request headers exactly as push.Prosumer sets it) over an in-process
// transport registered under the scheme "hvpush": the request bytes produced by the client codec
// are handed to Service.Handle in the calling goroutine, with a server-side context that is not
// tied to the request (context.Background(), as the socket / websocket / udp handlers do).
// So every call goes client codec -> service codec -> Broker.handler plugin -> the published
// function ("+", "-", "<", ">", ">?", ">*"), and back.
//
// kind "seq":    a scripted history, one operation at a time; polls run in their own goroutine
//                and may stay pending; everything that is observed is appended to one log in the
//                order in which the script thread saw it, with wall-clock stamps.
// kind "stress": several publishers with unique payloads against polling consumers; every call
//                and every poll result is recorded for the property oracle.
// kind "subrace": in every round 2-3 subscribe calls of ONE client id and topic (two connections of one
//                id, or the Prosumer's re-subscribe loop racing with Subscribe) start together with a
//                publisher that sends one message as soon as the subscription exists; then the client
//                polls.  The subscribes go through the published function "+" of the service's method
//                manager with a service context carrying the id (no codec in between, so that the calls
//                really overlap); the publisher uses Broker.Push; the polls are ordinary RPC calls.
// kind "forced": racing orders forced at the verif yield points (hook_verif.go, only built when
//                the tree under test has the hook).
//
// The executor only observes; all comparing is done by checks/C19.py.

type c19Op struct {
	Op  string `json:"op"` // sub unsub uni multi bcast poll await hbwait sleep
	C   int    `json:"c"`
	T   int    `json:"t"`
	M   int64  `json:"m"`
	Cs  []int  `json:"cs,omitempty"`
	Via string `json:"via,omitempty"` // "" = RPC from a publisher client, "push" = Broker.Push on the server
	Ms  int    `json:"ms,omitempty"`
}

type c19Case struct {
	ID          int     `json:"id"`
	Kind        string  `json:"kind"`
	TimeoutMs   int     `json:"timeout_ms"`
	HeartbeatMs int     `json:"heartbeat_ms"`
	Ops         []c19Op `json:"ops,omitempty"`
	// stress
	Clients    int    `json:"clients,omitempty"`
	Topics     int    `json:"topics,omitempty"`
	Publishers int    `json:"publishers,omitempty"`
	PerPub     int    `json:"per_pub,omitempty"`
	PaceUs     int    `json:"pace_us,omitempty"` // > 0: every publisher sleeps that long between publishes
	Mode       string `json:"mode,omitempty"` // traffic | timeouts
	Churn      bool   `json:"churn,omitempty"`
	Seed       int64  `json:"seed,omitempty"`
	// subrace
	Subscribers int `json:"subscribers,omitempty"`
	DurationMs  int `json:"duration_ms,omitempty"`
	// forced
	Scenario string `json:"scenario,omitempty"`
	// prosumer: a real push.Prosumer against the real Broker
	PSteps  [][]interface{} `json:"psteps,omitempty"`  // ["sub", topic] ["push", topic, text] ["sleep", ms]
	Welcome []string        `json:"welcome,omitempty"` // topics whose OnSubscribe publishes "welcome-<topic>" and then lingers
	LagMs   int             `json:"lag_ms,omitempty"`  // how long OnSubscribe lingers after the welcome (latency of the subscribe answer)
}

type c19Event struct {
	E  string `json:"e"` // S U P1 PM PB L T R H
	C  int    `json:"c,omitempty"`
	T  int    `json:"t,omitempty"`
	M  int64  `json:"m,omitempty"`
	Cs []int  `json:"cs,omitempty"`
	R  string `json:"r"`            // result in the driver's notation
	T0 int64  `json:"t0"`           // UnixNano: call started / poll started
	T1 int64  `json:"t1"`           // UnixNano: call returned / poll returned
	V  string `json:"via,omitempty"`
}

type c19Obs struct {
	ID   int        `json:"id"`
	Kind string     `json:"kind"`
	Log  []c19Event `json:"log,omitempty"`
	Err  string     `json:"err,omitempty"`
	// stress
	Pubs   []stressPub  `json:"pubs,omitempty"`
	Polls  []stressPoll `json:"polls,omitempty"`
	Subs   []stressSub  `json:"subs,omitempty"`
	Notes  []string     `json:"notes,omitempty"`
	// subrace
	Race *raceObs `json:"race,omitempty"`
	// forced
	Forced map[string]interface{} `json:"forced,omitempty"`
	// prosumer
	Accepted  map[string][]string `json:"accepted,omitempty"`  // per topic: the texts whose publish reported success, in order
	Delivered map[string][]string `json:"delivered,omitempty"` // per topic: what the subscriber's callback received, in order
	Unsupported bool              `json:"unsupported,omitempty"`
}

// ------------------------------------------------------------------ in-process transport

var services sync.Map // host -> *core.Service

type hvTransport struct{}

func (hvTransport) Transport(ctx context.Context, request []byte) ([]byte, error) {
	cc := core.GetClientContext(ctx)
	v, ok := services.Load(cc.URL.Host)
	if !ok {
		return nil, errors.New("hvpush: no such service " + cc.URL.Host)
	}
	svc := v.(*core.Service)
	sc := core.NewServiceContext(svc)
	return svc.Handle(core.WithContext(context.Background(), sc), request)
}
func (hvTransport) Abort() {}

type hvFactory struct{}

func (hvFactory) Schemes() []string   { return []string{"hvpush"} }
func (hvFactory) New() core.Transport { return hvTransport{} }

// ------------------------------------------------------------------ one broker and its clients

type env struct {
	host    string
	svc     *core.Service
	broker  *push.Broker
	mu      sync.Mutex
	clients map[string]*core.Client
}

var envSeq int64

func newEnv(timeoutMs, heartbeatMs int) *env {
	e := &env{host: "b" + strconv.FormatInt(atomic.AddInt64(&envSeq, 1), 10), clients: map[string]*core.Client{}}
	e.svc = core.NewService()
	e.broker = push.NewBroker(e.svc)
	e.broker.Timeout = time.Duration(timeoutMs) * time.Millisecond
	e.broker.HeartBeat = time.Duration(heartbeatMs) * time.Millisecond
	services.Store(e.host, e.svc)
	return e
}

func (e *env) close() { services.Delete(e.host) }

func (e *env) client(name string) *core.Client {
	e.mu.Lock()
	defer e.mu.Unlock()
	if c, ok := e.clients[name]; ok {
		return c
	}
	c := core.NewClient("hvpush://" + e.host + "/")
	c.Timeout = 60 * time.Second
	c.RequestHeaders().Set("id", name)
	e.clients[name] = c
	return c
}

func cid(c int) string { return "c" + strconv.Itoa(c) }
func tid(t int) string { return "t" + strconv.Itoa(t) }

func parseNum(s string) int {
	n, _ := strconv.Atoi(strings.TrimLeft(s, "ct"))
	return n
}

var (
	boolType = reflect.TypeOf(false)
	mapBType = reflect.TypeOf(map[string]bool{})
	pollType = reflect.TypeOf(map[string][]push.Message{})
)

func (e *env) invoke(who, name string, rt reflect.Type, args ...interface{}) (interface{}, error) {
	cc := core.NewClientContext()
	cc.ReturnType = []reflect.Type{rt}
	r, err := e.client(who).InvokeContext(core.WithContext(context.Background(), cc), name, args)
	if err != nil {
		return nil, err
	}
	if len(r) == 0 {
		return nil, nil
	}
	return r[0], nil
}

func tf(b bool) string {
	if b {
		return "T"
	}
	return "F"
}

func mapStr(m map[string]bool) string {
	type kv struct {
		k int
		v bool
	}
	var l []kv
	for k, v := range m {
		l = append(l, kv{parseNum(k), v})
	}
	sort.Slice(l, func(i, j int) bool { return l[i].k < l[j].k })
	var sb []string
	for _, x := range l {
		sb = append(sb, strconv.Itoa(x.k)+":"+tf(x.v))
	}
	if len(sb) == 0 {
		return "-"
	}
	return strings.Join(sb, ",")
}

func toInt64(v interface{}) (int64, bool) {
	rv := reflect.ValueOf(v)
	switch rv.Kind() {
	case reflect.Int, reflect.Int8, reflect.Int16, reflect.Int32, reflect.Int64:
		return rv.Int(), true
	case reflect.Uint, reflect.Uint8, reflect.Uint16, reflect.Uint32, reflect.Uint64:
		return int64(rv.Uint()), true
	case reflect.Float32, reflect.Float64:
		return int64(rv.Float()), true
	}
	return 0, false
}

// pollStr: N nil, E empty map (time-out), B<t:m.m;t:m>
func pollStr(r interface{}, err error) (string, map[int][]int64) {
	if err != nil {
		return "ERR:" + err.Error(), nil
	}
	m, ok := r.(map[string][]push.Message)
	if r == nil || (ok && m == nil) {
		return "N", nil
	}
	if !ok {
		return fmt.Sprintf("ERR:unexpected result type %T", r), nil
	}
	if len(m) == 0 {
		return "E", nil
	}
	var ts []int
	by := map[int][]int64{}
	for k, msgs := range m {
		t := parseNum(k)
		ts = append(ts, t)
		for _, mm := range msgs {
			n, ok := toInt64(mm.Data)
			if !ok {
				n = -999999
			}
			by[t] = append(by[t], n)
		}
		if msgs == nil {
			by[t] = nil
		}
	}
	sort.Ints(ts)
	var parts []string
	for _, t := range ts {
		var ms []string
		for _, n := range by[t] {
			ms = append(ms, strconv.FormatInt(n, 10))
		}
		parts = append(parts, strconv.Itoa(t)+":"+strings.Join(ms, "."))
	}
	return "B" + strings.Join(parts, ";"), by
}

func (e *env) subscribe(c, t int) (string, error) {
	r, err := e.invoke(cid(c), "+", boolType, tid(t))
	if err != nil {
		return "ERR:" + err.Error(), err
	}
	return tf(r.(bool)), nil
}

func (e *env) unsubscribe(c, t int) (string, error) {
	r, err := e.invoke(cid(c), "-", boolType, tid(t))
	if err != nil {
		return "ERR:" + err.Error(), err
	}
	return tf(r.(bool)), nil
}

func (e *env) poll(c int) (string, map[int][]int64) {
	r, err := e.invoke(cid(c), "<", pollType)
	return pollStr(r, err)
}

func (e *env) unicast(from string, via string, t int, m int64, c int) string {
	if via == "push" {
		return mapStr(e.broker.Push(m, tid(t), cid(c)))
	}
	r, err := e.invoke(from, ">", boolType, m, tid(t), cid(c))
	if err != nil {
		return "ERR:" + err.Error()
	}
	return strconv.Itoa(c) + ":" + tf(r.(bool))
}

func (e *env) multicast(from string, via string, t int, m int64, cs []int) string {
	ids := make([]string, len(cs))
	for i, c := range cs {
		ids[i] = cid(c)
	}
	if via == "push" && len(ids) >= 2 {
		return mapStr(e.broker.Push(m, tid(t), ids...))
	}
	r, err := e.invoke(from, ">?", mapBType, m, tid(t), ids)
	if err != nil {
		return "ERR:" + err.Error()
	}
	return mapStr(r.(map[string]bool))
}

func (e *env) broadcast(from string, via string, t int, m int64) string {
	if via == "push" {
		return mapStr(e.broker.Push(m, tid(t)))
	}
	r, err := e.invoke(from, ">*", mapBType, m, tid(t))
	if err != nil {
		return "ERR:" + err.Error()
	}
	return mapStr(r.(map[string]bool))
}

// responderOf reads (read-only, by reflection, under the shard's own lock) which channel is
// registered in b.responders for the client: 0 if none.  The script thread uses it to know that
// a poll it has started has really reached the point where it waits (its responder, a channel
// different from the one seen before the poll started, is registered) before it goes on.
func responderOf(b *push.Broker, id string) (p uintptr, keep reflect.Value) {
	defer func() {
		if recover() != nil {
			p = 0
		}
	}()
	f := reflect.ValueOf(b).Elem().FieldByName("responders")
	for i := 0; i < f.Len(); i++ {
		sh := f.Index(i).Elem()
		mu := (*sync.RWMutex)(unsafe.Pointer(sh.FieldByName("RWMutex").UnsafeAddr()))
		items := sh.FieldByName("items")
		mu.RLock()
		v := items.MapIndex(reflect.ValueOf(id))
		if v.IsValid() && !v.IsNil() {
			keep = v.Elem() // holding the Value keeps the channel alive, so its address is not reused
			p = keep.Pointer()
		}
		mu.RUnlock()
		if p != 0 {
			return p, keep
		}
	}
	return 0, keep
}

// ------------------------------------------------------------------ kind "seq"

type pending struct {
	done chan struct{}
	res  string
	t0   int64
	t1   int64
}

func runSeq(c *c19Case, obs *c19Obs) {
	e := newEnv(c.TimeoutMs, c.HeartbeatMs)
	defer e.close()
	pend := map[int]*pending{}
	logEv := func(ev c19Event) { obs.Log = append(obs.Log, ev) }
	collect := func() {
		var ks []int
		for k := range pend {
			ks = append(ks, k)
		}
		sort.Ints(ks)
		for _, k := range ks {
			p := pend[k]
			select {
			case <-p.done:
				ev := c19Event{E: "R", C: k, R: p.res, T0: p.t0, T1: p.t1}
				if p.res == "E" {
					ev.E = "T"
				}
				logEv(ev)
				delete(pend, k)
			default:
			}
		}
	}
	waitFor := func(k int, d time.Duration) {
		if p, ok := pend[k]; ok {
			select {
			case <-p.done:
			case <-time.After(d):
			}
		}
	}
	settle := func() {
		if len(pend) > 0 {
			time.Sleep(2 * time.Millisecond)
		}
		collect()
	}
	longWait := time.Duration(c.TimeoutMs)*time.Millisecond + 3*time.Second
	for _, op := range c.Ops {
		t0 := time.Now().UnixNano()
		switch op.Op {
		case "sub":
			r, _ := e.subscribe(op.C, op.T)
			logEv(c19Event{E: "S", C: op.C, T: op.T, R: r, T0: t0, T1: time.Now().UnixNano()})
			settle()
		case "unsub":
			r, _ := e.unsubscribe(op.C, op.T)
			logEv(c19Event{E: "U", C: op.C, T: op.T, R: r, T0: t0, T1: time.Now().UnixNano()})
			settle()
		case "uni":
			r := e.unicast("p1", op.Via, op.T, op.M, op.C)
			logEv(c19Event{E: "P1", C: op.C, T: op.T, M: op.M, R: r, T0: t0, T1: time.Now().UnixNano(), V: op.Via})
			settle()
		case "multi":
			r := e.multicast("p1", op.Via, op.T, op.M, op.Cs)
			logEv(c19Event{E: "PM", Cs: op.Cs, T: op.T, M: op.M, R: r, T0: t0, T1: time.Now().UnixNano(), V: op.Via})
			settle()
		case "bcast":
			r := e.broadcast("p1", op.Via, op.T, op.M)
			logEv(c19Event{E: "PB", T: op.T, M: op.M, R: r, T0: t0, T1: time.Now().UnixNano(), V: op.Via})
			settle()
		case "poll":
			collect()
			if _, busy := pend[op.C]; busy {
				logEv(c19Event{E: "L", C: op.C, R: "!", T0: t0, T1: t0})
				continue
			}
			p := &pending{done: make(chan struct{}), t0: t0}
			k := op.C
			before, keepAlive := responderOf(e.broker, cid(k))
			go func() {
				p.res, _ = e.poll(k)
				p.t1 = time.Now().UnixNano()
				close(p.done)
			}()
			// the poll either returns at once (something to return, or no subscription) or registers
			// its responder and waits
			registered := false
			for spin := 0; spin < 4000 && !registered; spin++ {
				select {
				case <-p.done:
					spin = 1 << 30
				default:
					if now, _ := responderOf(e.broker, cid(k)); now != 0 && now != before {
						registered = true
					} else {
						time.Sleep(50 * time.Microsecond)
					}
				}
				if spin >= 1<<30 {
					break
				}
			}
			_ = keepAlive.IsValid()
			select {
			case <-p.done:
				if p.res == "E" {
					// {} only comes out of the time-out branch: the poll had registered and waited, the script
					// thread was merely too slow to see it
					logEv(c19Event{E: "L", C: k, R: "W", T0: p.t0, T1: p.t0})
					logEv(c19Event{E: "T", C: k, R: "E", T0: p.t0, T1: p.t1})
				} else {
					logEv(c19Event{E: "L", C: k, R: p.res, T0: p.t0, T1: p.t1})
				}
			default:
				if !registered {
					obs.Err = "a poll neither returned nor registered its responder"
				}
				logEv(c19Event{E: "L", C: k, R: "W", T0: p.t0, T1: time.Now().UnixNano()})
				pend[k] = p
			}
			collect()
		case "await":
			waitFor(op.C, longWait)
			collect()
		case "hbwait":
			time.Sleep(time.Duration(c.HeartbeatMs)*time.Millisecond + 80*time.Millisecond)
			logEv(c19Event{E: "H", T0: t0, T1: time.Now().UnixNano()})
			settle()
		case "sleep":
			time.Sleep(time.Duration(op.Ms) * time.Millisecond)
			collect()
		default:
			obs.Err = "unknown op " + op.Op
			return
		}
	}
	// let every pending poll end (by its time-out)
	var ks []int
	for k := range pend {
		ks = append(ks, k)
	}
	sort.Ints(ks)
	for _, k := range ks {
		waitFor(k, longWait)
	}
	collect()
	if len(pend) > 0 {
		obs.Err = "a poll never returned"
	}
}

// ------------------------------------------------------------------ kind "stress"

type stressPub struct {
	P    int    `json:"p"`    // publisher
	Seq  int    `json:"seq"`  // its k-th publish
	Kind string `json:"kind"` // uni multi bcast
	T    int    `json:"t"`
	M    int64  `json:"m"`
	Cs   []int  `json:"cs,omitempty"`
	R    string `json:"r"`
	T0   int64  `json:"t0"`
	T1   int64  `json:"t1"`
}

type stressPoll struct {
	C  int             `json:"c"`
	K  int             `json:"k"` // the client's k-th poll
	R  string          `json:"r"` // N E B ERR
	By map[int][]int64 `json:"by,omitempty"`
	T0 int64           `json:"t0"`
	T1 int64           `json:"t1"`
}

type stressSub struct {
	C  int    `json:"c"`
	T  int    `json:"t"`
	Op string `json:"op"` // sub unsub
	R  string `json:"r"`
	T0 int64  `json:"t0"`
	T1 int64  `json:"t1"`
}

const flushBase = int64(900000000)

func runStress(c *c19Case, obs *c19Obs) {
	e := newEnv(c.TimeoutMs, c.HeartbeatMs)
	defer e.close()
	var mu sync.Mutex
	rng := rand.New(rand.NewSource(c.Seed))
	// client k subscribes to topics 1..Topics, except that the last client skips the last topic
	// when there are at least two of each (a non-subscriber to check against)
	subscribed := map[[2]int]bool{}
	for k := 1; k <= c.Clients; k++ {
		for t := 1; t <= c.Topics; t++ {
			if k == c.Clients && t == c.Topics && c.Clients >= 2 && c.Topics >= 2 {
				continue
			}
			t0 := time.Now().UnixNano()
			r, _ := e.subscribe(k, t)
			obs.Subs = append(obs.Subs, stressSub{C: k, T: t, Op: "sub", R: r, T0: t0, T1: time.Now().UnixNano()})
			subscribed[[2]int{k, t}] = true
		}
	}
	var stop int32
	var wg sync.WaitGroup
	deadline := time.Now().Add(12 * time.Second) // a broker that wedges must not wedge the check
	// consumers
	flushed := make([]int32, c.Clients+1)
	for k := 1; k <= c.Clients; k++ {
		wg.Add(1)
		go func(k int) {
			defer wg.Done()
			empties := 0
			for n := 0; n < 100000; n++ {
				if time.Now().After(deadline) {
					mu.Lock()
					obs.Notes = append(obs.Notes, fmt.Sprintf("client %d: deadline of the stress run reached", k))
					mu.Unlock()
					return
				}
				t0 := time.Now().UnixNano()
				r, by := e.poll(k)
				t1 := time.Now().UnixNano()
				mu.Lock()
				obs.Polls = append(obs.Polls, stressPoll{C: k, K: n, R: r[:1], By: by, T0: t0, T1: t1})
				mu.Unlock()
				if strings.HasPrefix(r, "ERR") || r == "N" {
					mu.Lock()
					obs.Notes = append(obs.Notes, fmt.Sprintf("client %d poll %d ended the loop: %s", k, n, r))
					mu.Unlock()
					return
				}
				for _, ms := range by {
					for _, m := range ms {
						if m >= flushBase {
							atomic.StoreInt32(&flushed[k], 1)
						}
					}
				}
				if atomic.LoadInt32(&stop) == 1 {
					if c.Mode == "traffic" {
						if atomic.LoadInt32(&flushed[k]) == 1 {
							return
						}
					} else {
						if r == "E" {
							empties++
						} else {
							empties = 0
						}
						if empties >= 2 {
							return
						}
					}
				}
			}
		}(k)
	}
	time.Sleep(3 * time.Millisecond)
	// churn: client 1 leaves and rejoins its last topic while traffic flows
	var churnWg sync.WaitGroup
	if c.Churn && c.Topics >= 2 {
		churnWg.Add(1)
		go func() {
			defer churnWg.Done()
			r2 := rand.New(rand.NewSource(c.Seed + 7))
			for i := 0; i < 6 && atomic.LoadInt32(&stop) == 0; i++ {
				time.Sleep(time.Duration(1+r2.Intn(4)) * time.Millisecond)
				t0 := time.Now().UnixNano()
				r, _ := e.unsubscribe(1, c.Topics)
				t1 := time.Now().UnixNano()
				mu.Lock()
				obs.Subs = append(obs.Subs, stressSub{C: 1, T: c.Topics, Op: "unsub", R: r, T0: t0, T1: t1})
				mu.Unlock()
				time.Sleep(time.Duration(1+r2.Intn(3)) * time.Millisecond)
				t0 = time.Now().UnixNano()
				r, _ = e.subscribe(1, c.Topics)
				t1 = time.Now().UnixNano()
				mu.Lock()
				obs.Subs = append(obs.Subs, stressSub{C: 1, T: c.Topics, Op: "sub", R: r, T0: t0, T1: t1})
				mu.Unlock()
			}
		}()
	}
	// publishers
	var pwg sync.WaitGroup
	seeds := make([]int64, c.Publishers)
	for p := range seeds {
		seeds[p] = rng.Int63()
	}
	for p := 0; p < c.Publishers; p++ {
		pwg.Add(1)
		go func(p int) {
			defer pwg.Done()
			r := rand.New(rand.NewSource(seeds[p]))
			from := "p" + strconv.Itoa(p+1)
			for i := 0; i < c.PerPub && time.Now().Before(deadline); i++ {
				m := int64(p+1)*1000000 + int64(i)
				t := 1 + r.Intn(c.Topics)
				kind := []string{"uni", "uni", "uni", "multi", "bcast"}[r.Intn(5)]
				via := ""
				if r.Intn(4) == 0 {
					via = "push"
				}
				rec := stressPub{P: p + 1, Seq: i, Kind: kind, T: t, M: m}
				rec.T0 = time.Now().UnixNano()
				switch kind {
				case "uni":
					k := 1 + r.Intn(c.Clients)
					rec.Cs = []int{k}
					rec.R = e.unicast(from, via, t, m, k)
				case "multi":
					var cs []int
					for k := 1; k <= c.Clients; k++ {
						if r.Intn(2) == 0 {
							cs = append(cs, k)
						}
					}
					if len(cs) == 0 {
						cs = []int{1}
					}
					rec.Cs = cs
					rec.R = e.multicast(from, via, t, m, cs)
				default:
					rec.R = e.broadcast(from, via, t, m)
				}
				rec.T1 = time.Now().UnixNano()
				mu.Lock()
				obs.Pubs = append(obs.Pubs, rec)
				mu.Unlock()
				if c.PaceUs > 0 {
					time.Sleep(time.Duration(c.PaceUs) * time.Microsecond)
				} else if c.Mode == "timeouts" {
					time.Sleep(time.Duration(r.Intn(2*c.TimeoutMs+1)) * time.Millisecond / 2)
				} else if r.Intn(8) == 0 {
					time.Sleep(time.Duration(r.Intn(300)) * time.Microsecond)
				}
			}
		}(p)
	}
	pwg.Wait()
	churnWg.Wait()
	atomic.StoreInt32(&stop, 1)
	if c.Mode == "traffic" {
		// a last message per client (on a topic it is subscribed to throughout) lets its loop end
		for k := 1; k <= c.Clients; k++ {
			m := flushBase + int64(k)
			t0 := time.Now().UnixNano()
			r := e.unicast("p0", "", 1, m, k)
			mu.Lock()
			obs.Pubs = append(obs.Pubs, stressPub{P: 0, Seq: k, Kind: "uni", T: 1, M: m, Cs: []int{k}, R: r, T0: t0, T1: time.Now().UnixNano()})
			mu.Unlock()
		}
	}
	done := make(chan struct{})
	go func() { wg.Wait(); close(done) }()
	select {
	case <-done:
	case <-time.After(time.Duration(c.TimeoutMs)*time.Millisecond*3 + 4*time.Second):
		obs.Err = "consumers did not finish"
	}
}

// ------------------------------------------------------------------ kind "subrace"

type raceFail struct {
	Round int      `json:"round"`
	C     int      `json:"c"`
	M     int64    `json:"m"`
	Subs  []string `json:"subs"`
	Pub   string   `json:"pub"`
	Polls []string `json:"polls"`
	Got   []int64  `json:"got"`
}

type raceObs struct {
	Rounds       int        `json:"rounds"`
	Accepted     int        `json:"accepted"`
	Delivered    int        `json:"delivered"`
	SubTrue      map[int]int `json:"sub_true"` // how many of the racing subscribes reported true -> rounds
	Lost         []raceFail `json:"lost,omitempty"`
	Dup          []raceFail `json:"dup,omitempty"`
	TwoTrue      []raceFail `json:"two_true,omitempty"`
	LostCount    int        `json:"lost_count"`
	DupCount     int        `json:"dup_count"`
	TwoTrueCount int        `json:"two_true_count"`
}

func runSubRace(c *c19Case, obs *c19Obs) {
	ro := &raceObs{SubTrue: map[int]int{}}
	obs.Race = ro
	nsub := c.Subscribers
	if nsub < 2 {
		nsub = 2
	}
	deadline := time.Now().Add(time.Duration(c.DurationMs) * time.Millisecond)
	const topic = 7
	for time.Now().Before(deadline) {
		e := newEnv(c.TimeoutMs, c.HeartbeatMs)
		plus := e.svc.Get("+")
		if plus == nil {
			obs.Err = "the service publishes no \"+\""
			e.close()
			return
		}
		fn := plus.Func()
		for k := 1; k <= 200 && time.Now().Before(deadline); k++ {
			ro.Rounds++
			id := cid(k)
			sc := core.NewServiceContext(e.svc)
			sc.RequestHeaders().Set("id", id)
			ctx := core.WithContext(context.Background(), sc)
			args := []reflect.Value{reflect.ValueOf(ctx), reflect.ValueOf(tid(topic))}
			m := int64(ro.Rounds)
			var ready, stop int32
			var wg sync.WaitGroup
			subs := make([]string, nsub)
			pub := "-"
			wg.Add(nsub + 1)
			for i := 0; i < nsub; i++ {
				go func(i int) {
					defer wg.Done()
					defer func() {
						if p := recover(); p != nil {
							subs[i] = fmt.Sprintf("PANIC:%v", p)
						}
					}()
					atomic.AddInt32(&ready, 1)
					for atomic.LoadInt32(&ready) < int32(nsub+1) {
						runtime.Gosched()
					}
					out := fn.Call(args)
					subs[i] = tf(out[0].Bool())
				}(i)
			}
			go func() {
				defer wg.Done()
				atomic.AddInt32(&ready, 1)
				for atomic.LoadInt32(&ready) < int32(nsub+1) {
					runtime.Gosched()
				}
				for atomic.LoadInt32(&stop) == 0 {
					if r := e.broker.Push(m, tid(topic), id); r[id] {
						pub = strconv.Itoa(k) + ":T"
						return
					}
				}
			}()
			tm := time.AfterFunc(50*time.Millisecond, func() { atomic.StoreInt32(&stop, 1) })
			wg.Wait()
			tm.Stop()
			nt := 0
			for _, r := range subs {
				if r == "T" {
					nt++
				}
			}
			ro.SubTrue[nt]++
			rec := raceFail{Round: ro.Rounds, C: k, M: m, Subs: subs, Pub: pub}
			if nt != 1 {
				ro.TwoTrueCount++
				if len(ro.TwoTrue) < 3 {
					ro.TwoTrue = append(ro.TwoTrue, rec)
				}
			}
			if pub == "-" {
				continue
			}
			ro.Accepted++
			// the message is queued: the first poll returns it at once; every 8th round one more poll
			// checks that nothing comes twice
			var got []int64
			npolls := 1
			if ro.Rounds%8 == 0 {
				npolls = 2
			}
			for n := 0; n < npolls; n++ {
				r, by := e.poll(k)
				rec.Polls = append(rec.Polls, r)
				got = append(got, by[topic]...)
				if r == "N" || strings.HasPrefix(r, "ERR") {
					break
				}
			}
			rec.Got = got
			cnt := 0
			for _, x := range got {
				if x == m {
					cnt++
				}
			}
			ro.Delivered += cnt
			if cnt == 0 {
				ro.LostCount++
				if len(ro.Lost) < 3 {
					ro.Lost = append(ro.Lost, rec)
				}
			} else if cnt > 1 || len(got) > cnt {
				ro.DupCount++
				if len(ro.Dup) < 3 {
					ro.Dup = append(ro.Dup, rec)
				}
			}
		}
		e.close()
	}
}

// ------------------------------------------------------------------ kind "forced"

var runForced = func(c *c19Case, obs *c19Obs) { obs.Unsupported = true }

func c19Run(line []byte, out *json.Encoder) error {
	var c c19Case
	if err := json.Unmarshal(line, &c); err != nil {
		return err
	}
	hvlib.Begin(c.ID)
	obs := c19Obs{ID: c.ID, Kind: c.Kind}
	if c.TimeoutMs == 0 {
		c.TimeoutMs = 40
	}
	if c.HeartbeatMs == 0 {
		c.HeartbeatMs = 10000
	}
	func() {
		defer func() {
			if p := recover(); p != nil {
				obs.Err = fmt.Sprintf("panic: %v", p)
			}
		}()
		switch c.Kind {
		case "seq":
			runSeq(&c, &obs)
		case "stress":
			runStress(&c, &obs)
		case "subrace":
			runSubRace(&c, &obs)
		case "forced":
			runForced(&c, &obs)
		case "prosumer":
			runProsumer(&c, &obs)
		default:
			obs.Err = "unknown kind"
		}
	}()
	return out.Encode(&obs)
}

// runProsumer: one real push.Prosumer (client "c1") against the real Broker over the in-process transport.
// The script subscribes to topics one after the other while messages are published; for the topics listed in
// Welcome the broker's OnSubscribe hook itself publishes a first message and then lingers (the subscribe answer is
// still on its way while the message can already travel through a poll that is waiting for ANOTHER topic).
func runProsumer(c *c19Case, obs *c19Obs) {
	e := newEnv(c.TimeoutMs, c.HeartbeatMs)
	defer e.close()
	var mu sync.Mutex
	accepted := map[string][]string{}
	delivered := map[string][]string{}
	welcome := map[string]bool{}
	for _, t := range c.Welcome {
		welcome[t] = true
	}
	publish := func(topic, text string) {
		// accepted is extended BEFORE the publish can be delivered (and trimmed if it was refused), under one lock
		// with nothing else: the order of accepted is the order of the Push calls (they are sequential per topic here)
		mu.Lock()
		accepted[topic] = append(accepted[topic], text)
		mu.Unlock()
		if !e.broker.Push(text, topic, "c1")["c1"] {
			mu.Lock()
			a := accepted[topic]
			for i := len(a) - 1; i >= 0; i-- {
				if a[i] == text {
					accepted[topic] = append(a[:i:i], a[i+1:]...)
					break
				}
			}
			mu.Unlock()
		}
	}
	e.broker.OnSubscribe = func(ctx context.Context, id string, topic string) {
		if welcome[topic] {
			publish(topic, "welcome-"+topic)
			time.Sleep(time.Duration(c.LagMs) * time.Millisecond)
		}
	}
	client := core.NewClient("hvpush://" + e.host + "/")
	client.Timeout = 60 * time.Second
	consumer := push.NewProsumer(client, "c1")
	consumer.OnError = func(err error) {
		mu.Lock()
		obs.Notes = append(obs.Notes, "onerror: "+err.Error())
		mu.Unlock()
	}
	for _, st := range c.PSteps {
		op, _ := st[0].(string)
		switch op {
		case "sub":
			topic, _ := st[1].(string)
			ok, err := consumer.Subscribe(topic, func(data string) {
				mu.Lock()
				delivered[topic] = append(delivered[topic], data)
				mu.Unlock()
			})
			if err != nil || !ok {
				obs.Notes = append(obs.Notes, fmt.Sprintf("subscribe %s: %v %v", topic, ok, err))
			}
		case "push":
			topic, _ := st[1].(string)
			text, _ := st[2].(string)
			publish(topic, text)
		case "sleep":
			ms, _ := st[1].(float64)
			time.Sleep(time.Duration(ms) * time.Millisecond)
		}
	}
	// quiescence: wait until everything accepted has been delivered, or 3 s
	deadline := time.Now().Add(3 * time.Second)
	for time.Now().Before(deadline) {
		mu.Lock()
		done := true
		for t, a := range accepted {
			if len(delivered[t]) < len(a) {
				done = false
			}
		}
		mu.Unlock()
		if done {
			break
		}
		time.Sleep(10 * time.Millisecond)
	}
	time.Sleep(60 * time.Millisecond)
	mu.Lock()
	obs.Accepted, obs.Delivered = map[string][]string{}, map[string][]string{}
	for t, a := range accepted {
		obs.Accepted[t] = append([]string{}, a...)
	}
	for t, d := range delivered {
		obs.Delivered[t] = append([]string{}, d...)
	}
	mu.Unlock()
	for t := range accepted {
		consumer.Unsubscribe(t)
	}
}

func main() {
	core.RegisterTransport("hvpush", hvFactory{})
	hvlib.CaseTimeout = 60 * time.Second
	hvlib.Main(c19Run)
}
