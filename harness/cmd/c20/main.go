package main

import (
	"context"
	"encoding/json"
	"errors"
	"fmt"
	"strings"
	"time"

	"github.com/hprose/hprose-golang/v3/io"
	"github.com/hprose/hprose-golang/v3/rpc/core"
	"github.com/hprose/hprose-golang/v3/rpc/plugins/circuitbreaker"
	"hv/hvlib"
)

// C20: drive the real CircuitBreaker plugin, installed with Client.Use, with a
// scripted downstream IO handler.
type c20Case struct {
	ID        int    `json:"id"`
	Threshold uint64 `json:"threshold"`
	RecoverNs int64  `json:"recover_ns"`
	Mock      bool   `json:"mock"`
	Outs      string `json:"outs"`    // one of O E P per call
	GapsUs    []int  `json:"gaps_us"` // optional sleep before call k
}

type c20Call struct {
	B   int64  `json:"b"` // UnixNano just before the call
	A   int64  `json:"a"` // UnixNano just after it returned
	R   string `json:"r"` // B break error, M mock, O ok, E error, P panic error, ? other
	Inv int    `json:"inv"`
	Msg string `json:"msg,omitempty"`
}

type c20Obs struct {
	ID    int       `json:"id"`
	Calls []c20Call `json:"calls"`
}

func c20Run(line []byte, out *json.Encoder) error {
	{
		var c c20Case
		if err := json.Unmarshal(line, &c); err != nil {
			return err
		}
		obs := c20Obs{ID: c.ID}
		opts := []circuitbreaker.Option{
			circuitbreaker.WithThreshold(c.Threshold),
			circuitbreaker.WithRecoverTime(time.Duration(c.RecoverNs)),
		}
		if c.Mock {
			opts = append(opts, circuitbreaker.WithMockService(
				func(ctx context.Context, name string, args []interface{}) ([]interface{}, error) {
					return []interface{}{"mock"}, nil
				}))
		}
		cb := circuitbreaker.New(opts...)
		client := core.NewClient("mock://c20")
		invocations := 0
		k := 0
		scripted := func(ctx context.Context, request []byte, next core.NextIOHandler) ([]byte, error) {
			invocations++
			switch c.Outs[k] {
			case 'O':
				enc := new(io.Encoder).Simple(true)
				enc.WriteTag(io.TagResult)
				enc.Encode(fmt.Sprintf("ok-%d", k))
				enc.WriteTag(io.TagEnd)
				return enc.Bytes(), nil
			case 'E':
				return nil, errors.New(fmt.Sprintf("down-%d", k))
			default:
				panic(fmt.Sprintf("boom-%d", k))
			}
		}
		client.Use(cb)
		client.Use(core.IOHandler(scripted))
		for k = 0; k < len(c.Outs); k++ {
			if k < len(c.GapsUs) && c.GapsUs[k] > 0 {
				time.Sleep(time.Duration(c.GapsUs[k]) * time.Microsecond)
			}
			before := invocations
			call := c20Call{}
			call.B = time.Now().UnixNano()
			res, err := client.Invoke("f", nil)
			call.A = time.Now().UnixNano()
			call.Inv = invocations - before
			switch {
			case err == circuitbreaker.ErrBreaker:
				call.R = "B"
			case isPanicErr(err) && strings.Contains(err.Error(), fmt.Sprintf("boom-%d", k)):
				call.R = "P"
			case err != nil && err.Error() == fmt.Sprintf("down-%d", k):
				call.R = "E"
			case err == nil && len(res) == 1 && res[0] == "mock":
				call.R = "M"
			case err == nil && len(res) == 1 && res[0] == fmt.Sprintf("ok-%d", k):
				call.R = "O"
			default:
				call.R = "?"
				call.Msg = fmt.Sprintf("res=%v err=%v", res, err)
			}
			obs.Calls = append(obs.Calls, call)
		}
		if err := out.Encode(&obs); err != nil {
			return err
		}
	}
	return nil
}

func isPanicErr(err error) bool {
	_, ok := err.(*core.PanicError)
	return ok
}

func main() { hvlib.Main(c20Run) }
