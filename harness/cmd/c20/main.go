package main

import (
	"context"
	"encoding/json"
	"errors"
	"fmt"
	"runtime"
	"strings"
	"sync"
	"sync/atomic"
	"time"

	"github.com/hprose/hprose-golang/v3/io"
	"github.com/hprose/hprose-golang/v3/rpc/core"
	"github.com/hprose/hprose-golang/v3/rpc/plugins/circuitbreaker"
	"hv/hvlib"
)

// C20: drive the real CircuitBreaker plugin, installed with Client.Use, with a
// scripted downstream IO handler.
type c20Case struct {
	ID        int    `json:"id"`
	Threshold uint64 `json:"threshold"`
	RecoverNs int64  `json:"recover_ns"`
	Mock      bool   `json:"mock"`
	Outs      string `json:"outs"`    // one of O E P per call
	// burst scenarios: after the burst wait this long (the recovery time passes), then let one forwarded call fail, then probe
	AfterSleepMs int  `json:"after_sleep_ms,omitempty"`
	AfterFail    bool `json:"after_fail,omitempty"`
	// Held: one more call passes the breaker's invoke stage while the breaker is closed and is held there until the burst
	// has tripped it; it then reaches the IO stage of an OPEN breaker: it must be answered like any rejected call
	Held bool `json:"held,omitempty"`
	Ctxs      string `json:"ctxs"`    // per call: b (or absent) = background context, c = already cancelled, d = deadline already passed
	GapsUs    []int  `json:"gaps_us"` // optional sleep before call k
	// concurrent scenario: steps ["start",k,"O|E|P"], ["release",k], ["sleep",us], ["probe","O|E|P"]
	Script [][]interface{} `json:"script,omitempty"`
	// burst: Burst callers are forwarded while the breaker is closed, spin inside the downstream handler and
	// are let go at the same instant to fail (outcome BurstOut, E or P); afterwards one probe call. Repeated
	// Rounds times on fresh breakers; the observation counts the rounds in which the probe was forwarded.
	Burst    int    `json:"burst,omitempty"`
	BurstOut string `json:"burst_out,omitempty"`
	Rounds   int    `json:"rounds,omitempty"`
}

type c20Step struct {
	Op      string `json:"op"`
	K       int    `json:"k"`
	B       int64  `json:"b"`
	A       int64  `json:"a"`
	Entered bool   `json:"entered"`     // the downstream handler was reached (call forwarded and now held)
	R       string `json:"r,omitempty"` // result letter once the call has returned
	Msg     string `json:"msg,omitempty"`
}

type c20Call struct {
	B   int64  `json:"b"` // UnixNano just before the call
	A   int64  `json:"a"` // UnixNano just after it returned
	R   string `json:"r"` // B break error, M mock, O ok, E error, P panic error, ? other
	Inv int    `json:"inv"`
	Msg string `json:"msg,omitempty"`
}

type c20Obs struct {
	BurstForwarded int       `json:"burst_forwarded,omitempty"`
	BurstRejected  int       `json:"burst_rejected,omitempty"`
	BurstOther     int       `json:"burst_other,omitempty"`
	HeldBad        int       `json:"held_bad,omitempty"`
	HeldExample    string    `json:"held_example,omitempty"`
	ID             int       `json:"id"`
	Calls          []c20Call `json:"calls"`
	Steps          []c20Step `json:"steps,omitempty"`
}

func c20Run(line []byte, out *json.Encoder) error {
	{
		var c c20Case
		if err := json.Unmarshal(line, &c); err != nil {
			return err
		}
		obs := c20Obs{ID: c.ID}
		opts := []circuitbreaker.Option{
			circuitbreaker.WithThreshold(c.Threshold),
			circuitbreaker.WithRecoverTime(time.Duration(c.RecoverNs)),
		}
		if c.Mock {
			opts = append(opts, circuitbreaker.WithMockService(
				func(ctx context.Context, name string, args []interface{}) ([]interface{}, error) {
					return []interface{}{"mock"}, nil
				}))
		}
		if c.Burst > 0 {
			obs.BurstForwarded, obs.BurstRejected, obs.BurstOther = runBurst(c, opts)
			obs.HeldBad, obs.HeldExample = heldBad, heldExample
			return out.Encode(&obs)
		}
		cb := circuitbreaker.New(opts...)
		if len(c.Script) > 0 {
			obs.Steps = runScript(c, cb)
			return out.Encode(&obs)
		}
		client := core.NewClient("mock://c20")
		invocations := 0
		k := 0
		scripted := func(ctx context.Context, request []byte, next core.NextIOHandler) ([]byte, error) {
			invocations++
			switch c.Outs[k] {
			case 'O':
				enc := new(io.Encoder).Simple(true)
				enc.WriteTag(io.TagResult)
				enc.Encode(fmt.Sprintf("ok-%d", k))
				enc.WriteTag(io.TagEnd)
				return enc.Bytes(), nil
			case 'E':
				return nil, errors.New(fmt.Sprintf("down-%d", k))
			default:
				panic(fmt.Sprintf("boom-%d", k))
			}
		}
		client.Use(cb)
		client.Use(core.IOHandler(scripted))
		for k = 0; k < len(c.Outs); k++ {
			if k < len(c.GapsUs) && c.GapsUs[k] > 0 {
				time.Sleep(time.Duration(c.GapsUs[k]) * time.Microsecond)
			}
			before := invocations
			call := c20Call{}
			call.B = time.Now().UnixNano()
			cctx, cancel := context.Background(), context.CancelFunc(func() {})
			if k < len(c.Ctxs) {
				switch c.Ctxs[k] {
				case 'c':
					cctx, cancel = context.WithCancel(context.Background())
					cancel()
				case 'd':
					cctx, cancel = context.WithDeadline(context.Background(), time.Now().Add(-time.Second))
				}
			}
			res, err := client.InvokeContext(cctx, "f", nil)
			cancel()
			call.A = time.Now().UnixNano()
			call.Inv = invocations - before
			switch {
			case err == circuitbreaker.ErrBreaker:
				call.R = "B"
			case isPanicErr(err) && strings.Contains(err.Error(), fmt.Sprintf("boom-%d", k)):
				call.R = "P"
			case err != nil && err.Error() == fmt.Sprintf("down-%d", k):
				call.R = "E"
			case err == nil && len(res) == 1 && res[0] == "mock":
				call.R = "M"
			case err == nil && len(res) == 1 && res[0] == fmt.Sprintf("ok-%d", k):
				call.R = "O"
			default:
				call.R = "?"
				call.Msg = fmt.Sprintf("res=%v err=%v", res, err)
			}
			obs.Calls = append(obs.Calls, call)
		}
		if err := out.Encode(&obs); err != nil {
			return err
		}
	}
	return nil
}

// classify maps what the caller got to a letter.
func classify(res []interface{}, err error, tag string) (string, string) {
	switch {
	case err == circuitbreaker.ErrBreaker:
		return "B", ""
	case isPanicErr(err) && strings.Contains(err.Error(), "boom-"+tag):
		return "P", ""
	case err != nil && err.Error() == "down-"+tag:
		return "E", ""
	case err == nil && len(res) == 1 && res[0] == "mock":
		return "M", ""
	case err == nil && len(res) == 1 && res[0] == "ok-"+tag:
		return "O", ""
	}
	return "?", fmt.Sprintf("res=%v err=%v", res, err)
}

type heldCall struct {
	release chan struct{}
	done    chan struct{}
	res     []interface{}
	err     error
}

// runScript: several calls in flight at once; the scripted downstream handler parks each
// forwarded call until the script releases it, so the order of the plugin's atomic
// operations is exactly the script order (entry part at "start", settle part at "release").
func runScript(c c20Case, cb *circuitbreaker.CircuitBreaker) []c20Step {
	client := core.NewClient("mock://c20")
	entered := make(chan string, 64)
	calls := map[int]*heldCall{}
	outcomes := map[string]string{}
	releases := map[string]chan struct{}{}
	var mu sync.Mutex
	scripted := func(ctx context.Context, request []byte, next core.NextIOHandler) ([]byte, error) {
		tag := core.GetClientContext(ctx).Items().GetString("tag")
		mu.Lock()
		o, rel := outcomes[tag], releases[tag]
		mu.Unlock()
		entered <- tag
		<-rel
		switch o {
		case "O":
			enc := new(io.Encoder).Simple(true)
			enc.WriteTag(io.TagResult)
			enc.Encode("ok-" + tag)
			enc.WriteTag(io.TagEnd)
			return enc.Bytes(), nil
		case "E":
			return nil, errors.New("down-" + tag)
		}
		panic("boom-" + tag)
	}
	client.Use(cb)
	client.Use(core.IOHandler(scripted))
	var steps []c20Step
	launch := func(k int, o string) (*heldCall, string, bool) {
		tag := fmt.Sprintf("%d", k)
		h := &heldCall{release: make(chan struct{}), done: make(chan struct{})}
		mu.Lock()
		outcomes[tag] = o
		releases[tag] = h.release
		mu.Unlock()
		go func() {
			cc := core.NewClientContext()
			cc.Items().Set("tag", tag)
			h.res, h.err = client.InvokeContext(core.WithContext(context.Background(), cc), "f", nil)
			close(h.done)
		}()
		select {
		case <-entered:
			return h, tag, true
		case <-h.done:
			return h, tag, false
		}
	}
	for _, st := range c.Script {
		op, _ := st[0].(string)
		step := c20Step{Op: op}
		switch op {
		case "sleep":
			us, _ := st[1].(float64)
			step.B = time.Now().UnixNano()
			time.Sleep(time.Duration(us) * time.Microsecond)
			step.A = time.Now().UnixNano()
		case "start", "probe":
			k := len(calls) + 1000
			o := ""
			if op == "start" {
				kf, _ := st[1].(float64)
				k = int(kf)
				o, _ = st[2].(string)
			} else {
				o, _ = st[1].(string)
			}
			step.K = k
			step.B = time.Now().UnixNano()
			h, tag, in := launch(k, o)
			step.Entered = in
			calls[k] = h
			if op == "probe" && in {
				close(h.release)
				<-h.done
			}
			step.A = time.Now().UnixNano()
			if !in || op == "probe" {
				step.R, step.Msg = classify(h.res, h.err, tag)
			}
		case "release":
			kf, _ := st[1].(float64)
			k := int(kf)
			step.K = k
			h := calls[k]
			step.B = time.Now().UnixNano()
			if h != nil {
				select {
				case <-h.done: // was rejected at start: nothing to release
				default:
					close(h.release)
					<-h.done
				}
				step.R, step.Msg = classify(h.res, h.err, fmt.Sprintf("%d", k))
			}
			step.A = time.Now().UnixNano()
		}
		steps = append(steps, step)
	}
	return steps
}

// runBurst: see c20Case.Burst.
var heldBad int
var heldExample string

func runBurst(c c20Case, opts []circuitbreaker.Option) (forwarded, rejected, other int) {
	heldBad, heldExample = 0, ""
	for round := 0; round < c.Rounds; round++ {
		cb := circuitbreaker.New(opts...)
		client := core.NewClient("mock://c20")
		var gate int32
		var inside int32
		probe := int32(0)
		scripted := func(ctx context.Context, request []byte, next core.NextIOHandler) ([]byte, error) {
			if atomic.LoadInt32(&probe) == 1 {
				atomic.AddInt32(&probe, 1) // the probe reached downstream
				enc := new(io.Encoder).Simple(true)
				enc.WriteTag(io.TagResult)
				enc.Encode("ok")
				enc.WriteTag(io.TagEnd)
				return enc.Bytes(), nil
			}
			atomic.AddInt32(&inside, 1)
			for atomic.LoadInt32(&gate) == 0 {
			}
			if c.BurstOut == "P" {
				panic("boom")
			}
			return nil, errors.New("down")
		}
		client.Use(cb)
		holdGate := make(chan struct{})
		heldIn := make(chan struct{}, 1)
		if c.Held {
			client.Use(core.InvokeHandler(func(ctx context.Context, name string, args []interface{}, next core.NextInvokeHandler) ([]interface{}, error) {
				if name == "held" {
					heldIn <- struct{}{}
					<-holdGate
				}
				return next(ctx, name, args)
			}))
		}
		client.Use(core.IOHandler(scripted))
		heldDone := make(chan string, 1)
		if c.Held {
			go func() {
				res, err := client.Invoke("held", nil)
				switch {
				case err == circuitbreaker.ErrBreaker:
					heldDone <- "B"
				case err == nil && len(res) == 1 && res[0] == "mock":
					heldDone <- "M"
				default:
					heldDone <- fmt.Sprintf("?res=%v err=%v", res, err)
				}
			}()
			select {
			case <-heldIn:
			case <-time.After(3 * time.Second):
			}
		}
		var wg sync.WaitGroup
		for i := 0; i < c.Burst; i++ {
			wg.Add(1)
			go func() {
				defer wg.Done()
				_, _ = client.Invoke("f", nil)
			}()
		}
		deadline := time.Now().Add(5 * time.Second)
		for atomic.LoadInt32(&inside) < int32(c.Burst) && time.Now().Before(deadline) {
			runtime.Gosched()
		}
		entered := atomic.LoadInt32(&inside) == int32(c.Burst)
		atomic.StoreInt32(&gate, 1)
		wg.Wait()
		if !entered {
			other++
			continue
		}
		if c.Held {
			close(holdGate)
			select {
			case r := <-heldDone:
				want := "B"
				if c.Mock {
					want = "M"
				}
				if r != want {
					heldBad++
					heldExample = r
				}
			case <-time.After(3 * time.Second):
				heldBad++
				heldExample = "never returned"
			}
		}
		if c.AfterSleepMs > 0 {
			time.Sleep(time.Duration(c.AfterSleepMs) * time.Millisecond)
		}
		if c.AfterFail {
			_, _ = client.Invoke("f", nil) // the trial call of the half-open state: forwarded, fails downstream
		}
		atomic.StoreInt32(&probe, 1)
		_, err := client.Invoke("f", nil)
		switch {
		case atomic.LoadInt32(&probe) == 2:
			forwarded++
		case err == circuitbreaker.ErrBreaker || (c.Mock && err == nil):
			rejected++
		default:
			other++
		}
	}
	return
}

func isPanicErr(err error) bool {
	_, ok := err.(*core.PanicError)
	return ok
}

func main() { hvlib.Main(c20Run) }
