package main

import (
	"context"
	"encoding/json"
	"errors"
	"fmt"
	"regexp"
	"runtime"
	"strconv"
	"sync"
	"sync/atomic"
	"time"

	"github.com/hprose/hprose-golang/v3/io"
	"github.com/hprose/hprose-golang/v3/rpc/core"
	"github.com/hprose/hprose-golang/v3/rpc/plugins/cluster"
	"hv/hvlib"
)

// C16: drive the real cluster plugin (Cluster.Handler with the failover / failtry /
// failfast configs, Forking, Broadcast), installed with Client.Use on a real core.Client,
// with a scripted IO handler installed after it. The scripted handler never calls next: it
// records the attempt and the URL of the client context and plays the scripted outcome.

type c16Call struct {
	Outs    string `json:"outs"`    // outcome of attempt 0,1,2..: O response, E error, P panic; afterwards error 999
	Idem    *bool  `json:"idem"`    // context item "idempotent" (absent = plugin default)
	Retry   *int   `json:"retry"`   // context item "retry"
	Retried *int   `json:"retried"` // context item "retried" preset by the caller
	Health  string `json:"health"`  // burst probes: outcome by URL instead of by attempt: per server D (down: error) or U (up: response)
}

type c16Case struct {
	ID    int       `json:"id"`
	Kind  string    `json:"kind"` // retry | fork | bcast
	Mode  string    `json:"mode"` // failover | failtry | failfast | default
	N     int       `json:"n"`    // number of URLs
	Retry int       `json:"retry"`
	Idem  bool      `json:"idem"`
	Reuse bool      `json:"reuse"`  // all calls share one ClientContext
	MinNs int64     `json:"min_ns"` // WithMinInterval (failover / failtry); tiny, so that sleeping costs microseconds
	MaxNs int64     `json:"max_ns"` // WithMaxInterval
	Calls []c16Call `json:"calls"`
	// burst: Rounds x (Goroutines x Iters concurrent calls with every server down, then Calls as sequential probes)
	Goroutines int `json:"goroutines"`
	Iters      int `json:"iters"`
	Rounds     int `json:"rounds"`
	// fork / bcast
	Outs  string `json:"outs"`  // outcome per server
	Order []int  `json:"order"` // completion order forced by the scripted handler
}

type c16CallObs struct {
	URLs    []int   `json:"urls"`    // URL index of every attempt, in order
	Res     string  `json:"res"`     // R<k> response of attempt k, E<k> its error, P<k> its panic as PanicError, X escaped panic, ? other
	Retried int     `json:"retried"` // "retried" item afterwards
	URL     int     `json:"url"`     // clientContext.URL afterwards
	NFail   int     `json:"nf"`      // OnFailure callbacks during the call
	NSucc   int     `json:"ns"`      // OnSuccess callbacks during the call
	Iv      []int64 `json:"iv"`      // what the real OnRetry closure returned, per retry (ns); never a measured time
	Msg     string  `json:"msg,omitempty"`
}

type c16Obs struct {
	ID     int            `json:"id"`
	Calls  []c16CallObs   `json:"calls,omitempty"`
	Rounds [][]c16CallObs `json:"rounds,omitempty"` // burst: the probes of every round
	// fork / bcast
	Invoked      []int    `json:"invoked,omitempty"` // URL index of every invocation, in arrival order
	Res          string   `json:"res,omitempty"`     // R<i> / E<i> / P<i> / X<i> (i = server) / ?
	Slots        []string `json:"slots,omitempty"`   // broadcast: per slot "R<i>" or "nil" or "?"
	Inconclusive bool     `json:"inconclusive,omitempty"`
	Stalled      bool     `json:"stalled,omitempty"` // fewer than n invocations arrived within 5 s
	Msg          string   `json:"msg,omitempty"`
}

func response(s string) []byte {
	enc := new(io.Encoder).Simple(true)
	enc.WriteTag(io.TagResult)
	enc.Encode(s)
	enc.WriteTag(io.TagEnd)
	return enc.Bytes()
}

func urlIndex(client *core.Client, cc *core.ClientContext) int {
	if cc == nil || cc.URL == nil {
		return -1
	}
	for i, u := range client.URLs {
		if u == cc.URL {
			return i
		}
	}
	return -2
}

var reMsg = regexp.MustCompile(`^(ok|down|boom)-(\d+)-(\d+)$`)

// classify maps what the caller got to R/E/P + the attempt (or server) number; tag is the
// call number the message must carry.
func classify(res []interface{}, err error, tag int) (string, string) {
	var msg string
	var kind string
	switch {
	case err == nil && len(res) == 1:
		if s, ok := res[0].(string); ok {
			msg, kind = s, "ok"
		}
	case err != nil:
		msg = err.Error()
		if _, ok := err.(*core.PanicError); ok {
			kind = "boom"
		} else {
			kind = "down"
		}
	}
	m := reMsg.FindStringSubmatch(msg)
	if m == nil || m[1] != kind || m[2] != strconv.Itoa(tag) {
		return "?", fmt.Sprintf("res=%v err=%v", res, err)
	}
	switch kind {
	case "ok":
		return "R" + m[3], ""
	case "down":
		return "E" + m[3], ""
	}
	return "P" + m[3], ""
}

func newClient(n int) *core.Client {
	uris := make([]string, n)
	for i := range uris {
		uris[i] = fmt.Sprintf("c16://s%d", i)
	}
	return core.NewClient(uris...)
}

func runRetry(c *c16Case, obs *c16Obs) {
	client := newClient(c.N)
	nfail, nsucc := 0, 0
	var cfg cluster.Config
	opts := []cluster.Option{
		cluster.WithRetry(c.Retry), cluster.WithIdempotent(c.Idem),
		cluster.WithMinInterval(time.Duration(c.MinNs)), cluster.WithMaxInterval(time.Duration(c.MaxNs)),
	}
	useDefault := false
	switch c.Mode {
	case "failover":
		cfg = cluster.FailoverConfig(opts...)
		rotate := cfg.OnFailure
		cfg.OnFailure = func(ctx context.Context) { rotate(ctx); nfail++ } // counted when the real closure returned
	case "failtry":
		cfg = cluster.FailtryConfig(opts...)
	case "failfast":
		cfg = cluster.FailfastConfig(func(ctx context.Context) { nfail++ })
		cfg.Retry = c.Retry
		cfg.Idempotent = c.Idem
	case "default":
		useDefault = true
	default:
		panic("c16: mode " + c.Mode)
	}
	var ivs []int64
	watch := func(onRetry func(context.Context) time.Duration) func(context.Context) time.Duration {
		if onRetry == nil {
			return nil
		}
		return func(ctx context.Context) time.Duration {
			d := onRetry(ctx) // the real closure: increments "retried", computes the back-off
			ivs = append(ivs, int64(d))
			return d
		}
	}
	var cl *cluster.Cluster
	if useDefault {
		cl = cluster.New()
		cl.OnRetry = watch(cl.OnRetry)
		rotate := cl.OnFailure
		cl.OnFailure = func(ctx context.Context) { rotate(ctx); nfail++ }
	} else {
		cfg.OnSuccess = func(ctx context.Context) { nsucc++ }
		cfg.OnRetry = watch(cfg.OnRetry)
		cl = cluster.New(cfg)
	}
	if useDefault {
		cl.OnSuccess = func(ctx context.Context) { nsucc++ }
	}
	ci, k := 0, 0
	var urls []int
	scripted := func(ctx context.Context, request []byte, next core.NextIOHandler) ([]byte, error) {
		a := k
		k++
		if a >= runawayCap {
			// no case of the check gets anywhere near this many attempts: the retry loop ran
			// away. End it with a success so that the call returns and the attempt count
			// (far beyond any budget) is reported.
			return response(fmt.Sprintf("ok-%d-%d", ci, a)), nil
		}
		urls = append(urls, urlIndex(client, core.GetClientContext(ctx)))
		outs := c.Calls[ci].Outs
		if a >= len(outs) {
			return nil, errors.New(fmt.Sprintf("down-%d-999", ci))
		}
		switch outs[a] {
		case 'O':
			return response(fmt.Sprintf("ok-%d-%d", ci, a)), nil
		case 'E':
			return nil, errors.New(fmt.Sprintf("down-%d-%d", ci, a))
		default:
			panic(fmt.Sprintf("boom-%d-%d", ci, a))
		}
	}
	client.Use(cl)
	client.Use(core.IOHandler(scripted))
	var shared *core.ClientContext
	for ci = 0; ci < len(c.Calls); ci++ {
		call := c.Calls[ci]
		var cc *core.ClientContext
		if c.Reuse && shared != nil {
			cc = shared
		} else {
			cc = core.NewClientContext()
			shared = cc
			if call.Retried != nil {
				cc.Items().Set("retried", *call.Retried)
			}
		}
		if call.Idem != nil {
			cc.Items().Set("idempotent", *call.Idem)
		} else {
			cc.Items().Del("idempotent")
		}
		if call.Retry != nil {
			cc.Items().Set("retry", *call.Retry)
		} else {
			cc.Items().Del("retry")
		}
		k, urls, nfail, nsucc, ivs = 0, nil, 0, 0, nil
		o := c16CallObs{}
		func() {
			defer func() {
				if e := recover(); e != nil {
					o.Res = "X"
					o.Msg = fmt.Sprint(e)
				}
			}()
			res, err := client.InvokeContext(core.WithContext(context.Background(), cc), "f", nil)
			o.Res, o.Msg = classify(res, err, ci)
		}()
		o.URLs = append([]int{}, urls...)
		o.Retried = cc.Items().GetInt("retried")
		o.URL = urlIndex(client, cc)
		o.NFail, o.NSucc = nfail, nsucc
		o.Iv = append([]int64{}, ivs...)
		obs.Calls = append(obs.Calls, o)
	}
}

// runawayCap: attempts of one call after which the scripted handler answers with a success.
const runawayCap = 64

// fanStalls counts fan-out cases of this process in which the plugin never released the
// caller or never invoked all servers.
var fanStalls int

// waitGoroutines spins (yielding) until the number of live goroutines is at most want.
func waitGoroutines(want int) bool { return waitGoroutinesOr(want, nil) }

// waitGoroutinesOr also stops waiting when *flag becomes non-zero.
func waitGoroutinesOr(want int, flag *int32) bool {
	deadline := time.Now().Add(10 * time.Second)
	for i := 0; runtime.NumGoroutine() > want; i++ {
		if flag != nil && atomic.LoadInt32(flag) != 0 {
			return true
		}
		runtime.Gosched()
		if i%1024 == 1023 && time.Now().After(deadline) {
			return false
		}
	}
	return true
}

// runFan drives Forking (IO handler) or Broadcast (invoke handler). Every goroutine the
// plugin starts blocks inside the scripted handler until all of them have arrived; a
// controller then releases them one by one in c.Order, waiting after each release until
// that goroutine has run to its end (it is gone from runtime.NumGoroutine), so the
// completion order seen by the plugin's shared variables is exactly c.Order.
func runFan(c *c16Case, obs *c16Obs) {
	if fanStalls >= 3 {
		// the plugin blocked for good in earlier cases; do not spend the time budget on more
		obs.Inconclusive = true
		obs.Msg = "skipped: earlier fan-out cases hung"
		return
	}
	client := newClient(c.N)
	n := c.N
	// goroutines alive before this case starts anything; the case returns only when the
	// count is back there, so that the next case measures a quiet process
	g0 := runtime.NumGoroutine()
	leaked := 0
	defer func() {
		if !waitGoroutines(g0 + leaked) {
			obs.Inconclusive = true
		}
	}()
	var mu sync.Mutex
	arrivedAll := make(chan struct{})
	release := make([]chan struct{}, n)
	for i := range release {
		release[i] = make(chan struct{})
	}
	scripted := func(ctx context.Context, request []byte, next core.NextIOHandler) ([]byte, error) {
		i := urlIndex(client, core.GetClientContext(ctx))
		mu.Lock()
		obs.Invoked = append(obs.Invoked, i)
		cnt := len(obs.Invoked)
		mu.Unlock()
		if n > 0 {
			if cnt == n {
				close(arrivedAll)
			}
			if i >= 0 && i < n {
				<-release[i]
			}
		}
		j := i // without URLs (n == 0) the single pass-through invocation plays outcome 0
		if j < 0 {
			j = 0
		}
		switch c.Outs[j] {
		case 'O':
			return response(fmt.Sprintf("ok-0-%d", j)), nil
		case 'E':
			return nil, errors.New(fmt.Sprintf("down-0-%d", j))
		default:
			panic(fmt.Sprintf("boom-0-%d", j))
		}
	}
	if c.Kind == "fork" {
		client.Use(core.IOHandler(cluster.Forking))
	} else {
		client.Use(core.InvokeHandler(cluster.Broadcast))
	}
	client.Use(core.IOHandler(scripted))
	var returned int32 // set when InvokeContext has returned (or panicked) in the invoker
	ctlDone := make(chan string, 1)
	if n > 0 {
		go func() {
			select {
			case <-arrivedAll:
			case <-time.After(5 * time.Second):
				// fewer than n invocations showed up: let everything go and say so
				for _, ch := range release {
					close(ch)
				}
				ctlDone <- "stalled"
				return
			}
			// all n invocations are in; if they do not carry the n different URLs the order
			// cannot be forced: release everybody and say so
			mu.Lock()
			seen := make([]bool, n)
			covered := true
			for _, i := range obs.Invoked {
				if i < 0 || i >= n || seen[i] {
					covered = false
					break
				}
				seen[i] = true
			}
			mu.Unlock()
			if !covered {
				for _, ch := range release {
					close(ch)
				}
				ctlDone <- "misrouted"
				return
			}
			// main, this controller, the invoker (kept alive until the case ends), n workers
			base := runtime.NumGoroutine()
			verdict := "ok"
			for r, i := range c.Order {
				close(release[i])
				// wait until the released goroutine is gone — or the call has returned: then
				// its result is final whatever the remaining goroutines do (and a plugin that
				// ran the invocation on the caller's goroutine has no goroutine to wait for)
				if !waitGoroutinesOr(base-(r+1), &returned) {
					verdict = "slow"
				}
			}
			ctlDone <- verdict
		}()
	} else {
		ctlDone <- "ok"
	}
	type outT struct {
		res  []interface{}
		err  error
		pres string
		pmsg string
	}
	resCh := make(chan outT, 1)
	finish := make(chan struct{})
	go func() { // the invoker
		var o outT
		func() {
			defer func() {
				if e := recover(); e != nil {
					m := reMsg.FindStringSubmatch(fmt.Sprint(e))
					if m != nil && m[1] == "boom" {
						o.pres = "X" + m[3]
					} else {
						o.pres = "?"
						o.pmsg = "escaped panic: " + fmt.Sprint(e)
					}
				}
			}()
			o.res, o.err = client.InvokeContext(context.Background(), "f", nil)
		}()
		atomic.StoreInt32(&returned, 1)
		resCh <- o
		<-finish
	}()
	verdict := <-ctlDone
	var o outT
	hung := false
	select {
	case o = <-resCh:
	case <-time.After(3 * time.Second):
		// every goroutine the plugin started has been released and has exited (or the
		// barrier stalled and all were released 3 s ago) and the caller is still blocked
		hung = true
	}
	close(finish)
	mu.Lock()
	obs.Invoked = append([]int{}, obs.Invoked...)
	mu.Unlock()
	switch verdict {
	case "stalled":
		obs.Stalled = true
		fanStalls++
	case "misrouted":
		obs.Msg = "the invocations do not carry the configured URLs once each; completion order not forced"
		fanStalls++
	case "slow":
		obs.Inconclusive = true
	}
	if hung {
		obs.Res = "HANG"
		fanStalls++
		leaked = runtime.NumGoroutine() - g0 // the blocked invoker and whatever else is stuck
		if leaked < 0 {
			leaked = 0
		}
		return
	}
	res, err := o.res, o.err
	if o.pres != "" {
		obs.Res, obs.Msg = o.pres, o.pmsg
		return
	}
	if c.Kind == "fork" || n == 0 {
		obs.Res, obs.Msg = classify(res, err, 0)
		return
	}
	// broadcast: slots + first error
	if err == nil {
		obs.Res = "nil"
	} else {
		obs.Res, obs.Msg = classify(nil, err, 0)
	}
	for i, s := range res {
		switch v := s.(type) {
		case []interface{}:
			if v == nil {
				obs.Slots = append(obs.Slots, "nil")
			} else if r, _ := classify(v, nil, 0); r == fmt.Sprintf("R%d", i) {
				obs.Slots = append(obs.Slots, r)
			} else {
				obs.Slots = append(obs.Slots, fmt.Sprintf("?%v", v))
			}
		case nil:
			obs.Slots = append(obs.Slots, "nil")
		default:
			obs.Slots = append(obs.Slots, fmt.Sprintf("?%v", v))
		}
	}
}

// runBurst: failover plugin on a client with N URLs. Every round first fires Goroutines x
// Iters calls concurrently while every server is down (the failures of different calls
// race inside the shared failover closure), waits for all of them, and then runs the
// probe calls sequentially, recorded like the calls of runRetry. Nothing is observed
// during the burst; how the burst interleaved is unknown, the probes show the state it left.
func runBurst(c *c16Case, obs *c16Obs) {
	client := newClient(c.N)
	var bursting int32
	var nfail, nsucc int64
	var ivs []int64
	cfg := cluster.FailoverConfig(
		cluster.WithRetry(c.Retry), cluster.WithIdempotent(c.Idem),
		cluster.WithMinInterval(time.Duration(c.MinNs)), cluster.WithMaxInterval(time.Duration(c.MaxNs)))
	rotate, onRetry := cfg.OnFailure, cfg.OnRetry
	cfg.OnFailure = func(ctx context.Context) {
		rotate(ctx)
		if atomic.LoadInt32(&bursting) == 0 {
			nfail++
		}
	}
	cfg.OnRetry = func(ctx context.Context) time.Duration {
		d := onRetry(ctx)
		if atomic.LoadInt32(&bursting) == 0 {
			ivs = append(ivs, int64(d))
		}
		return d
	}
	cfg.OnSuccess = func(ctx context.Context) {
		if atomic.LoadInt32(&bursting) == 0 {
			nsucc++
		}
	}
	errDown := errors.New("down-burst")
	ci, k := 0, 0
	var urls []int
	scripted := func(ctx context.Context, request []byte, next core.NextIOHandler) ([]byte, error) {
		if atomic.LoadInt32(&bursting) == 1 {
			return nil, errDown
		}
		a := k
		k++
		u := urlIndex(client, core.GetClientContext(ctx))
		urls = append(urls, u)
		if a >= runawayCap {
			return response(fmt.Sprintf("ok-%d-%d", ci, a)), nil
		}
		call := c.Calls[ci]
		var o byte = 'E'
		if call.Health != "" {
			if u >= 0 && u < len(call.Health) && call.Health[u] == 'U' {
				o = 'O'
			}
		} else if a < len(call.Outs) {
			o = call.Outs[a]
		} else {
			return nil, errors.New(fmt.Sprintf("down-%d-999", ci))
		}
		switch o {
		case 'O':
			return response(fmt.Sprintf("ok-%d-%d", ci, a)), nil
		case 'E':
			return nil, errors.New(fmt.Sprintf("down-%d-%d", ci, a))
		default:
			panic(fmt.Sprintf("boom-%d-%d", ci, a))
		}
	}
	client.Use(cluster.New(cfg))
	client.Use(core.IOHandler(scripted))
	for r := 0; r < c.Rounds; r++ {
		atomic.StoreInt32(&bursting, 1)
		var wg sync.WaitGroup
		start := make(chan struct{})
		for g := 0; g < c.Goroutines; g++ {
			wg.Add(1)
			go func() {
				defer wg.Done()
				<-start
				for i := 0; i < c.Iters; i++ {
					cc := core.NewClientContext()
					_, _ = client.InvokeContext(core.WithContext(context.Background(), cc), "f", nil)
				}
			}()
		}
		close(start)
		wg.Wait()
		atomic.StoreInt32(&bursting, 0)
		var round []c16CallObs
		for ci = 0; ci < len(c.Calls); ci++ {
			call := c.Calls[ci]
			cc := core.NewClientContext()
			if call.Idem != nil {
				cc.Items().Set("idempotent", *call.Idem)
			}
			if call.Retry != nil {
				cc.Items().Set("retry", *call.Retry)
			}
			k, urls, nfail, nsucc, ivs = 0, nil, 0, 0, nil
			o := c16CallObs{}
			func() {
				defer func() {
					if e := recover(); e != nil {
						o.Res = "X"
						o.Msg = fmt.Sprint(e)
					}
				}()
				res, err := client.InvokeContext(core.WithContext(context.Background(), cc), "f", nil)
				o.Res, o.Msg = classify(res, err, ci)
			}()
			o.URLs = append([]int{}, urls...)
			o.Retried = cc.Items().GetInt("retried")
			o.URL = urlIndex(client, cc)
			o.NFail, o.NSucc = int(nfail), int(nsucc)
			o.Iv = append([]int64{}, ivs...)
			round = append(round, o)
		}
		obs.Rounds = append(obs.Rounds, round)
	}
}

func c16Run(line []byte, out *json.Encoder) error {
	var c c16Case
	if err := json.Unmarshal(line, &c); err != nil {
		return err
	}
	obs := c16Obs{ID: c.ID}
	switch c.Kind {
	case "retry":
		runRetry(&c, &obs)
	case "fork", "bcast":
		runFan(&c, &obs)
	case "burst":
		runBurst(&c, &obs)
	default:
		return errors.New("c16: kind " + c.Kind)
	}
	return out.Encode(&obs)
}

func main() { hvlib.Main(c16Run) }
