module hv

go 1.13

require (
	github.com/andot/complexconv v1.0.0
	github.com/fasthttp/websocket v1.5.0
	github.com/google/uuid v1.3.0
	github.com/hprose/hprose-golang/v3 v3.0.0
	github.com/valyala/fasthttp v1.37.0
)

replace github.com/hprose/hprose-golang/v3 => /repo
