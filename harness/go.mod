module hv

go 1.13

require github.com/hprose/hprose-golang/v3 v3.0.0

replace github.com/hprose/hprose-golang/v3 => /repo
