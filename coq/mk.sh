#!/bin/sh
# (Re)generate _CoqProject + Makefile from the files present, then build the given targets.
# usage: mk.sh [make args...]
set -e
cd "$(dirname "$0")"
mkdir -p ../build
exec 9>../build/.mk.lock
flock 9
# no single coqc may take the machine down (a runaway vm_compute once reached 56 GB)
ulimit -v 20000000
{ echo "-Q . HV"; find Lib Gen Model Proofs Props -name '*.v' 2>/dev/null | LC_ALL=C sort; } > _CoqProject.new
if ! cmp -s _CoqProject.new _CoqProject 2>/dev/null; then mv _CoqProject.new _CoqProject; rm -f Makefile.coq Makefile.coq.conf; else rm -f _CoqProject.new; fi
[ -f Makefile.coq ] || coq_makefile -f _CoqProject -o Makefile.coq >/dev/null
exec make -f Makefile.coq "$@"
