(* C13 — Requests larger than MaxRequestLength are never processed.
   "On every transport a request whose body exceeds the service's configured maximum length is
    refused before any plugin or published function sees it, and the caller receives a
    request-too-large error; requests at or below the limit are processed normally.  The limit
    applies to the bytes actually received, however the sender declares, misdeclares or omits
    the length."
   Only statements, each closed by [exact lemma], with Print Assumptions.

   Reading guide.  [admission sites tr max decl sent] is the handler of transport [tr] with
   MaxRequestLength = max deciding about a request whose sender announces [decl] (None: no
   announcement -- chunked, fragmented) and writes [sent] body bytes; [framed tr decl sent] is
   the body that belongs to that request according to the layer below (Model/Limit.v);
   [k] is the class of the request as far as a handler can tell before decoding it: the HTTP
   method (GET or not) and the flag bit of the index word of a socket / websocket / udp header;
   every theorem quantifies over all of them, not only over what the stock clients produce.
   [sites] says which quantity each handler compares on the path of each class of request -- [pinned_sites] is what the pinned tree
   does (re-read from the sources on every check), [original_sites] what it did before the fix
   commits 72ffd23 / e18593a (historical).  [serve] adds the invocation log (IO plugins, function). *)
From Coq Require Import List ZArith Bool Lia Init.Byte.
From HV Require Import Model.Frame Model.Limit Proofs.FrameProofs Proofs.LimitProofs.
Import ListNotations.
Open Scope Z_scope.

(* ------------------------------------------------------------ never processed ---------- *)

(* FULL STATEMENT, for every table of comparison sites and every class of request (method,
   index flag, length announced or not) that has requests at all: the property's first half holds
   for that class on that transport exactly when the sites on its path look at the quantity that
   delimits the request. *)
Theorem C13_never_processed_iff_covered : forall sites tr k chunked,
  expressible tr k chunked = true ->
  ((forall max decl sent n valid, is_none decl = chunked -> framed tr k decl sent = Some n -> n > max ->
     is_process (admission sites tr max k decl sent) = false /\
     snd (serve sites tr max k decl sent valid) = [])
  <-> covers tr chunked (sites tr k chunked) = true).
Proof. exact never_processed_stmt_iff. Qed.
Print Assumptions C13_never_processed_iff_covered.

(* and then it is not merely "not processed" but refused, for all limits, sizes, declarations,
   methods and index words *)
Theorem C13_never_processed : forall sites tr max k decl sent n,
  covers tr (is_none decl) (sites tr k (is_none decl)) = true ->
  framed tr k decl sent = Some n -> n > max ->
  rejected (admission sites tr max k decl sent) = true.
Proof. exact never_processed_covered. Qed.
Print Assumptions C13_never_processed.

(* THE PINNED TREE: all seven transports, every limit, every size, every declaration
   (truthful, absent, smaller, larger), every method, every index word -- unconditionally *)
Theorem C13_never_processed_pinned : forall tr max k decl sent n,
  framed tr k decl sent = Some n -> n > max ->
  rejected (admission pinned_sites tr max k decl sent) = true.
Proof. exact never_processed_pinned. Qed.
Print Assumptions C13_never_processed_pinned.

(* udp: the datagram that got through before fix 5ee4f50 (100 body bytes, header says 5, limit
   10) is dropped as invalid; the one that tells the truth is refused *)
Theorem C13_udp_former_witness : forall k,
  serve pinned_sites Udp 10 k (Some 5) 100 false = (Malformed, []) /\
  serve pinned_sites Udp 10 k (Some 100) 100 true = (RejectInBand, []).
Proof. exact udp_former_witness. Qed.
Print Assumptions C13_udp_former_witness.

(* what the small limits mean.  MaxRequestLength = 0 (set before or after Bind: the handlers read
   the field on every request): every non-empty request is refused on every transport, only the
   empty one passes; a negative limit refuses everything, the empty request included. *)
Theorem C13_limit_zero_refuses_nonempty : forall tr k decl sent n,
  framed tr k decl sent = Some n -> n > 0 ->
  rejected (admission pinned_sites tr 0 k decl sent) = true.
Proof. exact limit_zero_refuses_nonempty. Qed.
Print Assumptions C13_limit_zero_refuses_nonempty.

Theorem C13_limit_zero_passes_empty : forall tr k decl,
  truthful tr k decl 0 = true -> admission pinned_sites tr 0 k decl 0 = Process 0.
Proof. exact limit_zero_passes_empty. Qed.
Print Assumptions C13_limit_zero_passes_empty.

Theorem C13_limit_negative_refuses_all : forall tr max k decl sent n,
  max < 0 -> framed tr k decl sent = Some n -> 0 <= n ->
  rejected (admission pinned_sites tr max k decl sent) = true.
Proof. exact limit_negative_refuses_all. Qed.
Print Assumptions C13_limit_negative_refuses_all.

(* refused means: nothing runs *)
Theorem C13_refused_runs_nothing : forall sites tr max k decl sent valid,
  rejected (admission sites tr max k decl sent) = true ->
  snd (serve sites tr max k decl sent valid) = [].
Proof. exact rejected_log_empty. Qed.
Print Assumptions C13_refused_runs_nothing.

(* ------------------------------------------------------------ processed at the limit --- *)

(* every table, every transport, every limit: a request of 0..max bytes whose sender tells the
   truth about its length (or legitimately leaves it out) reaches Service.Handle whole *)
Theorem C13_processed_at_limit : forall sites tr max k decl sent,
  truthful tr k decl sent = true -> 0 <= sent <= max ->
  admission sites tr max k decl sent = Process sent /\ framed tr k decl sent = Some sent.
Proof. exact processed_at_limit. Qed.
Print Assumptions C13_processed_at_limit.

Theorem C13_processed_log : forall sites tr max k decl sent valid,
  truthful tr k decl sent = true -> 0 <= sent <= max ->
  snd (serve sites tr max k decl sent valid) = handle_log valid sent.
Proof. exact processed_log. Qed.
Print Assumptions C13_processed_log.

(* ------------------------------------------------------------ the caller's error ------- *)

(* every refusal (413, error frame, error value) is turned into ErrRequestEntityTooLarge by
   the client of that transport *)
Theorem C13_caller_sees_too_large : forall v,
  rejected v = true -> client_decode (reply_of v) = OTooLarge.
Proof. exact caller_sees_too_large. Qed.
Print Assumptions C13_caller_sees_too_large.

(* ... provided the answer reaches it.  On tcp and unix the pinned handler hangs up right after
   the error frame while the client may still be writing the body it announced; the client then
   reports whichever of "frame decoded" / "write failed" its two goroutines reach first.
   REFUTED for the pinned tree (linger = false): *)
Theorem C13_caller_outcome_refuted_socket_teardown :
  ~ (forall tr v still_writing r, rejected v = true ->
       caller_outcome false tr v still_writing r = OTooLarge).
Proof. exact caller_outcome_refuted. Qed.
Print Assumptions C13_caller_outcome_refuted_socket_teardown.

(* PARTIAL, under the exact guard: the server lingers, or the client had finished writing, or
   the frame wins the race, or the transport is not tcp/unix *)
Theorem C13_caller_outcome_partial : forall linger tr v still_writing r,
  rejected v = true ->
  (linger = true \/ still_writing = false \/ r = FrameFirst \/ ~ In tr [Tcp; Unix]) ->
  caller_outcome linger tr v still_writing r = OTooLarge.
Proof. exact caller_outcome_too_large. Qed.
Print Assumptions C13_caller_outcome_partial.

(* with hooks/c13-fix-socket-reject-linger.patch: every schedule *)
Theorem C13_caller_outcome_lingering : forall tr v still_writing r,
  rejected v = true -> caller_outcome true tr v still_writing r = OTooLarge.
Proof. exact caller_outcome_lingering. Qed.
Print Assumptions C13_caller_outcome_lingering.

(* only the exact text is: any other error frame is an InvalidResponseError *)
Theorem C13_too_large_only_for_the_text : forall b,
  client_decode (RpFrame true b) = OTooLarge <-> b = too_large_text.
Proof. exact too_large_only_for_the_text. Qed.
Print Assumptions C13_too_large_only_for_the_text.

(* end to end *)
Theorem C13_oversize_end_to_end : forall sites tr max k decl sent n valid,
  covers tr (is_none decl) (sites tr k (is_none decl)) = true -> framed tr k decl sent = Some n -> n > max ->
  snd (serve sites tr max k decl sent valid) = [] /\
  client_decode (reply_of (admission sites tr max k decl sent)) = OTooLarge.
Proof. exact oversize_end_to_end. Qed.
Print Assumptions C13_oversize_end_to_end.

(* the bytes: the error frame / message / datagram the servers write (index with the top bit
   set + "Request entity too large") through the clients' receive code of Model/Frame.v *)
Theorem C13_reject_frame_decodes_socket : forall i, 0 <= i < 2147483648 ->
  sock_client (sock_reject_frame i) = OTooLarge.
Proof. exact sock_reject_decodes. Qed.
Print Assumptions C13_reject_frame_decodes_socket.

Theorem C13_reject_frame_decodes_websocket : forall i, 0 <= i < 2147483648 ->
  ws_client (ws_reject_msg i) = OTooLarge.
Proof. exact ws_reject_decodes. Qed.
Print Assumptions C13_reject_frame_decodes_websocket.

Theorem C13_reject_frame_decodes_udp : forall i, 0 <= i < 32768 ->
  udp_client (udp_reject_dgram i) = OTooLarge.
Proof. exact udp_reject_decodes. Qed.
Print Assumptions C13_reject_frame_decodes_udp.

(* ------------------------------------------------------------ the byte level ----------- *)

(* tcp / unix, ANY byte stream (any announcement, truthful or not, any garbage): no body above
   the limit is ever handed to the service ... *)
Theorem C13_stream_bodies_within_limit : forall max s,
  Forall (fun f => Z.of_nat (length (snd f)) <= max) (fst (recv_frames (Server max) s)).
Proof. exact stream_within_limit. Qed.
Print Assumptions C13_stream_bodies_within_limit.

(* ... and "actual = declared" is a consequence of framing, not an assumption: this is the
   C12 stream-soundness theorem (Props/C12.v C12_stream_sound) -- every body handed over is the
   contiguous segment behind a checksummed header that announces exactly its length *)
Theorem C13_stream_actual_is_declared : forall max s,
  segments s (fst (recv_frames (Server max) s)).
Proof. exact (fun max => recv_frames_sound (Server max)). Qed.
Print Assumptions C13_stream_actual_is_declared.

(* a header announcing more than the limit is answered before one body byte is read *)
(* (every index word, bit 31 set or clear) *)
Theorem C13_stream_oversize_header : forall max d i rest,
  0 <= d < 2147483648 -> 0 <= i < 4294967296 -> d > max ->
  recv_frames (Server max) (sock_make_header d i ++ rest) = ([], EndTooLarge (i mod 2147483648)).
Proof. exact sock_oversize_bytes. Qed.
Print Assumptions C13_stream_oversize_header.

(* frames within the limit, back to back, are all delivered (C12_stream_framing) *)
Theorem C13_stream_frames_within_limit_delivered : forall max fs,
  Forall (wf_frame (Server max)) fs ->
  recv_frames (Server max) (concat (map frame_of fs)) = (fs, EndEOF).
Proof. exact frames_at_limit_delivered. Qed.
Print Assumptions C13_stream_frames_within_limit_delivered.

(* level A is the projection of the byte-level receive code *)
(* over the WHOLE header space that passes the checksum: every 31-bit length field, every 32-bit
   index word (flag bit set or clear), not only the headers the stock client produces *)
Theorem C13_admission_refines_socket : forall max d i k (body : list byte),
  0 <= d < 2147483648 -> 0 <= i < 4294967296 ->
  sock_server_verdict max (sock_make_header d i ++ body) =
  admission pinned_sites Tcp max k (Some d) (Z.of_nat (length body)).
Proof. exact sock_refines. Qed.
Print Assumptions C13_admission_refines_socket.

Theorem C13_admission_refines_websocket : forall max i k (body : list byte),
  0 <= i < 4294967296 -> r_flag k = negb (i <? 2147483648) ->
  ws_server_verdict max (ws_frame i body) =
  admission pinned_sites Websocket max k None (Z.of_nat (length body)).
Proof. exact ws_refines. Qed.
Print Assumptions C13_admission_refines_websocket.

Theorem C13_admission_refines_udp : forall max buf d i k (body : list byte),
  0 <= d < 65536 -> 0 <= i < 65536 -> (8 + length body <= length buf)%nat ->
  udp_server_verdict max buf (udp_make_header d i ++ body) =
  admission pinned_sites Udp max k (Some d) (Z.of_nat (length body)).
Proof. exact udp_refines. Qed.
Print Assumptions C13_admission_refines_udp.

(* (every method: the handler does not consult it before the limit tests) *)
Theorem C13_admission_refines_nethttp : forall max k decl (wire : list byte),
  match decl with Some d => 0 <= d | None => True end ->
  http_server_verdict max decl wire =
  admission pinned_sites NetHttp max k decl (Z.of_nat (length wire)).
Proof. exact http_refines. Qed.
Print Assumptions C13_admission_refines_nethttp.

(* websocket, ANY message: what is handed over is the whole message behind the 4 index bytes
   and is within the limit *)
Theorem C13_websocket_any_message : forall max msg i b,
  ws_recv (Server max) msg = WDeliver i b ->
  Z.of_nat (length b) <= max /\ b = skipn 4 msg.
Proof. exact ws_within_limit. Qed.
Print Assumptions C13_websocket_any_message.

(* udp, ANY datagram on ANY buffer it fits in: the body handed over is as long as the
   datagram's payload and within the limit *)
Theorem C13_udp_any_datagram : forall max buf d i b,
  (length d <= length buf)%nat ->
  udp_recv (Server max) buf d = DDeliver i b ->
  Z.of_nat (length b) = Z.of_nat (length d) - 8 /\ Z.of_nat (length b) <= max.
Proof. exact udp_delivered_is_payload_within_limit. Qed.
Print Assumptions C13_udp_any_datagram.

Theorem C13_udp_former_witness_bytes :
  udp_recv (Server 10) (repeat x00 200) udp_witness = DBadHeader /\
  udp_server_verdict 10 (repeat x00 200) udp_witness = Malformed /\
  Z.of_nat (length udp_witness) - 8 = 100.
Proof. exact udp_byte_witness_now_refused. Qed.
Print Assumptions C13_udp_former_witness_bytes.

(* ------------------------------------------------------------ non-vacuity -------------- *)

Example sites_of_the_pinned_tree :
  forallb (fun tr => forallb (fun k => covers tr true (pinned_sites tr k true) && covers tr false (pinned_sites tr k false))
                             all_classes) all_transports = true /\
  map (fun tr => covers tr true (original_sites tr plain true)) all_transports = [true; false; false; true; true; true; true] /\
  map (fun tr => covers tr false (original_sites tr plain false)) all_transports = [true; true; true; true; true; true; true].
Proof. repeat split. Qed.

(* the sizes of the property's quantifier around one limit, truthful declarations, tcp, both
   values of the index flag *)
Example sizes_around_the_limit_tcp :
  map (fun n => admission pinned_sites Tcp 100 plain (Some n) n) [99; 100; 101; 1000] =
  [Process 99; Process 100; RejectInBand; RejectInBand] /\
  map (fun n => admission pinned_sites Tcp 100 flagged (Some n) n) [99; 100; 101; 1000] =
  [Process 99; Process 100; RejectInBand; RejectInBand].
Proof. split; reflexivity. Qed.

(* limit 0 and a 2^27-aligned announcement: 134217752 = 2^27 + 24 bytes announced against a limit
   of 64 is refused whatever arrives (a reader masking the length to 27 bits would see 24) *)
Example small_limits_and_huge_announcements :
  map (fun n => admission pinned_sites Mock 0 plain None n) [0; 1; 10] = [Process 0; RejectError; RejectError] /\
  map (fun n => admission pinned_sites Udp (-1) plain (Some n) n) [0; 1] = [RejectInBand; RejectInBand] /\
  admission pinned_sites Tcp 64 plain (Some 134217752) 24 = RejectInBand /\
  recv_frames (Server 64) (sock_make_header 134217752 7 ++ repeat "x"%byte 24) = ([], EndTooLarge 7).
Proof. vm_compute. repeat split. Qed.

(* the four declarations, net/http, limit 10, POST and GET alike *)
Example declarations_nethttp : forall k,
  admission pinned_sites NetHttp 10 k (Some 100) 100 = Reject413 /\     (* truthful *)
  admission pinned_sites NetHttp 10 k None 100 = Reject413 /\           (* absent: chunked *)
  admission pinned_sites NetHttp 10 k (Some 5) 100 = Process 5 /\       (* smaller: the request is its first 5 bytes *)
  admission pinned_sites NetHttp 10 k (Some 100) 7 = Reject413 /\       (* larger, above the limit *)
  admission pinned_sites NetHttp 10 k (Some 9) 7 = Reject400 /\         (* larger, within the limit: body ends early *)
  admission pinned_sites NetHttp 10 k None 10 = Process 10.             (* chunked, at the limit *)
Proof. intros k. repeat split. Qed.

(* HISTORICAL (before the fix commits 72ffd23 / e18593a, keys http-chunked-body-bypasses-limit,
   fasthttp-chunked-body-bypasses-limit): a 100-byte chunked POST against a limit of 10 reached the
   IO plugins and the function; the same request is refused now.  corpus/C13-*-chunked-over-limit.json *)
Example historical_chunked_bypass_witness :
  serve original_sites NetHttp 10 plain None 100 true = (Process 100, [EvIOPlugin 100; EvInvoke]) /\
  serve original_sites FastHttp 10 plain None 100 true = (Process 100, [EvIOPlugin 100; EvInvoke]) /\
  serve pinned_sites NetHttp 10 plain None 100 true = (Reject413, []) /\
  serve pinned_sites FastHttp 10 plain None 100 true = (Reject413, []).
Proof. exact historical_chunked_bypass. Qed.

(* tables whose sites depend on the class of the request (what the extractor produces when a
   limit test is guarded by the method, by ContentLength < 0, or by parseHeader's ok): the class
   the guard leaves out is not covered, C13_never_processed_iff_covered then says the property is
   false there, and the request that gets through is the one the check sends *)
Example class_dependent_sites_method :
  covers NetHttp false (example_method_sites NetHttp get false) = false /\
  covers NetHttp false (example_method_sites NetHttp plain false) = true /\
  covers NetHttp true (example_method_sites NetHttp get true) = true /\
  admission example_method_sites NetHttp 10 get (Some 100) 100 = Process 100 /\
  admission example_method_sites NetHttp 10 plain (Some 100) 100 = Reject413.
Proof. exact example_method_sites_gap. Qed.

Example class_dependent_sites_flag :
  covers Tcp false (example_flag_sites Tcp flagged false) = false /\
  covers Tcp false (example_flag_sites Tcp plain false) = true /\
  admission example_flag_sites Tcp 10 flagged (Some 100) 100 = Process 100 /\
  admission example_flag_sites Tcp 10 plain (Some 100) 100 = RejectInBand.
Proof. exact example_flag_sites_gap. Qed.

(* the hypotheses are satisfiable by ordinary requests *)
Example hypotheses_satisfiable :
  framed NetHttp get (Some 100) 100 = Some 100 /\ framed NetHttp plain None 100 = Some 100 /\ 100 > 10 /\
  framed Udp flagged (Some 100) 100 = Some 100 /\ framed Tcp flagged (Some 100) 100 = Some 100 /\
  expressible NetHttp get true = true /\ expressible Tcp flagged false = true /\
  truthful Websocket plain None 100 = true /\ truthful Udp flagged (Some 7) 7 = true /\ 0 <= 7 <= 10.
Proof. repeat split; try reflexivity; lia. Qed.

Example teardown_race_witness :
  caller_outcome false Unix (admission pinned_sites Unix 65536 plain (Some 655360) 655360) true TeardownFirst = OOtherError /\
  caller_outcome false Unix (admission pinned_sites Unix 65536 plain (Some 655360) 655360) true FrameFirst = OTooLarge /\
  caller_outcome true Unix (admission pinned_sites Unix 65536 plain (Some 655360) 655360) true TeardownFirst = OTooLarge.
Proof. repeat split. Qed.

(* bytes: a real header announcing 11 against a limit of 10, then anything *)
Example oversize_header_bytes :
  recv_frames (Server 10) (sock_make_header 11 7 ++ repeat "x"%byte 3) = ([], EndTooLarge 7) /\
  recv_frames (Server 10) (sock_make_header 11 (2147483648 + 7) ++ repeat "x"%byte 3) = ([], EndTooLarge 7) /\
  sock_client (sock_reject_frame 7) = OTooLarge /\
  fst (recv_frames (Server 10) (sock_frame 7 (repeat "x"%byte 10))) = [(7, repeat "x"%byte 10)].
Proof. vm_compute. repeat split. Qed.

(* T2: the length the socket and UDP servers compare with MaxRequestLength is the length field
   the Go parseHeader returns; for the parseHeader/makeHeader regenerated from the source on every run
   (Gen/GoFuncs.v; equal to the hand models by Proofs/GoFuncsProofs.v) that field is exactly the length
   the sender's makeHeader was given, over the whole 31-bit (resp. 16-bit) range and for every index word
   - so no bit of the declared length (and no flag in the index) can hide an oversized request. *)
From HV Require Import Lib.GoLite Gen.GoFuncs Proofs.GoFuncsProofs.
Theorem C13_source_declared_length_socket : forall length index, 0 <= length < 2147483648 ->
  exists h i ok, socket_makeHeader length index = GRet h /\ socket_parseHeader h = GRet (length, i, ok).
Proof.
  intros length index Hl. destruct (socket_source_roundtrip length index Hl) as (h & Hm & Hp).
  exists h. eexists. eexists. split; [exact Hm | exact Hp].
Qed.
Print Assumptions C13_source_declared_length_socket.

Theorem C13_source_declared_length_udp : forall length index, 0 <= length < 65536 ->
  exists h i ok, udp_makeHeader length index = GRet h /\ udp_parseHeader h = GRet (length, i, ok).
Proof.
  intros length index Hl. destruct (udp_source_roundtrip length index Hl) as (h & Hm & Hp).
  exists h. eexists. eexists. split; [exact Hm | exact Hp].
Qed.
Print Assumptions C13_source_declared_length_udp.
