(* C14 — Serialization is safe under concurrency; pooled coders leak no state.
   Only statements, each closed by [exact lemma], with Print Assumptions, plus Examples.

   Full-strength targets (DESIGN 6, C14):
     C14_reset_is_fresh        after Free's reset a coder behaves like a new one for EVERY later use
     C14_no_alias              every string/[]byte reachable from a decoded value is Owned
     C14_registry_linearizable in every interleaving each call writes what it writes alone
   On the faithful model ([as_found]) the first fails for encoders (off and Writer survive) and for
   decoders (a caller's slice survives as read buffer), the third fails for the unlocked encoder
   registry with fresh types; each failure is a [_refuted] theorem with a witness and a [_partial]
   theorem under the exact guard.  The generic theorems are stated for every [variant] (the
   repairs of hooks/c14-fix-*.patch are flags of the model); the [_fixed] theorems say that with
   the repairs the guards disappear.

   Limits: the registry LTS has sequentially consistent atomic steps (one sync.Map method, one
   read/write of the fields word); data-race freedom in the sense of the Go memory model is
   not expressible in it. *)
From Coq Require Import List NArith ZArith Bool Strings.Byte Arith String.
From HV Require Import Lib.Dec Model.Pool Model.Registry Proofs.PoolProofs Proofs.RegistryProofs.
Import ListNotations.
Local Open Scope string_scope.
Local Open Scope nat_scope.

(* ===================================================================================== *)
(* A. state hygiene of pooled coders (generic in the serializer)                         *)
(* ===================================================================================== *)

(* FreeEncoder = Simple(false).ResetBuffer() clears buffer, error, mode, reference table and
   class table -- and leaves exactly two fields as they were: off and Writer *)
Theorem C14_free_encoder_keeps_only_off_and_writer :
  forall (RT CT ER WR : Type) (rt0 : RT) (ct0 : CT) (vr : variant) (s : enc RT CT ER WR),
  free_enc RT CT ER WR rt0 ct0 vr s =
  {| e_buf := []; e_off := if v_resetbuffer_off vr then 0 else e_off s; e_simple := false; e_refer := rt0;
     e_cls := ct0; e_writer := if v_free_writer vr then None else e_writer s; e_err := None |}.
Proof. exact free_enc_char. Qed.
Print Assumptions C14_free_encoder_keeps_only_off_and_writer.

(* guard: nothing was ever flushed to a writer and no writer is attached *)
Theorem C14_reset_is_fresh_encoder_partial :
  forall (V RT CT ER WR : Type) (rt0 : RT) (ct0 : CT) (vr : variant)
         (ser : bool -> bool -> RT -> CT -> V -> ser_res RT CT ER) (s : enc RT CT ER WR),
  e_off s = 0 /\ e_writer s = None ->
  enc_fresh_equiv V RT CT ER WR rt0 ct0 vr ser (free_enc RT CT ER WR rt0 ct0 vr s).
Proof. exact free_enc_fresh_partial. Qed.
Print Assumptions C14_reset_is_fresh_encoder_partial.

(* with hooks/c14-fix-encoder-reset.patch (ResetBuffer resets off, FreeEncoder detaches the Writer)
   the full-strength statement holds: EVERY released encoder is like a new one *)
Theorem C14_reset_is_fresh_encoder_fixed :
  forall (V RT CT ER WR : Type) (rt0 : RT) (ct0 : CT) (vr : variant)
         (ser : bool -> bool -> RT -> CT -> V -> ser_res RT CT ER) (s : enc RT CT ER WR),
  v_resetbuffer_off vr = true -> v_free_writer vr = true ->
  enc_fresh_equiv V RT CT ER WR rt0 ct0 vr ser (free_enc RT CT ER WR rt0 ct0 vr s).
Proof. exact free_enc_fresh_fixed. Qed.
Print Assumptions C14_reset_is_fresh_encoder_fixed.

(* reachable through the pool: io.GetEncoder(); enc.Writer = w; Encode; io.FreeEncoder(enc) (or
   FreeEncoder(NewEncoder(w))): the released encoder is NOT like a new one *)
Theorem C14_reset_is_fresh_encoder_refuted :
  ~ enc_fresh_equiv val crefer ccls cerr N crefer0 ccls0 as_found cser
      (c_free_enc (fst (c_enc_run c_new_enc hist_writer))).
Proof. exact pool_writer_refuted. Qed.
Print Assumptions C14_reset_is_fresh_encoder_refuted.

(* what the next user observes: Marshal returns the right bytes, but everything after the stale
   offset is also written to the previous user's writer *)
Theorem C14_pooled_writer_leak :
  snd (c_enc_run (c_free_enc (fst (c_enc_run c_new_enc hist_writer)))
                 [ESimple true; EEncode (VStr (bs "secret-of-next-user")); EBytes]) =
  [OUnit; OFlushed None (Some (1%N, bs "t-of-next-user""")); OBytes (bs "s19""secret-of-next-user""")].
Proof. exact pool_writer_leak. Qed.
Print Assumptions C14_pooled_writer_leak.

(* the offset alone is enough (writer detached before Free) *)
Theorem C14_reset_is_fresh_encoder_refuted_off :
  ~ enc_fresh_equiv val crefer ccls cerr N crefer0 ccls0 as_found cser
      (c_free_enc (fst (c_enc_run c_new_enc hist_off))).
Proof. exact pool_off_refuted. Qed.
Print Assumptions C14_reset_is_fresh_encoder_refuted_off.

(* public Reset API without the pool (the probed history): the writer receives a, then one
   stray byte of b *)
Theorem C14_resetbuffer_refuted :
  snd (c_enc_run (c_new_encoder (Some 1%N))
         [EEncode (VStr (bs "hello")); EResetBuffer; EEncode (VStr (bs "world!"))]) =
  [OFlushed None (Some (1%N, bs "s5""hello""")); OUnit; OFlushed None (Some (1%N, bs """"))].
Proof. exact resetbuffer_stray_byte. Qed.
Print Assumptions C14_resetbuffer_refuted.

(* the library's own uses of pooled encoders (Formatter.Marshal, the rpc codecs: everything
   except assigning Writer), over ALL histories of uses and ALL choices of the pool: every use
   observes exactly what it observes on a new encoder, and the pool stays all-new *)
Theorem C14_pool_encoder_sessions :
  forall (V RT CT ER WR : Type) (rt0 : RT) (ct0 : CT) (vr : variant)
         (ser : bool -> bool -> RT -> CT -> V -> ser_res RT CT ER)
         (l : list (esession V WR)) (p : epool RT CT ER WR),
  Forall (fun e => e = new_enc RT CT ER WR rt0 ct0) p ->
  Forall (fun ss => forallb lib_eop (es_ops ss) = true) l ->
  Forall (fun e => e = new_enc RT CT ER WR rt0 ct0) (fst (esessions_run V RT CT ER WR rt0 ct0 vr ser p l)) /\
  snd (esessions_run V RT CT ER WR rt0 ct0 vr ser p l) =
    map (fun ss => snd (enc_run V RT CT ER WR rt0 ct0 vr ser (new_enc RT CT ER WR rt0 ct0) (es_ops ss))) l.
Proof. exact lib_sessions_fresh. Qed.
Print Assumptions C14_pool_encoder_sessions.

(* with the repair: ARBITRARY operations in every use, the Writer field included *)
Theorem C14_pool_encoder_sessions_fixed :
  forall (V RT CT ER WR : Type) (rt0 : RT) (ct0 : CT) (vr : variant)
         (ser : bool -> bool -> RT -> CT -> V -> ser_res RT CT ER),
  v_resetbuffer_off vr = true -> v_free_writer vr = true ->
  forall (l : list (esession V WR)) (p : epool RT CT ER WR),
  Forall (fun e => e = new_enc RT CT ER WR rt0 ct0) p ->
  Forall (fun e => e = new_enc RT CT ER WR rt0 ct0) (fst (esessions_run V RT CT ER WR rt0 ct0 vr ser p l)) /\
  snd (esessions_run V RT CT ER WR rt0 ct0 vr ser p l) =
    map (fun ss => snd (enc_run V RT CT ER WR rt0 ct0 vr ser (new_enc RT CT ER WR rt0 ct0) (es_ops ss))) l.
Proof. exact all_sessions_fresh_fixed. Qed.
Print Assumptions C14_pool_encoder_sessions_fixed.

(* decoders: FreeDecoder = Simple(false).ResetBuffer() clears input, mode, reference list, class
   list, error and all five options -- and keeps exactly one thing: dec.buf when a reader is
   attached, WHOEVER that buffer belongs to *)
Theorem C14_free_decoder_keeps_only_buffer :
  forall (DR DC ER : Type) (dr0 : DR) (dc0 : DC) (vr : variant) (s : dec DR DC ER),
  free_dec DR DC ER dr0 dc0 vr s =
  {| d_in := []; d_buf := if d_from_reader s then d_buf s else BufNil; d_from_reader := false;
     d_simple := false; d_refer := dr0; d_cls := dc0; d_err := None; d_opts := opts0 |}.
Proof. exact free_dec_char. Qed.
Print Assumptions C14_free_decoder_keeps_only_buffer.

(* guard: the buffer kept is not a slice of a caller *)
Theorem C14_reset_is_fresh_decoder_partial :
  forall (DT DV DR DC ER : Type) (dr0 : DR) (dc0 : DC) (vr : variant)
         (des : bool -> dopts -> DR -> DC -> option ER -> list byte -> DT -> des_res DV DR DC ER)
         (s : dec DR DC ER),
  (d_from_reader s = true -> norm_buf (d_buf s) = BufNil) ->
  dec_fresh_equiv DT DV DR DC ER dr0 dc0 vr des (free_dec DR DC ER dr0 dc0 vr s).
Proof. exact free_dec_fresh_partial. Qed.
Print Assumptions C14_reset_is_fresh_decoder_partial.

(* reachable through the pool: GetDecoder().ResetBytes(mine) ... ResetReader(r) ... FreeDecoder: the pool
   now holds a decoder whose read buffer is the first user's slice *)
Theorem C14_reset_is_fresh_decoder_refuted :
  ~ dec_fresh_equiv unit dval drefs unit cerr [] tt as_found cdes (c_free_dec (fst (c_dec_run c_new_dec dhist_buf))).
Proof. exact pool_dec_buffer_refuted. Qed.
Print Assumptions C14_reset_is_fresh_decoder_refuted.

(* what happens next: the NEXT user's input is read into the first user's slice (clobbers = true) ... *)
Theorem C14_pooled_decoder_buffer_leak :
  snd (c_dec_run (c_free_dec (fst (c_dec_run c_new_dec dhist_buf)))
                 [DResetReader (bs "s19""secret-of-next-user"""); DDecode tt]) =
  [ODUnit; ODecoded (DStr (bs "secret-of-next-user")) None true].
Proof. exact pool_dec_buffer_leak. Qed.
Print Assumptions C14_pooled_decoder_buffer_leak.

(* ... and when that slice has length 0 the next reader-fed use never returns (loadMore spins) *)
Theorem C14_pooled_decoder_hang :
  snd (c_dec_run (c_free_dec (fst (c_dec_run c_new_dec dhist_hang))) [DResetReader (bs "i7;"); DDecode tt]) =
  [ODUnit; ODHang].
Proof. exact pool_dec_hang. Qed.
Print Assumptions C14_pooled_decoder_hang.

(* all histories of pooled decoder uses with ARBITRARY public operations inside each use, provided
   each use takes its input from one kind of source (never ResetBytes, or never ResetReader: what
   Formatter.Unmarshal, UnmarshalFromReader and the rpc codecs do), and all choices of the pool *)
Theorem C14_pool_decoder_sessions :
  forall (DT DV DR DC ER : Type) (dr0 : DR) (dc0 : DC) (vr : variant)
         (des : bool -> dopts -> DR -> DC -> option ER -> list byte -> DT -> des_res DV DR DC ER)
         (l : list (dsession DT)) (p : dpool DR DC ER),
  Forall (fun e => dec_same e (new_dec DR DC ER dr0 dc0)) p ->
  Forall (fun ss => one_source (dss_ops ss) = true) l ->
  Forall (fun e => dec_same e (new_dec DR DC ER dr0 dc0)) (fst (dsessions_run DT DV DR DC ER dr0 dc0 vr des p l)) /\
  snd (dsessions_run DT DV DR DC ER dr0 dc0 vr des p l) =
    map (fun ss => snd (dec_run DT DV DR DC ER dr0 dc0 vr des (new_dec DR DC ER dr0 dc0) (dss_ops ss))) l.
Proof. exact sessions_fresh. Qed.
Print Assumptions C14_pool_decoder_sessions.

(* with hooks/c14-fix-decoder-resetreader.patch: ARBITRARY operations in every use *)
Theorem C14_pool_decoder_sessions_fixed :
  forall (DT DV DR DC ER : Type) (dr0 : DR) (dc0 : DC) (vr : variant)
         (des : bool -> dopts -> DR -> DC -> option ER -> list byte -> DT -> des_res DV DR DC ER),
  v_resetreader_drops vr = true ->
  forall (l : list (dsession DT)) (p : dpool DR DC ER),
  Forall (fun e => dec_same e (new_dec DR DC ER dr0 dc0)) p ->
  Forall (fun e => dec_same e (new_dec DR DC ER dr0 dc0)) (fst (dsessions_run DT DV DR DC ER dr0 dc0 vr des p l)) /\
  snd (dsessions_run DT DV DR DC ER dr0 dc0 vr des p l) =
    map (fun ss => snd (dec_run DT DV DR DC ER dr0 dc0 vr des (new_dec DR DC ER dr0 dc0) (dss_ops ss))) l.
Proof. exact all_dsessions_fresh_fixed. Qed.
Print Assumptions C14_pool_decoder_sessions_fixed.

(* outside the pool: the mode switch Simple(true) of a decoder used in reference mode keeps the
   reference list, and 'r' reads it in simple mode too: a reused decoder returns an object of
   the previous input where NewDecoder would panic (index out of range) *)
Theorem C14_decoder_simple_true_refuted :
  snd (c_dec_run (fst (c_dec_run (c_new_decoder dinput1) dhist)) dnext) =
    [ODUnit; ODUnit; ODecoded (DStr (bs "hello")) None false] /\
  snd (c_dec_run (c_new_decoder []) dnext) = [ODUnit; ODUnit; ODecoded DPanic None false].
Proof. exact dec_simple_true_refuted. Qed.
Print Assumptions C14_decoder_simple_true_refuted.

Theorem C14_decoder_simple_true_partial :
  forall (DT DV DR DC ER : Type) (dr0 : DR) (dc0 : DC) (vr : variant)
         (des : bool -> dopts -> DR -> DC -> option ER -> list byte -> DT -> des_res DV DR DC ER)
         (s : dec DR DC ER) (input : list byte),
  d_refer s = dr0 -> d_err s = None -> d_opts s = opts0 ->
  dec_same (fst (dec_step DT DV DR DC ER dr0 dc0 vr des (dset_simple DR DC ER dr0 dc0 vr true s) (DResetBytes input)))
           (new_decoder DR DC ER dr0 dc0 input).
Proof. exact dsimple_true_partial. Qed.
Print Assumptions C14_decoder_simple_true_partial.

(* with hooks/c14-fix-decoder-simple-reset.patch every mode switch empties both tables *)
Theorem C14_decoder_mode_switch_fixed :
  forall (DR DC ER : Type) (dr0 : DR) (dc0 : DC) (vr : variant) (b : bool) (s : dec DR DC ER),
  v_reset_refer_always vr = true ->
  d_refer (dset_simple DR DC ER dr0 dc0 vr b s) = dr0 /\ d_cls (dset_simple DR DC ER dr0 dc0 vr b s) = dc0.
Proof. exact dsimple_resets_fixed. Qed.
Print Assumptions C14_decoder_mode_switch_fixed.

(* ... which is why the rpc codecs are fine: they call Reset() in reference mode first *)
Theorem C14_codec_reset_then_simple :
  forall (DR DC ER : Type) (dr0 : DR) (dc0 : DC) (vr : variant) (s : dec DR DC ER),
  d_simple s = false ->
  d_refer (dset_simple DR DC ER dr0 dc0 vr true (dreset DR DC ER dr0 dc0 vr s)) = dr0.
Proof. exact dreset_then_simple_true. Qed.
Print Assumptions C14_codec_reset_then_simple.

(* ===================================================================================== *)
(* B. no aliasing                                                                        *)
(* ===================================================================================== *)
(* For every destination type, every token tree, both modes, every way the reads of the
   io.Reader split the input (every assignment of fast/slow path to each buffer primitive), and
   every owned reference list: all byte data held by the decoded value and by the reference
   list afterwards is Owned. *)
Theorem C14_no_alias :
  forall (m : omode) (fuel : nat) (ty : dty) (w : wtok) (refs : orefs) (i : nat),
  forallb all_owned refs = true ->
  all_owned (or_val (own_decode m fuel ty w refs i)) = true /\
  forallb all_owned (or_refs (own_decode m fuel ty w refs i)) = true.
Proof. exact own_decode_owned. Qed.
Print Assumptions C14_no_alias.

(* the entry points that return views BY DESIGN (outside the property): UnsafeNext, UnsafeUntil,
   ReadUnsafeString on the fast path; Encoder.Buffer and Encoder.UnsafeString always *)
Theorem C14_view_api_by_design : forall a, view_api_own a true = View.
Proof. exact view_api_is_view. Qed.
Print Assumptions C14_view_api_by_design.

Theorem C14_safe_api_owned : forall a fast, safe_api_own a fast = Owned.
Proof. exact safe_api_is_owned. Qed.
Print Assumptions C14_safe_api_owned.

(* ===================================================================================== *)
(* C. the lazy registries                                                                *)
(* ===================================================================================== *)
(* typing invariant over all schedules, locked or not: handlers always point at coders of the
   right type (no run ever gets Stuck) *)
Theorem C14_registry_typing :
  forall te locked vs sched st,
  wf_tenv te -> Forall (wf_val te) vs -> run te locked (init vs) sched = Some st -> state_ok te st.
Proof. exact reachable_state_ok. Qed.
Print Assumptions C14_registry_typing.

(* encoder side as it is (no lock), fresh types: NOT linearizable.  Shape 1: another goroutine
   builds an enclosing type while the coder is half built *)
Theorem C14_registry_linearizable_refuted :
  exists st, run te_enclosing false (init vs_enclosing) sched_enclosing = Some st /\
             finished st = true /\
             map out (threads st) = [[Full 0]; [Full 1; Half 0; Half 0]] /\
             map out (threads st) <> map seq_out vs_enclosing.
Proof. exact refuted_enclosing. Qed.
Print Assumptions C14_registry_linearizable_refuted.

(* Shape 2: mutually recursive types; the half-built coder is reached through a COMPLETE coder
   found in structEncoderMap *)
Theorem C14_registry_linearizable_refuted_mutual :
  exists st, run te_mutual false (init vs_mutual) sched_mutual = Some st /\
             finished st = true /\
             map out (threads st) = [[Full 0; Full 1]; [Full 1; Half 0]] /\
             map out (threads st) <> map seq_out vs_mutual.
Proof. exact refuted_mutual. Qed.
Print Assumptions C14_registry_linearizable_refuted_mutual.

(* Shape 3: two goroutines build the SAME self-recursive type at once; the recursion handler of one is
   the other's placeholder.  The inner value is written with its class already defined and ZERO
   fields: well-formed output, fields silently dropped (found by the first-use race search) *)
Theorem C14_registry_linearizable_refuted_same_type :
  exists st, run te_same false (init vs_same) sched_same = Some st /\
             finished st = true /\
             map out (threads st) = [[Full 0; Half 0]; [Full 0; Full 0]] /\
             map out (threads st) <> map seq_out vs_same.
Proof. exact refuted_same. Qed.
Print Assumptions C14_registry_linearizable_refuted_same_type.

(* partial 1, warm types: when every type has a complete coder and none is half built, every
   interleaving of any number of calls writes what each call writes alone *)
Theorem C14_registry_linearizable_partial_warm :
  forall te s0 vs sched st,
  wf_tenv te -> shared_ok te s0 -> warm te s0 -> Forall (wf_val te) vs ->
  run te false (mk_state s0 (map marshal vs)) sched = Some st ->
  outs_ok vs (threads st) /\ (finished st = true -> map out (threads st) = map seq_out vs).
Proof. exact warm_linearizable. Qed.
Print Assumptions C14_registry_linearizable_partial_warm.

(* partial 2, fresh types, first uses serialised: a goroutine moves only while no OTHER goroutine
   has a published-but-unassigned coder (e.g. io.Register at start-up) *)
Theorem C14_registry_linearizable_partial_isolated :
  forall te vs sched st,
  wf_tenv te -> Forall (wf_val te) vs -> isolated te (init vs) sched = true ->
  run te false (init vs) sched = Some st ->
  outs_ok vs (threads st) /\ (finished st = true -> map out (threads st) = map seq_out vs).
Proof. exact isolated_linearizable. Qed.
Print Assumptions C14_registry_linearizable_partial_isolated.

(* why publishing early is safe for recursion on the SAME goroutine, for every type environment
   (self-referential, mutually recursive, nested): the handler of a recursive field only holds
   the pointer; fields is read by Write, which runs after the goroutine has left every
   newNamedStructEncoder it entered *)
Theorem C14_same_goroutine_recursion_safe :
  forall te v sched st,
  wf_tenv te -> wf_val te v -> run te false (init [v]) sched = Some st -> finished st = true ->
  map out (threads st) = [seq_out v].
Proof. exact sequential_recursion_safe. Qed.
Print Assumptions C14_same_goroutine_recursion_safe.

(* decoder side (newNamedStructDecoder holds the write lock across publication, decodeField reads
   under RLock) and the encoder with hooks/c14-fix-struct-encoder-publish.patch: linearizable in
   EVERY schedule, cold or warm ... *)
Theorem C14_registry_locked_linearizable :
  forall te vs sched st,
  wf_tenv te -> Forall (wf_val te) vs -> run te true (init vs) sched = Some st ->
  outs_ok vs (threads st) /\ (finished st = true -> map out (threads st) = map seq_out vs).
Proof. exact locked_linearizable. Qed.
Print Assumptions C14_registry_locked_linearizable.

(* ... and never deadlocks: while some call is unfinished some goroutine can move *)
Theorem C14_registry_locked_deadlock_free :
  forall te vs sched st,
  wf_tenv te -> Forall (wf_val te) vs -> run te true (init vs) sched = Some st ->
  finished st = false -> exists i, step te true st i <> None.
Proof. exact locked_deadlock_free. Qed.
Print Assumptions C14_registry_locked_deadlock_free.

(* ===================================================================================== *)
(* Examples: hypotheses are satisfiable, guards exclude exactly the findings              *)
(* ===================================================================================== *)
(* a history of library uses (two modes, a failing value, explicit Reset) meets the guard of
   C14_pool_encoder_sessions; its observations, computed *)
Example ex_sessions_guard : Forall (fun ss => forallb lib_eop (es_ops ss) = true) sample_sessions.
Proof. exact sample_sessions_lib. Qed.
Example ex_sessions_obs :
  snd (c_esessions_run [] sample_sessions) =
  [ [OUnit; OFlushed None None; OBytes (bs "a3{s2""ab""r1;c2""CA""1{s1""a""}o0{5}}")];
    [OUnit; OFlushed (Some EUnsupported) None; OErr (Some EUnsupported); OBytes (bs "n")];
    [OUnit; OFlushed None None; OUnit; OFlushed None None; OBytes (bs "s2""ab""c2""CA""1{s1""a""}o0{n}")] ].
Proof. exact sample_sessions_obs. Qed.
(* a history of decoder uses (modes, options, a panicking and a failing input, a reader) meets the
   guard of C14_pool_decoder_sessions; its observations, computed *)
Example ex_dsessions_guard : Forall (fun ss => one_source (dss_ops ss) = true) sample_dsessions.
Proof. exact sample_dsessions_one_source. Qed.
Example ex_dsessions_obs :
  snd (c_dsessions_run [] sample_dsessions) =
  [ [ODUnit; ODUnit; ODUnit; ODecoded (DList [DStr (bs "hello"); DStr (bs "hello")]) None false];
    [ODOpts opts0; ODUnit; ODecoded DPanic None false; ODErr None];
    [ODUnit; ODUnit; ODecoded (DLong 0 5) None false; ODecoded DNil (Some EInvalidTag) false; ODErr (Some EInvalidTag)] ].
Proof. exact sample_dsessions_obs. Qed.
(* the history of the decoder refutation violates the guard of the partial theorem *)
Example ex_guard_buf :
  d_from_reader (fst (c_dec_run c_new_dec dhist_buf)) = true /\
  d_buf (fst (c_dec_run c_new_dec dhist_buf)) = BufUser 20.
Proof. exact dhist_buf_not_guarded. Qed.
(* the refuting histories violate the guard of the partial theorem, one conjunct each *)
Example ex_guard_writer : e_writer (fst (c_enc_run c_new_enc hist_writer)) = Some 1%N.
Proof. exact hist_writer_not_clean. Qed.
Example ex_guard_off : e_off (fst (c_enc_run c_new_enc hist_off)) = 9.
Proof. exact hist_off_not_clean. Qed.
(* ownership: all primitives on the fast (view) path, reference mode, nested value *)
Example ex_no_alias :
  or_val (own_decode (all_fast false) 10 (TStruct [TString; TBytes; TIface; TSlice TString])
            (WObj [WStr; WStr; WList [WStr; WBytes; WChar]; WList [WStr; WRefTo 0]]) [] 0) =
  ONode [OLeaf Owned; OLeaf Owned; ONode [OLeaf Owned; OLeaf Owned; OLeaf Owned]; ONode [OLeaf Owned; OLeaf Owned]].
Proof. exact own_example. Qed.
(* the witnesses of the registry refutations are well-formed inputs *)
Example ex_wf_enclosing : wf_tenv te_enclosing /\ Forall (wf_val te_enclosing) vs_enclosing.
Proof. exact wf_enclosing. Qed.
Example ex_wf_mutual : wf_tenv te_mutual /\ Forall (wf_val te_mutual) vs_mutual.
Proof. exact wf_mutual. Qed.
Example ex_wf_same : wf_tenv te_same /\ Forall (wf_val te_same) vs_same.
Proof. exact wf_same. Qed.
(* the refuting schedules are not isolated; the sequential ones are *)
Example ex_not_isolated : isolated te_enclosing (init vs_enclosing) sched_enclosing = false.
Proof. vm_compute. reflexivity. Qed.
Example ex_isolated : isolated te_enclosing (init vs_enclosing) (repeat 0 6 ++ repeat 1 10) = true.
Proof. vm_compute. reflexivity. Qed.
(* a warm state exists: run the two calls one after the other, then start again from its registry *)
Example ex_warm :
  exists st, run te_enclosing false (init vs_enclosing) (repeat 0 6 ++ repeat 1 10) = Some st /\
             assigned_all (sh st) = true /\
             lookup (complete (sh st)) 0 <> None /\ lookup (complete (sh st)) 1 <> None.
Proof. eexists. split; [vm_compute; reflexivity|]. repeat split; vm_compute; discriminate. Qed.
(* with the lock the refuting schedule cannot run: the reader is blocked at that point *)
Example ex_locked_blocks : run te_enclosing true (init vs_enclosing) sched_enclosing = None.
Proof. exact locked_blocks_enclosing. Qed.
