(* C14 — Serialization is safe under concurrency; pooled coders leak no state.
   Only statements, each closed by [exact lemma], with Print Assumptions, plus Examples.

   PART I  — WHAT HOLDS NOW.  The headline theorems are stated for the tree as repaired
             ([all_fixed]: /repo 717e8be, efd3d7f, e063fce, d41e43d; the struct-encoder side of the
             registry takes its lock, i.e. the [locked] LTS).  No guards.
               C14_reset_is_fresh_encoder / _decoder   a released coder behaves like a new one for EVERY later use
               C14_pool_encoder_sessions / _decoder_   every history of pooled uses, arbitrary operations, any pool choice
               C14_pool_exclusive                      no pooled coder is ever handed to two users (users free once)
               C14_no_alias                            every string/[]byte reachable from a decoded value is Owned
               C14_registry_linearizable               in every interleaving each call writes what it writes alone
             checks/C14.py runs the model in this variant and reports a VIOLATION when the tree under
             test lacks one of the repairs.
   PART II — HISTORICAL.  The tree as found ([as_found], unlocked registry) violated the first and the
             last; the witnesses and the guarded (partial) statements about THAT variant are kept as
             labelled Examples so that a revert is recognised for what it is.

   Limits: the registry LTS has sequentially consistent atomic steps (one sync.Map method, one
   read/write of the fields word, one RWMutex operation); data-race freedom in the sense of the Go
   memory model is not expressible in it. *)
From Coq Require Import List NArith ZArith Bool Strings.Byte Arith String.
From HV Require Import Lib.Dec Model.Pool Model.Registry Proofs.PoolProofs Proofs.RegistryProofs.
Import ListNotations.
Local Open Scope string_scope.
Local Open Scope nat_scope.

(* ===================================================================================== *)
(* PART I.A  state hygiene of pooled coders (generic in the serializer), repaired tree    *)
(* ===================================================================================== *)

(* FreeEncoder = Writer = nil; Simple(false).ResetBuffer() turns EVERY encoder state into new(Encoder):
   buffer, flush offset, mode, reference table, class table, writer, error *)
Theorem C14_free_encoder_is_new :
  forall (RT CT ER WR : Type) (rt0 : RT) (ct0 : CT) (s : enc RT CT ER WR),
  free_enc RT CT ER WR rt0 ct0 all_fixed s = new_enc RT CT ER WR rt0 ct0.
Proof. exact now_free_enc_is_new. Qed.
Print Assumptions C14_free_encoder_is_new.

Theorem C14_reset_is_fresh_encoder :
  forall (V RT CT ER WR : Type) (rt0 : RT) (ct0 : CT) (ser : bool -> bool -> RT -> CT -> V -> ser_res RT CT ER)
         (s : enc RT CT ER WR),
  enc_fresh_equiv V RT CT ER WR rt0 ct0 all_fixed ser (free_enc RT CT ER WR rt0 ct0 all_fixed s).
Proof. exact now_free_enc_fresh. Qed.
Print Assumptions C14_reset_is_fresh_encoder.

(* ALL histories of pooled uses, ARBITRARY operations of the public API in each use (modes, failing
   values, Reset, ResetBuffer, the exported Writer field), ALL choices of the pool: every use
   observes exactly what it observes on a new encoder, and the pool stays all-new *)
Theorem C14_pool_encoder_sessions :
  forall (V RT CT ER WR : Type) (rt0 : RT) (ct0 : CT) (ser : bool -> bool -> RT -> CT -> V -> ser_res RT CT ER)
         (l : list (esession V WR)) (p : epool RT CT ER WR),
  Forall (fun e => e = new_enc RT CT ER WR rt0 ct0) p ->
  Forall (fun e => e = new_enc RT CT ER WR rt0 ct0) (fst (esessions_run V RT CT ER WR rt0 ct0 all_fixed ser p l)) /\
  snd (esessions_run V RT CT ER WR rt0 ct0 all_fixed ser p l) =
    map (fun ss => snd (enc_run V RT CT ER WR rt0 ct0 all_fixed ser (new_enc RT CT ER WR rt0 ct0) (es_ops ss))) l.
Proof. exact now_esessions_fresh. Qed.
Print Assumptions C14_pool_encoder_sessions.

(* decoders: whatever constructor made the decoder (the pool, NewDecoder, NewDecoderFromReader) and
   whatever it went through (any operations: modes, options, failing inputs, ResetBytes and
   ResetReader in any order), FreeDecoder makes it observationally new: input, read buffer, mode,
   reference list, class list, sticky error, the five options *)
Theorem C14_reset_is_fresh_decoder :
  forall (DT DV DR DC ER : Type) (dr0 : DR) (dc0 : DC)
         (des : bool -> dopts -> DR -> DC -> option ER -> list byte -> DT -> des_res DV DR DC ER)
         (s0 : dec DR DC ER) (ops : list (dop DT)),
  made_by_constructor dr0 dc0 s0 ->
  dec_fresh_equiv DT DV DR DC ER dr0 dc0 all_fixed des
    (free_dec DR DC ER dr0 dc0 all_fixed (fst (dec_run DT DV DR DC ER dr0 dc0 all_fixed des s0 ops))).
Proof. exact now_free_dec_fresh. Qed.
Print Assumptions C14_reset_is_fresh_decoder.

Theorem C14_pool_decoder_sessions :
  forall (DT DV DR DC ER : Type) (dr0 : DR) (dc0 : DC)
         (des : bool -> dopts -> DR -> DC -> option ER -> list byte -> DT -> des_res DV DR DC ER)
         (l : list (dsession DT)) (p : dpool DR DC ER),
  Forall (fun e => dec_same e (new_dec DR DC ER dr0 dc0)) p ->
  Forall (fun e => dec_same e (new_dec DR DC ER dr0 dc0)) (fst (dsessions_run DT DV DR DC ER dr0 dc0 all_fixed des p l)) /\
  snd (dsessions_run DT DV DR DC ER dr0 dc0 all_fixed des p l) =
    map (fun ss => snd (dec_run DT DV DR DC ER dr0 dc0 all_fixed des (new_dec DR DC ER dr0 dc0) (dss_ops ss))) l.
Proof. exact now_dsessions_fresh. Qed.
Print Assumptions C14_pool_decoder_sessions.

(* user-held decoders too: every mode switch (Simple(b), either b) empties both tables *)
Theorem C14_decoder_mode_switch_resets :
  forall (DR DC ER : Type) (dr0 : DR) (dc0 : DC) (b : bool) (s : dec DR DC ER),
  d_refer (dset_simple DR DC ER dr0 dc0 all_fixed b s) = dr0 /\ d_cls (dset_simple DR DC ER dr0 dc0 all_fixed b s) = dc0.
Proof. exact now_mode_switch_resets. Qed.
Print Assumptions C14_decoder_mode_switch_resets.

(* WHO may touch a pooled coder.  sync.Pool is a bag and Put accepts duplicates; the users are the
   functions that call Get* (Formatter, the rpc codecs).  For every history of any number of users
   and every choice of the pool, if each user frees only what it holds (and thereby stops holding
   it), then at every instant no object is in the pool twice, both in the pool and held, or held by
   two users.  The premise is what checks/C14.py establishes on the sources (go/ast walk,
   harness/cmd/c14pool: every Get* is followed at once by ONE deferred Free* of the same variable and
   nothing else in the function frees) and on the running code (after every exit of every codec
   entry point, consecutive Get* calls return pairwise distinct objects, none of them a held one). *)
Theorem C14_pool_exclusive :
  forall ops : list oop, disciplined oinit ops = true -> exclusive (orun oinit ops) = true.
Proof. exact disciplined_exclusive. Qed.
Print Assumptions C14_pool_exclusive.

(* ===================================================================================== *)
(* PART I.B  no aliasing                                                                  *)
(* ===================================================================================== *)
(* For every destination type, every token tree, both modes, every way the reads of the
   io.Reader split the input (every assignment of fast/slow path to each buffer primitive), and
   every owned reference list: all byte data held by the decoded value and by the reference
   list afterwards is Owned. *)
Theorem C14_no_alias :
  forall (m : omode) (fuel : nat) (ty : dty) (w : wtok) (refs : orefs) (i : nat),
  forallb all_owned refs = true ->
  all_owned (or_val (own_decode m fuel ty w refs i)) = true /\
  forallb all_owned (or_refs (own_decode m fuel ty w refs i)) = true.
Proof. exact own_decode_owned. Qed.
Print Assumptions C14_no_alias.

(* the entry points that return views BY DESIGN (outside the property): UnsafeNext, UnsafeUntil,
   ReadUnsafeString on the fast path; Encoder.Buffer and Encoder.UnsafeString always *)
Theorem C14_view_api_by_design : forall a, view_api_own a true = View.
Proof. exact view_api_is_view. Qed.
Print Assumptions C14_view_api_by_design.

Theorem C14_safe_api_owned : forall a fast, safe_api_own a fast = Owned.
Proof. exact safe_api_is_owned. Qed.
Print Assumptions C14_safe_api_owned.

(* ===================================================================================== *)
(* PART I.C  the lazy registries: builder holds the write lock from before the publication *)
(*           until fields are assigned, Write/decodeField read fields under the read lock  *)
(*           (decoder side always; encoder side since efd3d7f)                             *)
(* ===================================================================================== *)
(* every type environment (nested, self-referential, mutually recursive types), any number of
   goroutines, fresh or warm types, EVERY schedule: each call writes what it writes alone.
   This is the code only if the critical section really has that shape; checks/C14.py inspects
   it on both sides (encoder: repair flag encoder_locked; decoder: decoder_lock_structure: Lock
   before registerNamedStructDecoder, still held at "decoder.fields =", decodeField under RLock).
   A lock that is taken late or released early is the UNLOCKED machine of part II
   (old_registry_refuted_enclosing: the reader finds the coder published and unassigned). *)
Theorem C14_registry_linearizable :
  forall te vs sched st,
  wf_tenv te -> Forall (wf_val te) vs -> run te true (init vs) sched = Some st ->
  outs_ok vs (threads st) /\ (finished st = true -> map out (threads st) = map seq_out vs).
Proof. exact locked_linearizable. Qed.
Print Assumptions C14_registry_linearizable.

(* ... and the lock never deadlocks: while some call is unfinished some goroutine can move *)
Theorem C14_registry_deadlock_free :
  forall te vs sched st,
  wf_tenv te -> Forall (wf_val te) vs -> run te true (init vs) sched = Some st ->
  finished st = false -> exists i, step te true st i <> None.
Proof. exact locked_deadlock_free. Qed.
Print Assumptions C14_registry_deadlock_free.

(* handlers always point at coders of the right type (no run ever gets Stuck) *)
Theorem C14_registry_typing :
  forall te locked vs sched st,
  wf_tenv te -> Forall (wf_val te) vs -> run te locked (init vs) sched = Some st -> state_ok te st.
Proof. exact reachable_state_ok. Qed.
Print Assumptions C14_registry_typing.

(* ===================================================================================== *)
(* PART I.D  non-vacuity, and the old failing histories on the repaired model             *)
(* ===================================================================================== *)
Example now_resetbuffer :   (* NewEncoder(w); Encode(a); ResetBuffer(); Encode(b): w receives a, then ALL of b *)
  snd (enc_run val crefer ccls cerr N crefer0 ccls0 all_fixed cser (c_new_encoder (Some 1%N))
         [EEncode (VStr (bs "hello")); EResetBuffer; EEncode (VStr (bs "world!"))]) =
  [OFlushed None (Some (1%N, bs "s5""hello""")); OUnit; OFlushed None (Some (1%N, bs "s6""world!"""))].
Proof. exact now_resetbuffer_delivers_all. Qed.
Example now_pool_writer :   (* a Writer left on a released encoder is gone for the next user *)
  snd (enc_run val crefer ccls cerr N crefer0 ccls0 all_fixed cser
         (cv_free_enc all_fixed (fst (enc_run val crefer ccls cerr N crefer0 ccls0 all_fixed cser c_new_enc hist_writer)))
         [ESimple true; EEncode (VStr (bs "secret-of-next-user")); EBytes]) =
  [OUnit; OFlushed None None; OBytes (bs "s19""secret-of-next-user""")].
Proof. exact now_pool_writer_gone. Qed.
Example now_pool_decoder_buffer :   (* ResetBytes(mine); ResetReader(r); FreeDecoder: the next user does not touch mine *)
  snd (dec_run unit dval drefs unit cerr [] tt all_fixed cdes
         (cv_free_dec all_fixed (fst (dec_run unit dval drefs unit cerr [] tt all_fixed cdes c_new_dec dhist_buf)))
         [DResetReader (bs "s19""secret-of-next-user"""); DDecode tt]) =
  [ODUnit; ODecoded (DStr (bs "secret-of-next-user")) None false].
Proof. exact now_pool_dec_buffer_clean. Qed.
Example now_pool_decoder_no_hang :
  snd (dec_run unit dval drefs unit cerr [] tt all_fixed cdes
         (cv_free_dec all_fixed (fst (dec_run unit dval drefs unit cerr [] tt all_fixed cdes c_new_dec dhist_hang)))
         [DResetReader (bs "i7;"); DDecode tt]) =
  [ODUnit; ODecoded (DInt 7) None false].
Proof. exact now_pool_dec_no_hang. Qed.
Example now_simple_true :   (* a reused decoder switched to simple mode answers 'r1;' like NewDecoder does: decode error, reference index out of range *)
  snd (dec_run unit dval drefs unit cerr [] tt all_fixed cdes
         (fst (dec_run unit dval drefs unit cerr [] tt all_fixed cdes (c_new_decoder dinput1) dhist)) dnext) =
  [ODUnit; ODUnit; ODecoded DNil (Some EOther) false].
Proof. exact now_simple_true_is_clean. Qed.
(* the three schedules that broke the unlocked registry: with the lock the fatal step is not
   enabled (the reader waits), and once the builder has assigned the fields everybody is right *)
Example now_enclosing_blocked : run te_enclosing true (init vs_enclosing) sched_enclosing = None.
Proof. exact locked_blocks_enclosing. Qed.
Example now_mutual_blocked : run te_mutual true (init vs_mutual) sched_mutual = None.
Proof. exact locked_blocks_mutual. Qed.
Example now_same_blocked : run te_same true (init vs_same) sched_same = None.
Proof. exact locked_blocks_same. Qed.
Example now_enclosing_completes :
  exists st, run te_enclosing true (init vs_enclosing) ([0; 0] ++ repeat 1 8 ++ repeat 0 4 ++ repeat 1 2) = Some st /\
             finished st = true /\ map out (threads st) = map seq_out vs_enclosing.
Proof. exact locked_enclosing_completes. Qed.
(* exclusivity: a disciplined history with reuse and three users; and what one Free too many does (a
   deferred Free plus an explicit one on the same path): the pool gives object 0 to user 2 AND user 3 *)
Example ex_owner_history :
  disciplined oinit sample_owner_history = true /\ o_held (orun oinit sample_owner_history) = [(2, 0); (1, 1)].
Proof. exact sample_owner_history_ok. Qed.
Example double_free_refuted :
  disciplined oinit double_free_history = false /\
  o_held (orun oinit double_free_history) = [(3, 0); (2, 0)] /\
  exclusive (orun oinit double_free_history) = false.
Proof. exact double_free_breaks_exclusivity. Qed.
(* the inputs of these examples are well-formed (hypotheses of C14_registry_linearizable) *)
Example ex_wf_enclosing : wf_tenv te_enclosing /\ Forall (wf_val te_enclosing) vs_enclosing.
Proof. exact wf_enclosing. Qed.
Example ex_wf_mutual : wf_tenv te_mutual /\ Forall (wf_val te_mutual) vs_mutual.
Proof. exact wf_mutual. Qed.
Example ex_wf_same : wf_tenv te_same /\ Forall (wf_val te_same) vs_same.
Proof. exact wf_same. Qed.
(* ownership: all primitives on the fast (view) path, reference mode, nested value *)
Example ex_no_alias :
  or_val (own_decode (all_fast false) 10 (TStruct [TString; TBytes; TIface; TSlice TString])
            (WObj [WStr; WStr; WList [WStr; WBytes; WChar]; WList [WStr; WRefTo 0]]) [] 0) =
  ONode [OLeaf Owned; OLeaf Owned; ONode [OLeaf Owned; OLeaf Owned; OLeaf Owned]; ONode [OLeaf Owned; OLeaf Owned]].
Proof. exact own_example. Qed.

(* ===================================================================================== *)
(* PART II  HISTORICAL — the tree AS FOUND (before 717e8be, efd3d7f, e063fce, d41e43d).    *)
(*          Statements about the OLD variant ([as_found], registry without the lock).      *)
(*          Nothing below describes the current tree; a check that reproduces one of       *)
(*          these behaviours has found a reverted repair.                                  *)
(* ===================================================================================== *)
Notation old_enc_fresh := (enc_fresh_equiv val crefer ccls cerr N crefer0 ccls0 as_found cser).
Notation old_dec_fresh := (dec_fresh_equiv unit dval drefs unit cerr [] tt as_found cdes).

(* [encoder-resetbuffer-keeps-off] (fixed 717e8be): the writer received a, then one stray byte of b *)
Example old_resetbuffer_stray_byte :
  snd (c_enc_run (c_new_encoder (Some 1%N))
         [EEncode (VStr (bs "hello")); EResetBuffer; EEncode (VStr (bs "world!"))]) =
  [OFlushed None (Some (1%N, bs "s5""hello""")); OUnit; OFlushed None (Some (1%N, bs """"))].
Proof. exact resetbuffer_stray_byte. Qed.
(* [pool-encoder-writer-survives-free] (fixed 717e8be) *)
Example old_pool_writer_refuted : ~ old_enc_fresh (c_free_enc (fst (c_enc_run c_new_enc hist_writer))).
Proof. exact pool_writer_refuted. Qed.
Example old_pool_writer_leak :
  snd (c_enc_run (c_free_enc (fst (c_enc_run c_new_enc hist_writer)))
                 [ESimple true; EEncode (VStr (bs "secret-of-next-user")); EBytes]) =
  [OUnit; OFlushed None (Some (1%N, bs "t-of-next-user""")); OBytes (bs "s19""secret-of-next-user""")].
Proof. exact pool_writer_leak. Qed.
(* [pool-encoder-off-survives-free] (fixed 717e8be) *)
Example old_pool_off_refuted : ~ old_enc_fresh (c_free_enc (fst (c_enc_run c_new_enc hist_off))).
Proof. exact pool_off_refuted. Qed.
(* what did hold as found: the guarded statement (any variant), used by the library's own pooled uses *)
Example old_reset_is_fresh_encoder_partial :
  forall (V RT CT ER WR : Type) (rt0 : RT) (ct0 : CT) (vr : variant)
         (ser : bool -> bool -> RT -> CT -> V -> ser_res RT CT ER) (s : enc RT CT ER WR),
  e_off s = 0 /\ e_writer s = None ->
  enc_fresh_equiv V RT CT ER WR rt0 ct0 vr ser (free_enc RT CT ER WR rt0 ct0 vr s).
Proof. exact free_enc_fresh_partial. Qed.
Example old_pool_encoder_sessions_partial :
  forall (V RT CT ER WR : Type) (rt0 : RT) (ct0 : CT) (vr : variant)
         (ser : bool -> bool -> RT -> CT -> V -> ser_res RT CT ER)
         (l : list (esession V WR)) (p : epool RT CT ER WR),
  Forall (fun e => e = new_enc RT CT ER WR rt0 ct0) p ->
  Forall (fun ss => forallb lib_eop (es_ops ss) = true) l ->
  Forall (fun e => e = new_enc RT CT ER WR rt0 ct0) (fst (esessions_run V RT CT ER WR rt0 ct0 vr ser p l)) /\
  snd (esessions_run V RT CT ER WR rt0 ct0 vr ser p l) =
    map (fun ss => snd (enc_run V RT CT ER WR rt0 ct0 vr ser (new_enc RT CT ER WR rt0 ct0) (es_ops ss))) l.
Proof. exact lib_sessions_fresh. Qed.

(* [pool-decoder-keeps-user-input-as-read-buffer] (fixed d41e43d) *)
Example old_pool_decoder_refuted : ~ old_dec_fresh (c_free_dec (fst (c_dec_run c_new_dec dhist_buf))).
Proof. exact pool_dec_buffer_refuted. Qed.
Example old_pool_decoder_buffer_leak :
  snd (c_dec_run (c_free_dec (fst (c_dec_run c_new_dec dhist_buf)))
                 [DResetReader (bs "s19""secret-of-next-user"""); DDecode tt]) =
  [ODUnit; ODecoded (DStr (bs "secret-of-next-user")) None true].
Proof. exact pool_dec_buffer_leak. Qed.
(* [decoder-resetreader-keeps-previous-input-as-buffer] (fixed d41e43d): zero-length slice: never returns *)
Example old_pool_decoder_hang :
  snd (c_dec_run (c_free_dec (fst (c_dec_run c_new_dec dhist_hang))) [DResetReader (bs "i7;"); DDecode tt]) =
  [ODUnit; ODHang].
Proof. exact pool_dec_hang. Qed.
Example old_reset_is_fresh_decoder_partial :
  forall (DT DV DR DC ER : Type) (dr0 : DR) (dc0 : DC) (vr : variant)
         (des : bool -> dopts -> DR -> DC -> option ER -> list byte -> DT -> des_res DV DR DC ER)
         (s : dec DR DC ER),
  (d_from_reader s = true -> norm_buf (d_buf s) = BufNil) ->
  dec_fresh_equiv DT DV DR DC ER dr0 dc0 vr des (free_dec DR DC ER dr0 dc0 vr s).
Proof. exact free_dec_fresh_partial. Qed.
Example old_pool_decoder_sessions_partial :
  forall (DT DV DR DC ER : Type) (dr0 : DR) (dc0 : DC) (vr : variant)
         (des : bool -> dopts -> DR -> DC -> option ER -> list byte -> DT -> des_res DV DR DC ER)
         (l : list (dsession DT)) (p : dpool DR DC ER),
  Forall (fun e => dec_same e (new_dec DR DC ER dr0 dc0)) p ->
  Forall (fun ss => one_source (dss_ops ss) = true) l ->
  Forall (fun e => dec_same e (new_dec DR DC ER dr0 dc0)) (fst (dsessions_run DT DV DR DC ER dr0 dc0 vr des p l)) /\
  snd (dsessions_run DT DV DR DC ER dr0 dc0 vr des p l) =
    map (fun ss => snd (dec_run DT DV DR DC ER dr0 dc0 vr des (new_dec DR DC ER dr0 dc0) (dss_ops ss))) l.
Proof. exact sessions_fresh. Qed.

(* [decoder-reset-in-simple-mode-keeps-refer] (fixed e063fce) *)
Example old_decoder_simple_true_refuted :
  snd (c_dec_run (fst (c_dec_run (c_new_decoder dinput1) dhist)) dnext) =
    [ODUnit; ODUnit; ODecoded (DStr (bs "hello")) None false] /\
  snd (c_dec_run (c_new_decoder []) dnext) = [ODUnit; ODUnit; ODecoded DNil (Some EOther) false].
Proof. exact dec_simple_true_refuted. Qed.

(* [struct-encoder-published-before-fields] (fixed efd3d7f): the registry WITHOUT the lock.
   shape 1: another goroutine builds an enclosing type while the coder is half built *)
Example old_registry_refuted_enclosing :
  exists st, run te_enclosing false (init vs_enclosing) sched_enclosing = Some st /\
             finished st = true /\
             map out (threads st) = [[Full 0]; [Full 1; Half 0; Half 0]] /\
             map out (threads st) <> map seq_out vs_enclosing.
Proof. exact refuted_enclosing. Qed.
(* shape 2: mutually recursive types; the half-built coder is reached through a COMPLETE coder *)
Example old_registry_refuted_mutual :
  exists st, run te_mutual false (init vs_mutual) sched_mutual = Some st /\
             finished st = true /\
             map out (threads st) = [[Full 0; Full 1]; [Full 1; Half 0]] /\
             map out (threads st) <> map seq_out vs_mutual.
Proof. exact refuted_mutual. Qed.
(* shape 3: the same self-recursive type built twice at once; the inner value loses its fields *)
Example old_registry_refuted_same_type :
  exists st, run te_same false (init vs_same) sched_same = Some st /\
             finished st = true /\
             map out (threads st) = [[Full 0; Half 0]; [Full 0; Full 0]] /\
             map out (threads st) <> map seq_out vs_same.
Proof. exact refuted_same. Qed.
(* what did hold without the lock: warm types (every schedule), serialised first uses, one goroutine
   with any recursion (why the early publication was safe THERE: the handler of a recursive field
   holds only the pointer; fields is read by Write, after the goroutine left every build) *)
Example old_registry_partial_warm :
  forall te s0 vs sched st,
  wf_tenv te -> shared_ok te s0 -> warm te s0 -> Forall (wf_val te) vs ->
  run te false (mk_state s0 (map marshal vs)) sched = Some st ->
  outs_ok vs (threads st) /\ (finished st = true -> map out (threads st) = map seq_out vs).
Proof. exact warm_linearizable. Qed.
Example old_registry_partial_isolated :
  forall te vs sched st,
  wf_tenv te -> Forall (wf_val te) vs -> isolated te (init vs) sched = true ->
  run te false (init vs) sched = Some st ->
  outs_ok vs (threads st) /\ (finished st = true -> map out (threads st) = map seq_out vs).
Proof. exact isolated_linearizable. Qed.
Example old_same_goroutine_recursion_safe :
  forall te v sched st,
  wf_tenv te -> wf_val te v -> run te false (init [v]) sched = Some st -> finished st = true ->
  map out (threads st) = [seq_out v].
Proof. exact sequential_recursion_safe. Qed.
