(* C07 - RPC codec round trip: the service decodes what the client encoded, and back.
   Statements only; proofs in Proofs/CodecProofs.v.

   Reading guide.  [client_encode]/[service_decode]/[service_encode]/[client_decode] are the models of
   rpc/core/client_codec.go and service_codec.go (Model/Codec.v); a message is a sequence of protocol
   tags and io values whose bytes are [emit_ops]; the reader works on the BYTES.  What one io value means
   in a Go type is C01's business: [io_dec] (one self-contained top-level value into a type) is a variable,
   and the premises C01_value / C01_tuple / C01_headers / C01_bool are C01's round-trip statement for it
   ([convert o T v] = the value C01 promises, [fits v T] = v can be decoded into T).  So every theorem
   below is a composition whose value-level premises are another property's statement.
   All option pairs: [co : copts] and [so : sopts] are universally quantified everywhere. *)
From Coq Require Import String.
From Coq Require Import List NArith ZArith Strings.Byte Bool.
From HV Require Import Lib.Dec Lib.Utf8 Model.Wire Model.WireSem Model.Enc Model.Codec
                       Proofs.WireProofs Proofs.EncProofs Proofs.CodecProofs.
Import ListNotations.
Open Scope N_scope.

(* ---- the message layer ------------------------------------------------------------------------- *)

(* a message of protocol tags and token-legal values is read back item by item, whatever the values are *)
Theorem C07_message_delimited : forall m, forallb item_ok m = true -> parse_msg (emit_items m) = Some m.
Proof. exact parse_msg_emit. Qed.
Print Assumptions C07_message_delimited.

(* whatever the encoder model writes from a state whose tables point backwards only, it writes only
   references and class indexes that point backwards inside the same scope; in simple mode it writes none *)
Theorem C07_encoder_keeps_scope : forall simple hp fuel st v st' w p,
  est_ok st -> at_pos simple st p -> enc simple hp fuel st v = EOk st' w ->
  exists p', closed w p = Some p' /\ est_ok st' /\ at_pos simple st' p' /\ (simple = true -> has_ref w = false).
Proof. exact enc_closed. Qed.
Print Assumptions C07_encoder_keeps_scope.

(* ---- requests ---------------------------------------------------------------------------------- *)

(* For every method name (any bytes), argument list, header list and option pair: the service codec
   decodes the client codec's request to the same name, the method looked up under it, the same headers
   plus the reserved flag of a Simple client, and the arguments converted to the parameter types
   (variadic tail by element type, surplus as interface{}, missing method as []interface{}).
   Guard ("_partial"): the application does not itself use the reserved header key "simple"
   (see C07_segments_aligned_refuted for what happens otherwise). *)
Theorem C07_request_roundtrip_partial :
  forall fuel hp lower io_dec io_dec_hdrs (convert : dopts -> pty -> gval -> gval) (fits : gval -> pty -> Prop),
  C01_value hp io_dec convert fits -> C01_tuple hp io_dec convert fits ->
  C01_headers hp io_dec_hdrs convert fits -> C01_bool convert ->
  forall co so svc name args h ops m,
  heap_ok hp = true -> values_ok args -> values_ok (map snd h) ->
  hfind s_simple_key h = None ->
  Forall (fun kv => fits (snd kv) TIface) h -> (c_simple co = true -> fits (GBool true) TIface) ->
  lookup lower svc name = Some m -> args_fit fits m args ->
  client_encode fuel hp co name args h = CEOk ops ->
  fst (service_decode lower io_dec io_dec_hdrs so svc (emit_ops ops)) =
  SDOk {| rq_name := name;
          rq_headers := conv_headers convert (s_dec so) (with_simple (c_simple co) h);
          rq_method := m;
          rq_args := expected_args convert (s_dec so) m args |}.
Proof. exact request_roundtrip. Qed.
Print Assumptions C07_request_roundtrip_partial.

(* Both sides reset at the same boundaries: the reader's scopes (computed from the bytes) are the writer's
   scopes; every scope is reference-closed (a string or pointer repeated across headers, name and
   arguments is never a dangling reference); and whenever the reader is in simple mode the scope holds
   no back-reference.  Same guard. *)
Theorem C07_segments_aligned_partial :
  forall fuel hp lower io_dec io_dec_hdrs (convert : dopts -> pty -> gval -> gval) (fits : gval -> pty -> Prop),
  C01_headers hp io_dec_hdrs convert fits -> C01_bool convert ->
  forall co so svc name args h ops m,
  heap_ok hp = true -> values_ok args -> values_ok (map snd h) ->
  hfind s_simple_key h = None ->
  Forall (fun kv => fits (snd kv) TIface) h -> (c_simple co = true -> fits (GBool true) TIface) ->
  lookup lower svc name = Some m ->
  client_encode fuel hp co name args h = CEOk ops ->
  aligned ops (snd (service_decode lower io_dec io_dec_hdrs so svc (emit_ops ops))).
Proof. exact request_aligned. Qed.
Print Assumptions C07_segments_aligned_partial.

(* Without the guard the statement is false for the faithful model: a client in reference mode whose
   application sets the header "simple" = true sends ["ab", "ab"] as a3-less list with a back-reference,
   and a service that honours the header (any conversion that keeps booleans) reads that scope in simple
   mode, where back-references cannot be resolved.  (In /repo this input panics inside Decode.) *)
Definition ref_client : copts := {| c_simple := false; c_dec := {| o_long := 0; o_real := 0; o_map := 0; o_struct := 0; o_list := 0 |} |}.
Definition ab : bytes := ["a"; "b"]%byte.

Theorem C07_segments_aligned_refuted :
  exists name args h ops aw,
    hfind s_simple_key h <> None /\
    client_encode 10 [] ref_client name args h = CEOk ops /\
    In (OVal aw) ops /\ has_ref aw = true /\
    forall conv : gval -> gval, conv (GBool true) = GBool true ->
      get_bool s_simple_key (map (fun kv => (fst kv, conv (snd kv))) h) = true /\
      readable (get_bool s_simple_key (map (fun kv => (fst kv, conv (snd kv))) h), aw) = false.
Proof.
  exists ["f"]%byte, [GString ab; GString ab], [(s_simple_key, GBool true)].
  eexists. exists (WList [WStr ab; WRef 1]).
  split; [discriminate|]. split; [vm_compute; reflexivity|].
  split; [cbn; auto 10|]. split; [reflexivity|].
  intros conv Hc. unfold get_bool. cbn [map fst snd hfind]. rewrite beqb_refl, Hc. split; reflexivity.
Qed.
Print Assumptions C07_segments_aligned_refuted.

(* A request whose header map cannot be decoded under the service's options (the io decoder fails; e.g.
   RealType = float32 against a float64 header value) is rejected, with or without an argument list
   (repaired in /repo by b5ed508: before, the failure was dropped when the call had no arguments). *)
Theorem C07_header_error_reported : forall lower io_dec io_dec_hdrs so svc hw name m,
  io_dec_hdrs (s_dec so) false hw = None -> lookup lower svc name = Some m ->
  fst (service_decode_items lower io_dec io_dec_hdrs so svc
         [ITag t_H; IVal hw; ITag t_C; IVal (string_wire name); ITag t_z]) = SDDecodeError.
Proof. exact header_error_reported. Qed.
Print Assumptions C07_header_error_reported.

Theorem C07_header_error_reported_with_arguments : forall lower io_dec io_dec_hdrs so svc hw name m ws,
  io_dec_hdrs (s_dec so) false hw = None -> lookup lower svc name = Some m ->
  fst (service_decode_items lower io_dec io_dec_hdrs so svc
         [ITag t_H; IVal hw; ITag t_C; IVal (string_wire name); IVal (WList ws); ITag t_z]) = SDDecodeError.
Proof. exact header_error_reported_with_arguments. Qed.
Print Assumptions C07_header_error_reported_with_arguments.

(* ---- responses --------------------------------------------------------------------------------- *)

(* For every list of result values (none / one / several) and every declared return-type list: the client
   codec decodes the service codec's response to the response headers (plus the reserved flag of a Simple
   service) and the results converted to the declared types: nothing for no declared type, the single
   (shaped) value for one, element-wise with zero values appended for several.
   Guard ("_partial"): the shaped result is not itself an error value (C07_response_error_value_refuted). *)
Theorem C07_response_roundtrip_partial :
  forall fuel hp io_dec io_dec_hdrs zero (convert : dopts -> pty -> gval -> gval) (fits : gval -> pty -> Prop),
  C01_value hp io_dec convert fits -> C01_tuple hp io_dec convert fits ->
  C01_headers hp io_dec_hdrs convert fits -> C01_bool convert ->
  forall so co rts vs rh ops,
  heap_ok hp = true -> gval_ok (shape vs) = true -> values_ok (map snd rh) ->
  hfind s_simple_key rh = None ->
  Forall (fun kv => fits (snd kv) TIface) rh -> (s_simple so = true -> fits (GBool true) TIface) ->
  is_error_value (shape vs) = false -> results_fit fits rts vs ->
  service_encode fuel hp so (inl (shape vs)) rh = CEOk ops ->
  fst (client_decode io_dec io_dec_hdrs zero co rts (emit_ops ops)) =
  CDRes (conv_headers convert (c_dec co) (with_simple (s_simple so) rh))
        (expected_results zero convert (c_dec co) rts vs).
Proof. exact response_roundtrip_values. Qed.
Print Assumptions C07_response_roundtrip_partial.

(* An error (plain, or a PanicError) reaches the caller as an error whose message is the text the service
   wrote: e.Error(), or with Debug the panic text followed by the stack; the text "timeout" is mapped to
   ErrTimeout, whose message is that same text. *)
Theorem C07_response_roundtrip_error :
  forall fuel hp io_dec io_dec_hdrs zero (convert : dopts -> pty -> gval -> gval) (fits : gval -> pty -> Prop),
  C01_headers hp io_dec_hdrs convert fits -> C01_bool convert ->
  forall so co rts e rh ops,
  heap_ok hp = true -> values_ok (map snd rh) -> hfind s_simple_key rh = None ->
  Forall (fun kv => fits (snd kv) TIface) rh -> (s_simple so = true -> fits (GBool true) TIface) ->
  service_encode fuel hp so (inr e) rh = CEOk ops ->
  fst (client_decode io_dec io_dec_hdrs zero co rts (emit_ops ops)) =
  CDErr (conv_headers convert (c_dec co) (with_simple (s_simple so) rh)) (error_text (s_debug so) e)
        (bytes_eqb (error_text (s_debug so) e) s_timeout).
Proof. exact response_roundtrip_error. Qed.
Print Assumptions C07_response_roundtrip_error.

Theorem C07_error_text_without_debug : forall e, error_text false e = err_msg e.
Proof. destruct e; reflexivity. Qed.
Print Assumptions C07_error_text_without_debug.

(* The guard of C07_response_roundtrip_partial is needed: a function result that is an error VALUE
   (an interface{} result holding errors.New("xy")) is written with the error tag, so the caller gets a
   failed call instead of the value - for every io decoder. *)
Theorem C07_response_error_value_refuted :
  exists so vs ops, is_error_value (shape vs) = true /\
    service_encode 10 [] so (inl (shape vs)) [] = CEOk ops /\
    forall io_dec io_dec_hdrs zero co rts,
      fst (client_decode io_dec io_dec_hdrs zero co rts (emit_ops ops)) = CDErr [] ab false.
Proof.
  exists {| s_simple := false; s_debug := false; s_dec := c_dec ref_client |}, [GError ab].
  eexists. split; [reflexivity|]. split; [vm_compute; reflexivity|].
  intros. vm_compute. reflexivity.
Qed.
Print Assumptions C07_response_error_value_refuted.

Theorem C07_response_segments_aligned :
  forall fuel hp io_dec io_dec_hdrs zero (convert : dopts -> pty -> gval -> gval) (fits : gval -> pty -> Prop),
  C01_headers hp io_dec_hdrs convert fits -> C01_bool convert ->
  forall so co rts r rh ops,
  heap_ok hp = true -> (match r with inl v => gval_ok v = true | inr _ => True end) -> values_ok (map snd rh) ->
  hfind s_simple_key rh = None ->
  Forall (fun kv => fits (snd kv) TIface) rh -> (s_simple so = true -> fits (GBool true) TIface) ->
  rts <> [] ->
  service_encode fuel hp so r rh = CEOk ops ->
  aligned ops (snd (client_decode io_dec io_dec_hdrs zero co rts (emit_ops ops))).
Proof. exact response_aligned. Qed.
Print Assumptions C07_response_segments_aligned.

(* ---- codec options ----------------------------------------------------------------------------- *)

(* Every decoder option (LongType, RealType, MapType, StructType, ListType) reaches the decoder of the codec it was
   given to: the round-trip theorems above state the decoded headers, arguments and results as
   [convert (s_dec so) ...] resp. [convert (c_dec co) ...], i.e. at the configured options; and the codecs
   consult the io decoder at no other options: two io decoders that agree at the client's (service's) configured
   options cannot be told apart through the client (service) codec. *)
Theorem C07_client_options_reach_decoder : forall io1 io2 h1 h2 zero co rts resp,
  (forall s t w, io1 (c_dec co) s t w = io2 (c_dec co) s t w) ->
  (forall s w, h1 (c_dec co) s w = h2 (c_dec co) s w) ->
  client_decode io1 h1 zero co rts resp = client_decode io2 h2 zero co rts resp.
Proof. exact client_decode_uses_its_options. Qed.
Print Assumptions C07_client_options_reach_decoder.

Theorem C07_service_options_reach_decoder : forall lower io1 io2 h1 h2 so svc req,
  (forall s t w, io1 (s_dec so) s t w = io2 (s_dec so) s t w) ->
  (forall s w, h1 (s_dec so) s w = h2 (s_dec so) s w) ->
  service_decode lower io1 h1 so svc req = service_decode lower io2 h2 so svc req.
Proof. exact service_decode_uses_its_options. Qed.
Print Assumptions C07_service_options_reach_decoder.

(* ---- JSON-RPC ---------------------------------------------------------------------------------- *)

(* The envelope: id = (counter+1) & 0x7fffffff, method, params, headers.  The JSON text is an oracle:
   [J_request q] says jsoniter reads the request q it wrote back as q with generic JSON values ([jnorm]);
   [J_value] is the second trip of one JSON-representable value into a Go type.  Arguments beyond the
   parameters keep their generic JSON value (029fcce).
   Guard ("_partial"): the method name is not empty (the codec refuses "" as an invalid request). *)
Theorem C07_jsonrpc_envelope_request_partial :
  forall lower jmarshal_req junmarshal_req jconv jnorm jconvert (jrep : gval -> Prop) (jfits : gval -> pty -> Prop),
  J_value jconv jnorm jconvert jrep jfits ->
  forall svc counter name args h m,
  name <> [] -> lookup lower svc name = Some m ->
  J_request jmarshal_req junmarshal_req jnorm (jrequest_of counter name args h) -> Forall jrep args ->
  (m_missing m = false -> jfits_args jfits (param_types m (length args)) args) ->
  let '(counter', req) := jclient_encode jmarshal_req counter name args h in
  counter' = (counter + 1)%Z /\
  jservice_decode lower junmarshal_req jconv svc req =
  JSOk (Z.land (counter + 1) 2147483647)
       {| rq_name := name; rq_headers := jnorm_h jnorm h; rq_method := m;
          rq_args := jexpected_args jnorm jconvert m args |}.
Proof. intros. eapply jsonrpc_request_roundtrip; eassumption. Qed.
Print Assumptions C07_jsonrpc_envelope_request_partial.

(* results: the id is echoed; nil is "no result"; one declared type takes the shaped value; several take the
   elements (as many as were returned, at most as many as declared: results beyond are ignored, 0dfe724) *)
Theorem C07_jsonrpc_envelope_response :
  forall jmarshal_resp junmarshal_resp jconv jnorm jconvert (jrep : gval -> Prop) (jfits : gval -> pty -> Prop),
  J_value jconv jnorm jconvert jrep jfits -> J_array jnorm ->
  forall id rts vs rh,
  is_error_value (shape vs) = false ->
  J_response jmarshal_resp junmarshal_resp jnorm (jresponse_of id (inl (shape vs)) rh) -> jrep (shape vs) ->
  match rts with
  | [] => True
  | [t] => jfits (shape vs) t
  | _ => (2 <= length vs)%nat /\ Forall jrep vs /\ jfits_all jfits rts vs
  end ->
  jclient_decode junmarshal_resp jconv rts (jservice_encode jmarshal_resp id (inl (shape vs)) rh) =
  JCRes id (jnorm_h jnorm rh) (jexpected_results jconvert rts vs).
Proof. intros. eapply jsonrpc_response_roundtrip; eassumption. Qed.
Print Assumptions C07_jsonrpc_envelope_response.

(* errors: a protocol error keeps code and message; a PanicError keeps message and stack (data); any other
   error keeps its message; the message the caller sees is the function's own text *)
Theorem C07_jsonrpc_envelope_error :
  forall jmarshal_resp junmarshal_resp jconv jnorm,
  forall id rts e rh,
  J_response jmarshal_resp junmarshal_resp jnorm (jresponse_of id (inr e) rh) ->
  jclient_decode junmarshal_resp jconv rts (jservice_encode jmarshal_resp id (inr e) rh) =
  JCErr id (jnorm_h jnorm rh) (jerr_norm e) /\
  ((forall code msg, e <> JProto code msg) -> jerr_text (jerr_norm e) = jerr_text e).
Proof. intros. split; [apply jsonrpc_response_error; assumption|apply jerr_text_norm]. Qed.
Print Assumptions C07_jsonrpc_envelope_error.

(* ---- non-vacuity ------------------------------------------------------------------------------- *)

(* the C01 premises are satisfiable: an io decoder for the booleans [true] in parameters of type #0 *)
Definition toy_fits (v : gval) (t : pty) : Prop := v = GBool true /\ t = TNamed 0.
Definition toy_convert (o : dopts) (t : pty) (v : gval) : gval := v.
Definition toy_dec (o : dopts) (rs : bool) (t : pty) (w : wire) : option gval :=
  match t with
  | TTuple ts => Some (GSlice (repeat (GBool true) (length ts)))
  | TNamed _ => Some (GBool true)
  | _ => None
  end.
Definition toy_dec_hdrs (o : dopts) (rs : bool) (w : wire) : option headers := Some [].

Example C01_premises_satisfiable : forall hp,
  C01_value hp toy_dec toy_convert toy_fits /\ C01_tuple hp toy_dec toy_convert toy_fits /\
  C01_headers hp toy_dec_hdrs toy_convert toy_fits /\ C01_bool toy_convert.
Proof.
  intros hp. repeat split.
  - intros o ws rs T v f st w _ [-> ->] _ _. reflexivity.
  - intros o ws rs ts vs f st w _ Hl Hf _. unfold toy_dec. f_equal. f_equal.
    revert vs Hl Hf. induction ts as [|t ts IH]; intros [|v vs] Hl Hf; try reflexivity; [cbn in Hl; inversion Hl|].
    destruct Hf as [[-> _] Hf]. cbn [zipconv length repeat]. unfold toy_convert at 1. f_equal.
    apply IH; [cbn in Hl; apply le_S_n; exact Hl|exact Hf].
  - intros o ws rs h f st w _ Hf _. destruct h as [|kv h]; [reflexivity|].
    inversion Hf; subst. destruct H1 as [_ H1]. discriminate.
Qed.

Definition m_and : method :=
  {| m_id := 7; m_name := ["A"; "n"; "d"]%byte; m_missing := false; m_ctx := false;
     m_params := [TNamed 0; TNamed 0]; m_velem := None; m_results := [TNamed 0]; m_err := true |}.
Definition id_lower (b : bytes) : bytes := b.
Definition svc1 : registry := radd id_lower m_and [].
Definition so1 : sopts := {| s_simple := false; s_debug := false; s_dec := c_dec ref_client |}.

(* a request meeting every premise of C07_request_roundtrip_partial / C07_segments_aligned_partial *)
Example request_nonvacuous :
  exists ops, client_encode 10 [] ref_client (m_name m_and) [GBool true; GBool true] [] = CEOk ops /\
    emit_ops ops = (["C"; "s"; "3"; """"; "A"; "n"; "d"; """"; "a"; "2"; "{"; "t"; "t"; "}"; "z"]%byte) /\
    fst (service_decode id_lower toy_dec toy_dec_hdrs so1 svc1 (emit_ops ops)) =
      SDOk {| rq_name := m_name m_and; rq_headers := []; rq_method := m_and;
              rq_args := [GBool true; GBool true] |} /\
    aligned ops (snd (service_decode id_lower toy_dec toy_dec_hdrs so1 svc1 (emit_ops ops))).
Proof.
  destruct (C01_premises_satisfiable []) as (H1 & H2 & H3 & H4).
  eexists. split; [vm_compute; reflexivity|]. split; [vm_compute; reflexivity|]. split.
  - refine (C07_request_roundtrip_partial 10 [] id_lower toy_dec toy_dec_hdrs toy_convert toy_fits H1 H2 H3 H4
              ref_client so1 svc1 (m_name m_and) [GBool true; GBool true] [] _ m_and
              eq_refl eq_refl eq_refl eq_refl (Forall_nil _) _ eq_refl _ eq_refl).
    + discriminate.
    + cbn. repeat split.
  - refine (C07_segments_aligned_partial 10 [] id_lower toy_dec toy_dec_hdrs toy_convert toy_fits H3 H4
              ref_client so1 svc1 (m_name m_and) [GBool true; GBool true] [] _ m_and
              eq_refl eq_refl eq_refl eq_refl (Forall_nil _) _ eq_refl eq_refl).
    discriminate.
Qed.

(* a response meeting every premise of C07_response_roundtrip_partial, and an error response *)
Example response_nonvacuous :
  exists ops, service_encode 10 [] so1 (inl (shape [GBool true])) [] = CEOk ops /\
    emit_ops ops = (["R"; "t"; "z"]%byte) /\
    fst (client_decode toy_dec toy_dec_hdrs (fun _ => GNil) ref_client [TNamed 0] (emit_ops ops)) =
      CDRes [] [GBool true].
Proof.
  destruct (C01_premises_satisfiable []) as (H1 & H2 & H3 & H4).
  eexists. split; [vm_compute; reflexivity|]. split; [vm_compute; reflexivity|].
  refine (C07_response_roundtrip_partial 10 [] toy_dec toy_dec_hdrs (fun _ => GNil) toy_convert toy_fits H1 H2 H3 H4
            so1 ref_client [TNamed 0] [GBool true] [] _
            eq_refl eq_refl eq_refl eq_refl (Forall_nil _) _ eq_refl _ eq_refl).
  - discriminate.
  - cbn. split; [split; reflexivity|]. intros ts. discriminate.
Qed.

Example error_nonvacuous :
  exists ops, service_encode 10 [] so1 (inr (EPanicE ab ["s"]%byte)) [] = CEOk ops /\
    emit_ops ops = (["E"; "s"; "2"; """"; "a"; "b"; """"; "z"]%byte) /\
    fst (client_decode toy_dec toy_dec_hdrs (fun _ => GNil) ref_client [TNamed 0] (emit_ops ops)) =
      CDErr [] ab false.
Proof.
  eexists. split; [vm_compute; reflexivity|]. split; vm_compute; reflexivity.
Qed.

(* the JSON oracle premises are satisfiable: identity normalisation, a table-driven Unmarshal *)
Example jsonrpc_nonvacuous :
  let jnorm := fun v : gval => v in
  let jconv := fun (t : pty) (v : gval) => Some v in
  let jconvert := fun (t : pty) (v : gval) => v in
  let q := jrequest_of 41 (m_name m_and) [GBool true; GBool false] [] in
  let jmarshal := fun _ : jrequest => ab in
  let junmarshal := fun _ : bytes => Some q in
  J_value jconv jnorm jconvert (fun _ => True) (fun _ _ => True) /\
  J_request jmarshal junmarshal jnorm q /\
  jservice_decode id_lower junmarshal jconv svc1 (snd (jclient_encode jmarshal 41 (m_name m_and) [GBool true; GBool false] [])) =
    JSOk 42 {| rq_name := m_name m_and; rq_headers := []; rq_method := m_and; rq_args := [GBool true; GBool false] |}.
Proof.
  cbv zeta. split; [intros t v _ _; reflexivity|]. split; [reflexivity|]. vm_compute. reflexivity.
Qed.
