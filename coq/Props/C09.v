(* C09 — Concurrent calls each get their own response.
   Only statements, each closed by [exact lemma], with Print Assumptions.
   Model: Model/Mux.v (one labelled transition system for the pending table of the socket,
   websocket and udp transports and for reverse.Caller; keys are (destination id, index)). *)
From Coq Require Import List ZArith Bool Lia.
From HV Require Import Model.Mux Proofs.MuxProofs.
Import ListNotations.
Open Scope Z_scope.

(* Every schedule of callers, sender, receiver, closer and peer (answers in any order, delayed,
   duplicated, invented indices, cancellations, Close at any moment): as long as a call registers
   under an index (or, in reverse, is handed to the provider before registering) only when every OTHER
   call that drew the same index is harmless -- it has only drawn the index, or it has returned and
   the peer neither holds its request nor has a reply to it on the way --, every response a caller
   holds or has returned was produced for that caller's own request.
   For rpc/udp since 7acbe6f (cfg_udp: store refuses an index held by a pending call) the guard never
   concerns a call that is pending in the client's table (C09_udp_guard_not_about_pending): what is left
   of it is about late replies of the peer to calls that have already returned, which no 15-bit
   client can tell apart. *)
Theorem C09_own_response : forall c tr st,
  run c init tr = Some st -> no_reuse c init tr = true ->
  forall k cr k', c_find k st = Some cr ->
    (cbox cr = Some (OResp (Some k')) \/ cstat cr = SDone (OResp (Some k'))) -> k' = k.
Proof. exact own_response. Qed.
Print Assumptions C09_own_response.

(* no_reuse holds whenever every other call that is not harmless made its draw fewer than mask+1 = 2^n
   draws away *)
Theorem C09_no_reuse_bound : forall c n tr,
  mask c = 2 ^ n - 1 -> 0 <= n -> window c init tr = true -> no_reuse c init tr = true.
Proof. exact no_reuse_bound. Qed.
Print Assumptions C09_no_reuse_bound.

(* the repaired UDP allocation, every state, no guard: a store never replaces or removes an entry *)
Theorem C09_udp_never_reissues_pending : forall c st k st' i h,
  skip_pending c = true -> step c st (LStore k) = Some st' ->
  t_find i (pending st) = Some h -> t_find i (pending st') = Some h.
Proof. exact store_keeps_entries. Qed.
Print Assumptions C09_udp_never_reissues_pending.

(* it either registers on a free index or changes nothing but the counter (the caller draws again) *)
Theorem C09_udp_store_free_or_redraw : forall c st k cr st',
  skip_pending c = true -> c_find k st = Some cr -> step c st (LStore k) = Some st' ->
  (t_find (ckey cr) (pending st) = None /\ t_find (ckey cr) (pending st') = Some k) \/
  (exists h, t_find (ckey cr) (pending st) = Some h /\ pending st' = pending st /\ counter st' = counter st + 1).
Proof. exact store_registers_on_free_index. Qed.
Print Assumptions C09_udp_store_free_or_redraw.

Theorem C09_udp_guard_not_about_pending : forall c st cr k2,
  skip_pending c = true -> registers c st cr = true -> t_find (ckey cr) (pending st) <> Some k2.
Proof. exact registering_store_meets_no_pending_holder. Qed.
Print Assumptions C09_udp_guard_not_about_pending.

(* the schedule that broke the old allocation (one call pending, 32768 further calls, then the reply to the
   first) run against the repaired one: the late call's store is refused, it registers under the next
   index, both callers return their own replies *)
Theorem C09_udp_wrap_schedule_repaired : new_alloc_check (Z.to_nat mask15) = true.
Proof. exact wrap_schedule_repaired. Qed.
Print Assumptions C09_udp_wrap_schedule_repaired.

(* A reply whose index is not pending changes neither the table nor any caller ... *)
Theorem C09_stray_dup_dropped : forall c st n i p rest,
  take_nth n (inflight st) = Some ((i, p), rest) -> t_find i (pending st) = None ->
  exists st', step c st (LDeliver n) = Some st' /\
              callers st' = callers st /\ pending st' = pending st /\ counter st' = counter st.
Proof. exact stray_dropped. Qed.
Print Assumptions C09_stray_dup_dropped.

(* ... and a second copy of a reply that has been handled is such a reply *)
Theorem C09_duplicate_dropped : forall c st n i p rest st1 m p' rest',
  take_nth n (inflight st) = Some ((i, p), rest) -> step c st (LDeliver n) = Some st1 ->
  take_nth m (inflight st1) = Some ((i, p'), rest') ->
  exists st2, step c st1 (LDeliver m) = Some st2 /\
              callers st2 = callers st1 /\ pending st2 = pending st1.
Proof. exact duplicate_dropped. Qed.
Print Assumptions C09_duplicate_dropped.

(* reverse calls (reverse.Caller): one counter for all provider ids, one result table per id, the
   call queued for the provider before its result channel is registered *)
Theorem C09_reverse : forall tr st,
  run cfg_reverse init tr = Some st -> no_reuse cfg_reverse init tr = true ->
  forall k cr k', c_find k st = Some cr ->
    (cbox cr = Some (OResp (Some k')) \/ cstat cr = SDone (OResp (Some k'))) -> k' = k.
Proof. exact (own_response cfg_reverse). Qed.
Print Assumptions C09_reverse.

(* THE OLD ALLOCATION (rpc/udp before 7acbe6f, cfg_udp_old: store overwrites).  Without the guard the
   statement was false: one call pending, 32768 further calls on the connection; the last one draws the
   pending call's index, overwrites its entry, and is handed the reply to the first request; the first
   caller is left waiting with no entry.  Kept as the record of the repaired defect. *)
Theorem C09_full_refuted_udp_old :
  exists st, run cfg_udp_old init (wrap_witness (Z.to_nat mask15)) = Some st /\
    (exists k cr k', c_find k st = Some cr /\ cstat cr = SDone (OResp (Some k')) /\ k' <> k) /\
    orphan_b st 1 = true.
Proof. exact full_refuted_udp_old. Qed.
Print Assumptions C09_full_refuted_udp_old.

Theorem C09_lost_response_refuted_udp_old :
  lost_check cfg_udp_old (wrap_witness_lost (Z.to_nat mask15)) 1 = true.
Proof. exact lost_response_udp_old. Qed.
Print Assumptions C09_lost_response_refuted_udp_old.

(* ---- non-vacuity ---- *)
(* the guard and the window hold on ordinary schedules: three callers answered in reverse order, a
   duplicate, a stray, a cancellation and a Close *)
Example guard_satisfiable :
  let tr := [LAlloc 0; LAlloc 0; LAlloc 0; LStore 1; LStore 3; LStore 2; LEnq 2; LEnq 1; LEnq 3;
             LAnswer 3; LAnswer 2; LAnswer 2; LStray (0, 77); LDeliver 1; LDeliver 0; LDeliver 0; LDeliver 0;
             LTake 3; LTake 2; LCancel 1; LAlloc 0; LStore 4; LClose; LTake 4] in
  window cfg_socket init tr = true /\ no_reuse cfg_socket init tr = true /\
  match run cfg_socket init tr with
  | Some st => map (fun kc => cstat (snd kc)) (callers st) =
               [SDone OErr; SDone (OResp (Some 3)); SDone (OResp (Some 2)); SDone OCancel]
  | None => False
  end.
Proof. vm_compute. repeat split; reflexivity. Qed.

(* the bound of C09_no_reuse_bound is tight (shown on a 2-bit mask, where the guard can be
   evaluated): with mask+1 - 1 = 3 further calls the window holds, with mask+1 = 4 it fails *)
Example bound_is_tight :
  window cfg_tiny init ([LAlloc 0; LStore 1; LEnq 1] ++ quick_calls 2 3) = true /\
  window cfg_tiny init (wrap_witness 3) = false /\ no_reuse cfg_tiny init (wrap_witness 3) = false.
Proof. split; [exact tiny_window_ok|exact tiny_window_fails]. Qed.

Example masks_are_powers : mask cfg_socket = 2 ^ 31 - 1 /\ mask cfg_udp = 2 ^ 15 - 1 /\ mask cfg_udp_old = 2 ^ 15 - 1 /\ mask cfg_reverse = 2 ^ 31 - 1.
Proof. repeat split; reflexivity. Qed.

(* reverse: two providers, indices drawn from the shared counter, results keyed by (id, index); a
   reply that arrives before the result channel is registered is dropped (the model includes it) *)
Example reverse_two_providers :
  let tr := [LAlloc 7; LAlloc 9; LEnq 1; LStore 1; LEnq 2; LAnswer 2; LDeliver 0; LStore 2; LAnswer 1; LDeliver 0; LTake 1] in
  no_reuse cfg_reverse init tr = true /\
  match run cfg_reverse init tr with
  | Some st => map (fun kc => (ckey (snd kc), cstat (snd kc), cbox (snd kc))) (callers st) =
               [((9, 2), SStored, None); ((7, 1), SDone (OResp (Some 1)), None)]
  | None => False
  end.
Proof. vm_compute. split; reflexivity. Qed.

(* on the repaired allocation the wrap schedule satisfies the guard (shown on a 2-bit mask, where the guard can
   be evaluated): the pending call no longer matters, and the calls that drew the late call's final index are dead *)
Example repaired_allocation_meets_guard :
  let c := {| mask := 3; early_enq := false; skip_pending := true |} in
  no_reuse c init (wrap_witness_new 3) = true /\
  match run c init (wrap_witness_new 3) with
  | Some st => own_b st = true /\ map (fun kc => (fst kc, snd (ckey (snd kc)), cstat (snd kc))) (firstn 1 (callers st)) =
               [(5, 2, SDone (OResp (Some 5)))]
  | None => False
  end.
Proof. vm_compute. repeat split; reflexivity. Qed.
