(* C09 — Concurrent calls each get their own response.
   Only statements, each closed by [exact lemma], with Print Assumptions.
   Model: Model/Mux.v (one labelled transition system for the pending table of the socket,
   websocket and udp transports and for reverse.Caller; keys are (destination id, index)). *)
From Coq Require Import List ZArith Bool Lia.
From HV Require Import Model.Mux Proofs.MuxProofs.
Import ListNotations.
Open Scope Z_scope.

(* Every schedule of callers, sender, receiver, closer and peer (answers in any order, delayed,
   duplicated, invented indices, cancellations, Close at any moment): as long as no index is drawn
   while an earlier call that drew the same index is still alive (it has not returned, or the peer
   still holds its request, or a reply to it is still on the way), every response a caller holds
   or has returned was produced for that caller's own request. *)
Theorem C09_own_response : forall c tr st,
  run c init tr = Some st -> no_reuse c init tr = true ->
  forall k cr k', c_find k st = Some cr ->
    (cbox cr = Some (OResp (Some k')) \/ cstat cr = SDone (OResp (Some k'))) -> k' = k.
Proof. exact own_response. Qed.
Print Assumptions C09_own_response.

(* no_reuse holds whenever fewer than mask+1 = 2^n calls (the new one included) have been issued
   on the connection since every call that is still alive *)
Theorem C09_no_reuse_bound : forall c n tr,
  mask c = 2 ^ n - 1 -> 0 <= n -> window c init tr = true -> no_reuse c init tr = true.
Proof. exact no_reuse_bound. Qed.
Print Assumptions C09_no_reuse_bound.

(* A reply whose index is not pending changes neither the table nor any caller ... *)
Theorem C09_stray_dup_dropped : forall c st n i p rest,
  take_nth n (inflight st) = Some ((i, p), rest) -> t_find i (pending st) = None ->
  exists st', step c st (LDeliver n) = Some st' /\
              callers st' = callers st /\ pending st' = pending st /\ counter st' = counter st.
Proof. exact stray_dropped. Qed.
Print Assumptions C09_stray_dup_dropped.

(* ... and a second copy of a reply that has been handled is such a reply *)
Theorem C09_duplicate_dropped : forall c st n i p rest st1 m p' rest',
  take_nth n (inflight st) = Some ((i, p), rest) -> step c st (LDeliver n) = Some st1 ->
  take_nth m (inflight st1) = Some ((i, p'), rest') ->
  exists st2, step c st1 (LDeliver m) = Some st2 /\
              callers st2 = callers st1 /\ pending st2 = pending st1.
Proof. exact duplicate_dropped. Qed.
Print Assumptions C09_duplicate_dropped.

(* reverse calls (reverse.Caller): one counter for all provider ids, one result table per id, the
   call queued for the provider before its result channel is registered *)
Theorem C09_reverse : forall tr st,
  run cfg_reverse init tr = Some st -> no_reuse cfg_reverse init tr = true ->
  forall k cr k', c_find k st = Some cr ->
    (cbox cr = Some (OResp (Some k')) \/ cstat cr = SDone (OResp (Some k'))) -> k' = k.
Proof. exact (own_response cfg_reverse). Qed.
Print Assumptions C09_reverse.

(* Without the guard the statement is false on UDP (15-bit index): one call pending, 32768 further
   calls on the connection; the last one draws the pending call's index, overwrites its entry, and
   is handed the reply to the first request; the first caller is left waiting with no entry. *)
Theorem C09_full_refuted_udp :
  exists st, run cfg_udp init (wrap_witness (Z.to_nat mask15)) = Some st /\
    (exists k cr k', c_find k st = Some cr /\ cstat cr = SDone (OResp (Some k')) /\ k' <> k) /\
    orphan_b st 1 = true.
Proof. exact full_refuted_udp. Qed.
Print Assumptions C09_full_refuted_udp.

(* the other face of the same defect: the late call is answered first; the reply to the first
   request then finds no entry and is dropped although its caller is still waiting and the peer
   has answered *)
Theorem C09_lost_response_refuted_udp :
  lost_check cfg_udp (wrap_witness_lost (Z.to_nat mask15)) 1 = true.
Proof. exact lost_response_udp. Qed.
Print Assumptions C09_lost_response_refuted_udp.

(* ---- non-vacuity ---- *)
(* the guard and the window hold on ordinary schedules: three callers answered in reverse order, a
   duplicate, a stray, a cancellation and a Close *)
Example guard_satisfiable :
  let tr := [LAlloc 0; LAlloc 0; LAlloc 0; LStore 1; LStore 3; LStore 2; LEnq 2; LEnq 1; LEnq 3;
             LAnswer 3; LAnswer 2; LAnswer 2; LStray (0, 77); LDeliver 1; LDeliver 0; LDeliver 0; LDeliver 0;
             LTake 3; LTake 2; LCancel 1; LAlloc 0; LStore 4; LClose; LTake 4] in
  window cfg_socket init tr = true /\ no_reuse cfg_socket init tr = true /\
  match run cfg_socket init tr with
  | Some st => map (fun kc => cstat (snd kc)) (callers st) =
               [SDone OErr; SDone (OResp (Some 3)); SDone (OResp (Some 2)); SDone OCancel]
  | None => False
  end.
Proof. vm_compute. repeat split; reflexivity. Qed.

(* the bound of C09_no_reuse_bound is tight (shown on a 2-bit mask, where the guard can be
   evaluated): with mask+1 - 1 = 3 further calls the window holds, with mask+1 = 4 it fails *)
Example bound_is_tight :
  window cfg_tiny init ([LAlloc 0; LStore 1; LEnq 1] ++ quick_calls 2 3) = true /\
  window cfg_tiny init (wrap_witness 3) = false /\ no_reuse cfg_tiny init (wrap_witness 3) = false.
Proof. split; [exact tiny_window_ok|exact tiny_window_fails]. Qed.

Example masks_are_powers : mask cfg_socket = 2 ^ 31 - 1 /\ mask cfg_udp = 2 ^ 15 - 1 /\ mask cfg_reverse = 2 ^ 31 - 1.
Proof. repeat split; reflexivity. Qed.

(* reverse: two providers, indices drawn from the shared counter, results keyed by (id, index); a
   reply that arrives before the result channel is registered is dropped (the model includes it) *)
Example reverse_two_providers :
  let tr := [LAlloc 7; LAlloc 9; LEnq 1; LStore 1; LEnq 2; LAnswer 2; LDeliver 0; LStore 2; LAnswer 1; LDeliver 0; LTake 1] in
  no_reuse cfg_reverse init tr = true /\
  match run cfg_reverse init tr with
  | Some st => map (fun kc => (ckey (snd kc), cstat (snd kc), cbox (snd kc))) (callers st) =
               [((9, 2), SStored, None); ((7, 1), SDone (OResp (Some 1)), None)]
  | None => False
  end.
Proof. vm_compute. split; reflexivity. Qed.
